import FunModel.WaitGroup
import FunGen.SegsWaitGroup

/-! T-gen tie of the *control structure* of `fun.WaitGroup` (C14): the hand-written segment functions
    `FunModel.WaitGroup.start` / `resume` — the `Conc.Subject` every C14 theorem is about — compute, for every
    state, thread, operation and `cancelled` flag, exactly what the definitions regenerated from sync.go by
    tools/go2lean (segs.go → lean/FunGen/SegsWaitGroup.lean) compute. Finite case splits and integer
    arithmetic; no bounds. -/
namespace FunProofs.GenTieSegs
open FunModel.Conc FunModel.WaitGroup

/-- `Add`: the invariant test comes first and leaves everything unchanged when it fails; otherwise the
    counter is updated and exactly when the *new* counter is 0 the condition is broadcast -/
theorem Add_tie (s : St) (t : Nat) (n : Int) (c : Bool) :
    FunGen.SegsWaitGroup.Add_start s n c = start s t (.add n) := by
  unfold FunGen.SegsWaitGroup.Add_start start
  by_cases h : s.counter + n < 0
  · have h' : ¬ (s.counter + n ≥ 0) := by omega
    simp [h, h']
  · have h' : s.counter + n ≥ 0 := by omega
    by_cases h0 : s.counter + n = 0 <;> simp [h, h', h0]

theorem Num_tie (s : St) (t : Nat) (c : Bool) : FunGen.SegsWaitGroup.Num_start s c = start s t .num := rfl

theorem IsDone_tie (s : St) (t : Nat) (c : Bool) : FunGen.SegsWaitGroup.IsDone_start s c = start s t .isDone := rfl

/-- `Wait`, first segment, called with a live context (`Subject.start`'s contract) -/
theorem Wait_start_tie (s : St) (t : Nat) : FunGen.SegsWaitGroup.Wait_start s false = start s t .wait := by
  unfold FunGen.SegsWaitGroup.Wait_start start
  by_cases h0 : s.counter = 0 <;> simp [h0]

/-- `Wait` called with a context that is already done returns at once: no helper goroutine, no park -/
theorem Wait_start_dead (s : St) : FunGen.SegsWaitGroup.Wait_start s true = { st := s, sigs := [], fin := .ret "ok" } := by
  simp [FunGen.SegsWaitGroup.Wait_start]

/-- `Wait`, after a wake-up: the counter is re-read first, then the context, else the waiter parks again -/
theorem Wait_resume_tie (s : St) (t : Nat) (c : Bool) :
    FunGen.SegsWaitGroup.Wait_resume s c = resume s t .wait c := by
  unfold FunGen.SegsWaitGroup.Wait_resume resume waitLoop
  by_cases h0 : s.counter = 0 <;> cases c <;> simp [h0]

theorem start_tie (s : St) (t : Nat) (op : Op) : FunGen.SegsWaitGroup.start s t op false = some (start s t op) := by
  cases op with
  | add n => exact congrArg some (Add_tie s t n false)
  | wait => exact congrArg some (Wait_start_tie s t)
  | num => rfl
  | isDone => rfl

theorem resume_tie (s : St) (t : Nat) (c : Bool) :
    FunGen.SegsWaitGroup.resume s t .wait c = some (resume s t .wait c) :=
  congrArg some (Wait_resume_tie s t c)

/-- the operations the generator found no `cond.Wait()` in have no generated `resume`, and their only
    segment ends in a return whatever the state and the context: `Conc.step` never resumes them -/
theorem nonblocking (s : St) (t : Nat) (op : Op) (c : Bool) (h : op ≠ .wait) :
    FunGen.SegsWaitGroup.resume s t op c = none ∧
    ∀ c' o, FunGen.SegsWaitGroup.start s t op c' = some o → ∃ r, o.fin = .ret r := by
  cases op with
  | wait => exact absurd rfl h
  | add n =>
    refine ⟨rfl, fun c' o ho => ?_⟩
    simp only [FunGen.SegsWaitGroup.start, Option.some.injEq] at ho
    subst ho
    unfold FunGen.SegsWaitGroup.Add_start
    split
    · exact ⟨_, rfl⟩
    · simp only []; split <;> exact ⟨_, rfl⟩
  | num => exact ⟨rfl, fun c' o ho => by cases ho; exact ⟨_, rfl⟩⟩
  | isDone => exact ⟨rfl, fun c' o ho => by cases ho; exact ⟨_, rfl⟩⟩

/-- only `Wait` looks at the context -/
theorem start_ignores_ctx (s : St) (t : Nat) (op : Op) (c : Bool) (h : op ≠ .wait) :
    FunGen.SegsWaitGroup.start s t op c = some (start s t op) := by
  cases op with
  | wait => exact absurd rfl h
  | add n => exact congrArg some (Add_tie s t n c)
  | num => rfl
  | isDone => rfl

end FunProofs.GenTieSegs
