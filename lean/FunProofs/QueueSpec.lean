import FunModel.Queue

/-! The *sequential specification* of `pubsub.Queue` used by C05 (definitions only; the lemmas are in
    `FunProofs/QueueSeq.lean`, the property theorems in `FunProps/C05.lean`).

    A specification state is a plain list of items (oldest first), the closed flag and the limit
    tracker. The tracker is used as an *opaque admission oracle*: the specification asks it whether an
    add is accepted (`Tracker.add`), whether there is room below the soft quota (`Tracker.hasRoom`) and
    tells it about removals (`Tracker.remove`); it never looks at the burst credit (a `Float`).

    `Spec.apply s op cancelled` is the effect and the result of running the whole operation `op`
    atomically in state `s`; `cancelled` says whether the operation's context is done at that moment
    (only the blocking operations look at it). `none` means "the operation cannot complete in this
    state": sequentially it would block for ever (a `Wait` on an open empty queue, a `BlockingAdd` on an
    open queue without room, in both cases with a live context). Iterator calls (`next k`) are not queue
    operations; the specification does not define them (`none`), C05 filters them out of the history and
    proves separately that they never change the abstract state. -/
namespace FunModel.Queue

/-- abstraction function: the queued items, oldest first -/
def abs (s : St) : List Int := s.q.map (·.2)

structure SpecState where
  items : List Int
  closed : Bool
  tracker : Tracker

/-- the specification state a model state stands for -/
def specOf (s : St) : SpecState := { items := abs s, closed := s.closed, tracker := s.tracker }

namespace Spec

/-- admission by the tracker, then append at the back -/
def push (s : SpecState) (v : Int) : SpecState × String :=
  match s.tracker.add with
  | (tr, .ok) => ({ s with items := s.items ++ [v], tracker := tr }, "ok")
  | (_, .full) => (s, "full")
  | (_, .noCredit) => (s, "nocredit")

/-- take the oldest item -/
def pop (s : SpecState) (v : Int) (rest : List Int) : SpecState × String :=
  ({ s with items := rest, tracker := s.tracker.remove }, toString v)

def apply (s : SpecState) (op : Op) (cancelled : Bool) : Option (SpecState × String) :=
  match op with
  | .add v => if s.closed then some (s, "closed") else some (push s v)
  | .badd v =>
    if s.closed then some (s, "closed")
    else if s.tracker.hasRoom then some (push s v)
    else if cancelled then some (s, "ctx")
    else none
  | .remove =>
    match s.items with
    | [] => some (s, "none")
    | v :: rest => some (pop s v rest)
  | .wait | .recv =>
    match s.items with
    | v :: rest => some (pop s v rest)
    | [] => if s.closed then some (s, "closed") else if cancelled then some (s, "ctx") else none
  | .len => some (s, toString s.items.length)
  | .close => some ({ s with closed := true }, "ok")
  | .next _ => none

/-- replay a sequential history; `none` as soon as one operation cannot complete -/
def replay (s : SpecState) : List (Op × Bool) → Option (SpecState × List String)
  | [] => some (s, [])
  | (op, c) :: rest =>
    match apply s op c with
    | none => none
    | some (s', r) =>
      match replay s' rest with
      | none => none
      | some (s'', rs) => some (s'', r :: rs)

end Spec
end FunModel.Queue
