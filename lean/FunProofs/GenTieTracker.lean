import FunGen.Tracker
import FunModel.Queue

/-! T-gen tie: the hand-written models used by the property theorems equal the definitions that
    tools/go2lean regenerates from the current source of tychoish/fun on every run. If the Go code of
    a translated function changes, the generated definition changes and these theorems are
    re-checked against it. -/

namespace FunProofs.GenTie
open FunModel FunGen

/-! ## pubsub/tracker.go -/
section Tracker
open FunModel.Queue FunGen.Tracker

def errOf : Queue.Tracker.AddRes → GErr
  | .ok => .nil
  | .full => .ErrQueueFull
  | .noCredit => .ErrQueueNoCredit

def genSoft (sq hl l : Nat) (cr : Float) : queueLimitTrackerImpl :=
  { softQuota := sq, hardLimit := hl, length := l, credit := cr }

def genOfSoft : Queue.Tracker → queueLimitTrackerImpl
  | .soft sq hl l cr => genSoft sq hl l cr
  | .noLimit l => genSoft 0 0 l 0

theorem soft_len (sq hl l : Nat) (cr : Float) :
    (genSoft sq hl l cr).len = ((Queue.Tracker.soft sq hl l cr).len : Int) := rfl

theorem soft_cap (sq hl l : Nat) (cr : Float) :
    some (genSoft sq hl l cr).cap = ((Queue.Tracker.soft sq hl l cr).cap).map (fun (n : Nat) => (n : Int)) := rfl

theorem soft_add (sq hl l : Nat) (cr : Float) :
    (genSoft sq hl l cr).add
      = (genOfSoft (Queue.Tracker.soft sq hl l cr).add.1, errOf (Queue.Tracker.soft sq hl l cr).add.2) := by
  unfold queueLimitTrackerImpl.add Queue.Tracker.add genSoft
  by_cases h1 : l ≥ sq
  · have h1' : (l : Int) ≥ (sq : Int) := by omega
    by_cases h2 : l = hl
    · subst h2; simp [h1, h1', genOfSoft, genSoft, errOf]
    · have h2' : ¬ ((l : Int) = (hl : Int)) := by omega
      by_cases h3 : cr < 1
      · simp [h1, h1', h2, h2', h3, genOfSoft, genSoft, errOf]
      · simp [h1, h1', h2, h2', h3, genOfSoft, genSoft, errOf]
  · have h1' : ¬ ((l : Int) ≥ (sq : Int)) := by omega
    simp [h1, h1', genOfSoft, genSoft, errOf]

theorem float_ofInt_sub (a b : Nat) (h : b ≤ a) : Float.ofInt ((a : Int) - (b : Int)) = Float.ofNat (a - b) := by
  have : ((a : Int) - (b : Int)) = ((a - b : Nat) : Int) := by omega
  rw [this]; rfl

theorem float_ofInt_nat (a : Nat) : Float.ofInt (a : Int) = Float.ofNat a := rfl

/-- `remove()` of the soft-quota tracker; the queue only calls it with `length > 0`, and the
    tracker invariant `1 ≤ softQuota ≤ hardLimit` (FunProps.C05 `tracker_inv`) holds. -/
theorem soft_remove (sq hl l : Nat) (cr : Float) (hl0 : 0 < l) (hsq : 1 ≤ sq) (hh : sq ≤ hl) :
    (genSoft sq hl l cr).remove = genOfSoft (Queue.Tracker.soft sq hl l cr).remove := by
  unfold queueLimitTrackerImpl.remove Queue.Tracker.remove genSoft
  have e1 : ((l : Int) - 1) = ((l - 1 : Nat) : Int) := by omega
  by_cases h1 : l - 1 < sq
  · have h1' : ((l : Int) - 1) < (sq : Int) := by omega
    by_cases h2 : sq > 1 ∧ l - 1 < sq / 2
    · have h2a : (sq : Int) > 1 := by omega
      have h2b : ((l : Int) - 1) < Int.tdiv (sq : Int) 2 := by
        rw [Int.tdiv_eq_ediv_of_nonneg (by omega)]; omega
      have e2 : ((sq : Int) - 1) = ((sq - 1 : Nat) : Int) := by omega
      have k1 : l - 1 ≤ sq - 1 := by omega
      have k2 : sq - 1 ≤ hl := by omega
      simp only [h1, h1', h2.1, h2.2, h2a, h2b, genOfSoft, genSoft, decide_true, Bool.and_self, if_true,
        gt_iff_lt]
      rw [e1, e2, float_ofInt_sub _ _ k1, float_ofInt_sub _ _ k2, float_ofInt_nat]
      split <;> simp_all
    · have h2' : ¬ ((sq : Int) > 1 ∧ ((l : Int) - 1) < Int.tdiv (sq : Int) 2) := by
        rw [Int.tdiv_eq_ediv_of_nonneg (by omega)]; omega
      have k1 : l - 1 ≤ sq := by omega
      have hb : (decide (sq > 1) && decide (l - 1 < sq / 2)) = false := by
        simp only [Bool.and_eq_false_iff, decide_eq_false_iff_not]; by_cases h : sq > 1 <;> simp_all
      have hb' : (decide ((sq : Int) > 1) && decide (((l : Int) - 1) < Int.tdiv (sq : Int) 2)) = false := by
        simp only [Bool.and_eq_false_iff, decide_eq_false_iff_not]
        by_cases h : (sq : Int) > 1
        · right; exact fun h' => h2' ⟨h, h'⟩
        · left; exact h
      simp only [h1, h1', hb, hb', genOfSoft, genSoft, decide_true, if_true, Bool.false_eq_true, if_false]
      rw [e1, float_ofInt_sub _ _ k1, float_ofInt_sub _ _ hh, float_ofInt_nat]
      split <;> simp_all
  · have h1' : ¬ (((l : Int) - 1) < (sq : Int)) := by omega
    simp [h1, genOfSoft, genSoft, e1]

def genNoLimit (l : Nat) : queueNoLimitTrackerImpl := { length := l }

theorem noLimit_len (l : Nat) : (genNoLimit l).len = ((Queue.Tracker.noLimit l).len : Int) := rfl
theorem noLimit_cap (l : Nat) : (genNoLimit l).cap = maxInt ∧ (Queue.Tracker.noLimit l).cap = none := ⟨rfl, rfl⟩
theorem noLimit_add (l : Nat) :
    (genNoLimit l).add = (genNoLimit (Queue.Tracker.noLimit l).add.1.len, errOf (Queue.Tracker.noLimit l).add.2) := by
  simp [queueNoLimitTrackerImpl.add, Queue.Tracker.add, genNoLimit, errOf, Queue.Tracker.len]
theorem noLimit_remove (l : Nat) :
    (genNoLimit l).remove = genNoLimit (Queue.Tracker.noLimit l).remove.len := by
  unfold queueNoLimitTrackerImpl.remove Queue.Tracker.remove genNoLimit Queue.Tracker.len
  by_cases h : l = 0
  · subst h; simp
  · have : ¬ ((l : Int) = 0) := by omega
    have e : ((l : Int) - 1) = ((l - 1 : Nat) : Int) := by omega
    simp [e]; intro h0; exact absurd h0 h

end Tracker
end FunProofs.GenTie
