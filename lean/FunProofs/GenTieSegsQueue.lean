import FunModel.Queue
import FunGen.SegsQueue

/-! T-gen tie of the *control structure* of `pubsub.Queue` (C05/C07): the hand-written segment functions
    `FunModel.Queue.start` / `resume` for `Add`, `BlockingAdd`, `Remove`, `Wait`, `Len`, `Close` are, for every
    state, thread, argument and `cancelled` flag, the definitions regenerated from pubsub/queue.go by
    tools/go2lean (segs.go → lean/FunGen/SegsQueue.lean). -/
namespace FunProofs.GenTieSegsQueue
open FunModel.Conc FunModel.Queue

/-- `q.tracker.cap() > q.tracker.len()` is the model's `hasRoom` -/
theorem capGt_hasRoom (tr : Tracker) : FunGen.SegsQueue.capGt tr.cap tr.len = tr.hasRoom := by
  unfold FunGen.SegsQueue.capGt Tracker.hasRoom
  cases tr.cap <;> simp

theorem Add_tie (s : St) (t : Nat) (v : Int) (c : Bool) : FunGen.SegsQueue.Add_start s v c = start s t (.add v) := rfl

theorem Len_tie (s : St) (t : Nat) (c : Bool) : FunGen.SegsQueue.Len_start s c = start s t .len := rfl

theorem Close_tie (s : St) (t : Nat) (c : Bool) : FunGen.SegsQueue.Close_start s c = start s t .close := rfl

theorem Remove_tie (s : St) (t : Nat) (c : Bool) : FunGen.SegsQueue.Remove_start s c = start s t .remove := by
  unfold FunGen.SegsQueue.Remove_start start
  by_cases h : s.tracker.len = 0 <;> simp [h]

theorem BlockingAdd_start_tie (s : St) (t : Nat) (v : Int) :
    FunGen.SegsQueue.BlockingAdd_start s v false = start s t (.badd v) := by
  unfold FunGen.SegsQueue.BlockingAdd_start start baddLoop
  rw [capGt_hasRoom]
  cases hc : s.closed <;> cases hr : s.tracker.hasRoom <;> simp

theorem BlockingAdd_resume_tie (s : St) (t : Nat) (v : Int) (c : Bool) :
    FunGen.SegsQueue.BlockingAdd_resume s v c = resume s t (.badd v) c := by
  unfold FunGen.SegsQueue.BlockingAdd_resume resume baddLoop
  rw [capGt_hasRoom]
  cases hc : s.closed <;> cases hr : s.tracker.hasRoom <;> cases c <;> simp

theorem Wait_start_tie (s : St) (t : Nat) : FunGen.SegsQueue.Wait_start s false = start s t .wait := by
  unfold FunGen.SegsQueue.Wait_start start waitLoop
  by_cases h : s.tracker.len = 0 <;> cases hc : s.closed <;> simp [h]

theorem Wait_resume_tie (s : St) (t : Nat) (c : Bool) :
    FunGen.SegsQueue.Wait_resume s c = resume s t .wait c := by
  unfold FunGen.SegsQueue.Wait_resume resume waitLoop
  by_cases h : s.tracker.len = 0 <;> cases hc : s.closed <;> cases c <;> simp [h]

/-- a `BlockingAdd`/`Wait` entered with a context that is already done still spawns its helper and runs
    its loop once: it fails with the context error only if it would otherwise have parked -/
theorem BlockingAdd_start_dead (s : St) (v : Int) :
    FunGen.SegsQueue.BlockingAdd_start s v true =
      if s.closed then { st := s, sigs := [], fin := .ret "closed" }
      else if s.tracker.hasRoom then FunGen.SegsQueue.Add_start s v true
      else { st := s, sigs := [.spawn 1], fin := .ret "ctx" } := by
  unfold FunGen.SegsQueue.BlockingAdd_start FunGen.SegsQueue.Add_start
  rw [capGt_hasRoom]
  cases hc : s.closed <;> cases hr : s.tracker.hasRoom <;> simp

def regenerated : Op → Bool
  | .recv | .next _ => false
  | _ => true

def blocking : Op → Bool
  | .badd _ | .wait => true
  | _ => false

theorem start_tie (s : St) (t : Nat) (op : Op) (h : regenerated op = true) :
    FunGen.SegsQueue.start s t op false = some (start s t op) := by
  cases op with
  | add v => rfl
  | badd v => exact congrArg some (BlockingAdd_start_tie s t v)
  | remove => exact congrArg some (Remove_tie s t false)
  | wait => exact congrArg some (Wait_start_tie s t)
  | recv => cases h
  | len => rfl
  | close => rfl
  | next k => cases h

theorem resume_tie (s : St) (t : Nat) (op : Op) (c : Bool) (h : blocking op = true) :
    FunGen.SegsQueue.resume s t op c = some (resume s t op c) := by
  cases op with
  | badd v => exact congrArg some (BlockingAdd_resume_tie s t v c)
  | wait => exact congrArg some (Wait_resume_tie s t c)
  | add v => cases h
  | remove => cases h
  | recv => cases h
  | len => cases h
  | close => cases h
  | next k => cases h

/-- doAdd / popFront results never park: used for `nonblocking` -/
theorem nonblocking (s : St) (t : Nat) (op : Op) (c : Bool) (h : blocking op = false) :
    FunGen.SegsQueue.resume s t op c = none ∧
    ∀ c' o, FunGen.SegsQueue.start s t op c' = some o → ∃ r, o.fin = .ret r := by
  cases op with
  | badd v => cases h
  | wait => cases h
  | add v => exact ⟨rfl, fun c' o ho => by cases ho; exact ⟨_, rfl⟩⟩
  | len => exact ⟨rfl, fun c' o ho => by cases ho; exact ⟨_, rfl⟩⟩
  | close => exact ⟨rfl, fun c' o ho => by cases ho; exact ⟨_, rfl⟩⟩
  | recv => exact ⟨rfl, fun c' o ho => by cases ho⟩
  | next k => exact ⟨rfl, fun c' o ho => by cases ho⟩
  | remove =>
    refine ⟨rfl, fun c' o ho => ?_⟩
    simp only [FunGen.SegsQueue.start, Option.some.injEq] at ho
    subst ho
    unfold FunGen.SegsQueue.Remove_start
    split <;> exact ⟨_, rfl⟩

/-- `recv` (Distributor.Receive: `Remove`, and `Wait` when that found nothing), which is not regenerated, is
    in the model the composition of the two regenerated segments -/
theorem recv_start (s : St) (t : Nat) :
    start s t .recv = if s.tracker.len = 0 then start s t .wait else start s t .remove := by
  unfold start
  by_cases h : s.tracker.len = 0 <;> simp [h]

theorem recv_resume (s : St) (t : Nat) (c : Bool) : resume s t .recv c = resume s t .wait c := rfl

end FunProofs.GenTieSegsQueue
