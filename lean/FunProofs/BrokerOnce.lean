import FunProofs.BrokerUniq
import FunProofs.BrokerLive

/-! C08: conservation for a subscribed subscriber on a lossless broker — every message taken by the
    event loop while the subscriber is in the map has reached it, is on its way to it, or is still
    ahead of it; at a quiescent state with every subscriber receiving it has reached it, once. -/
namespace FunProofs.Broker
open FunModel.Broker

/-- `m` has not yet been offered to subscriber `k`: it is in the event loop's hand, in the
    distributor, or held by a worker that has not visited `k` -/
def Ahead (s : St) (k : Sub) (m : Msg) : Prop :=
  m ∈ s.loop.msgs ∨ m ∈ s.buf ∨ (∃ w : Nat, s.ws[w]? = some (Worker.got m)) ∨
    ∃ (w : Nat) (start visited : List Sub), s.ws[w]? = some (Worker.iter m start visited) ∧ k ∉ visited

/-- conservation for a subscriber that is in the map: every message taken since it was added has
    reached it, is on its way to it, or is still ahead of it -/
structure Owed (s : St) : Prop where
  none : ∀ k, k ∉ s.subs → s.since k = []
  loc : s.live = true → ∀ k ∈ s.subs, ∀ m ∈ s.since k,
      m ∈ s.recvd k ∨ m ∈ s.chan k ∨ (k, m) ∈ s.sends ∨ Ahead s k m
  start : s.live = true → ∀ (w : Nat) (m : Msg) (start visited : List Sub),
      s.ws[w]? = some (Worker.iter m start visited) → ∀ k ∈ s.subs, m ∈ s.since k → k ∈ start

theorem owed_init (c : Cfg) : Owed (init c) := by
  refine ⟨by simp [init], by simp [init], ?_⟩
  intro _ w m start visited h
  simp only [init] at h
  have : Worker.iter m start visited ∈ List.replicate c.nworkers Worker.idle := List.mem_of_getElem? h
  simp [List.mem_replicate] at this

theorem sendTo_lossless {b : Backend} (hb : b.lossless = true) {buf : List Msg} {m : Msg} {accept : Bool}
    {buf' dropped : List Msg} (h : sendTo b buf m accept = some (buf', dropped)) :
    buf' = buf ++ [m] ∧ dropped = [] := by
  cases b with
  | fifo =>
    simp only [sendTo] at h
    split at h
    · cases h; exact ⟨rfl, rfl⟩
    · cases h
  | blocking cap =>
    simp only [sendTo] at h
    split at h
    · cases h; exact ⟨rfl, rfl⟩
    · cases h
  | shedding hard => simp [Backend.lossless] at hb
  | evicting cap => simp [Backend.lossless] at hb

theorem getElem?_set_cases {α : Type} {l : List α} {i j : Nat} {y z : α} (h : (l.set i y)[j]? = some z) :
    (j = i ∧ z = y) ∨ (j ≠ i ∧ l[j]? = some z) := by
  by_cases he : j = i
  · subst he
    have hj : j < l.length := by
      rcases Nat.lt_or_ge j l.length with h' | h'
      · exact h'
      · simp [List.getElem?_eq_none (show (l.set j y).length ≤ j by simpa using h')] at h
    simp [hj] at h
    exact Or.inl ⟨rfl, h.symm⟩
  · rw [List.getElem?_set_ne (Ne.symm he)] at h
    exact Or.inr ⟨he, h⟩

/-- the part of `Ahead` that lives in the worker vector survives a replacement of worker `w`
    unless `w` itself was the witness -/
theorem ahead_ws_set {ws : List Worker} {w : Nat} {x : Worker} (hw : ws[w]? = some x) (y : Worker)
    {k : Sub} {m : Msg}
    (h : (∃ w2 : Nat, ws[w2]? = some (Worker.got m)) ∨
      ∃ (w2 : Nat) (start visited : List Sub), ws[w2]? = some (Worker.iter m start visited) ∧ k ∉ visited) :
    (x = Worker.got m ∨ ∃ (start visited : List Sub), x = Worker.iter m start visited ∧ k ∉ visited) ∨
    ((∃ w2 : Nat, (ws.set w y)[w2]? = some (Worker.got m)) ∨
      ∃ (w2 : Nat) (start visited : List Sub), (ws.set w y)[w2]? = some (Worker.iter m start visited) ∧ k ∉ visited) := by
  rcases h with ⟨w2, h2⟩ | ⟨w2, start, visited, h2, hk⟩
  · by_cases he : w2 = w
    · subst he; rw [hw] at h2; exact Or.inl (Or.inl (Option.some.inj h2))
    · exact Or.inr (Or.inl ⟨w2, by rw [List.getElem?_set_ne (Ne.symm he)]; exact h2⟩)
  · by_cases he : w2 = w
    · subst he; rw [hw] at h2; exact Or.inl (Or.inr ⟨start, visited, Option.some.inj h2, hk⟩)
    · exact Or.inr (Or.inr ⟨w2, start, visited, by rw [List.getElem?_set_ne (Ne.symm he)]; exact h2, hk⟩)

theorem owed_step {c : Cfg} (hloss : c.backend.lossless = true) {s s' : St} {a : Act} (hu : Uniq s)
    (ho : Owed s) (h : Step c s a s') : Owed s' := by
  have dead : ∀ {P : Prop}, s.live = false → s.live = true → P := by
    intro P h1 h2; rw [h1] at h2; cases h2
  cases h
  case subCall => exact ⟨ho.none, ho.loc, ho.start⟩
  case unsubCall k => exact ⟨ho.none, ho.loc, ho.start⟩
  case pubCall p hp => exact ⟨ho.none, ho.loc, ho.start⟩
  case statsCall => exact ⟨ho.none, ho.loc, ho.start⟩
  case waitCall => exact ⟨ho.none, ho.loc, ho.start⟩
  case cancelCall i cl hc => exact ⟨ho.none, ho.loc, ho.start⟩
  case stop => exact ⟨ho.none, (fun h => by cases h), (fun h => by cases h)⟩
  case openSub k => exact ⟨ho.none, ho.loc, ho.start⟩
  case gateSub k => exact ⟨ho.none, ho.loc, ho.start⟩
  case observeQuiet hq => exact ⟨ho.none, ho.loc, ho.start⟩
  case census hq => exact ⟨ho.none, ho.loc, ho.start⟩
  case enqSub i k x hc hq => exact ⟨ho.none, ho.loc, ho.start⟩
  case enqUnsub i k x hc hq => exact ⟨ho.none, ho.loc, ho.start⟩
  case callAbort i cl hc hx => exact ⟨ho.none, ho.loc, ho.start⟩
  case waitRet i x hc hl hw => exact ⟨ho.none, ho.loc, ho.start⟩
  case loopStats i x hl hc => exact ⟨ho.none, ho.loc, ho.start⟩
  case loopSendAbort m hl hd => exact ⟨ho.none, fun h => dead hd h, fun h => dead hd h⟩
  case loopExit hl hd => exact ⟨ho.none, fun h => dead hd h, fun h => dead hd h⟩
  case wAbandonGot w m hd hw => exact ⟨ho.none, fun h => dead hd h, fun h => dead hd h⟩
  case wAbandonIter w m start visited hd hw => exact ⟨ho.none, fun h => dead hd h, fun h => dead hd h⟩
  case wExit w hd hw => exact ⟨ho.none, fun h => dead hd h, fun h => dead hd h⟩
  case sendAbort k m hs hd => exact ⟨ho.none, fun h => dead hd h, fun h => dead hd h⟩
  case loopSubQ k0 rest hl hq =>
    have hmem : ∀ k, k ∈ insertSub k0 s.subs → k ∈ s.subs ∨ (k = k0 ∧ k0 ∉ s.subs) := by
      intro k hk
      simp only [insertSub] at hk
      split at hk
      · exact Or.inl hk
      · rename_i hn
        simp only [List.mem_append, List.mem_singleton] at hk
        rcases hk with h | h
        · exact Or.inl h
        · exact Or.inr ⟨h, hn⟩
    have hsub : ∀ k, k ∈ s.subs → k ∈ insertSub k0 s.subs := by
      intro k hk; simp only [insertSub]; split
      · exact hk
      · exact List.mem_append_left _ hk
    refine ⟨fun k hk => ho.none k (fun h => hk (hsub k h)), ?_, ?_⟩
    · intro hl' k hk m hm
      rcases hmem k hk with h | ⟨he, hn⟩
      · exact ho.loc hl' k h m hm
      · subst he; rw [ho.none _ hn] at hm; cases hm
    · intro hl' w m start visited hw k hk hm
      rcases hmem k hk with h | ⟨he, hn⟩
      · exact ho.start hl' w m start visited hw k h hm
      · subst he; rw [ho.none _ hn] at hm; cases hm
  case loopSub i k0 x hl hc =>
    have hmem : ∀ k, k ∈ insertSub k0 s.subs → k ∈ s.subs ∨ (k = k0 ∧ k0 ∉ s.subs) := by
      intro k hk
      simp only [insertSub] at hk
      split at hk
      · exact Or.inl hk
      · rename_i hn
        simp only [List.mem_append, List.mem_singleton] at hk
        rcases hk with h | h
        · exact Or.inl h
        · exact Or.inr ⟨h, hn⟩
    have hsub : ∀ k, k ∈ s.subs → k ∈ insertSub k0 s.subs := by
      intro k hk; simp only [insertSub]; split
      · exact hk
      · exact List.mem_append_left _ hk
    refine ⟨fun k hk => ho.none k (fun h => hk (hsub k h)), ?_, ?_⟩
    · intro hl' k hk m hm
      rcases hmem k hk with h | ⟨he, hn⟩
      · exact ho.loc hl' k h m hm
      · subst he; rw [ho.none _ hn] at hm; cases hm
    · intro hl' w m start visited hw k hk hm
      rcases hmem k hk with h | ⟨he, hn⟩
      · exact ho.start hl' w m start visited hw k h hm
      · subst he; rw [ho.none _ hn] at hm; cases hm
  case loopUnsubQ k0 rest hl hq =>
    refine ⟨?_, ?_, ?_⟩
    · intro k hk
      simp only [upd_apply]
      split
      · rfl
      · rename_i hne
        exact ho.none k (fun h => hk ((List.mem_erase_of_ne hne).mpr h))
    · intro hl' k hk m hm
      simp only [upd_apply] at hm
      split at hm
      · cases hm
      · exact ho.loc hl' k (List.mem_of_mem_erase hk) m hm
    · intro hl' w m start visited hw k hk hm
      simp only [upd_apply] at hm
      split at hm
      · cases hm
      · exact ho.start hl' w m start visited hw k (List.mem_of_mem_erase hk) hm
  case loopUnsub i k0 x hl hc =>
    refine ⟨?_, ?_, ?_⟩
    · intro k hk
      simp only [upd_apply]
      split
      · rfl
      · rename_i hne
        exact ho.none k (fun h => hk ((List.mem_erase_of_ne hne).mpr h))
    · intro hl' k hk m hm
      simp only [upd_apply] at hm
      split at hm
      · cases hm
      · exact ho.loc hl' k (List.mem_of_mem_erase hk) m hm
    · intro hl' w m start visited hw k hk hm
      simp only [upd_apply] at hm
      split at hm
      · cases hm
      · exact ho.start hl' w m start visited hw k (List.mem_of_mem_erase hk) hm
  case loopTake i m x hl hc =>
    refine ⟨?_, ?_, ?_⟩
    · intro k hk; simp only [hk, if_false]; exact ho.none k hk
    · intro hl' k hk m' hm'
      simp only [hk, if_true, List.mem_append, List.mem_singleton] at hm'
      rcases hm' with hm' | hm'
      · rcases ho.loc hl' k hk m' hm' with h | h | h | h
        · exact Or.inl h
        · exact Or.inr (Or.inl h)
        · exact Or.inr (Or.inr (Or.inl h))
        · refine Or.inr (Or.inr (Or.inr ?_))
          rcases h with h | h | h | h
          · rw [hl] at h; cases h
          · exact Or.inr (Or.inl h)
          · exact Or.inr (Or.inr (Or.inl h))
          · exact Or.inr (Or.inr (Or.inr h))
      · subst hm'
        exact Or.inr (Or.inr (Or.inr (Or.inl (by simp [Loop.msgs]))))
    · intro hl' w m1 start visited hw k hk hm
      simp only [hk, if_true, List.mem_append, List.mem_singleton] at hm
      rcases hm with hm | hm
      · exact ho.start hl' w m1 start visited hw k hk hm
      · subst hm
        exfalso
        have h1 := count_flatMap_ge Call.msgs m1 s.calls i _ hc
        have h2 := count_workerMsgs_ge hw m1
        have h3 := hu.once m1
        rw [count_flight] at h3
        simp only [Call.msgs, Worker.msgs, List.count_cons_self, List.count_nil] at h1 h2
        simp only [callMsgs] at h3
        omega
  case loopSend accept m buf' dropped hl hs =>
    obtain ⟨hb', hd'⟩ := sendTo_lossless hloss hs
    subst hb' hd'
    refine ⟨ho.none, ?_, ho.start⟩
    intro hl' k hk m' hm'
    rcases ho.loc hl' k hk m' hm' with h | h | h | h
    · exact Or.inl h
    · exact Or.inr (Or.inl h)
    · exact Or.inr (Or.inr (Or.inl h))
    · refine Or.inr (Or.inr (Or.inr ?_))
      rcases h with h | h | h | h
      · rw [hl] at h
        exact Or.inr (Or.inl (List.mem_append_right _ h))
      · exact Or.inr (Or.inl (List.mem_append_left _ h))
      · exact Or.inr (Or.inr (Or.inl h))
      · exact Or.inr (Or.inr (Or.inr h))
  case wRecvBuf w m rest hw hb =>
    refine ⟨ho.none, ?_, ?_⟩
    · intro hl' k hk m' hm'
      rcases ho.loc hl' k hk m' hm' with h | h | h | h
      · exact Or.inl h
      · exact Or.inr (Or.inl h)
      · exact Or.inr (Or.inr (Or.inl h))
      · refine Or.inr (Or.inr (Or.inr ?_))
        rcases h with h | h | h
        · exact Or.inl h
        · rw [hb] at h
          rcases List.mem_cons.mp h with h | h
          · subst h; exact Or.inr (Or.inr (Or.inl ⟨w, getElem?_set_self' hw⟩))
          · exact Or.inr (Or.inl h)
        · rcases ahead_ws_set hw (Worker.got m) h with h | h
          · rcases h with h | ⟨_, _, h, _⟩ <;> cases h
          · exact Or.inr (Or.inr h)
    · intro hl' w2 m1 start visited hw2 k hk hm
      rcases getElem?_set_cases hw2 with ⟨_, h⟩ | ⟨_, h⟩
      · cases h
      · exact ho.start hl' w2 m1 start visited h k hk hm
  case wRecvDirect w m cap hw hb hl hc =>
    refine ⟨ho.none, ?_, ?_⟩
    · intro hl' k hk m' hm'
      rcases ho.loc hl' k hk m' hm' with h | h | h | h
      · exact Or.inl h
      · exact Or.inr (Or.inl h)
      · exact Or.inr (Or.inr (Or.inl h))
      · refine Or.inr (Or.inr (Or.inr ?_))
        rcases h with h | h | h
        · rw [hl] at h
          simp only [Loop.msgs, List.mem_singleton] at h
          subst h; exact Or.inr (Or.inr (Or.inl ⟨w, getElem?_set_self' hw⟩))
        · exact Or.inr (Or.inl h)
        · rcases ahead_ws_set hw (Worker.got m) h with h | h
          · rcases h with h | ⟨_, _, h, _⟩ <;> cases h
          · exact Or.inr (Or.inr h)
    · intro hl' w2 m1 start visited hw2 k hk hm
      rcases getElem?_set_cases hw2 with ⟨_, h⟩ | ⟨_, h⟩
      · cases h
      · exact ho.start hl' w2 m1 start visited h k hk hm
  case wStart w m hw =>
    refine ⟨ho.none, ?_, ?_⟩
    · intro hl' k hk m' hm'
      rcases ho.loc hl' k hk m' hm' with h | h | h | h
      · exact Or.inl h
      · exact Or.inr (Or.inl h)
      · exact Or.inr (Or.inr (Or.inl h))
      · refine Or.inr (Or.inr (Or.inr ?_))
        rcases h with h | h | h
        · exact Or.inl h
        · exact Or.inr (Or.inl h)
        · rcases ahead_ws_set hw (Worker.iter m s.subs []) h with h | h
          · rcases h with h | ⟨_, _, h, _⟩
            · cases h
              exact Or.inr (Or.inr (Or.inr ⟨w, s.subs, [], getElem?_set_self' hw, by simp⟩))
            · cases h
          · exact Or.inr (Or.inr h)
    · intro hl' w2 m1 start visited hw2 k hk hm
      rcases getElem?_set_cases hw2 with ⟨_, h⟩ | ⟨_, h⟩
      · cases h; exact hk
      · exact ho.start hl' w2 m1 start visited h k hk hm
  case wNext w k0 m start visited hw hk0 hv hp =>
    refine ⟨ho.none, ?_, ?_⟩
    · intro hl' k hk m' hm'
      rcases ho.loc hl' k hk m' hm' with h | h | h | h
      · exact Or.inl h
      · exact Or.inr (Or.inl h)
      · exact Or.inr (Or.inr (Or.inl (List.mem_append_left _ h)))
      · rcases h with h | h | h
        · exact Or.inr (Or.inr (Or.inr (Or.inl h)))
        · exact Or.inr (Or.inr (Or.inr (Or.inr (Or.inl h))))
        · rcases ahead_ws_set hw (Worker.iter m start (k0 :: visited)) h with h | h
          · rcases h with h | ⟨st, vi, h, hkv⟩
            · cases h
            · cases h
              by_cases he : k = k0
              · subst he
                exact Or.inr (Or.inr (Or.inl (List.mem_append_right _ (by simp))))
              · refine Or.inr (Or.inr (Or.inr (Or.inr (Or.inr (Or.inr
                  ⟨w, start, k0 :: visited, getElem?_set_self' hw, ?_⟩)))))
                simp only [List.mem_cons, not_or]
                exact ⟨he, hkv⟩
          · exact Or.inr (Or.inr (Or.inr (Or.inr (Or.inr h))))
    · intro hl' w2 m1 start1 visited1 hw2 k hk hm
      rcases getElem?_set_cases hw2 with ⟨_, h⟩ | ⟨_, h⟩
      · cases h; exact ho.start hl' w _ _ visited hw k hk hm
      · exact ho.start hl' w2 m1 start1 visited1 h k hk hm
  case wDone w m start visited hw hr hp =>
    refine ⟨ho.none, ?_, ?_⟩
    · intro hl' k hk m' hm'
      rcases ho.loc hl' k hk m' hm' with h | h | h | h
      · exact Or.inl h
      · exact Or.inr (Or.inl h)
      · exact Or.inr (Or.inr (Or.inl h))
      · rcases h with h | h | h
        · exact Or.inr (Or.inr (Or.inr (Or.inl h)))
        · exact Or.inr (Or.inr (Or.inr (Or.inr (Or.inl h))))
        · rcases ahead_ws_set hw Worker.idle h with h | h
          · rcases h with h | ⟨st, vi, h, hkv⟩
            · cases h
            · cases h
              exfalso
              have hst := ho.start hl' w _ start visited hw k hk hm'
              simp only [rangeDone, List.all_eq_true, Bool.or_eq_true, Bool.not_eq_true'] at hr
              rcases hr k hst with h | h
              · simp [hk] at h
              · exact hkv (by simpa using h)
          · exact Or.inr (Or.inr (Or.inr (Or.inr (Or.inr h))))
    · intro hl' w2 m1 start1 visited1 hw2 k hk hm
      rcases getElem?_set_cases hw2 with ⟨_, h⟩ | ⟨_, h⟩
      · cases h
      · exact ho.start hl' w2 m1 start1 visited1 h k hk hm
  case deliver k0 m0 hs hb =>
    refine ⟨ho.none, ?_, ho.start⟩
    intro hl' k hk m' hm'
    rcases ho.loc hl' k hk m' hm' with h | h | h | h
    · exact Or.inl h
    · refine Or.inr (Or.inl ?_)
      simp only [upd_apply]; split
      · rename_i he; subst he; exact List.mem_append_left _ h
      · exact h
    · by_cases he : (k, m') = (k0, m0)
      · cases he
        exact Or.inr (Or.inl (by simp))
      · exact Or.inr (Or.inr (Or.inl ((List.mem_erase_of_ne he).mpr h)))
    · exact Or.inr (Or.inr (Or.inr h))
  case handoff k0 m0 hs hb hopen =>
    refine ⟨ho.none, ?_, ho.start⟩
    intro hl' k hk m' hm'
    rcases ho.loc hl' k hk m' hm' with h | h | h | h
    · refine Or.inl ?_
      simp only [upd_apply]; split
      · rename_i he; subst he; exact List.mem_append_left _ h
      · exact h
    · exact Or.inr (Or.inl h)
    · by_cases he : (k, m') = (k0, m0)
      · cases he
        exact Or.inl (by simp)
      · exact Or.inr (Or.inr (Or.inl ((List.mem_erase_of_ne he).mpr h)))
    · exact Or.inr (Or.inr (Or.inr h))
  case recv k0 m0 rest hb hopen =>
    refine ⟨ho.none, ?_, ho.start⟩
    intro hl' k hk m' hm'
    rcases ho.loc hl' k hk m' hm' with h | h | h | h
    · refine Or.inl ?_
      simp only [upd_apply]; split
      · rename_i he; subst he; exact List.mem_append_left _ h
      · exact h
    · by_cases he : k = k0
      · subst he
        rw [hb] at h
        rcases List.mem_cons.mp h with h | h
        · subst h; exact Or.inl (by simp)
        · exact Or.inr (Or.inl (by simp [h]))
      · exact Or.inr (Or.inl (by simp [upd_apply, he, h]))
    · exact Or.inr (Or.inr (Or.inl h))
    · exact Or.inr (Or.inr (Or.inr h))

theorem owed_reachable {c : Cfg} (hloss : c.backend.lossless = true) {s : St} (h : Reachable c s) : Owed s := by
  have : Uniq s ∧ Owed s :=
    reachable_induction (fun s => Uniq s ∧ Owed s) ⟨uniq_init c, owed_init c⟩
      (fun _ _ _ _ hp hs => ⟨uniq_step hp.1 hs, owed_step hloss hp.1 hp.2 hs⟩) s h
  exact this.2

/-- in an idle state nothing is ahead of anybody -/
theorem not_ahead_of_idle {s : St} (hi : Idle s) (k : Sub) (m : Msg) : ¬ Ahead s k m := by
  intro h
  rcases h with h | h | ⟨w, h⟩ | ⟨w, start, visited, h, _⟩
  · rw [hi.loop] at h; cases h
  · rw [hi.buf] at h; cases h
  · have := hi.workers _ (List.mem_of_getElem? h); cases this
  · have := hi.workers _ (List.mem_of_getElem? h); cases this

/-- lossless broker, quiescent, context live, every subscriber receiving: each message taken since
    a (still subscribed) subscriber was added has been received by it exactly once -/
theorem once_at_quiet {c : Cfg} (hloss : c.backend.lossless = true) (hv : Cfg.valid c) {s : St}
    (hr : Reachable c s) (hl : s.live = true) (hopen : allOpen s = true) (hq : quiescent c s = true)
    {k : Sub} (hk : k ∈ s.subs) {m : Msg} (hm : m ∈ s.since k) : (s.recvd k).count m = 1 := by
  have hi := idle_of_quiescent hv (wf_reachable hr) hl hopen hq
  have hu := uniq_reachable hr
  have hmem : m ∈ s.recvd k := by
    rcases (owed_reachable hloss hr).loc hl k hk m hm with h | h | h | h
    · exact h
    · rw [hi.chans k] at h; cases h
    · rw [hi.sends] at h; cases h
    · exact absurd h (not_ahead_of_idle hi k m)
  have h1 : 0 < (s.recvd k).count m := List.count_pos_iff.mpr hmem
  have h2 := hu.donce k m
  simp only [dcount] at h2
  omega

end FunProofs.Broker
