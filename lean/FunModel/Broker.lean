/-! `pubsub.Broker` (pubsub/broker.go, buffer.go) as a small-step process model (C08, C09).

    The model follows the code as written (on the tree with the two `fix:` commits for
    `Broker.Stats` and `Broker.Wait`):

    * the **event loop** goroutine of `startQueueWorkers`: one `select` over `ctx.Done()`
      (`loopExit`), `subCh` (`loopSubQ` / `loopSub`), `unsubCh` (`loopUnsubQ` / `loopUnsub`),
      `stats` (`loopStats`) and `publishCh` (`loopTake`); after `loopTake` it is inside
      `dist.Send(ctx, msg)` until `loopSend` (or `loopSendAbort` once the context is done: the
      error is neither queue-full nor queue-closed, the loop goes back to the `select`).
      `publishCh` is unbuffered, so `Publish` returns at `loopTake` — before `dist.Send`.
      `subCh` / `unsubCh` have capacity `BufferSize`: a request is either queued (`enqSub`,
      `enqUnsub`: the call returns at once) or handed to a loop waiting in the `select`;
    * an **abstract distributor** with the four behaviours the constructors can produce:
      `fifo` (unlimited `Queue`/`Deque`: `Send` always accepts), `blocking cap` (a channel of
      capacity `cap`, `cap = 0` being `NewBroker`'s rendezvous, or a `Deque` with a capacity behind
      `WaitPushBack`: `Send` waits for room or for a receiver), `shedding hard` (a limited `Queue`:
      `Add` fails with ErrQueueFull at the hard limit, may fail with ErrQueueNoCredit when the
      queue is not empty, never fails on an empty queue because the soft quota stays ≥ 1; the
      loop drops the message and `continue`s), `evicting cap` (`NewLIFOBroker`:
      `ForcePushBack` removes the *front* element when full — the code pops with `WaitFront`, so
      despite its name this broker is first-in-first-out too). All four hand elements out in
      insertion order (C05/C06: `Queue.Remove`/`Wait`, `Deque.WaitFront`), and a waiting receiver
      is woken by a push, a waiting pusher by a pop (C07, D1–D4 repaired);
    * `workers` **dispatch workers**: `dist.Receive` (`wRecv`: the front of the buffer, or the
      message of a loop blocked in a rendezvous), then `subs.Keys()`; the range over the
      `sync.Map` starts lazily (`wStart`, the window of D24) and yields keys one by one (`wNext`):
      any key currently in the map that was not yet visited — a key deleted meanwhile is skipped, a
      key added meanwhile may or may not be seen; it may end (`wDone`) once every key that was
      present at `wStart` and still is has been visited. For each key a send
      `select { ctx.Done | ch <- m }` is started: in the worker itself (serial dispatch: the next
      key only after the send finished) or in a goroutine of its own (`ParallelDispatch`; `wDone`
      = `wg.Wait`). Sends in progress are the set `sends`;
    * **subscription channels** with capacity `BufferSize`: `deliver` (the send completes into
      the buffer), `recv` (the subscriber takes the front of the buffer), `handoff` (rendezvous
      of a blocked send with a receiving subscriber);
    * once the **context is done** (`stop`: `Stop()` or cancellation of the parent) every blocked
      operation may give up (`loopExit`, `loopSendAbort`, `wExit`, `wAbandon`, `sendAbort`); the
      other branch of each `select` stays enabled, as in Go;
    * **API calls** are pending `calls`; the environment starts them, may end their own context
      (`cancelCall`), after which `callAbort` is enabled (`api_returns_on_own_ctx`).

    Not modelled: the owner of the Queue/Deque/channel closing it under the broker
    (ErrQueueClosed / io.EOF branch: the loop calls `b.close()` and returns), `Populate`,
    distributor filters. Messages are unique `(publisher, sequence number)` pairs and a publisher
    publishes sequentially. Ghost fields (`published`, `fin`, `taken`, `dispatched`, `since`,
    `log`) record history and influence no guard except `pubCall`'s fresh sequence number. -/

namespace FunModel.Broker

abbrev Msg := Nat × Nat
abbrev Sub := Nat

inductive Backend where
  | fifo
  | blocking (cap : Nat)
  | shedding (hard : Nat)
  | evicting (cap : Nat)
  deriving DecidableEq, Repr, Inhabited

def Backend.lossless : Backend → Bool
  | .fifo => true
  | .blocking _ => true
  | _ => false

structure Cfg where
  backend : Backend
  workers : Nat          -- WorkerPoolSize (values ≤ 0 mean 1: see `init`)
  parallel : Bool        -- ParallelDispatch
  bufSize : Nat          -- BufferSize: capacity of subCh, unsubCh and of every subscription channel
  deriving DecidableEq, Repr, Inhabited

/-- the configurations C08 calls lossless: unbuffered subscription channels, a distributor that
    never discards -/
def Cfg.lossless (c : Cfg) : Bool := c.backend.lossless && c.bufSize == 0

def Cfg.nworkers (c : Cfg) : Nat := if c.workers = 0 then 1 else c.workers

inductive Loop where
  | select
  | sending (m : Msg)
  | exited
  deriving DecidableEq, Repr, Inhabited

inductive Worker where
  | idle                                           -- in `dist.Receive`
  | got (m : Msg)                                  -- `Receive` returned; the range over `subs` has not started
  | iter (m : Msg) (start visited : List Sub)      -- ranging: keys present at the start, keys yielded so far
  | exited
  deriving DecidableEq, Repr, Inhabited

inductive CallKind where
  | sub (k : Sub)
  | unsub (k : Sub)
  | pub (m : Msg)
  | stats
  | wait
  deriving DecidableEq, Repr, Inhabited

structure Call where
  kind : CallKind
  cancelled : Bool := false      -- the call's own context is done
  deriving DecidableEq, Repr, Inhabited

inductive Ev where
  | subRet (k : Sub)             -- Subscribe returned the channel
  | unsubCall (k : Sub)
  | pubCall (m : Msg)
  | pubRet (m : Msg)             -- Publish returned having handed the message over
  | recv (k : Sub) (m : Msg)
  | stop
  | quiet (good : Bool) (pending waits zombies : Nat)
      -- observed in a state without enabled internal action. good: the context is live and every
      -- subscriber is receiving; pending: Publish/Subscribe/Unsubscribe/Stats calls in progress;
      -- waits: Wait calls in progress whose own context is live; zombies: calls in progress
      -- although their own context is done
  | census (n : Nat)             -- broker goroutines alive, observed at quiescence
  deriving DecidableEq, Repr, Inhabited

def upd {α : Type} (f : Nat → α) (k : Nat) (v : α) : Nat → α := fun x => if x = k then v else f x

structure St where
  live : Bool := true
  loop : Loop := .select
  subs : List Sub := []
  subQ : List Sub := []
  unsubQ : List Sub := []
  buf : List Msg := []
  ws : List Worker
  sends : List (Sub × Msg) := []
  chan : Sub → List Msg := fun _ => []
  recvd : Sub → List Msg := fun _ => []        -- in the order received
  isOpen : Sub → Bool := fun _ => true
  calls : List Call := []
  nextSub : Nat := 0
  nextSeq : Nat → Nat := fun _ => 0
  -- ghost
  published : List Msg := []                   -- every message a Publish call was made for
  fin : List Msg := []                         -- messages that left the broker (dispatched, dropped, abandoned)
  taken : List Msg := []                       -- in the order the event loop took them (oldest first)
  dispatched : List Msg := []                  -- in the order workers received them (oldest first)
  since : Sub → List Msg := fun _ => []        -- taken while the subscriber was in the map
  log : List Ev := []                          -- most recent first

def init (c : Cfg) : St := { ws := List.replicate c.nworkers .idle }

inductive Act where
  -- environment
  | subCall | unsubCall (k : Sub) | pubCall (p : Nat) | statsCall | waitCall
  | cancelCall (i : Nat) | stop | openSub (k : Sub) | gateSub (k : Sub)
  | observeQuiet | census
  -- calls completing
  | enqSub (i : Nat) | enqUnsub (i : Nat) | callAbort (i : Nat) | waitRet (i : Nat)
  -- event loop
  | loopSubQ | loopSub (i : Nat) | loopUnsubQ | loopUnsub (i : Nat) | loopStats (i : Nat)
  | loopTake (i : Nat) | loopSend (accept : Bool) | loopSendAbort | loopExit
  -- dispatch workers
  | wRecv (w : Nat) | wStart (w : Nat) | wNext (w : Nat) (k : Sub) | wDone (w : Nat)
  | wAbandon (w : Nat) | wExit (w : Nat)
  -- sends to subscribers, subscribers
  | deliver (k : Sub) (m : Msg) | handoff (k : Sub) (m : Msg) | sendAbort (k : Sub) (m : Msg)
  | recv (k : Sub)
  deriving DecidableEq, Repr, Inhabited

def Act.internal : Act → Bool
  | .subCall | .unsubCall _ | .pubCall _ | .statsCall | .waitCall
  | .cancelCall _ | .stop | .openSub _ | .gateSub _ | .observeQuiet | .census => false
  | _ => true

def Call.isPubOf (p : Nat) (cl : Call) : Bool :=
  match cl.kind with
  | .pub m => m.1 == p
  | _ => false

def Call.msgs (cl : Call) : List Msg :=
  match cl.kind with
  | .pub m => [m]
  | _ => []

def Worker.msgs : Worker → List Msg
  | .got m => [m]
  | .iter m _ _ => [m]
  | _ => []

def Loop.msgs : Loop → List Msg
  | .sending m => [m]
  | _ => []

def insertSub (k : Sub) (l : List Sub) : List Sub := if k ∈ l then l else l ++ [k]

/-- sends of message `m` still in progress -/
def pendingOf (m : Msg) (sends : List (Sub × Msg)) : List (Sub × Msg) := sends.filter (fun p => p.2 == m)

/-- the range may end: every key that was in the map when it started and still is was yielded -/
def rangeDone (subs start visited : List Sub) : Bool :=
  start.all (fun k => !subs.contains k || visited.contains k)

/-- `dist.Send` on the four back-ends: the new buffer and what was discarded, `none` = blocks -/
def sendTo (b : Backend) (buf : List Msg) (m : Msg) (accept : Bool) : Option (List Msg × List Msg) :=
  match b with
  | .fifo => if accept then some (buf ++ [m], []) else none
  | .blocking cap => if accept && buf.length < cap then some (buf ++ [m], []) else none
  | .shedding hard =>
    if accept then (if buf.length < hard then some (buf ++ [m], []) else none)
    else (if buf.isEmpty then none else some (buf, [m]))
  | .evicting cap =>
    if !accept then none
    else if buf.length < cap then some (buf ++ [m], [])
    else match buf with
      | [] => some ([m], [])            -- capacity 0 cannot be constructed (NewDeque rejects it)
      | x :: rest => some (rest ++ [m], [x])

def allExited (ws : List Worker) : Bool := ws.all (fun w => w == .exited)

def pendingApi (calls : List Call) : Nat := (calls.filter (fun cl => cl.kind != .wait)).length
def pendingWaits (calls : List Call) : Nat :=
  (calls.filter (fun cl => cl.kind == .wait && !cl.cancelled)).length
def zombies (calls : List Call) : Nat := (calls.filter (fun cl => cl.cancelled)).length

/-- broker goroutines alive: event loop, workers, sends in progress -/
def alive (s : St) : Nat :=
  (if s.loop == .exited then 0 else 1) + (s.ws.filter (fun w => w != .exited)).length + s.sends.length

/-- every subscriber that was ever handed out is receiving -/
def allOpen (s : St) : Bool := (List.range s.nextSub).all s.isOpen

/-- one step of everything but `observeQuiet`/`census` (which need to know what is enabled) -/
def stepCore (c : Cfg) (s : St) : Act → Option St
  -- ---------------------------------------------------------------- environment
  | .subCall =>
    some { s with calls := s.calls ++ [{ kind := .sub s.nextSub }], nextSub := s.nextSub + 1 }
  | .unsubCall k =>
    some { s with calls := s.calls ++ [{ kind := .unsub k }], log := .unsubCall k :: s.log }
  | .pubCall p =>
    if s.calls.any (Call.isPubOf p) then none
    else
      let m : Msg := (p, s.nextSeq p)
      some { s with calls := s.calls ++ [{ kind := .pub m }], nextSeq := upd s.nextSeq p (s.nextSeq p + 1),
                    published := m :: s.published, log := .pubCall m :: s.log }
  | .statsCall => some { s with calls := s.calls ++ [{ kind := .stats }] }
  | .waitCall => some { s with calls := s.calls ++ [{ kind := .wait }] }
  | .cancelCall i =>
    match s.calls[i]? with
    | some cl => some { s with calls := s.calls.set i { cl with cancelled := true } }
    | none => none
  | .stop => some { s with live := false, log := .stop :: s.log }
  | .openSub k => some { s with isOpen := upd s.isOpen k true }
  | .gateSub k => some { s with isOpen := upd s.isOpen k false }
  | .observeQuiet => none
  | .census => none
  -- ---------------------------------------------------------------- calls completing
  | .enqSub i =>
    match s.calls[i]? with
    | some { kind := .sub k, .. } =>
      if s.subQ.length < c.bufSize then
        some { s with subQ := s.subQ ++ [k], calls := s.calls.eraseIdx i, log := .subRet k :: s.log }
      else none
    | _ => none
  | .enqUnsub i =>
    match s.calls[i]? with
    | some { kind := .unsub k, .. } =>
      if s.unsubQ.length < c.bufSize then
        some { s with unsubQ := s.unsubQ ++ [k], calls := s.calls.eraseIdx i }
      else none
    | _ => none
  | .callAbort i =>
    match s.calls[i]? with
    | some cl =>
      if cl.cancelled then some { s with calls := s.calls.eraseIdx i, fin := cl.msgs ++ s.fin } else none
    | none => none
  | .waitRet i =>
    match s.calls[i]? with
    | some { kind := .wait, .. } =>
      if s.loop == .exited && allExited s.ws then some { s with calls := s.calls.eraseIdx i } else none
    | _ => none
  -- ---------------------------------------------------------------- event loop
  | .loopSubQ =>
    match s.loop, s.subQ with
    | .select, k :: rest => some { s with subQ := rest, subs := insertSub k s.subs }
    | _, _ => none
  | .loopSub i =>
    match s.loop, s.calls[i]? with
    | .select, some { kind := .sub k, .. } =>
      some { s with subs := insertSub k s.subs, calls := s.calls.eraseIdx i, log := .subRet k :: s.log }
    | _, _ => none
  | .loopUnsubQ =>
    match s.loop, s.unsubQ with
    | .select, k :: rest => some { s with unsubQ := rest, subs := s.subs.erase k, since := upd s.since k [] }
    | _, _ => none
  | .loopUnsub i =>
    match s.loop, s.calls[i]? with
    | .select, some { kind := .unsub k, .. } =>
      some { s with subs := s.subs.erase k, since := upd s.since k [], calls := s.calls.eraseIdx i }
    | _, _ => none
  | .loopStats i =>
    match s.loop, s.calls[i]? with
    | .select, some { kind := .stats, .. } => some { s with calls := s.calls.eraseIdx i }
    | _, _ => none
  | .loopTake i =>
    match s.loop, s.calls[i]? with
    | .select, some { kind := .pub m, .. } =>
      some { s with loop := .sending m, calls := s.calls.eraseIdx i, taken := s.taken ++ [m],
                    since := fun k => if k ∈ s.subs then s.since k ++ [m] else s.since k,
                    log := .pubRet m :: s.log }
    | _, _ => none
  | .loopSend accept =>
    match s.loop with
    | .sending m =>
      match sendTo c.backend s.buf m accept with
      | some (buf', dropped) => some { s with loop := .select, buf := buf', fin := dropped ++ s.fin }
      | none => none
    | _ => none
  | .loopSendAbort =>
    match s.loop with
    | .sending m => if s.live then none else some { s with loop := .select, fin := m :: s.fin }
    | _ => none
  | .loopExit =>
    match s.loop with
    | .select => if s.live then none else some { s with loop := .exited }
    | _ => none
  -- ---------------------------------------------------------------- dispatch workers
  | .wRecv w =>
    match s.ws[w]? with
    | some .idle =>
      match s.buf, s.loop with
      | m :: rest, _ => some { s with buf := rest, ws := s.ws.set w (.got m), dispatched := s.dispatched ++ [m] }
      | [], .sending m =>
        -- a receiver meets the sender blocked in `Send` (rendezvous of an unbuffered channel)
        match c.backend with
        | .blocking _ =>
          some { s with loop := .select, ws := s.ws.set w (.got m), dispatched := s.dispatched ++ [m] }
        | _ => none
      | [], _ => none
    | _ => none
  | .wStart w =>
    match s.ws[w]? with
    | some (.got m) => some { s with ws := s.ws.set w (.iter m s.subs []) }
    | _ => none
  | .wNext w k =>
    match s.ws[w]? with
    | some (.iter m start visited) =>
      if k ∈ s.subs && !visited.contains k && (c.parallel || (pendingOf m s.sends).isEmpty) then
        some { s with ws := s.ws.set w (.iter m start (k :: visited)), sends := s.sends ++ [(k, m)] }
      else none
    | _ => none
  | .wDone w =>
    match s.ws[w]? with
    | some (.iter m start visited) =>
      if rangeDone s.subs start visited && (pendingOf m s.sends).isEmpty then
        some { s with ws := s.ws.set w .idle, fin := m :: s.fin }
      else none
    | _ => none
  | .wAbandon w =>
    -- the context is done: the range stops, `wg.Wait(ctx)` returns, sends in progress are left behind
    if s.live then none
    else match s.ws[w]? with
      | some (.got m) => some { s with ws := s.ws.set w .idle, fin := m :: s.fin }
      | some (.iter m _ _) => some { s with ws := s.ws.set w .idle, fin := m :: s.fin }
      | _ => none
  | .wExit w =>
    if s.live then none
    else match s.ws[w]? with
      | some .idle => some { s with ws := s.ws.set w .exited }
      | _ => none
  -- ---------------------------------------------------------------- sends, subscribers
  | .deliver k m =>
    if (k, m) ∈ s.sends && (s.chan k).length < c.bufSize then
      some { s with sends := s.sends.erase (k, m), chan := upd s.chan k (s.chan k ++ [m]) }
    else none
  | .handoff k m =>
    if (k, m) ∈ s.sends && (s.chan k).isEmpty && s.isOpen k then
      some { s with sends := s.sends.erase (k, m), recvd := upd s.recvd k (s.recvd k ++ [m]),
                    log := .recv k m :: s.log }
    else none
  | .sendAbort k m =>
    if (k, m) ∈ s.sends && !s.live then some { s with sends := s.sends.erase (k, m) } else none
  | .recv k =>
    match s.chan k with
    | m :: rest =>
      if s.isOpen k then
        some { s with chan := upd s.chan k rest, recvd := upd s.recvd k (s.recvd k ++ [m]), log := .recv k m :: s.log }
      else none
    | [] => none

/-! ### the enabled internal actions (finitely many candidates, read off the state) -/

def callIdx (s : St) : List Nat := List.range s.calls.length
def workerIdx (s : St) : List Nat := List.range s.ws.length

def candidates (s : St) : List Act :=
  (callIdx s).flatMap (fun i => [.enqSub i, .enqUnsub i, .callAbort i, .waitRet i, .loopSub i, .loopUnsub i,
                                  .loopStats i, .loopTake i])
  ++ [.loopSubQ, .loopUnsubQ, .loopSend true, .loopSend false, .loopSendAbort, .loopExit]
  ++ (workerIdx s).flatMap (fun w => [.wRecv w, .wStart w, .wDone w, .wAbandon w, .wExit w]
                                      ++ s.subs.map (fun k => Act.wNext w k))
  ++ s.sends.flatMap (fun p => [.deliver p.1 p.2, .handoff p.1 p.2, .sendAbort p.1 p.2])
  ++ (List.range s.nextSub).map (fun k => Act.recv k)

def enabledInternal (c : Cfg) (s : St) : List Act :=
  (candidates s).filter (fun a => (stepCore c s a).isSome)

def quiescent (c : Cfg) (s : St) : Bool := (enabledInternal c s).isEmpty

def step (c : Cfg) (s : St) : Act → Option St
  | .observeQuiet =>
    if quiescent c s then
      some { s with log := .quiet (s.live && allOpen s) (pendingApi s.calls) (pendingWaits s.calls)
                              (zombies s.calls) :: s.log }
    else none
  | .census => if quiescent c s then some { s with log := .census (alive s) :: s.log } else none
  | a => stepCore c s a

def run (c : Cfg) (s : St) (acts : List Act) : Option St := acts.foldlM (step c) s

def Reachable (c : Cfg) (s : St) : Prop := ∃ acts, run c (init c) acts = some s

/-! ### what is read off a log (most recent first) -/

/-- the messages subscriber `k` received, oldest first -/
def recvs (k : Sub) : List Ev → List Msg
  | [] => []
  | .recv k' m :: l => if k' = k then recvs k l ++ [m] else recvs k l
  | _ :: l => recvs k l

/-- `b` occurs and `a` occurs before it (= deeper in the list) -/
def seenAfter (a b : Ev) : List Ev → Bool
  | [] => false
  | e :: l => (e == b && l.contains a) || seenAfter a b l

def stopped (l : List Ev) : Bool := l.contains .stop

/-- the part of the log that is older than the first `stop` -/
def liveLog : List Ev → List Ev
  | [] => []
  | e :: l => if l.contains .stop then liveLog l else if e == .stop then l else e :: l

def subsOf : List Ev → List Sub
  | [] => []
  | .subRet k :: l => k :: subsOf l
  | _ :: l => subsOf l

def pubRets : List Ev → List Msg
  | [] => []
  | .pubRet m :: l => m :: pubRets l
  | _ :: l => pubRets l

/-- `m` belongs to the window of subscriber `k` as far as the log (the past of a quiet point) knows:
    its Publish call started after Subscribe returned `k`, it returned, and Unsubscribe(k) has not
    been called -/
def inWindow (l : List Ev) (k : Sub) (m : Msg) : Bool :=
  seenAfter (.subRet k) (.pubCall m) l && l.contains (.pubRet m) && !l.contains (.unsubCall k)

/-- the two sequences order their common elements in the same way -/
def consistent (l1 l2 : List Msg) : Bool := l1.filter (l2.contains ·) == l2.filter (l1.contains ·)

def increasing : List Nat → Bool
  | [] => true
  | [_] => true
  | a :: b :: l => decide (a < b) && increasing (b :: l)

/-- a subscriber sees each publisher's messages in the order they were published -/
def pubOrdered (ms : List Msg) : Bool :=
  (ms.map (·.1)).all (fun p => increasing ((ms.filter (·.1 == p)).map (·.2)))

/-- the check made of every event against its past -/
def checkEvent (c : Cfg) (l : List Ev) : Ev → Bool
  | .recv k m => !(recvs k l).contains m && l.contains (.pubCall m)
  | .quiet good pending waits zombies =>
    zombies == 0 && (!good || pending == 0)
    && (!(good && c.lossless) || (subsOf l).all (fun k => (pubRets l).all (fun m =>
          !inWindow l k m || (recvs k l).contains m)))
    && (!stopped l || waits == 0)
  | .census n => !stopped l || n == 0
  | _ => true

def eventsOk (c : Cfg) : List Ev → Bool
  | [] => true
  | e :: l => checkEvent c l e && eventsOk c l

/-- one dispatch worker: while the context is live all subscribers see one order, in which every
    publisher's messages keep their order -/
def orderOk (c : Cfg) (l : List Ev) : Bool :=
  c.nworkers != 1 ||
    ((subsOf l).all (fun k => pubOrdered (recvs k l)
      && (subsOf l).all (fun k' => consistent (recvs k l) (recvs k' l))))

/-- the outcome predicate (T-out): evaluated by the driver on the log observed on the real
    broker, proved for the log of every reachable state (`FunProps.C08.allowed_of_reachable`) -/
def allowed (c : Cfg) (l : List Ev) : Bool := eventsOk c l && orderOk c (liveLog l)

end FunModel.Broker
