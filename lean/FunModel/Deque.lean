import FunModel.Conc

/-! `pubsub.Deque` (deque.go, tracker.go) as a `Conc.Subject` (C06, C07, C20).

    Conditions: 0 = `nfront`, 1 = `nback`, 2 = `updates`.
    The circular doubly linked list is kept as the list `q` of linked elements, front first
    (`root.next` = head of `q`, `root.prev` = last of `q`, element 0 = the root sentinel). Elements
    have identities because the non-destructive iterators keep a pointer to the element they
    yielded last, and `pop` deliberately leaves `next`/`prev` of the removed element untouched
    (deque.go:421-424): `stale` records what a removed element still points at. -/
namespace FunModel.Deque
open FunModel.Conc

/-- the three limit trackers of tracker.go (`queueLimitTrackerImpl` keeps its burst credit in a
    float64; the executable model uses Lean's IEEE double, theorems never look inside it) -/
inductive Tracker where
  | noLimit (length : Nat)                                   -- queueNoLimitTrackerImpl
  | hard (capacity length : Nat)                             -- queueHardLimitTracker
  | soft (softQuota hardLimit length : Nat) (credit : Float) -- queueLimitTrackerImpl
  deriving Repr

namespace Tracker
def len : Tracker → Nat
  | .noLimit l => l
  | .hard _ l => l
  | .soft _ _ l _ => l

/-- `cap()`; `none` = math.MaxInt -/
def cap : Tracker → Option Nat
  | .noLimit _ => none
  | .hard c _ => some c
  | .soft sq _ _ _ => some sq

/-- `cap() > len()` -/
def hasRoom (t : Tracker) : Bool :=
  match t.cap with
  | none => true
  | some c => c > t.len

/-- `cap() == len()` -/
def atCap (t : Tracker) : Bool :=
  match t.cap with
  | none => false
  | some c => c == t.len

inductive AddRes | ok | full | noCredit
  deriving Repr, DecidableEq

/-- `add()`; the tracker is untouched when it refuses -/
def add : Tracker → Tracker × AddRes
  | .noLimit l => (.noLimit (l + 1), .ok)
  | .hard c l => if l ≥ c then (.hard c l, .full) else (.hard c (l + 1), .ok)
  | .soft sq hl l cr =>
    if l ≥ sq then
      if l == hl then (.soft sq hl l cr, .full)
      else if cr < 1 then (.soft sq hl l cr, .noCredit)
      else (.soft (l + 1) hl (l + 1) (cr - 1), .ok)
    else (.soft sq hl (l + 1) cr, .ok)

/-- `remove()` (the deque only calls it for a linked element, so `length > 0`) -/
def remove : Tracker → Tracker
  | .noLimit l => .noLimit (l - 1)
  | .hard c l => .hard c (l - 1)
  | .soft sq hl l cr =>
    let l' := l - 1
    if l' < sq then
      let sq' := if sq > 1 && l' < sq / 2 then sq - 1 else sq
      let cr' := cr + (Float.ofNat (sq' - l')) / (Float.ofNat sq')
      let lenCap := Float.ofNat (hl - sq')
      .soft sq' hl l' (if cr' > lenCap then lenCap else cr')
    else .soft sq hl l' cr

/-- the bound `Len` can never exceed: capacity / hard limit (`none` = unlimited) -/
def limit : Tracker → Option Nat
  | .noLimit _ => none
  | .hard c _ => some c
  | .soft _ hl _ _ => some hl
end Tracker

/-- which end of the deque; for the iterators `front` = the forward direction (`dqNext`:
    starts at the front and follows `next`), `back` = the reverse direction (`dqPrev`) -/
inductive End where
  | front | back
  deriving Repr, DecidableEq

def End.opp : End → End
  | .front => .back
  | .back => .front

/-- the condition a waiter in direction `d` uses when the link it watches is the root
    (`element.wait`: `dqNext` and `it.next.isRoot()` ⇒ `nfront`; `dqPrev` and `it.prev.isRoot()` ⇒ `nback`) -/
def End.cond : End → Nat
  | .front => 0
  | .back => 1

inductive Op where
  | push (e : End) (v : Int)         -- PushFront / PushBack
  | fpush (e : End) (v : Int)        -- ForcePushFront / ForcePushBack
  | pop (e : End)                    -- PopFront / PopBack
  | wait (e : End)                   -- WaitFront / WaitBack
  | wpush (e : End) (v : Int)        -- WaitPushFront / WaitPushBack
  | len
  | close
  | next (d : End) (blocking : Bool) (k : Nat)
      -- one call of iterator k of kind Producer / ProducerReverse / ProducerBlocking / ProducerReverseBlocking
  deriving Repr, DecidableEq

/-- what an operation returns (rendered by `Res.str` exactly as harness/c06.go prints it) -/
inductive Res where
  | ok | closed | full | nocredit       -- nil / ErrQueueClosed / ErrQueueFull / ErrQueueNoCredit
  | none                                -- a pop's `ok == false`
  | ctx                                 -- the context's error
  | eof                                 -- io.EOF of an iterator
  | val (v : Int)                       -- an item
  | num (n : Nat)                       -- Len
  | bad                                 -- (a resume of an operation that cannot park: unreachable)
  deriving Repr, DecidableEq

def Res.str : Res → String
  | .ok => "ok" | .closed => "closed" | .full => "full" | .nocredit => "nocredit" | .none => "none"
  | .ctx => "ctx" | .eof => "eof" | .val v => toString v | .num n => toString n | .bad => "bad-resume"

/-- how a segment ends, with the structured result -/
inductive FinR where
  | ret (r : Res)
  | park (c : Nat)
  deriving Repr, DecidableEq

def FinR.out : FinR → SegEnd
  | .ret r => .ret r.str
  | .park c => .park c

structure St where
  tracker : Tracker
  closed : Bool := false
  q : List (Nat × Int) := []             -- linked elements, front first: (element id, item)
  stale : List (Nat × Nat × Nat) := []   -- removed element ↦ (next, prev) it still points at
  vals : List (Nat × Int) := []          -- every element ever created
  nextId : Nat := 1                      -- 0 is the root sentinel
  cursors : List (Nat × Nat) := []       -- iterator key ↦ element it points at (0 = root; absent = nil)
  deriving Repr

/-- outcome of a segment with the structured result; `SegR.out` is what `Conc` sees -/
structure SegR where
  st : St
  sigs : List Sig := []
  fin : FinR

def SegR.out (o : SegR) : SegOut St := { st := o.st, sigs := o.sigs, fin := o.fin.out }

/-- the element that follows `e` in `ids` (0 = the root when `e` is the last one); `none` when
    `e` is not in `ids` -/
def after : List Nat → Nat → Option Nat
  | [], _ => none
  | x :: rest, e => if x == e then some (rest.headD 0) else after rest e

def St.ids (s : St) : List Nat := s.q.map (·.1)

/-- `e.getNextOrPrevious(d)`: `e.next` for `front` (dqNext), `e.prev` for `back` (dqPrev) -/
def St.nbr (s : St) (d : End) (e : Nat) : Nat :=
  let ids := match d with | .front => s.ids | .back => s.ids.reverse
  if e = 0 then ids.headD 0
  else match after ids e with
    | some n => n
    | none =>
      match s.stale.find? (fun p => p.1 == e) with
      | some (_, n, p) => (match d with | .front => n | .back => p)
      | none => 0

def St.valOf (s : St) (e : Nat) : Int := ((s.vals.find? (fun p => p.1 == e)).map (·.2)).getD 0
def St.cursor (s : St) (k : Nat) : Nat := ((s.cursors.find? (fun p => p.1 == k)).map (·.2)).getD 0
def St.setCursor (s : St) (k c : Nat) : St := { s with cursors := (k, c) :: s.cursors.filter (fun p => p.1 != k) }

/-- `addAfter(value, root)` (front) / `addAfter(value, root.prev)` (back) -/
def addEnd (s : St) (d : End) (v : Int) : St × Res × List Sig :=
  if s.closed then (s, .closed, [])
  else
    match s.tracker.add with
    | (_, .full) => (s, .full, [.broadcast 2])
    | (_, .noCredit) => (s, .nocredit, [.broadcast 2])
    | (tr, .ok) =>
      let e := s.nextId
      let wasEmpty := s.q.isEmpty
      let q' := match d with | .front => (e, v) :: s.q | .back => s.q ++ [(e, v)]
      -- `it.prev.isRoot()` ⇒ nfront.Signal ; `it.next.isRoot()` ⇒ nback.Signal ; updates.Signal
      let sg := match d with
        | .front => [Sig.signal 0] ++ (if wasEmpty then [Sig.signal 1] else []) ++ [Sig.signal 2]
        | .back => (if wasEmpty then [Sig.signal 0] else []) ++ [Sig.signal 1, Sig.signal 2]
      ({ s with tracker := tr, q := q', vals := (e, v) :: s.vals, nextId := e + 1 }, .ok, sg)

/-- `pop(root.next)` (front) / `pop(root.prev)` (back). The deferred calls run in reverse order of
    their `defer` statements: updates.Broadcast, then nback.Signal, then nfront.Signal. -/
def popEnd (s : St) (d : End) : St × Option Int × List Sig :=
  if s.closed then (s, none, [])
  else match d with
    | .front =>
      match s.q with
      | [] => (s, none, [])                  -- `it.isRoot()`
      | (e, v) :: rest =>
        let nx := (rest.map (·.1)).headD 0
        ({ s with q := rest, tracker := s.tracker.remove, stale := (e, nx, 0) :: s.stale }, some v,
         [Sig.broadcast 2] ++ (if rest.isEmpty then [Sig.signal 1] else []) ++ [Sig.signal 0])
    | .back =>
      match s.q.getLast? with
      | none => (s, none, [])
      | some (e, v) =>
        let rest := s.q.dropLast
        let pv := ((rest.map (·.1)).getLast?).getD 0
        ({ s with q := rest, tracker := s.tracker.remove, stale := (e, 0, pv) :: s.stale }, some v,
         [Sig.broadcast 2, Sig.signal 1] ++ (if rest.isEmpty then [Sig.signal 0] else []))

/-- `ForcePushFront` / `ForcePushBack` -/
def forcePush (s : St) (d : End) (v : Int) : St × Res × List Sig :=
  if s.tracker.atCap then
    let (s1, _, sg1) := popEnd s d.opp
    let (s2, r, sg2) := addEnd s1 d v
    (s2, r, sg1 ++ sg2)
  else addEnd s d v

/-- `waitPop`, from the test of the loop in `root.wait` onwards (`first` = the helper has just been
    spawned; the context cannot be done yet) -/
def waitPopLoop (s : St) (d : End) (cancelled : Bool) (pre : List Sig) : SegR :=
  if s.q.isEmpty then
    -- `for next == it.getNextOrPrevious(direction)`
    if s.closed then { st := s, sigs := pre, fin := .ret .closed }
    else if cancelled then { st := s, sigs := pre ++ [.signal d.cond], fin := .ret .ctx }
    else { st := s, sigs := pre ++ [.signal d.cond], fin := .park d.cond }
  else if s.closed then
    -- wait returned nil, `pop` refuses on a closed deque, next round of `waitPop` sees `closed`
    { st := s, sigs := pre, fin := .ret .closed }
  else
    match popEnd s d with
    | (s', some v, sg) => { st := s', sigs := pre ++ sg, fin := .ret (.val v) }
    | (s', none, sg) => { st := s', sigs := pre ++ sg, fin := .ret .closed }

/-- `waitPushAfter` from the test of its `for` loop onwards -/
def waitPushLoop (s : St) (d : End) (v : Int) (cancelled : Bool) (pre : List Sig) : SegR :=
  if !s.tracker.hasRoom then
    if s.closed then { st := s, sigs := pre, fin := .ret .closed }
    else if cancelled then { st := s, sigs := pre ++ [.signal 2], fin := .ret .ctx }
    else { st := s, sigs := pre ++ [.signal 2], fin := .park 2 }
  else
    let (s', r, sg) := addEnd s d v
    { st := s', sigs := pre ++ sg, fin := .ret r }

def cursorKey (d : End) (blocking : Bool) (k : Nat) : Nat :=
  4 * k + (match d with | .front => 0 | .back => 2) + (if blocking then 1 else 0)

/-- the tail of `confProducer`'s closure: look at the neighbour, stop at the root, else advance
    (`current == nil ⇒ current = root` is the default 0 of `cursor`) -/
def iterYield (s : St) (key : Nat) (d : End) (c : Nat) : SegR :=
  let n := s.nbr d c
  if n == 0 then { st := s, fin := .ret .eof }
  else { st := s.setCursor key n, fin := .ret (.val (s.valOf n)) }

/-- the condition `element.wait` picks for an iterator standing on `c` whose link in direction `d`
    is the root: on the root itself (empty deque) the condition of that direction; on the last
    (first) element the condition that a push at the back (front) signals -/
def iterCond (d : End) (c : Nat) : Nat := if c = 0 then d.cond else d.opp.cond

/-- `current.wait(ctx, direction)` from the test of its loop onwards, then the tail of the closure -/
def iterLoop (s : St) (key : Nat) (d : End) (cancelled : Bool) (pre : List Sig) : SegR :=
  let c := s.cursor key
  if s.nbr d c == 0 then
    if s.closed then { st := s, sigs := pre, fin := .ret .closed }
    else if cancelled then { st := s, sigs := pre ++ [.signal (iterCond d c)], fin := .ret .ctx }
    else { st := s, sigs := pre ++ [.signal (iterCond d c)], fin := .park (iterCond d c) }
  else iterYield s key d c

def startR (s : St) : Op → SegR
  | .push d v => let (s', r, sg) := addEnd s d v; { st := s', sigs := sg, fin := .ret r }
  | .fpush d v => let (s', r, sg) := forcePush s d v; { st := s', sigs := sg, fin := .ret r }
  | .pop d =>
    match popEnd s d with
    | (s', some v, sg) => { st := s', sigs := sg, fin := .ret (.val v) }
    | (s', none, sg) => { st := s', sigs := sg, fin := .ret .none }
  | .wait d =>
    if s.closed then { st := s, fin := .ret .closed }
    else if s.q.isEmpty then waitPopLoop s d false [.spawn d.cond]
    else waitPopLoop s d false []
  | .wpush d v =>
    if s.tracker.hasRoom then
      -- `if dq.tracker.len() == 0 { defer dq.updates.Signal() }`
      let extra := if s.tracker.len == 0 then [Sig.signal 2] else []
      let (s', r, sg) := addEnd s d v
      { st := s', sigs := sg ++ extra, fin := .ret r }
    else waitPushLoop s d v false [.spawn 2]
  | .len => { st := s, fin := .ret (.num s.tracker.len) }
  | .close => { st := { s with closed := true }, sigs := [.broadcast 0, .broadcast 1, .broadcast 2], fin := .ret .ok }
  | .next d blocking k =>
    let key := cursorKey d blocking k
    let c := s.cursor key
    if s.nbr d c == 0 && blocking then iterLoop s key d false [.spawn (iterCond d c)]
    else iterYield s key d c

def resumeR (s : St) (op : Op) (cancelled : Bool) : SegR :=
  match op with
  | .wait d => waitPopLoop s d cancelled []
  | .wpush d v => waitPushLoop s d v cancelled []
  | .next d true k => iterLoop s (cursorKey d true k) d cancelled []
  | _ => { st := s, fin := .ret .bad }      -- only the three kinds of operation above ever park

def start (s : St) (_t : Nat) (op : Op) : SegOut St := (startR s op).out
def resume (s : St) (_t : Nat) (op : Op) (cancelled : Bool) : SegOut St := (resumeR s op cancelled).out

def itemsStr (s : St) : String := ",".intercalate (s.q.map (fun p => toString p.2))

def condName (c : Nat) : String := if c = 0 then "nfront" else if c = 1 then "nback" else "updates"

def subject : Subject St Op where
  start := start
  resume := resume
  condName := condName
  final := fun s => s!"len={s.tracker.len} closed={if s.closed then 1 else 0} items=[{itemsStr s}]"

/-! ### `DequeOptions.Validate` and `NewDeque` -/

structure QOpts where
  hard : Int
  soft : Int
  burst : Float

structure Opts where
  unlimited : Bool := false
  capacity : Int := 0
  qopts : Option QOpts := none

/-- `QueueOptions.Validate` (queue.go) -/
def QOpts.validate (o : QOpts) : Option QOpts :=
  if o.hard ≤ 0 || o.hard < o.soft then none
  else if o.burst < 0 then none
  else
    let soft := if o.soft ≤ 0 then o.hard else o.soft
    let burst := if o.burst == 0 then Float.ofInt soft else o.burst
    some { hard := o.hard, soft := soft, burst := burst }

/-- `DequeOptions.Validate`, statement by statement; `none` = ErrConfigurationMalformed -/
def Opts.validate (o : Opts) : Option Opts :=
  match o.qopts with
  | some qo =>
    match qo.validate with
    | none => none
    | some qo' =>
      if o.capacity > 0 then none          -- "cannot specify a capcity with queue options"
      else if o.unlimited then none        -- "cannot specify unlimited with another configuration"
      else some { o with qopts := some qo' }
  | none =>
    if o.unlimited && o.capacity == 0 then some o
    else
      let cap := if o.capacity ≤ 0 then 1 else o.capacity
      -- (`opts.Capacity > 0 && opts.QueueOptions != nil` is false here)
      if o.unlimited then none
      else some { o with capacity := cap }

/-- `NewDeque`; the inner `none` is the tracker that stays nil when no branch of the
    constructor applies (unreachable after `Validate`, see `FunProps.C06`) -/
def newDeque (o : Opts) : Option (Option St) :=
  match o.validate with
  | none => none
  | some o =>
    match o.qopts with
    | some qo => some (some { tracker := .soft qo.soft.toNat qo.hard.toNat 0 qo.burst })
    | none =>
      if o.capacity > 0 then some (some { tracker := .hard o.capacity.toNat 0 })
      else if o.unlimited then some (some { tracker := .noLimit 0 })
      else some none

end FunModel.Deque
