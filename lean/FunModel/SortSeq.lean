/-! Sequence-level model of dt/cmp.go (C17): the algorithms of `split`, `merge`, `mergeSort`,
    `SortQuick`, `IsSorted` and `Heap.Push` as they act on the sequence of items. The pointer-level
    versions are in `FunModel/Dll.lean`; the driver cross-checks the two on every sort it runs. -/
namespace FunModel.SortSeq

variable {α : Type}

/-- `split`: moves elements from the front of the list into a new list while more than half remain;
    returns (moved-out front part, remaining back part) -/
def split (xs : List α) : List α × List α :=
  let keep := xs.length / 2
  (xs.take (xs.length - keep), xs.drop (xs.length - keep))

/-- `merge lt a b` -/
def merge (lt : α → α → Bool) : List α → List α → List α
  | [], b => b
  | a, [] => a
  | x :: a, y :: b =>
    if lt x y then x :: merge lt a (y :: b) else y :: merge lt (x :: a) b

/-- `mergeSort`: `tail := split(head)`; sort both; `merge(lt, head, tail)` where `head` is what
    remained (the back part) and `tail` the moved-out front part -/
def mergeSort (lt : α → α → Bool) (xs : List α) (fuel : Nat) : List α :=
  match fuel with
  | 0 => xs
  | fuel + 1 =>
    if xs.length < 2 then xs
    else
      let (front, back) := split xs
      merge lt (mergeSort lt back fuel) (mergeSort lt front fuel)

/-- `SortMerge` -/
def sortMerge (lt : α → α → Bool) (xs : List α) : List α := mergeSort lt xs (xs.length + 1)

/-- specification of `sort.SliceStable`: stable insertion sort -/
def insertStable (lt : α → α → Bool) (e : α) : List α → List α
  | [] => [e]
  | x :: xs => if lt x e then x :: insertStable lt e xs else e :: x :: xs

/-- `SortQuick` -/
def sortQuick (lt : α → α → Bool) (xs : List α) : List α := xs.foldr (insertStable lt) []

/-- `IsSorted`: true for fewer than two elements; otherwise no element is `lt` its predecessor -/
def isSorted (lt : α → α → Bool) : List α → Bool
  | [] => true
  | [_] => true
  | x :: y :: rest => !lt y x && isSorted lt (y :: rest)

/-- `Heap.Push`: scan from the back past every element that `t` is less than; insert there -/
def heapInsert (lt : α → α → Bool) (t : α) (xs : List α) : List α :=
  let rec go : List α → List α      -- on the reversed list
    | [] => [t]
    | x :: rest => if lt t x then x :: go rest else t :: x :: rest
  (go xs.reverse).reverse

end FunModel.SortSeq
