import FunModel.Err

/-! Vocabulary of the regenerated tie for C12 (`lean/FunGen/ErrShapes.lean`, written by
    tools/go2lean/errshapes.go from `ers/merged.go`, `ers/ers.go`, `ers/panic.go`, `internal/wrap.go`).

    The translator reads the *type switches* of `Stack.Push`, `internal.Unwind`, `ers.ParsePanic`, `ers.Ok`
    as ordered tables `Switch α` (one `(patterns, arm)` entry per `case`, in source order, plus the `default`
    arm) and the pointer/field code of `Stack.Resolve/Len/Ok/Unwrap/Is/As` and of the `default` arm of `Push`
    statement by statement over the cell chain below. This file fixes, by hand and once,

      * what a type pattern is (`Pat`) and which patterns each node kind of the model satisfies (`Dyn.ofErr`,
        the documented mapping table — the trusted part of the tie),
      * Go's type-switch rule (`Switch.select`: first case, in source order, one of whose types matches;
        `default` only when none does, wherever it is written),
      * what each arm does to the model's values (`runPush`, `runUnwind`, `runPanic`, `runOk`, …).

    Core Lean only. -/

namespace FunModel.ErrShapes
open FunModel

/-! ## type patterns and dynamic types -/

/-- the types that occur in a `case` of the translated type switches -/
inductive Pat
  | nil          -- `case nil`
  | stackPtr     -- `*Stack` (package ers)
  | unwindMany   -- `interface{ Unwind() []error }` (`[]T` in package internal)
  | unwrapOne    -- `interface{ Unwrap() error }`   (`T`)
  | unwrapMany   -- `interface{ Unwrap() []error }` (`[]T`)
  | okBool       -- `interface{ Ok() bool }`
  | error        -- `error`
  | string       -- `string`
  | errorSlice   -- `[]error`
  deriving DecidableEq, Repr

/-- which patterns the dynamic type of a value satisfies -/
structure Dyn where
  isNil : Bool := false
  stackPtr : Bool := false
  unwindMany : Bool := false
  unwrapOne : Bool := false
  unwrapMany : Bool := false
  okBool : Bool := false
  error : Bool := false
  string : Bool := false
  errorSlice : Bool := false
  deriving DecidableEq, Repr

def Dyn.has (d : Dyn) : Pat → Bool
  | .nil => d.isNil
  | .stackPtr => d.stackPtr
  | .unwindMany => d.unwindMany
  | .unwrapOne => d.unwrapOne
  | .unwrapMany => d.unwrapMany
  | .okBool => d.okBool
  | .error => d.error
  | .string => d.string
  | .errorSlice => d.errorSlice

/-- the nil interface value: matches `case nil` and nothing else -/
def Dyn.nil : Dyn := { isNil := true }
/-- `*ers.Stack`: methods Error, Unwind() []error, Unwrap() error, Ok() bool (and Is, As, Len, … which no
    switch asks for). `FunGen.ErrShapes.stackMethods` re-reads this method set from merged.go. -/
def Dyn.stack : Dyn := { stackPtr := true, unwindMany := true, unwrapOne := true, okBool := true, error := true }

/-- THE MAPPING TABLE: the model's node kinds as Go dynamic types -/
def Dyn.ofErr : Err → Dyn
  | .leaf _ => { error := true }
  | .typed _ _ => { error := true }
  | .wrap _ _ => { error := true, unwrapOne := true }
  | .multi _ _ => { error := true, unwrapMany := true }
  | .unwinder _ _ => { error := true, unwindMany := true }
  | .stack _ => Dyn.stack

def Dyn.ofOpt : Option Err → Dyn
  | none => Dyn.nil
  | some e => Dyn.ofErr e

/-- dynamic types that can exist in Go: the nil interface, `string` and `[]error` are exact types with no
    methods; `*Stack` has exactly its method set; a type has one `Unwrap` method at most. Everything else
    (any combination of the method-set interfaces) is possible for a foreign error type. -/
def Dyn.valid (d : Dyn) : Bool :=
  (!d.isNil || (!d.stackPtr && !d.unwindMany && !d.unwrapOne && !d.unwrapMany && !d.okBool && !d.error
      && !d.string && !d.errorSlice)) &&
  (!d.string || (!d.stackPtr && !d.unwindMany && !d.unwrapOne && !d.unwrapMany && !d.okBool && !d.error
      && !d.errorSlice)) &&
  (!d.errorSlice || (!d.stackPtr && !d.unwindMany && !d.unwrapOne && !d.unwrapMany && !d.okBool && !d.error)) &&
  (!d.stackPtr || (d.unwindMany && d.unwrapOne && !d.unwrapMany && d.okBool && d.error)) &&
  !(d.unwrapOne && d.unwrapMany)

/-! ## type switches -/

/-- a type switch: the `case` clauses in source order (a clause may list several types) and the `default` arm -/
structure Switch (α : Type) where
  cases : List (List Pat × α)
  dflt : α

/-- Go's rule: the first clause, in source order, one of whose types the value's dynamic type satisfies;
    `default` when none does -/
def Switch.select {α : Type} (sw : Switch α) (d : Dyn) : α :=
  match sw.cases.find? (fun c => c.1.any d.has) with
  | some c => c.2
  | none => sw.dflt

/-! ## `(*Stack).Push` -/

/-- what a clause of the switch in `Push` does -/
inductive PushArm
  | ret                    -- `return` (or an empty clause: the switch is the last statement)
  | walkChain              -- `for werr != nil { e.Push(werr.err); werr = werr.next }`
  | pushEach (via : Pat)   -- `for _, x := range werr.Unwind() { e.Push(x) }`  (or `.Unwrap()`)
  | link                   -- the receiver's fields are updated: `FunGen.ErrShapes.stackLink`
  deriving DecidableEq, Repr

/-- does the arm iterate over the children of this node? (`walkChain` needs a `*Stack`, `pushEach via` the
    method of `via`; an arm can only sit under a clause whose type provides what it uses, so the `false`
    answers below are never asked of a table the translator wrote) -/
def opens : Err → PushArm → Bool
  | .stack _, .walkChain => true
  | .stack _, .pushEach .unwindMany => true
  | .unwinder _ _, .pushEach .unwindMany => true
  | .multi _ _, .pushEach .unwrapMany => true
  | _, _ => false

/-- one `Push(e)`: `opened` is the result of pushing the children of `e` one after the other -/
def pushStep (arm : PushArm) (e : Err) (acc opened : List Err) : List Err :=
  match arm with
  | .ret => acc
  | .link => e :: acc
  | a => if opens e a then opened else acc

mutual
/-- `Stack.Push` as dispatched by `sel`; `acc` = the stack's content, most recent first -/
def runPush (sel : Dyn → PushArm) (acc : List Err) : Err → List Err
  | .stack cs => pushStep (sel Dyn.stack) (.stack cs) acc (runPushAll sel acc cs)
  | .unwinder id cs => pushStep (sel (Dyn.ofErr (.unwinder id cs))) (.unwinder id cs) acc (runPushAll sel acc cs)
  | .multi id cs => pushStep (sel (Dyn.ofErr (.multi id cs))) (.multi id cs) acc (runPushAll sel acc cs)
  | .leaf id => pushStep (sel (Dyn.ofErr (.leaf id))) (.leaf id) acc acc
  | .typed ty id => pushStep (sel (Dyn.ofErr (.typed ty id))) (.typed ty id) acc acc
  | .wrap id inner => pushStep (sel (Dyn.ofErr (.wrap id inner))) (.wrap id inner) acc acc
/-- a slice of errors pushed left to right; a nil entry goes through the `nil` clause -/
def runPushAll (sel : Dyn → PushArm) (acc : List Err) : ErrList → List Err
  | .nil => acc
  | .cons e r => runPushAll sel (runPush sel acc e) r
  | .skip r =>
    match sel Dyn.nil with
    | .ret => runPushAll sel acc r
    | _ => []          -- a nil error is not `return`ed from: not the code the model describes
end

/-- `Stack.Add`: what the body of the method is -/
inductive AddBody
  | rangePush          -- `for _, err := range errs { e.Push(err) }`
  deriving DecidableEq, Repr

def runAdd (b : AddBody) (sel : Dyn → PushArm) (acc : List Err) (es : ErrList) : List Err :=
  match b with
  | .rangePush => runPushAll sel acc es

/-! ## the cell chain behind a `*Stack`

    A `*Stack` is a pointer to a node `{count, next, err}`; `Push` only ever rewrites the fields of the head
    node in place and allocates fresh nodes behind it, the nodes behind the head are never modified. So the
    chain is modelled as an immutable list of cells: `[]` = the nil pointer, `c :: rest` = a node with fields
    `c` whose `next` is `rest`. -/

structure Cell where
  count : Int := 0
  err : Option Err := none

abbrev Ptr := List Cell

/-- field reads through a pointer (`none` = nil dereference; the outer `Option` = a panic on the way) -/
def ldCount (p : Option Ptr) : Option Int := do
  match ← p with
  | [] => none
  | c :: _ => pure c.count
def ldErr (p : Option Ptr) : Option (Option Err) := do
  match ← p with
  | [] => none
  | c :: _ => pure c.err
def ldNext (p : Option Ptr) : Option Ptr := do
  match ← p with
  | [] => none
  | _ :: r => pure r

/-- field writes `p.f = v` -/
def stCount (p : Ptr) (v : Int) : Option Ptr :=
  match p with | [] => none | c :: r => some ({ c with count := v } :: r)
def stErr (p : Ptr) (v : Option Err) : Option Ptr :=
  match p with | [] => none | c :: r => some ({ c with err := v } :: r)
def stNext (p : Ptr) (v : Ptr) : Option Ptr :=
  match p with | [] => none | c :: _ => some (c :: v)

/-- `&Stack{count: c, err: x, next: n}` -/
def mkNode (c : Int) (x : Option Err) (n : Ptr) : Ptr := { count := c, err := x } :: n

def ptrIsNil (p : Option Ptr) : Option Bool := p.map List.isEmpty
def errIsNil (p : Option (Option Err)) : Option Bool := p.map Option.isNone
/-- `a || b`: `b` is evaluated (and may panic) only when `a` is false -/
def orP (a b : Option Bool) : Option Bool := do if ← a then pure true else b
def andP (a b : Option Bool) : Option Bool := do if ← a then b else pure false
def notP (a : Option Bool) : Option Bool := a.map (!·)
def cmpP (f : Int → Int → Bool) (a b : Option Int) : Option Bool := do pure (f (← a) (← b))

/-- what a `*Stack` method that returns an `error` returns -/
inductive StackRet
  | nil                      -- `return nil`
  | err (o : Option Err)     -- `return x.err`
  | node (p : Ptr)           -- `return x` for a `*Stack` x

/-- the chain a stack holding `xs` (most recent first) is: built from `Stack{}` by one link per item -/
def tailCells : List Err → Ptr
  | [] => [{}]
  | x :: r => { count := 0, err := some x } :: tailCells r
def ofItems (xs : List Err) : Ptr :=
  match tailCells xs with
  | [] => []
  | c :: r => { c with count := xs.length } :: r

/-- what `Stack.Unwind` / `CheckProducer` list: the `err` fields from the head up to the first nil one -/
def items : Ptr → List Err
  | [] => []
  | c :: r => match c.err with
    | none => []
    | some x => x :: items r

/-- a `*Stack` as an error value of the model -/
def StackRet.toErr : StackRet → Option Err
  | .nil => none
  | .err o => o
  | .node p => some (.stack (ErrList.ofErrs (items p)))

/-- `errors.Is(s, target)` of the standard library for a `*Stack` s and a target that is not a `*Stack`:
    the `Is` method, then `Unwrap()`, again and again; `isM`/`unwrapM` are the two methods -/
def errorsIsStack (isM : Ptr → Nat → Option Bool) (unwrapM : Ptr → Option StackRet) :
    Nat → Ptr → Nat → Option Bool
  | 0, _, _ => none
  | fuel + 1, p, t =>
    match isM p t with
    | none => none
    | some true => some true
    | some false =>
      match unwrapM p with
      | none => none
      | some .nil => some false
      | some (.err o) => some (isOpt o t)
      | some (.node q) => errorsIsStack isM unwrapM fuel q t

/-- `errors.As` likewise; the answer is the id of the node found -/
def errorsAsStack (asM : Ptr → Nat → Option (Option Nat)) (unwrapM : Ptr → Option StackRet) :
    Nat → Ptr → Nat → Option (Option Nat)
  | 0, _, _ => none
  | fuel + 1, p, ty =>
    match asM p ty with
    | none => none
    | some (some id) => some (some id)
    | some none =>
      match unwrapM p with
      | none => none
      | some .nil => some none
      | some (.err o) => some (asOpt o ty)
      | some (.node q) => errorsAsStack asM unwrapM fuel q ty

/-! ## glue: `ers.Join` -/

/-- the statements of `ers.Join` -/
inductive JoinStmt
  | zeroStack     -- `st := Stack{}` / `st := &Stack{}` / `var st Stack`
  | addSpread     -- `st.Add(errs...)`
  | retResolve    -- `return st.Resolve()`
  deriving DecidableEq, Repr

/-- run the statements: `add` = the generated `Stack.Add` on items, `res` = the generated `Stack.Resolve` on a chain -/
def runJoin (body : List JoinStmt) (add : List Err → ErrList → List Err) (res : Ptr → Option StackRet)
    (es : ErrList) : Option (Option Err) :=
  match body with
  | [.zeroStack, .addSpread, .retResolve] => (res (ofItems (add [] es))).map StackRet.toErr
  | _ => none

/-! ## `internal.Unwind` -/

inductive UnwindArm
  | retSparse (via : Pat)   -- `return append(out, sparse(buffer(buf, wi.Unwind()))...)` (or `.Unwrap()`)
  | step                    -- `out = append(out, in); in = wi.Unwrap()`
  | retOut                  -- `return out`
  | retAppendIn             -- `return append(out, in)`
  deriving DecidableEq, Repr

/-- the slice a `[]error` method of the node returns -/
def many : Err → Pat → ErrList
  | .stack cs, .unwindMany => cs
  | .unwinder _ cs, .unwindMany => cs
  | .multi _ cs, .unwrapMany => cs
  | _, _ => .nil

/-- the chain of `*Stack` values `Unwrap()` walks through: each suffix of the items that is not empty -/
def stackSuffixes : List Err → List Err
  | [] => [.stack .nil]
  | [x] => [.stack (ErrList.ofErrs [x])]
  | x :: y :: r => .stack (ErrList.ofErrs (x :: y :: r)) :: stackSuffixes (y :: r)

def unwindStep (arm : UnwindArm) (e : Err) (out next : List Err) : List Err :=
  match arm with
  | .retSparse via => out ++ (many e via).toList      -- `sparse` drops the nil entries
  | .step => next
  | .retOut => out
  | .retAppendIn => out ++ [e]

/-- the `for { switch … }` of `internal.Unwind` on a non-nil error (`next` = the rest of the loop after a `step`;
    the error `Unwrap()` returns is non-nil for a `wrap` node and the next `*Stack` or nil for a stack) -/
def runUnwind (sel : Dyn → UnwindArm) (out : List Err) : Err → List Err
  | .wrap id inner => unwindStep (sel (Dyn.ofErr (.wrap id inner))) (.wrap id inner) out
      (runUnwind sel (out ++ [.wrap id inner]) inner)
  | .stack cs => unwindStep (sel Dyn.stack) (.stack cs) out (out ++ stackSuffixes cs.toList)
  | .leaf id => unwindStep (sel (Dyn.ofErr (.leaf id))) (.leaf id) out out
  | .typed ty id => unwindStep (sel (Dyn.ofErr (.typed ty id))) (.typed ty id) out out
  | .multi id cs => unwindStep (sel (Dyn.ofErr (.multi id cs))) (.multi id cs) out out
  | .unwinder id cs => unwindStep (sel (Dyn.ofErr (.unwinder id cs))) (.unwinder id cs) out out

/-- shape of a helper of `internal.Unwind`, recognised as a whole (locals renamed, comments ignored) -/
inductive Helper
  | sparseDropsNil         -- `sparse`: appends the non-nil items to buf, returns a copy
  | bufferEmptiesBuf       -- `buffer`: returns (buf grown and cut to length 0, slice)
  | growToSize             -- `grow`
  | stackUnwindWalk        -- `Stack.Unwind`: the err fields from the head up to the first nil one
  | ersUnwindDelegates     -- `ers.Unwind(in) = internal.Unwind(in)`
  | futureIsResolve        -- `Stack.Future() = e.Resolve`
  | handlerIsPush          -- `Stack.Handler() = e.Push`
  deriving DecidableEq, Repr

/-! ## `ers.ParsePanic`, `ers.Wrap`, `ers.Ok` -/

/-- the id of the opaque error `fmt.Errorf("[%T]: %v", r, r)` / `New(s)` builds from a non-error payload -/
def idFormatted : Nat := 1002

inductive JoinArg
  | subject             -- the value switched on / the `err` parameter
  | newOfSubject        -- `New(s)` for the string payload
  | fmtOfSubject        -- `fmt.Errorf(…)` of the payload, without %w
  | recoveredPanic      -- `ErrRecoveredPanic`
  | freshNew            -- `errors.New(fmt.Sprint(annotation...))`
  deriving DecidableEq, Repr

inductive RetArm
  | retNil
  | join (args : List JoinArg)     -- `return Join(a, b, …)`
  | joinSpread                     -- `return Join(err...)` for the `[]error` payload
  | retSubject                     -- `return err`
  deriving DecidableEq, Repr

/-- the arguments of a `Join(…)` call when the subject is the (possibly nil) error `e` -/
def joinArgs (e : Option Err) (annot : Nat) : List JoinArg → ErrList
  | [] => .nil
  | .subject :: r => (match e with | none => .skip (joinArgs e annot r) | some x => .cons x (joinArgs e annot r))
  | .recoveredPanic :: r => .cons (.leaf idRecoveredPanic) (joinArgs e annot r)
  | .freshNew :: r => .cons (.leaf annot) (joinArgs e annot r)
  | .newOfSubject :: r => .cons (.leaf idFormatted) (joinArgs e annot r)
  | .fmtOfSubject :: r => .cons (.leaf idFormatted) (joinArgs e annot r)

def runRet (joinF : ErrList → Option (Option Err)) (e : Option Err) (annot : Nat) : RetArm → Option (Option Err)
  | .retNil => some none
  | .join args => joinF (joinArgs e annot args)
  | .joinSpread => none            -- only for a `[]error` payload, which is not an error value of the model
  | .retSubject => some e

/-- `ers.ParsePanic(r)` for r nil or an error value -/
def runPanic (sel : Dyn → RetArm) (joinF : ErrList → Option (Option Err)) (r : Option Err) : Option (Option Err) :=
  runRet joinF r 0 (sel (Dyn.ofOpt r))

inductive OkArm
  | retBool (b : Bool)   -- `return true` / `return false`
  | callOk               -- `return e.Ok()`
  deriving DecidableEq, Repr

/-- `ers.Ok(err)`; `stackOk` = the generated `(*Stack).Ok` on the chain -/
def runOk (sel : Dyn → OkArm) (stackOk : Ptr → Option Bool) (e : Option Err) : Option Bool :=
  match sel (Dyn.ofOpt e) with
  | .retBool b => some b
  | .callOk => match e with
    | some (.stack cs) => stackOk (ofItems cs.toList)
    | _ => none           -- no other node kind of the model has an `Ok() bool` method

/-! ## the precedence the hand-written model (FunModel/Err.lean) assumes

    For every dynamic type — also the foreign ones that implement several of the interfaces, which the model's
    six node kinds do not include — which clause runs. The tie theorems (FunProps/C12Gen.lean) say that the
    regenerated tables select exactly these arms for every valid `Dyn`. -/

/-- `Stack.Push`: nil is ignored; a `*Stack` is walked node by node (although it also has `Unwind`);
    `Unwind() []error` wins over `Unwrap() []error`; everything else is linked as one item -/
def pushArmOf (d : Dyn) : PushArm :=
  if d.isNil then .ret
  else if d.stackPtr then .walkChain
  else if d.unwindMany then .pushEach .unwindMany
  else if d.unwrapMany then .pushEach .unwrapMany
  else .link

/-- `internal.Unwind`: `Unwind() []T` wins over `Unwrap() T` (so a `*Stack` lists its items and is not walked
    as a chain of stacks), then `Unwrap() []T`; nil ends the walk; anything else is a leaf -/
def unwindArmOf (d : Dyn) : UnwindArm :=
  if d.unwindMany then .retSparse .unwindMany
  else if d.unwrapOne then .step
  else if d.unwrapMany then .retSparse .unwrapMany
  else if d.isNil then .retOut
  else .retAppendIn

/-- `ers.ParsePanic` -/
def panicArmOf (d : Dyn) : RetArm :=
  if d.isNil then .retNil
  else if d.error then .join [.subject, .recoveredPanic]
  else if d.string then .join [.newOfSubject, .recoveredPanic]
  else if d.errorSlice then .joinSpread
  else .join [.fmtOfSubject, .recoveredPanic]

/-- `ers.Ok` -/
def okArmOf (d : Dyn) : OkArm :=
  if d.isNil then .retBool true
  else if d.okBool then .callOk
  else .retBool false

/-- every helper the model relies on without translating it -/
def allHelpers : List Helper :=
  [.sparseDropsNil, .bufferEmptiesBuf, .growToSize, .stackUnwindWalk, .ersUnwindDelegates, .futureIsResolve, .handlerIsPush]

end FunModel.ErrShapes
