import FunModel.Err

/-! C11 models (stub, filled in below) -/
namespace FunModel.Orch
end FunModel.Orch
