import FunModel.Err
import FunModel.ErrPolicy

/-! # C11 — Orchestrator, Group, WorkerPool / HandlerWorkerPool, Cleanup

    Assume/guarantee small-step models of `srv/orchestrator.go` and `srv/implementations.go` *as the
    code is written* (tree with the four `fix:` commits of C11; each machine has a `legacy…` switch that
    gives the code before the fix, used only for the kernel-checked counter-examples).

    What is assumed rather than modelled:
    * a `Service` is its C10 contract: `Start` returns nil exactly once (the service is then
      `running`, its `Run` function has been entered once with the context given to that `Start`),
      every other `Start` answers AlreadyStarted / Returned and changes nothing; `Running()` /
      `isFinished` are the `running` / `finished` phases; `Wait` returns once the service is
      `finished`, with the collector holding what `Run` returned (a recovered panic as
      `Join(payload, ErrRecoveredPanic)`);  a call of `Start` is atomic with respect to the
      orchestrator's dispatch of the same service (the case where it is not is the open finding
      `orchestrator:add-during-start`);
    * the unlimited `pubsub.Queue` is its C05 FIFO contract: `Add` appends unless closed, `Remove`
      takes the head, `Wait(ctx)` takes the head as soon as there is one and fails when the queue is
      empty and (closed or `ctx` has ended); a bounded queue may in addition reject an `Add`;
    * `itertool.ParallelForEach` is its C03 contract: a reader hands the iterator's items one by one
      to `n` workers; a worker's result goes through `CanContinueOnError` (the decision table of
      `FunModel.ErrPolicy`); with ContinueOnError/ContinueOnPanic over a finite iterator every item is
      processed exactly once (`FunProps.C03.continue_mode_exactly_once_all_reported`), which is how
      `Cleanup`'s final sweep over its cache is represented (`runJob`, in any order).

    What the Run function of a service / a job does is a parameter (`Outcome`): it returns nil,
    returns an error, panics, or blocks until its context ends (then returns nil or an error); on top
    of that it returns only after the environment has `release`d it (a gate: slow services, services
    that ignore their context).  Environment actions (`Act.isEnv`) may happen at any time.

    Granularity: a step that reads the context and then takes an item from a queue (`Pool.read`,
    `Cln.drain`: `ReadOne` checks `ctx.Err()`, then `Remove`-else-`Wait`) is one action whose guard is
    evaluated at the moment of the context check; the real interleaving "check, cancellation, item
    taken" differs from "item taken, cancellation" only in unobservable positions of the item (pipe /
    cache / reader), which the later steps treat alike.  Restrictions on the environment: each service /
    job is handed over once; group members are fresh; cleanup functions do not block. -/

namespace FunModel.Orch
open FunModel

/-! ## shared -/

inductive Outcome
  | ok
  | err (e : Err)
  | panic (p : Err)
  | block
  | blockErr (e : Err)
  deriving Inhabited

namespace Outcome
/-- waits for its context to end before it returns -/
def blocks : Outcome → Bool
  | .block => true
  | .blockErr _ => true
  | _ => false
def isPanic : Outcome → Bool
  | .panic _ => true
  | _ => false
/-- returns a (non-panic) error -/
def fails : Outcome → Bool
  | .err _ => true
  | .blockErr _ => true
  | _ => false
/-- the error value the caller of the (recovering) function sees -/
def result : Outcome → Option Err
  | .ok => none
  | .block => none
  | .err e => some e
  | .blockErr e => some e
  | .panic p => parsePanicErr (some p)
end Outcome

/-- the content of an `erc.Collector` after the given `Add`s (same definition as `FunModel.C12.collect`) -/
def collect (adds : List (Option Err)) : List Err := flatten (ErrList.ofList adds)

/-- `Service.Wait()` of a finished service whose Run did `o` (C10: the collector holds Run's result) -/
def svcWait (o : Outcome) : Option Err := collectorResolve (collect [o.result])

def idAlreadyStarted : Nat := 1007
def idReturned : Nat := 1008
def idNotStarted : Nat := 1009

def upd {α : Type} (f : Nat → α) (i : Nat) (v : α) : Nat → α := fun j => if j = i then v else f j

@[simp] theorem upd_same {α : Type} (f : Nat → α) (i : Nat) (v : α) : upd f i v i = v := by simp [upd]
@[simp] theorem upd_other {α : Type} (f : Nat → α) (i j : Nat) (v : α) (h : j ≠ i) : upd f i v j = f j := by
  simp [upd, h]

inductive Phase
  | fresh | running | finished
  deriving DecidableEq, Repr, Inhabited

/-! ## Orchestrator (`srv/orchestrator.go`) -/
namespace Orc

structure Cfg where
  outcome : Nat → Outcome
  /-- code before the fix: a service that is running when it is dispatched is waited for with
      `waitFor(ctx)`, which returns as soon as the orchestrator's context ends -/
  legacyWaitFor : Bool := false

inductive AddSt
  | none | live | late      -- `live`: `Add` returned before the orchestrator's context ended
  deriving DecidableEq, Repr, Inhabited

inductive Task
  | none
  | toStart                 -- goroutine spawned for a service that was neither running nor finished
  | awaiting (viaRunning : Bool)   -- blocked in `ss.Wait()` (`viaRunning`: the branch for running services)
  | done                    -- result added to the collector, `wg.Done()`
  deriving DecidableEq, Repr, Inhabited

inductive OPhase
  | idle | looping | draining | returned
  deriving DecidableEq, Repr, Inhabited

/-- what was handed to the orchestrator's collector -/
inductive Entry
  | wait (i : Nat) (complete : Bool)   -- result of service i's Wait (`complete = false`: taken before it finished)
  | startErr (i : Nat) (returned : Bool)
  deriving DecidableEq, Repr, Inhabited

structure St where
  phase : Nat → Phase
  runs : Nat → Nat           -- how often service i's Run function has been entered
  byOrch : Nat → Bool        -- started by the orchestrator (on its context)
  ownEnded : Nat → Bool      -- the context of an outside Start has ended
  released : Nat → Bool
  addSt : Nat → AddSt
  queue : List Nat           -- or.input
  task : Nat → Task
  dispatched : List Nat      -- most recent first
  wg : Nat
  orch : OPhase
  cancelled : Bool           -- the orchestrator's context (parent cancelled or Service.Close)
  coll : List Entry          -- most recent first
  retAtW : Nat → Bool        -- ghost: service i had returned when the orchestrator's Wait returned

inductive Act
  | add (i : Nat) | startOrch | cancel | extStart (i : Nat) | release (i : Nat) | endOwn (i : Nat)
  | svcReturn (i : Nat)
  | loopTake | loopExit | taskStart (i : Nat) | taskCollect (i : Nat) | orchReturn
  deriving DecidableEq, Repr, Inhabited

def Act.isEnv : Act → Bool
  | .add _ | .startOrch | .cancel | .extStart _ | .release _ | .endOwn _ => true
  | _ => false

def init : St :=
  { phase := fun _ => .fresh, runs := fun _ => 0, byOrch := fun _ => false, ownEnded := fun _ => false,
    released := fun _ => false, addSt := fun _ => .none, queue := [], task := fun _ => .none, dispatched := [],
    wg := 0, orch := .idle, cancelled := false, coll := [], retAtW := fun _ => false }

/-- the context service i's Run function was given has ended -/
def St.ctxEnded (s : St) (i : Nat) : Bool := if s.byOrch i then s.cancelled else s.ownEnded i

def step (c : Cfg) (s : St) : Act → Option St
  | .add i =>
    -- `or.Add(s_i)`: the queue is never closed, so it always succeeds (each service is handed over once)
    if s.addSt i = .none then
      some { s with addSt := upd s.addSt i (if s.cancelled then .late else .live), queue := s.queue ++ [i] }
    else none
  | .startOrch => if s.orch = .idle then some { s with orch := .looping } else none
  | .cancel => some { s with cancelled := true }
  | .extStart i =>
    -- somebody else's `s_i.Start(own context)` that returns nil
    if s.phase i = .fresh then
      some { s with phase := upd s.phase i .running, runs := upd s.runs i (s.runs i + 1) }
    else none
  | .release i => some { s with released := upd s.released i true }
  | .endOwn i => some { s with ownEnded := upd s.ownEnded i true }
  | .svcReturn i =>
    if s.phase i = .running ∧ s.released i = true ∧ ((c.outcome i).blocks = true → s.ctxEnded i = true) then
      some { s with phase := upd s.phase i .finished }
    else none
  | .loopTake =>
    -- `Remove()`, else `Wait(ctx)`: the head of the queue; then the three-way dispatch
    match s.orch, s.queue with
    | .looping, i :: q =>
      match s.phase i with
      | .running =>
        some { s with queue := q, task := upd s.task i (.awaiting true), dispatched := i :: s.dispatched, wg := s.wg + 1 }
      | .finished =>
        some { s with queue := q, task := upd s.task i .done, dispatched := i :: s.dispatched,
                      coll := .wait i true :: s.coll }
      | .fresh =>
        some { s with queue := q, task := upd s.task i .toStart, dispatched := i :: s.dispatched, wg := s.wg + 1 }
    | _, _ => none
  | .loopExit =>
    -- `Wait(ctx)` on the empty queue fails once the context has ended
    if s.orch = .looping ∧ s.queue = [] ∧ s.cancelled = true then some { s with orch := .draining } else none
  | .taskStart i =>
    if s.task i = .toStart then
      match s.phase i with
      | .fresh =>
        some { s with phase := upd s.phase i .running, runs := upd s.runs i (s.runs i + 1),
                      byOrch := upd s.byOrch i true, task := upd s.task i (.awaiting false) }
      | .running => some { s with task := upd s.task i (.awaiting false), coll := .startErr i false :: s.coll }
      | .finished => some { s with task := upd s.task i (.awaiting false), coll := .startErr i true :: s.coll }
    else none
  | .taskCollect i =>
    match s.task i with
    | .awaiting via =>
      if s.phase i = .finished then
        some { s with task := upd s.task i .done, wg := s.wg - 1, coll := .wait i true :: s.coll }
      else if c.legacyWaitFor = true ∧ via = true ∧ s.cancelled = true then
        some { s with task := upd s.task i .done, wg := s.wg - 1, coll := .wait i false :: s.coll }
      else none
    | _ => none
  | .orchReturn =>
    -- `wg.Wait()`, `return ec.Resolve()`; the orchestrator's own service finishes and its Wait returns
    if s.orch = .draining ∧ s.wg = 0 then
      some { s with orch := .returned, retAtW := fun i => decide (s.phase i = .finished) }
    else none

def run (c : Cfg) (s : St) (acts : List Act) : Option St := acts.foldlM (step c) s
def Reachable (c : Cfg) (s : St) : Prop := ∃ acts, run c init acts = some s

def entryErr (c : Cfg) : Entry → Option Err
  | .wait i true => svcWait (c.outcome i)
  | .wait _ false => none            -- nothing was in the service's collector yet
  | .startErr i false => some (.wrap (3000 + i) (.leaf idAlreadyStarted))
  | .startErr i true => some (.wrap (3000 + i) (.leaf idReturned))

/-- what the orchestrator's `Run` returns -/
def runResult (c : Cfg) (coll : List Entry) : Option Err := collectorResolve (collect (coll.reverse.map (entryErr c)))
/-- what `Orchestrator.Wait()` returns (the orchestrator's own service: C10 again) -/
def waitResult (c : Cfg) (coll : List Entry) : Option Err := collectorResolve (collect [runResult c coll])

end Orc

/-! ## Group (`srv.Group`) -/
namespace Grp

structure Cfg where
  n : Nat                      -- number of members the iterator yields
  outcome : Nat → Outcome
  /-- code before the fix (D21): `Run` returns as soon as the members have been started -/
  legacyRun : Bool := false
  /-- code before the fix: `wg.Wait(ctx)` gives up waiting for the starters when the context ends -/
  legacyStarters : Bool := false

inductive GPhase
  | idle | iterating | waitStarters | waitMembers | cleanup | done
  deriving DecidableEq, Repr, Inhabited

inductive Starter
  | none | spawned | started | queued | failed
  deriving DecidableEq, Repr, Inhabited

structure St where
  gphase : GPhase
  next : Nat                 -- members 0 … next-1 have been taken from the iterator
  cut : Bool                 -- the iteration ended because the context had ended
  cancelled : Bool           -- the group's own context (parent cancelled or Close)
  runReturned : Bool         -- Run has returned: the members' context is cancelled by the service
  starter : Nat → Starter
  wg : Nat
  phase : Nat → Phase
  runs : Nat → Nat
  released : Nat → Bool
  waiters : List Nat         -- the queue of `s.Wait` functions, oldest first
  closed : Bool
  failed : List Nat          -- starters whose `waiters.Add` hit the closed queue (invariant violation, recovered)
  sawEndLive : Nat → Bool    -- ghost: member i found its context ended while the group's own context was live
  retAtW : Nat → Bool        -- ghost
  deriving Inhabited

inductive Act
  | startGroup | cancel | release (i : Nat)
  | iterNext | iterStop | starterStart (i : Nat) | starterQueue (i : Nat) | startersDone | membersDone
  | cleanupDone | svcReturn (i : Nat)
  deriving DecidableEq, Repr, Inhabited

def Act.isEnv : Act → Bool
  | .startGroup | .cancel | .release _ => true
  | _ => false

def init : St :=
  { gphase := .idle, next := 0, cut := false, cancelled := false, runReturned := false, starter := fun _ => .none,
    wg := 0, phase := fun _ => .fresh, runs := fun _ => 0, released := fun _ => false, waiters := [], closed := false,
    failed := [], sawEndLive := fun _ => false, retAtW := fun _ => false }

/-- the context the members were started with has ended -/
def St.memberCtxEnded (s : St) : Bool := s.cancelled || s.runReturned

def allFinished (s : St) : Bool := s.waiters.all (fun i => decide (s.phase i = .finished))

def step (c : Cfg) (s : St) : Act → Option St
  | .startGroup => if s.gphase = .idle then some { s with gphase := .iterating } else none
  | .cancel => some { s with cancelled := true }
  | .release i => some { s with released := upd s.released i true }
  | .iterNext =>
    -- `services.Next(ctx)` with a live context: the next member (a starter goroutine is spawned) or the end
    if s.gphase = .iterating ∧ s.cancelled = false then
      if s.next < c.n then
        some { s with next := s.next + 1, starter := upd s.starter s.next .spawned, wg := s.wg + 1 }
      else some { s with gphase := .waitStarters }
    else none
  | .iterStop =>
    if s.gphase = .iterating ∧ s.cancelled = true then
      some { s with gphase := .waitStarters, cut := decide (s.next < c.n) }
    else none
  | .starterStart i =>
    -- `ec.Add(s.Start(ctx))`: the member is started even if ctx has ended meanwhile
    if s.starter i = .spawned ∧ s.phase i = .fresh then
      some { s with starter := upd s.starter i .started, phase := upd s.phase i .running, runs := upd s.runs i (s.runs i + 1) }
    else none
  | .starterQueue i =>
    -- deferred: `waiters.Add(s.Wait)` must succeed (invariant), then `wg.Done()`
    if s.starter i = .started then
      if s.closed then some { s with starter := upd s.starter i .failed, failed := i :: s.failed, wg := s.wg - 1 }
      else some { s with starter := upd s.starter i .queued, waiters := s.waiters ++ [i], wg := s.wg - 1 }
    else none
  | .startersDone =>
    -- `wg.Operation().Wait()`, `waiters.Close()`
    if s.gphase = .waitStarters ∧ (s.wg = 0 ∨ (c.legacyStarters = true ∧ s.cancelled = true)) then
      some { s with gphase := .waitMembers, closed := true }
    else none
  | .membersDone =>
    -- Run waits for every queued member, then returns (which cancels the members' context)
    if s.gphase = .waitMembers ∧ (c.legacyRun = true ∨ allFinished s = true) then
      some { s with gphase := .cleanup, runReturned := true }
    else none
  | .cleanupDone =>
    -- Cleanup: one goroutine per queued `Wait`, `wg.Operation().Wait()`, `ec.Resolve()`
    if s.gphase = .cleanup ∧ allFinished s = true ∧ s.wg = 0 then
      some { s with gphase := .done, retAtW := fun i => decide (s.phase i = .finished) }
    else none
  | .svcReturn i =>
    if s.phase i = .running ∧ s.released i = true ∧ ((c.outcome i).blocks = true → s.memberCtxEnded = true) then
      some { s with phase := upd s.phase i .finished,
                    sawEndLive := upd s.sawEndLive i (s.memberCtxEnded && !s.cancelled) }
    else none

def run (c : Cfg) (s : St) (acts : List Act) : Option St := acts.foldlM (step c) s
def Reachable (c : Cfg) (s : St) : Prop := ∃ acts, run c init acts = some s

/-- what was handed to the group's collector when `Cleanup` resolves it -/
def collAdds (c : Cfg) (s : St) : List (Option Err) :=
  s.waiters.map (fun i => svcWait (c.outcome i)) ++
  s.failed.map (fun i => parsePanicErr (some (.wrap (3000 + i) (.leaf idInvariant))))

/-- what `Wait()` of the group returns: Cleanup's `ec.Resolve()` in the group service's own collector -/
def waitResult (c : Cfg) (s : St) : Option Err :=
  collectorResolve (collect [collectorResolve (collect (collAdds c s))])

end Grp

/-! ## WorkerPool / HandlerWorkerPool (`ParallelForEach` over the queue's destructive iterator) -/
namespace Pool

structure Cfg where
  n : Nat
  conf : Conf
  handler : Bool               -- HandlerWorkerPool: errors go to the observer, the processor returns nil
  outcome : Nat → Outcome

inductive AddSt
  | none | accepted | rejected
  deriving DecidableEq, Repr, Inhabited

inductive WSt
  | idle | holding (j : Nat) | busy (j : Nat) | done
  deriving DecidableEq, Repr, Inhabited

structure St where
  started : Bool
  cancelled : Bool           -- the service's context, ended by the environment
  aborted : Bool             -- the worker group's context (a worker that may not continue cancels it)
  closed : Bool              -- the work queue
  runReturned : Bool
  svcDone : Bool
  queue : List Nat
  addSt : Nat → AddSt
  rd : Option Nat            -- the reader holds an item, blocked handing it to a worker
  rdDone : Bool
  ws : List WSt
  runs : Nat → Nat
  released : Nat → Bool
  fin : Nat → Bool
  dropped : List Nat
  coll : List Nat            -- jobs whose result went to the collector, most recent first
  handled : List Nat         -- jobs whose error went to the observer
  finAtW : Nat → Bool        -- ghost

inductive Act
  | startPool | cancel | add (j : Nat) (accept : Bool) | release (j : Nat)
  | shutdown | read | handoff (w : Nat) | drop | rdExit | wstart (w : Nat) | wfinish (w : Nat) | wexit (w : Nat)
  | runReturn | svcReturn
  deriving DecidableEq, Repr, Inhabited

def Act.isEnv : Act → Bool
  | .startPool | .cancel | .add _ _ | .release _ => true
  | _ => false

def init : St :=
  { started := false, cancelled := false, aborted := false, closed := false, runReturned := false, svcDone := false,
    queue := [], addSt := fun _ => .none, rd := none, rdDone := false, ws := [], runs := fun _ => 0,
    released := fun _ => false, fin := fun _ => false, dropped := [], coll := [], handled := [], finAtW := fun _ => false }

/-- the context handed to the jobs and used by the reader has ended -/
def St.wctxEnded (s : St) : Bool := s.cancelled || s.aborted
/-- the service's context has ended (the Shutdown hook closes the queue then) -/
def St.svcCtxEnded (s : St) : Bool := s.cancelled || s.runReturned

def Cfg.cls (c : Cfg) (j : Nat) : ErrClass := classify [] (c.outcome j).result
/-- through the collector (WorkerPool: every result; HandlerWorkerPool: recovered panics only) -/
def Cfg.viaCollector (c : Cfg) (j : Nat) : Bool := !c.handler || (c.outcome j).isPanic
def Cfg.reports (c : Cfg) (j : Nat) : Bool := c.viaCollector j && (canContinue c.conf (c.cls j)).reports != 0
def Cfg.cont (c : Cfg) (j : Nat) : Bool := if c.viaCollector j then (canContinue c.conf (c.cls j)).cont else true
def Cfg.handles (c : Cfg) (j : Nat) : Bool := c.handler && !(c.outcome j).isPanic && (c.outcome j).result.isSome

def step (c : Cfg) (s : St) : Act → Option St
  | .startPool =>
    if s.started = false then some { s with started := true, ws := List.replicate c.n .idle } else none
  | .cancel => some { s with cancelled := true }
  | .add j acc =>
    -- `queue.Add(job)`: a closed queue rejects; a bounded one may reject (Full / NoCredit)
    if s.addSt j = .none ∧ (acc = true → s.closed = false) then
      if acc then some { s with addSt := upd s.addSt j .accepted, queue := s.queue ++ [j] }
      else some { s with addSt := upd s.addSt j .rejected }
    else none
  | .release j => some { s with released := upd s.released j true }
  | .shutdown =>
    if s.started = true ∧ s.svcCtxEnded = true ∧ s.closed = false then some { s with closed := true } else none
  | .read =>
    match s.queue, s.rd with
    | j :: q, none =>
      if s.started = true ∧ s.rdDone = false ∧ s.wctxEnded = false then some { s with queue := q, rd := some j } else none
    | _, _ => none
  | .handoff w =>
    match s.rd, s.ws[w]? with
    | some j, some .idle => some { s with rd := none, ws := s.ws.set w (.holding j) }
    | _, _ => none
  | .drop =>
    match s.rd with
    | some j => if s.wctxEnded = true ∧ s.rdDone = false then
        some { s with rd := none, rdDone := true, dropped := j :: s.dropped } else none
    | none => none
  | .rdExit =>
    if s.started = true ∧ s.rd = none ∧ s.rdDone = false ∧ (s.wctxEnded = true ∨ (s.queue = [] ∧ s.closed = true)) then
      some { s with rdDone := true }
    else none
  | .wstart w =>
    match s.ws[w]? with
    | some (.holding j) => some { s with ws := s.ws.set w (.busy j), runs := upd s.runs j (s.runs j + 1) }
    | _ => none
  | .wfinish w =>
    match s.ws[w]? with
    | some (.busy j) =>
      if s.released j = true ∧ ((c.outcome j).blocks = true → s.wctxEnded = true) then
        some { s with ws := s.ws.set w (if c.cont j then .idle else .done),
                      aborted := s.aborted || !c.cont j,
                      fin := upd s.fin j true,
                      coll := if c.reports j then j :: s.coll else s.coll,
                      handled := if c.handles j then j :: s.handled else s.handled }
      else none
    | _ => none
  | .wexit w =>
    match s.ws[w]? with
    | some .idle => if s.wctxEnded = true ∨ s.rdDone = true then some { s with ws := s.ws.set w .done } else none
    | _ => none
  | .runReturn =>
    if s.started = true ∧ s.runReturned = false ∧ s.rdDone = true ∧ s.ws.all (fun w => decide (w = .done)) = true then
      some { s with runReturned := true }
    else none
  | .svcReturn =>
    if s.runReturned = true ∧ s.closed = true ∧ s.svcDone = false then
      some { s with svcDone := true, finAtW := s.fin }
    else none

def run (c : Cfg) (s : St) (acts : List Act) : Option St := acts.foldlM (step c) s
def Reachable (c : Cfg) (s : St) : Prop := ∃ acts, run c init acts = some s

def heldOf : WSt → List Nat
  | .holding j => [j]
  | _ => []
def busyOf : WSt → List Nat
  | .busy j => [j]
  | _ => []

/-- what `Wait()` of the pool service returns -/
def waitResult (c : Cfg) (coll : List Nat) : Option Err :=
  collectorResolve (collect [collectorResolve (collect (coll.reverse.map (fun j => (c.outcome j).result)))])

/-- no internal action is enabled -/
def Quiescent (c : Cfg) (s : St) : Prop := ∀ a, a.isEnv = false → step c s a = none

end Pool

/-! ## Cleanup (`srv.Cleanup`) -/
namespace Cln

structure Cfg where
  outcome : Nat → Outcome
  /-- code before the fix (D22): what is still in the pipe when Run returns is never run -/
  legacyNoSweep : Bool := false

inductive AddSt
  | none | accepted | rejected
  deriving DecidableEq, Repr, Inhabited

inductive CPhase
  | idle | draining | exited | sweeping | done
  deriving DecidableEq, Repr, Inhabited

structure St where
  cphase : CPhase
  cancelled : Bool
  closed : Bool              -- the pipe
  queue : List Nat           -- the pipe
  cache : List Nat
  todo : List Nat            -- the cache items `ParallelForEach` has not processed yet
  addSt : Nat → AddSt
  runs : Nat → Nat
  ranEarly : Nat → Bool      -- ghost: run before the shutdown began
  coll : List Nat            -- most recent first

inductive Act
  | start | cancel | add (j : Nat) (accept : Bool)
  | drain | runExit | shutdown | beginSweep | runJob (j : Nat) | finish
  deriving DecidableEq, Repr, Inhabited

def Act.isEnv : Act → Bool
  | .start | .cancel | .add _ _ => true
  | _ => false

def init : St :=
  { cphase := .idle, cancelled := false, closed := false, queue := [], cache := [], todo := [], addSt := fun _ => .none,
    runs := fun _ => 0, ranEarly := fun _ => false, coll := [] }

def step (c : Cfg) (s : St) : Act → Option St
  | .start => if s.cphase = .idle then some { s with cphase := .draining } else none
  | .cancel => some { s with cancelled := true }
  | .add j acc =>
    if s.addSt j = .none ∧ (acc = true → s.closed = false) then
      if acc then some { s with addSt := upd s.addSt j .accepted, queue := s.queue ++ [j] }
      else some { s with addSt := upd s.addSt j .rejected }
    else none
  | .drain =>
    -- Run: `iter.ReadOne(ctx)` (context still live), `cache.PushBack(item)`
    match s.cphase, s.queue with
    | .draining, j :: q => if s.cancelled = false then some { s with queue := q, cache := s.cache ++ [j] } else none
    | _, _ => none
  | .runExit =>
    if s.cphase = .draining ∧ (s.cancelled = true ∨ (s.queue = [] ∧ s.closed = true)) then
      some { s with cphase := .exited }
    else none
  | .shutdown =>
    -- the Shutdown hook (`pipe.Close()`) runs once the service's context has ended
    if (s.cphase = .draining ∨ s.cphase = .exited) ∧ (s.cancelled = true ∨ s.cphase = .exited) ∧ s.closed = false then
      some { s with closed := true }
    else none
  | .beginSweep =>
    -- Cleanup hook, after Run returned and Shutdown ran: (fix) move what is left in the pipe into the cache
    if s.cphase = .exited ∧ s.closed = true then
      if c.legacyNoSweep then some { s with cphase := .sweeping, todo := s.cache }
      else some { s with cphase := .sweeping, cache := s.cache ++ s.queue, todo := s.cache ++ s.queue, queue := [] }
    else none
  | .runJob j =>
    -- ParallelForEach (continue on error and on panic) processes one more item of the cache
    if s.cphase = .sweeping ∧ j ∈ s.todo then
      some { s with todo := s.todo.erase j, runs := upd s.runs j (s.runs j + 1), coll := j :: s.coll,
                    ranEarly := upd s.ranEarly j (!s.cancelled) }
    else none
  | .finish =>
    if s.cphase = .sweeping ∧ s.todo = [] then some { s with cphase := .done } else none

def run (c : Cfg) (s : St) (acts : List Act) : Option St := acts.foldlM (step c) s
def Reachable (c : Cfg) (s : St) : Prop := ∃ acts, run c init acts = some s

/-- what `Wait()` of the cleanup service returns: every job's (recovered) result is added to `ec` -/
def waitResult (c : Cfg) (coll : List Nat) : Option Err :=
  collectorResolve (collect [collectorResolve (collect (coll.reverse.map (fun j => (c.outcome j).result)))])

end Cln

/-! ## the outcome predicates evaluated on an observed run (T-out)

    An `Obs` is what the harness reads off its event log for units `0 … n-1`; `obsOf` below gives the
    same record for a state of the model, and `FunProps.C11.*_allowed` proves the predicate for every
    reachable state of the (fixed) model. -/

structure Obs where
  n : Nat
  runs : Nat → Nat            -- how often unit i's function was entered
  accepted : Nat → Bool       -- orch: handed over before the context ended; group: taken from the iterator;
                              -- pools/cleanup: `Add` returned nil
  rejected : Nat → Bool
  retBeforeW : Nat → Bool     -- unit i had returned when Wait returned
  waited : Bool               -- Wait returned
  isBit : Nat → Bool          -- errors.Is(Wait's error, e_i)
  handled : Nat → Bool        -- the pool's observer was given an error that Is e_i
  rp : Bool                   -- errors.Is(Wait's error, ErrRecoveredPanic)
  sawEndLive : Nat → Bool     -- group: the member saw its context end while the group's own context was live
  byConstruct : Nat → Bool    -- orch: the service was started by the orchestrator
  ranEarly : Nat → Bool       -- cleanup: run before the shutdown began

def allUnits (o : Obs) (p : Nat → Bool) : Bool := (List.range o.n).all p

/-- the failure of unit i shows in what Wait returned -/
def reported (out : Nat → Outcome) (o : Obs) (i : Nat) : Bool :=
  (!(out i).fails || o.isBit i) && (!(out i).isPanic || o.rp)

def allowedOrch (out : Nat → Outcome) (o : Obs) : Bool :=
  allUnits o fun i =>
    decide (o.runs i ≤ 1) &&
    (!(o.waited && o.accepted i) || (o.runs i == 1 && o.retBeforeW i && reported out o i)) &&
    (!(o.waited && o.byConstruct i) || o.retBeforeW i)

def allowedGroup (out : Nat → Outcome) (o : Obs) : Bool :=
  allUnits o fun i =>
    decide (o.runs i ≤ 1) && (o.accepted i || o.runs i == 0) && !o.sawEndLive i &&
    (!(o.waited && o.accepted i) || (o.runs i == 1 && o.retBeforeW i && reported out o i))

def allowedPool (handler : Bool) (out : Nat → Outcome) (o : Obs) : Bool :=
  allUnits o fun i =>
    decide (o.runs i ≤ 1) && (o.accepted i || o.runs i == 0) &&
    (!(o.waited && o.runs i == 1) ||
      (o.retBeforeW i && (if handler && !(out i).isPanic then (!(out i).fails || o.handled i) else reported out o i)))

/-- a rest point of a pool (no internal action enabled) while it keeps running: `busy` workers are
    inside a job, `pending` jobs were accepted but have not been started -/
def allowedRest (n busy pending : Nat) (running : Bool) : Bool := !(running && decide (busy < n)) || pending == 0

def allowedCleanup (out : Nat → Outcome) (o : Obs) : Bool :=
  allUnits o fun i =>
    decide (o.runs i ≤ 1) && (o.accepted i || o.runs i == 0) && !o.ranEarly i &&
    (!(o.waited && o.accepted i) || (o.runs i == 1 && o.retBeforeW i && reported out o i))


/-! ## the observation of a model state (what `allowed…` is proved about)

    `ident i` is the identity `errors.Is` is asked for to recognise unit i's error (the harness'
    injected error e_i). -/

def Orc.obsOf (c : Orc.Cfg) (ident : Nat → Nat) (n : Nat) (s : Orc.St) : Obs :=
  { n := n, runs := s.runs, accepted := fun i => decide (s.addSt i = .live), rejected := fun _ => false,
    retBeforeW := s.retAtW, waited := decide (s.orch = .returned),
    isBit := fun i => isOpt (Orc.waitResult c s.coll) (ident i), handled := fun _ => false,
    rp := isOpt (Orc.waitResult c s.coll) idRecoveredPanic, sawEndLive := fun _ => false,
    byConstruct := s.byOrch, ranEarly := fun _ => false }

def Grp.obsOf (c : Grp.Cfg) (ident : Nat → Nat) (n : Nat) (s : Grp.St) : Obs :=
  { n := n, runs := s.runs, accepted := fun i => decide (i < s.next), rejected := fun _ => false,
    retBeforeW := s.retAtW, waited := decide (s.gphase = .done),
    isBit := fun i => isOpt (Grp.waitResult c s) (ident i), handled := fun _ => false,
    rp := isOpt (Grp.waitResult c s) idRecoveredPanic, sawEndLive := s.sawEndLive,
    byConstruct := fun _ => false, ranEarly := fun _ => false }

def Pool.obsOf (c : Pool.Cfg) (ident : Nat → Nat) (n : Nat) (s : Pool.St) : Obs :=
  { n := n, runs := s.runs, accepted := fun i => decide (s.addSt i = .accepted),
    rejected := fun i => decide (s.addSt i = .rejected),
    retBeforeW := s.finAtW, waited := s.svcDone,
    isBit := fun i => isOpt (Pool.waitResult c s.coll) (ident i), handled := fun i => s.handled.contains i,
    rp := isOpt (Pool.waitResult c s.coll) idRecoveredPanic, sawEndLive := fun _ => false,
    byConstruct := fun _ => false, ranEarly := fun _ => false }

def Cln.obsOf (c : Cln.Cfg) (ident : Nat → Nat) (n : Nat) (s : Cln.St) : Obs :=
  { n := n, runs := s.runs, accepted := fun i => decide (s.addSt i = .accepted),
    rejected := fun i => decide (s.addSt i = .rejected),
    retBeforeW := fun i => decide (s.runs i = 1) && decide (s.cphase = .done), waited := decide (s.cphase = .done),
    isBit := fun i => isOpt (Cln.waitResult c s.coll) (ident i), handled := fun _ => false,
    rp := isOpt (Cln.waitResult c s.coll) idRecoveredPanic, sawEndLive := fun _ => false,
    byConstruct := fun _ => false, ranEarly := s.ranEarly }

end FunModel.Orch
