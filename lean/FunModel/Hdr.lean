/-! Model of dt/hdrhist (C19). All quantities are natural numbers: the Go code uses int64/int32
    and the theorems carry the guards under which no Go operation overflows
    (`1 ≤ min`, `max < 2^62`, values `< 2^62`).

    Each definition mirrors one Go function of hdr.go (named in the comment). -/

namespace FunModel.Hdr

/-- `bitLen(x)` of hdr.go for x ≥ 0: number of bits needed to represent x -/
def bitLen (x : Nat) : Nat := if x = 0 then 0 else Nat.log2 x + 1

/-- the Go loop of `bitLen`, step by step (used only to tie `bitLen` to the code's algorithm) -/
def bitLenLoop (fuel : Nat) (x n : Nat) : Nat × Nat :=
  match fuel with
  | 0 => (x, n)
  | fuel + 1 => if x ≥ 0x8000 then bitLenLoop fuel (x >>> 16) (n + 16) else (x, n)

def bitLenGo (x : Nat) : Nat :=
  let (x, n) := bitLenLoop 8 x 0
  let (x, n) := if x ≥ 0x80 then (x >>> 8, n + 8) else (x, n)
  let (x, n) := if x ≥ 0x8 then (x >>> 4, n + 4) else (x, n)
  let (x, n) := if x ≥ 0x2 then (x >>> 2, n + 2) else (x, n)
  if x ≥ 0x1 then n + 1 else n

/-- the fields of `Histogram` that never change after `New` -/
structure Shape where
  lowest : Nat
  highest : Nat
  sigfigs : Nat
  unitMag : Nat          -- unitMagnitude
  halfMag : Nat          -- subBucketHalfCountMagnitude
  bucketCount : Nat
  deriving Repr, DecidableEq

namespace Shape
def subBucketCount (s : Shape) : Nat := 2 ^ (s.halfMag + 1)
def subBucketHalfCount (s : Shape) : Nat := s.subBucketCount / 2
def subBucketMask (s : Shape) : Nat := (s.subBucketCount - 1) <<< s.unitMag
def countsLen (s : Shape) : Nat := (s.bucketCount + 1) * (s.subBucketCount / 2)

/-- `getBucketIndex` -/
def bucketIdx (s : Shape) (v : Nat) : Nat := bitLen (v ||| s.subBucketMask) - s.unitMag - (s.halfMag + 1)
/-- `getSubBucketIdx` -/
def subBucketIdx (s : Shape) (v : Nat) (b : Nat) : Nat := v >>> (b + s.unitMag)
/-- `countsIndex` -/
def countsIndex (s : Shape) (b sb : Nat) : Nat := ((b + 1) <<< s.halfMag) + sb - s.subBucketHalfCount
/-- `countsIndexFor` -/
def countsIndexFor (s : Shape) (v : Nat) : Nat :=
  let b := s.bucketIdx v
  s.countsIndex b (s.subBucketIdx v b)
/-- `valueFromIndex` -/
def valueFromIndex (s : Shape) (b sb : Nat) : Nat := sb <<< (b + s.unitMag)
/-- `sizeOfEquivalentValueRange` -/
def sizeOfRange (s : Shape) (v : Nat) : Nat := 1 <<< (s.unitMag + s.bucketIdx v)
/-- `lowestEquivalentValue` -/
def lowestEquiv (s : Shape) (v : Nat) : Nat :=
  let b := s.bucketIdx v
  s.valueFromIndex b (s.subBucketIdx v b)
/-- `nextNonEquivalentValue` -/
def nextNonEquiv (s : Shape) (v : Nat) : Nat := s.lowestEquiv v + s.sizeOfRange v
/-- `highestEquivalentValue` -/
def highestEquiv (s : Shape) (v : Nat) : Nat := s.nextNonEquiv v - 1
/-- `medianEquivalentValue` -/
def medianEquiv (s : Shape) (v : Nat) : Nat := s.lowestEquiv v + (s.sizeOfRange v >>> 1)

/-- position `i` of the counts array as the iterator reaches it: (bucketIdx, subBucketIdx) -/
def posOfIndex (s : Shape) (i : Nat) : Nat × Nat :=
  if i < s.subBucketCount then (0, i)
  else
    let j := i - s.subBucketCount
    (j / s.subBucketHalfCount + 1, s.subBucketHalfCount + j % s.subBucketHalfCount)

/-- the value the iterator reports at counts position `i` (`valueFromIdx`) -/
def valueAt (s : Shape) (i : Nat) : Nat :=
  let p := s.posOfIndex i
  s.valueFromIndex p.1 p.2
end Shape

/-- `ceil(log2(2·10^sigfigs)) - 1`: the float computation in `New`, as a table (modelled, not verified) -/
def halfMagOf : Nat → Nat
  | 1 => 4
  | 2 => 7
  | 3 => 10
  | 4 => 14
  | 5 => 17
  | _ => 0

/-- the bucket-count loop of `New`: `for smallest <= max { smallest <<= 1; n++ }` -/
def bucketsLoop (fuel : Nat) (smallest max n : Nat) : Nat :=
  match fuel with
  | 0 => n
  | fuel + 1 => if smallest ≤ max then bucketsLoop fuel (smallest <<< 1) max (n + 1) else n

/-- `New(min, max, sigfigs)` -/
def mkShape (min max sig : Nat) : Shape :=
  let halfMag := halfMagOf sig
  let unitMag := Nat.log2 min          -- floor(log2(float64(min))), exact for 1 ≤ min < 2^48
  let sbc := 2 ^ (halfMag + 1)
  { lowest := min, highest := max, sigfigs := sig, unitMag := unitMag, halfMag := halfMag,
    bucketCount := bucketsLoop 64 (sbc <<< unitMag) max 1 }

/-- a histogram: its shape, the counts array and the running total -/
structure Hist where
  shape : Shape
  counts : List Nat
  total : Nat
  deriving Repr, DecidableEq

def Hist.new (min max sig : Nat) : Hist :=
  let s := mkShape min max sig
  { shape := s, counts := List.replicate s.countsLen 0, total := 0 }

def addAt (cs : List Nat) (i n : Nat) : List Nat := cs.set i (cs.getD i 0 + n)

/-- `RecordValues(v, n)`: `none` = the error return, state unchanged -/
def Hist.record (h : Hist) (v n : Nat) : Option Hist :=
  let i := h.shape.countsIndexFor v
  if h.shape.countsLen ≤ i then none
  else some { h with counts := addAt h.counts i n, total := h.total + n }

/-- the scan shared by the iterators: first index at which the running sum reaches `rank` -/
def scanFrom (cs : List Nat) (i acc rank : Nat) : Option Nat :=
  match cs with
  | [] => none
  | c :: rest => if acc + c ≥ rank then some i else scanFrom rest (i + 1) (acc + c) rank

/-- `ValueAtQuantile`, given the rank `countAtPercentile` the Go code computes from the float
    quantile (the float expression is evaluated by the harness and passed in) -/
def Hist.valueAtRank (h : Hist) (rank : Nat) : Nat :=
  if h.total = 0 then 0          -- iterator.next() is false at once
  else match scanFrom h.counts 0 0 rank with
    | some i => h.shape.highestEquiv (h.shape.valueAt i)
    | none => 0

/-- first / last non-zero position -/
def firstNonZero (cs : List Nat) (i : Nat) : Option Nat :=
  match cs with
  | [] => none
  | c :: rest => if c ≠ 0 then some i else firstNonZero rest (i + 1)

def lastNonZero (cs : List Nat) (i : Nat) (cur : Option Nat) : Option Nat :=
  match cs with
  | [] => cur
  | c :: rest => lastNonZero rest (i + 1) (if c ≠ 0 then some i else cur)

/-- `Min()` -/
def Hist.min (h : Hist) : Nat :=
  match firstNonZero h.counts 0 with
  | some i => h.shape.lowestEquiv (h.shape.highestEquiv (h.shape.valueAt i))
  | none => h.shape.lowestEquiv 0

/-- `Max()` -/
def Hist.max (h : Hist) : Nat :=
  match lastNonZero h.counts 0 none with
  | some i => h.shape.highestEquiv (h.shape.highestEquiv (h.shape.valueAt i))
  | none => h.shape.highestEquiv 0

/-- `Export` then `Import` -/
def Hist.reimport (h : Hist) : Hist :=
  let s := mkShape h.shape.lowest h.shape.highest h.shape.sigfigs
  { shape := s, counts := h.counts, total := h.counts.foldl (· + ·) 0 }

/-- `Merge(from)` into `h`: every non-zero position of `from` is re-recorded by value;
    returns the histogram and the dropped count -/
def mergeFrom (h : Hist) (fromShape : Shape) (cs : List Nat) (i : Nat) (dropped : Nat) : Hist × Nat :=
  match cs with
  | [] => (h, dropped)
  | c :: rest =>
    if c = 0 then mergeFrom h fromShape rest (i + 1) dropped
    else match h.record (fromShape.valueAt i) c with
      | some h' => mergeFrom h' fromShape rest (i + 1) dropped
      | none => mergeFrom h fromShape rest (i + 1) (dropped + c)

def Hist.merge (h from_ : Hist) : Hist × Nat := mergeFrom h from_.shape from_.counts 0 0

end FunModel.Hdr
