import FunModel.SetModel

/-! Primitive operations of the T-gen target `SetOps` (C18). HAND-WRITTEN AND TRUSTED.

    tools/go2lean (setops.go) re-reads `dt/set.go` and translates the methods of `dt.Set` statement by
    statement into `lean/FunGen/SetOps.lean`. What `Set` itself does — the order of its tests and
    effects, which branch stores what, what is returned — is regenerated. What the *callees* of `Set`
    do is not: the Go map behind `s.hash` (`dt.Map` is a named `map[K]V`), the `dt.List`/`dt.Element`
    behind `s.list`, and `fun.Iterator`. Their meaning is fixed here, once, by hand, over the state
    record of the C18 model (`FunModel.SetModel.SetSt`):

    * `hash : List (Int × Option Nat)` — the map as an association list from key to element pointer
      (`none` = nil pointer), in first-insertion order. A Go map has no order: wherever the source
      ranges over the map the order is the parameter `mo` (`mapRange`).
    * `list : Option (List (Nat × Int))` — `none` = `s.list == nil`; otherwise the list at the sequence
      level: the (element address, item) pairs from front to back. This is the ghost sequence of the
      C16 list model (FunProps/C16.lean, `WF h g`: `g l` is the sequence of element addresses of list
      `l`, `pushBack_spec`/`elemAppend_accepted_ghost`: an accepted `Append` after the last element is
      `g l ++ [n]`, `elemAppend_rejected_ghost`: an attached element is refused and nothing changes,
      `elemRemove_attached`: `g l` without `e`, `elemRemove_other`: detached ⇒ `false`, no change,
      `walkFwd_eq`: iteration yields exactly the ghost sequence) paired with the items.
    * `nextId` — allocation counter: `NewElement` returns a fresh address.

    Not modelled here (and skipped by the translator, which says so in the generated file): the
    optional mutex (`defer s.with(s.lock())`, `s.mtx`, `WithLock`) — mutual exclusion is C13's and the
    `setexcl` cases' business — and the lazy `s.hash = Map{}` inside `lock()` (a nil map and an empty
    map are both `[]`). `T` is `Int`.

    Core Lean only (this file is in `FunModel`). Nothing here is proved; `FunProofs/GenTieSet.lean`
    relates these primitives to the definitions of `FunModel/SetModel.lean`. -/
namespace FunModel.SetPrim
open FunModel.SetModel

/-- a `*Element[T]` obtained from `NewElement(v)` in the function being translated: its address and the
    item it holds (`Set` never calls `Element.Set`, so the item of an element does not change) -/
structure Elem where
  addr : Nat
  item : Int
  deriving Repr, DecidableEq

/-- the pointer value of such an element (what is stored in the map) -/
def Elem.ptr (e : Elem) : Option Nat := some e.addr

/-! ### the Go map `s.hash` -/

/-- `s.hash.Check(k)` = `_, ok := m[k]; ok` -/
def mapCheck (s : SetSt) (k : Int) : Bool := s.hash.any (fun p => p.1 == k)

/-- `s.hash.Load(k)` = `v, ok := m[k]`: the zero value (nil) and `false` when the key is absent -/
def mapLoad (s : SetSt) (k : Int) : Option Nat × Bool :=
  match s.hash.find? (fun p => p.1 == k) with
  | some p => (p.2, true)
  | none => (none, false)

/-- `len(s.hash)` -/
def mapLen (s : SetSt) : Nat := s.hash.length

/-- `s.hash[k] = v` / `s.hash.Add(k, v)`: an existing key keeps its place and gets the new value,
    a new key is added -/
def mapStore (s : SetSt) (k : Int) (v : Option Nat) : SetSt :=
  if s.hash.any (fun p => p.1 == k) then
    { s with hash := s.hash.map (fun p => if p.1 == k then (k, v) else p) }
  else
    { s with hash := s.hash ++ [(k, v)] }

/-- `s.hash.SetDefault(k)` = `var zero V; m[k] = zero` (the zero `*Element` is nil) -/
def mapSetDefault (s : SetSt) (k : Int) : SetSt := mapStore s k none

/-- `delete(s.hash, k)` / `s.hash.Delete(k)` -/
def mapDelete (s : SetSt) (k : Int) : SetSt := { s with hash := s.hash.filter (fun p => p.1 != k) }

/-- `for k := range s.hash`: the keys the loop visits, in the order `mo` of this particular range.
    Go visits every key present when the loop starts exactly once as long as the body adds no new key
    (overwriting the value of an existing key, which is all `Set` does, is allowed); that the real
    order has no repetitions and misses no key is the hypothesis `GoodOrder s mo` of the theorems. -/
def mapRange (s : SetSt) (mo : List Int) : List Int := mo.filter (fun k => mapCheck s k)

/-! ### `s.list`, elements -/

/-- `s.list == nil` -/
def listIsNil (s : SetSt) : Bool := s.list.isNone

/-- `s.list = &List[T]{}` -/
def listNew (s : SetSt) : SetSt := { s with list := some [] }

/-- `NewElement(v)`: a fresh detached element holding `v` (C16 `makeElem_spec`) -/
def newElement (s : SetSt) (v : Int) : SetSt × Elem := ({ s with nextId := s.nextId + 1 }, ⟨s.nextId, v⟩)

/-- `s.list.Back().Append(e)`: `Back()` panics on a nil list (`lazySetup`); `Append` links a detached
    element after the last one and refuses (changing nothing) an element that is already in a list -/
def listBackAppend (s : SetSt) (e : Elem) : Option SetSt :=
  match s.list with
  | none => none
  | some l =>
    if l.any (fun p => p.1 == e.addr) then some s
    else some { s with list := some (l ++ [(e.addr, e.item)]) }

/-- `s.list.PushBack(v)` = `lazySetup(); root.prev.Append(makeElem(v))`: always a new element -/
def listPushBack (s : SetSt) (v : Int) : Option SetSt :=
  match s.list with
  | none => none
  | some l => some { s with list := some (l ++ [(s.nextId, v)]), nextId := s.nextId + 1 }

/-- `e.Remove()`: a nil receiver panics; an element of the list is unlinked (`true`); an element that is
    in no list is left alone (`false`). The only list a `Set` ever links elements into is `s.list`. -/
def elemRemove (s : SetSt) (e : Option Nat) : Option (SetSt × Bool) :=
  match e with
  | none => none
  | some a =>
    match s.list with
    | none => some (s, false)
    | some l =>
      if l.any (fun p => p.1 == a) then some ({ s with list := some (l.filter (fun p => p.1 != a)) }, true)
      else some (s, false)

/-- `e.Drop()` = `Remove()` and, if that succeeded, clear the element: the same at the sequence level -/
def elemDrop (s : SetSt) (e : Option Nat) : Option SetSt := (elemRemove s e).map (·.1)

/-- `s.list.Len()` (panics on nil) -/
def listLen (s : SetSt) : Option Nat := s.list.map (·.length)

/-- `s.list.Iterator()` / `s.list.Producer()`: the items front to back (C16 `walkFwd_eq`); nil panics -/
def listItems (s : SetSt) : Option (List Int) := s.list.map (fun l => l.map (·.2))

/-- `s.list.SortQuick(lt)` / `s.list.SortMerge(lt)` with `sorter` the sequence-level sort of
    FunModel/SortSeq.lean (C17): the items are sorted and every element keeps its item. Written as the
    C18 model writes it (sort the items, then find each item's element), which is the stable sort of
    the pairs when the items are distinct, as they are in a set. A nil list panics. -/
def listSortWith (sorter : (Int → Int → Bool) → List Int → List Int) (s : SetSt) (lt : Int → Int → Bool) :
    Option SetSt :=
  match s.list with
  | none => none
  | some l =>
    some { s with list := some ((sorter lt (l.map (·.2))).filterMap (fun it => l.find? (fun p => p.2 == it))) }

def listSortQuick (s : SetSt) (lt : Int → Int → Bool) : Option SetSt := listSortWith SortSeq.sortQuick s lt
def listSortMerge (s : SetSt) (lt : Int → Int → Bool) : Option SetSt := listSortWith SortSeq.sortMerge s lt

/-! ### slices, iterators, producers
    A `[]T`, a `*fun.Iterator[T]` and a `fun.Producer[T]` are all represented by the finite sequence of
    items they hold / will yield; conversions between them (`fun.SliceIterator`, `.Producer()`,
    `.Iterator()`, `.WithLock(mu)`) are the identity. How an iterator delivers its items call by call
    is C02's business. No iterator a `Set` builds reports an error. -/

/-- `make([]T, 0, n)` -/
def sliceMake (_cap : Nat) : List Int := []

/-- `append(xs, x)` -/
def sliceAppend (xs : List Int) (x : Int) : List Int := xs ++ [x]

/-- `s.hash.ProducerKeys()`: the keys in the order of its own range over the map -/
def mapProducerKeys (s : SetSt) (mo : List Int) : List Int := mapRange s mo

/-- `iter.Observe(f).Wait()`: `f` on every item in turn; the returned error is nil (`Invariant.Must`
    of it does not panic) because the iterators in question do not fail and `f` returns nothing -/
def iterObserve (f : SetSt → Int → Option SetSt) (it : List Int) (s : SetSt) : Option SetSt :=
  it.foldlM f s

/-- `iter.Close()`: `true` = a non-nil error. Always nil. -/
def iterClose (_it : List Int) : Bool := false

/-- `for it.Next(ctx) { body }` where the body reads `it.Value()` and may `return r`:
    `some (some r)` = the body returned `r`, `some none` = the iterator ran out, `none` = panic -/
def iterLoop {α ρ : Type} (xs : List α) (body : α → Option (Option ρ)) : Option (Option ρ) :=
  match xs with
  | [] => some none
  | x :: rest =>
    match body x with
    | none => none
    | some (some r) => some (some r)
    | some none => iterLoop rest body

/-! ### conditions with Go's evaluation order (`none` = the operand panicked) -/

/-- `a || b`: `b` is evaluated only when `a` is false -/
def orP (a b : Option Bool) : Option Bool := do
  let x ← a
  if x then pure true else b

/-- `a && b`: `b` is evaluated only when `a` is true -/
def andP (a b : Option Bool) : Option Bool := do
  let x ← a
  if x then b else pure false

def notP (a : Option Bool) : Option Bool := do
  let x ← a
  pure (!x)

def eqP {α : Type} [BEq α] (a b : Option α) : Option Bool := do
  let x ← a
  let y ← b
  pure (x == y)

def neP {α : Type} [BEq α] (a b : Option α) : Option Bool := do
  let x ← a
  let y ← b
  pure (x != y)

end FunModel.SetPrim
