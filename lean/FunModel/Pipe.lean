/-! # Process models of the goroutine pipelines of tychoish/fun (C01, C04; tie: T-out)

Three small-step models, written by reading each constructor's goroutine / channel / wait-group /
context structure (line numbers: /repo at the pinned commit plus the `fix:`/`verif:` commits; the
functions are listed in `Pipe.spec.txt` and their normalised hashes in `Pipe.shapes.json`, the
drift guard of the check).

## Runtime primitives (DESIGN §3, trusted)

* channel = FIFO buffer `List Nat` with a capacity and a `closed` flag. A *buffered* send appends
  when `length < cap`; a receive pops the head; on an empty buffer a parked receiver and a blocked
  sender complete together in one joint action (*rendezvous*; for `cap = 0` this is the only way).
  A receive on a closed empty channel reports "closed" (`io.EOF` in `ChanReceive.Read`,
  chan.go:216-229). A send on a closed channel panics; `ChanSend.Write` (chan.go:340-354)
  recovers and returns `io.EOF`: the sender keeps (drops) the item and takes its exit path.
* `select` between a ready channel operation and a done context picks either (both actions are
  enabled in the model).
* context: `closed` (Iterator.Close → doClose, iterator.go:169-171, sets the flag and cancels the
  iterator's own context `wctx`, producer.go:367-377) and `ucancel` (the context given to the first
  advance was cancelled) — `wctx` is done iff `closed ∨ ucancel`; contexts derived from it
  (`wctx2`: transform.go:93, iterator.go:150, producer.go:520) are done iff it is done or the closer
  goroutine cancelled them. Cancellation propagates instantly.
* `sync.Once` (operation.go:59-62): the first caller runs the body, callers that arrive while it
  runs block until it returns (`waiters` for the `.Once().Go()` constructs), later callers return.
* wait-group (sync.go): the closer's `Wait(ctx)` returns when the counter is zero or `ctx` is done.
* `go`: a goroutine exists from its start action to its exit action; *all exited* is the
  terminal condition C04 asks for.

## The consumer (shared by the three models) — `Iterator.ReadOne`, iterator.go:231-254

`cStart`: `closed` → `io.EOF`; else caller's context done → its error (no doClose); else run the
operation: PreHook (start the background goroutines, once) and park in `ChanReceive.Read(wctx)`.
Parked: `cRecv` (buffer head) / rendezvous with a sender / `cEof` (closed and empty → EOF,
`doClose`) / `cCtx` (`wctx` done → context error, `doClose`). The model consumer *drains*: it keeps
calling ReadOne until the first error. `close` and `cancel` are environment actions that may occur
at any time (any cut point `k`, any interleaving with in-flight sends), a bounded number of times
(`closeBudget`, `cancelBudget`: makes every schedule finite). "Stop after k items and Close" is a
schedule in which `close` is taken when `got.length = k`.

## Which construct instantiates which shape

| construct | shape | parameters | where |
|---|---|---|---|
| `Iterator.Buffer n` | Feeder | `cap = n`, `onceGo` (`.Once().Go()`: every ReadOne spawns a goroutine that blocks in `once.Do` until the feeder returns), `srcChecksCtx` (feeder loop = `Iterator.Process` → `ReadOne(ctx)` checks `ctx.Err()`), feeder closes the pipe in its PostHook; Close also closes the source (`IteratorWithHook`) | iterator.go:591-595, chan.go:374-379, iterator.go:407-433 |
| `itertool.Chain` | Feeder | `cap = 0`, `.Go().Once()` (one goroutine), `srcChecksCtx` (`Next(ctx)`/`ReadOne(ctx)`), `defer pipe.Close()` | itertool.go:225-258 |
| `itertool.MergeSlices`, `MergeSliceIterators` | Feeder | `cap = 0`, `.Go().Once()`, `srcChecksCtx` (`dt.Slice.Process` → `ReadOne(ctx)`), `PostHook(closepipe)` | itertool.go:262-293 |
| `Iterator.BufferedChannel(ctx, n)` | Feeder | `cap = n`, `eager` (goroutine started by the constructor with the caller's context: `Operation.Launch`), `srcChecksCtx`, `PostHook(out.Close)`; the consumer is user code on the raw channel (modelled by the same drain consumer; there is no `Close`) | iterator.go:464-474, operation.go:66-78 |
| `dt.Map.Producer/Keys/Values`, `adt.Map` iterators | Feeder | `cap = 0`, `.Go().Once()`, `srcChecksCtx = false` (`for k, v := range m { send.Check(ctx, ..) }` reads the next entry without looking at the context), `defer pipe.Close()` / `PostHook(pipe.Close)` | dt/map.go:197-249, adt/map.go:184-195 |
| `MergeIterators(its…)` | FanIn(n) | one producer per input with a *private* source, `cap = 0`, producers select on `wctx2`, closer = `wg.Wait(wctx)` then `cancel(wctx2)` then `pipe.Close` (`closerCtx`) | iterator.go:140-167 |
| `Producer.GenerateParallel`, `itertool.Generate` | FanIn(n) | n producers over one *shared* source (the generator function), `cap = 2n+1`, `srcChecksCtx = true` (since `fix:` c9331e6 a worker looks at `ctx.Err()` before it calls the generator again; the same commit makes a worker cancel the group when the generator fails with anything but a plain `io.EOF` — an error path, C03, not taken in the failure-free and Close/cancel runs modelled here: on `ctx.Err()` and on a failed `Write` the worker returns the context error, which cancels nothing), same closer | producer.go:511-566 |
| `Iterator.Split n` | FanOut(n) | reader goroutine started once (`.Go().Once()`) by whichever output is advanced first *with that output's context*, split pipe `cap = 0`, the n outputs are read by user goroutines (= the workers; `hasOut = false`, no closer) | iterator.go:347-364 |
| `Iterator.ProcessParallel`, `itertool.ParallelForEach/Process/Worker` | FanOut(n) | Split(n) + n worker goroutines `ReadAll(split.Producer())` under `ctx' = WithCancel(ctx)`; `hasOut = false`; closer = the calling goroutine `wg.Wait(Background)` (`closerCtx = false`) | iterator.go:546-581, itertool.go:23-76 |
| `fun.Map`, `itertool.Map` (`Transform.ProcessParallel`) | FanOut(n) | Split(n) + n workers that send the transformed item into `output` (`cap = 0`, `hasOut`), all under `wctx2`; closer `wg.Wait(wctx)`, `wcancel`, `output.Close` (`closerCtx`); `workerCancels`: since `fix:` c9331e6 the worker's processor is wrapped in `WithErrorFilter(err ≠ nil → wcancel)`, and without processing errors `mapPullProcess` returns an error exactly when its send failed (`output.Check(ctx, val)` false: `wctx2` done or `output` closed), so a worker that gives up its item also cancels `wctx2` — which is already done at that moment | transform.go:80-123, 288-307 |
| `Iterator.ParallelBuffer n` | FanOut(max 1 n) | a goroutine (`.Once().Go()`: `onceGo`) runs `ProcessParallel(buf.Processor())`: workers send into `buf` (`cap = n`, `hasOut`); closer = that goroutine: `wg.Wait(Background)` (`closerCtx = false`), deferred cancel, `buf.Close` | iterator.go:605-609 |
| any option-taking construct with a **rejected option set** (`invalid`) | same shape | Map, GenerateParallel: the constructor records the error (`AddError` / `ErrorHandler`) and closes the output channel at once, yet the first advance still runs `init` (reader, workers, closer start; a worker may run the user function / call the generator once, its send meets the closed channel: `wSendClosed` / `pSendClosed`); the consumer's first `Read` sees closed-and-empty → `io.EOF`. ProcessParallel / ParallelForEach / Worker: `cancel()` of its own context right after `Apply`, then the workers are started and leave at their first `ReadOne` (`wCtxFresh`); the worker returns `opts.ErrorResolver()` — the configuration error itself is **not** returned (observation) | transform.go:116-123, producer.go:559-565, iterator.go:551-580 |
| concurrent `ReadOne` on `ChannelIterator(ch)` | FanOut(n) | `hasOut = false`, no closer; the "reader" is the user goroutine feeding `ch`; a buffered `ch` is modelled by the rendezvous pipe (same outcome multisets; the driver compares these outcomes as multisets only). All readers share the iterator's context: the first reader that sees EOF closes it, so another parked reader may return `context.Canceled` instead of `io.EOF` (observation; nothing is lost) | iterator.go:100,231-254, chan.go:216-229 |

Core Lean only (linked into the driver). -/

namespace FunModel.Pipe

/-- consumer of an output iterator -/
inductive CState where
  | idle      -- between two ReadOne calls
  | parked    -- inside ChanReceive.Read, blocked in the select
  | done      -- ReadOne returned an error (io.EOF or a context error): the drain loop ended
  deriving Repr, DecidableEq, Inhabited, Hashable

def CState.rank : CState → Nat
  | .idle => 3 | .parked => 1 | .done => 0

/-- goroutine life cycle of the single feeder / reader goroutine -/
inductive GState where
  | notStarted
  | running (held : Option Nat)   -- `none`: about to read its source; `some x`: blocked sending x
  | exited
  deriving Repr, DecidableEq, Inhabited, Hashable

def GState.held : GState → List Nat
  | .running h => h.toList
  | _ => []

def GState.rank : GState → Nat
  | .notStarted => 2 | .running _ => 1 | .exited => 0

/-! ## Feeder: source → one goroutine → pipe → consumer -/
namespace Feeder

structure Cfg where
  cap : Nat               -- capacity of the pipe channel
  onceGo : Bool           -- `.Once().Go()` (Buffer): a goroutine per ReadOne, parked in once.Do
  srcChecksCtx : Bool     -- the feeder's read of its source starts with `ctx.Err()`
  eager : Bool            -- started by the constructor (BufferedChannel)
  deriving Repr, DecidableEq

structure St where
  src : List Nat
  fd : GState
  pipe : List Nat
  pclosed : Bool
  closed : Bool           -- Iterator.closer.state
  ucancel : Bool          -- the caller's context is done
  envStopped : Bool       -- ghost: an environment close/cancel has happened (the run is not failure-free)
  cons : CState
  got : List Nat          -- delivered to the consumer, in delivery order
  dropped : List Nat      -- ghost: items given up on an abort path
  waiters : Nat           -- goroutines blocked in once.Do
  closeBudget : Nat
  cancelBudget : Nat
  deriving Repr, DecidableEq, Hashable

inductive Act where
  | close | cancel                               -- environment
  | cStart | cRecv | cEof | cCtx                  -- consumer
  | fRead | fSend | fHandoff | fCtx | fEof        -- feeder goroutine
  | wExit                                         -- a once.Do waiter returns
  deriving Repr, DecidableEq

def Act.isEnv : Act → Bool
  | .close | .cancel => true
  | _ => false

def Act.isGoroutine : Act → Bool
  | .fRead | .fSend | .fHandoff | .fCtx | .fEof | .wExit => true
  | _ => false

def St.wdone (s : St) : Bool := s.closed || s.ucancel

def init (c : Cfg) (input : List Nat) (closes cancels : Nat) : St :=
  { src := input, fd := if c.eager then .running none else .notStarted, pipe := [], pclosed := false,
    closed := false, ucancel := false, envStopped := false, cons := .idle, got := [], dropped := [],
    waiters := 0, closeBudget := closes, cancelBudget := cancels }

def step (c : Cfg) (s : St) : Act → Option St
  | .close =>
    if 0 < s.closeBudget then some { s with closed := true, envStopped := true, closeBudget := s.closeBudget - 1 } else none
  | .cancel =>
    if 0 < s.cancelBudget then some { s with ucancel := true, envStopped := true, cancelBudget := s.cancelBudget - 1 } else none
  | .cStart =>
    if s.cons = .idle then
      if s.closed || s.ucancel then some { s with cons := .done }
      else match s.fd with
        | .notStarted => some { s with cons := .parked, fd := .running none }
        | .running _ => some { s with cons := .parked, waiters := if c.onceGo then s.waiters + 1 else s.waiters }
        | .exited => some { s with cons := .parked }
    else none
  | .cRecv =>
    match s.cons, s.pipe with
    | .parked, x :: rest => some { s with cons := .idle, pipe := rest, got := s.got ++ [x] }
    | _, _ => none
  | .cEof =>
    if s.cons = .parked ∧ s.pipe = [] ∧ s.pclosed = true then some { s with cons := .done, closed := true } else none
  | .cCtx =>
    if s.cons = .parked ∧ s.wdone = true then some { s with cons := .done, closed := true } else none
  | .fRead =>
    match s.fd, s.src with
    | .running none, x :: xs =>
      if c.srcChecksCtx && s.wdone then none else some { s with fd := .running (some x), src := xs }
    | _, _ => none
  | .fSend =>
    match s.fd with
    | .running (some x) =>
      if s.pipe.length < c.cap then some { s with fd := .running none, pipe := s.pipe ++ [x] } else none
    | _ => none
  | .fHandoff =>
    match s.fd with
    | .running (some x) =>
      if s.cons = .parked ∧ s.pipe = [] then some { s with fd := .running none, cons := .idle, got := s.got ++ [x] } else none
    | _ => none
  | .fCtx =>
    match s.fd with
    | .running h =>
      if s.wdone then some { s with fd := .exited, pclosed := true, dropped := s.dropped ++ h.toList } else none
    | _ => none
  | .fEof =>
    match s.fd, s.src with
    | .running none, [] => some { s with fd := .exited, pclosed := true }
    | _, _ => none
  | .wExit =>
    if s.fd = .exited ∧ 0 < s.waiters then some { s with waiters := s.waiters - 1 } else none

/-- every goroutine started on behalf of the iterator has exited -/
def St.allExited (s : St) : Bool := (s.fd = .exited || s.fd = .notStarted) && s.waiters = 0

def St.terminal (s : St) : Bool := s.allExited && s.cons = .done

def run (c : Cfg) (s : St) (as : List Act) : Option St := as.foldlM (step c) s

def Reachable (c : Cfg) (input : List Nat) (closes cancels : Nat) (s : St) : Prop :=
  ∃ as, run c (init c input closes cancels) as = some s

def allActs : List Act :=
  [.close, .cancel, .cStart, .cRecv, .cEof, .cCtx, .fRead, .fSend, .fHandoff, .fCtx, .fEof, .wExit]

def measure (s : St) : Nat :=
  5 * s.src.length + 4 * s.fd.held.length + 3 * s.pipe.length + s.fd.rank + s.cons.rank + s.waiters
    + s.closeBudget + s.cancelBudget

end Feeder

/-- the closer goroutine: waits for the wait-group (or its context), cancels the workers' context,
    closes the channel the consumer reads -/
inductive KState where
  | waiting | cancelled | exited
  deriving Repr, DecidableEq, Inhabited, Hashable

def KState.rank : KState → Nat
  | .waiting => 2 | .cancelled => 1 | .exited => 0

/-! ## FanIn(n): n producer goroutines → pipe → consumer, closer goroutine

`MergeIterators`: producer i drains its private source; `GenerateParallel`: all producers call one
shared generator. A producer reads its private source first and the shared one when that is empty, so
both are instances (`privs = [[..],..]`, `shared = []` and `privs = [[],..]`, `shared = input`). -/
namespace FanIn

structure Cfg where
  cap : Nat               -- MergeIterators 0; GenerateParallel 2n+1
  srcChecksCtx : Bool     -- a producer looks at `ctx.Err()` before it reads: MergeIterators `ReadOne(wctx2)`; GenerateParallel since c9331e6
  closerCtx : Bool        -- the closer's `Wait(wctx)` returns when the iterator's context is done (both: true)
  invalid : Bool := false -- rejected option set: the constructor closed the pipe (`ft.WhenCall(initErr != nil, pipe.Close)`,
                          -- producer.go:563); init still starts the producers and the closer on the first advance
  deriving Repr, DecidableEq

structure Prod where
  src : List Nat
  held : Option Nat       -- `some x`: blocked in `ChanSend.Write(wctx2, x)`
  exited : Bool
  deriving Repr, DecidableEq, Inhabited, Hashable

def Prod.weight (p : Prod) : Nat := 5 * p.src.length + 4 * p.held.toList.length + (if p.exited then 0 else 1)

structure St where
  shared : List Nat
  prods : List Prod
  started : Bool          -- the init operation (Once) has run: producers and closer exist
  pipe : List Nat
  pclosed : Bool
  wcancel : Bool          -- the closer cancelled wctx2
  kst : KState
  closed : Bool
  ucancel : Bool
  envStopped : Bool
  cons : CState
  got : List Nat
  dropped : List Nat
  closeBudget : Nat
  cancelBudget : Nat
  deriving Repr, DecidableEq, Hashable

inductive Act where
  | close | cancel
  | cStart | cRecv | cEof | cCtx
  | pRead (i : Nat) | pEof (i : Nat) | pSend (i : Nat) | pHandoff (i : Nat) | pCtx (i : Nat) | pSendClosed (i : Nat)
  | kCancel | kClose
  deriving Repr, DecidableEq

def Act.isEnv : Act → Bool
  | .close | .cancel => true
  | _ => false

def Act.isGoroutine : Act → Bool
  | .pRead _ | .pEof _ | .pSend _ | .pHandoff _ | .pCtx _ | .pSendClosed _ | .kCancel | .kClose => true
  | _ => false

def St.wdone (s : St) : Bool := s.closed || s.ucancel
/-- the producers' context `wctx2` is done -/
def St.wdone2 (s : St) : Bool := s.closed || s.ucancel || s.wcancel

def St.allProdsExited (s : St) : Bool := s.prods.all (·.exited)

def init (c : Cfg) (privs : List (List Nat)) (shared : List Nat) (closes cancels : Nat) : St :=
  { shared := shared, prods := privs.map (fun l => { src := l, held := none, exited := false }), started := false,
    pipe := [], pclosed := c.invalid, wcancel := false, kst := .waiting, closed := false, ucancel := false,
    envStopped := false, cons := .idle, got := [], dropped := [], closeBudget := closes, cancelBudget := cancels }

def step (c : Cfg) (s : St) : Act → Option St
  | .close =>
    if 0 < s.closeBudget then some { s with closed := true, envStopped := true, closeBudget := s.closeBudget - 1 } else none
  | .cancel =>
    if 0 < s.cancelBudget then some { s with ucancel := true, envStopped := true, cancelBudget := s.cancelBudget - 1 } else none
  | .cStart =>
    if s.cons = .idle then
      if s.closed || s.ucancel then some { s with cons := .done }
      else some { s with cons := .parked, started := true }
    else none
  | .cRecv =>
    match s.cons, s.pipe with
    | .parked, x :: rest => some { s with cons := .idle, pipe := rest, got := s.got ++ [x] }
    | _, _ => none
  | .cEof =>
    if s.cons = .parked ∧ s.pipe = [] ∧ s.pclosed = true then some { s with cons := .done, closed := true } else none
  | .cCtx =>
    if s.cons = .parked ∧ s.wdone = true then some { s with cons := .done, closed := true } else none
  | .pRead i =>
    match s.prods[i]? with
    | some p =>
      if s.started = true ∧ p.exited = false ∧ p.held = none ∧ ¬ (c.srcChecksCtx = true ∧ s.wdone2 = true) then
        match p.src, s.shared with
        | x :: xs, _ => some { s with prods := s.prods.set i { p with src := xs, held := some x } }
        | [], x :: xs => some { s with prods := s.prods.set i { p with held := some x }, shared := xs }
        | [], [] => none
      else none
    | none => none
  | .pEof i =>
    match s.prods[i]? with
    | some p =>
      if s.started = true ∧ p.exited = false ∧ p.held = none ∧ p.src = [] ∧ s.shared = [] then
        some { s with prods := s.prods.set i { p with exited := true } }
      else none
    | none => none
  | .pSend i =>
    match s.prods[i]? with
    | some p =>
      match p.held with
      | some x =>
        if s.started = true ∧ p.exited = false ∧ s.pclosed = false ∧ s.pipe.length < c.cap then
          some { s with prods := s.prods.set i { p with held := none }, pipe := s.pipe ++ [x] }
        else none
      | none => none
    | none => none
  | .pHandoff i =>
    match s.prods[i]? with
    | some p =>
      match p.held with
      | some x =>
        if s.started = true ∧ p.exited = false ∧ s.pclosed = false ∧ s.cons = .parked ∧ s.pipe = [] then
          some { s with prods := s.prods.set i { p with held := none }, cons := .idle, got := s.got ++ [x] }
        else none
      | none => none
    | none => none
  | .pCtx i =>
    match s.prods[i]? with
    | some p =>
      if s.started = true ∧ p.exited = false ∧ s.wdone2 = true then
        some { s with prods := s.prods.set i { p with held := none, exited := true }, dropped := s.dropped ++ p.held.toList }
      else none
    | none => none
  | .pSendClosed i =>
    match s.prods[i]? with
    | some p =>
      match p.held with
      | some x =>
        if s.started = true ∧ p.exited = false ∧ s.pclosed = true then
          some { s with prods := s.prods.set i { p with held := none, exited := true }, dropped := s.dropped ++ [x] }
        else none
      | none => none
    | none => none
  | .kCancel =>
    if s.started = true ∧ s.kst = .waiting ∧ (s.allProdsExited = true ∨ (c.closerCtx = true ∧ s.wdone = true)) then
      some { s with wcancel := true, kst := .cancelled }
    else none
  | .kClose =>
    if s.kst = .cancelled then some { s with pclosed := true, kst := .exited } else none

def St.allExited (s : St) : Bool := !s.started || (s.allProdsExited && s.kst = .exited)

def St.terminal (s : St) : Bool := s.allExited && s.cons = .done

def run (c : Cfg) (s : St) (as : List Act) : Option St := as.foldlM (step c) s

def Reachable (c : Cfg) (privs : List (List Nat)) (shared : List Nat) (closes cancels : Nat) (s : St) : Prop :=
  ∃ as, run c (init c privs shared closes cancels) as = some s

/-- everything that is in flight or waiting to be read -/
def St.items (s : St) : List Nat :=
  s.got ++ s.pipe ++ s.prods.flatMap (fun p => p.held.toList) ++ s.dropped ++ s.prods.flatMap (·.src) ++ s.shared

def measure (s : St) : Nat :=
  (s.prods.map Prod.weight).sum + 5 * s.shared.length + 3 * s.pipe.length + s.cons.rank + s.kst.rank
    + s.closeBudget + s.cancelBudget

def acts (n : Nat) : List Act :=
  [.close, .cancel, .cStart, .cRecv, .cEof, .cCtx, .kCancel, .kClose] ++
  (List.range n).flatMap (fun i => [.pRead i, .pEof i, .pSend i, .pHandoff i, .pCtx i, .pSendClosed i])

end FanIn

/-! ## FanOut(n): source → reader goroutine → split pipe (rendezvous) → n anonymous workers
    [→ output channel → consumer], closer goroutine -/
namespace FanOut

structure Cfg where
  n : Nat                 -- number of workers / Split outputs (at least 1)
  hasOut : Bool           -- workers forward into an output channel (Map, ParallelBuffer)
  outCap : Nat
  hasCloser : Bool        -- false: bare Split (the workers are the user's consumers)
  closerCtx : Bool        -- the closer's Wait returns when the iterator's context is done (Map)
  onceGo : Bool           -- `.Once().Go()` (ParallelBuffer)
  lazy : Bool             -- started by the first ReadOne of the output (Map, ParallelBuffer)
  workerCancels : Bool    -- a worker whose send fails cancels the group's context itself (Map since c9331e6)
  invalid : Bool := false -- rejected option set. With an output (Map): the constructor closed `output`
                          -- (`ft.WhenCall(err != nil, output.Close)`, transform.go:121) but init still starts reader, workers
                          -- and closer on the first advance. Without (ProcessParallel): the worker cancels its own context
                          -- before it starts the workers (`ft.WhenCall(err != nil, cancel)`, iterator.go:556)
  deriving Repr, DecidableEq

structure St where
  src : List Nat
  rd : GState             -- the reader goroutine of Split
  spawned : Nat           -- how many reader goroutines were ever started (setup_once)
  pclosed : Bool          -- split pipe closed (reader's PostHook)
  started : Bool          -- the workers exist
  fresh : Nat             -- workers that have not advanced their split output yet
  idle : Nat              -- workers parked receiving from the split pipe (or about to)
  hold : List Nat         -- workers holding an item: inside the user function / blocked sending it on
  wexited : Nat
  out : List Nat
  oclosed : Bool
  wcancel : Bool
  kst : KState
  closed : Bool
  ucancel : Bool
  envStopped : Bool
  cons : CState
  got : List Nat          -- delivered to the consumer of the output iterator
  seen : List Nat         -- items for which the user function returned (no output stage)
  droppedW : List Nat      -- ghost: items given up by a worker on an abort path
  droppedR : List Nat      -- ghost: the item given up by the reader on its abort path
  waiters : Nat
  closeBudget : Nat
  cancelBudget : Nat
  deriving Repr, DecidableEq, Hashable

inductive Act where
  | close | cancel
  | cStart | cRecv | cEof | cCtx
  | wAdvance | wCtxFresh
  | rRead | rHandoff | rCtx | rEof
  | wEof | wCtx
  | wSend (i : Nat) | wHandoff (i : Nat) | wCtxHold (i : Nat) | wSendClosed (i : Nat) | wFinish (i : Nat)
  | kCancel | kClose
  | oExit
  deriving Repr, DecidableEq

def Act.isEnv : Act → Bool
  | .close | .cancel => true
  | _ => false

def Act.isConsumer : Act → Bool
  | .cStart | .cRecv | .cEof | .cCtx => true
  | _ => false

def Act.isGoroutine (a : Act) : Bool := !a.isEnv && !a.isConsumer

/-- configurations that occur: at least one worker; a lazily started pipeline has an output whose
    first ReadOne starts it; the `.Once().Go()` goroutine is the closer; an output channel has a closer -/
def Cfg.wf (c : Cfg) : Prop :=
  0 < c.n ∧ (c.lazy = true → c.hasOut = true) ∧ (c.onceGo = true → c.hasCloser = true) ∧ (c.hasOut = true → c.hasCloser = true)

instance (c : Cfg) : Decidable c.wf := by unfold Cfg.wf; infer_instance

def St.wdone (s : St) : Bool := s.closed || s.ucancel
def St.wdone2 (s : St) : Bool := s.closed || s.ucancel || s.wcancel
def St.live (s : St) : Nat := s.fresh + s.idle + s.hold.length

def init (c : Cfg) (input : List Nat) (closes cancels : Nat) : St :=
  { src := input, rd := .notStarted, spawned := 0, pclosed := false, started := !c.lazy, fresh := c.n, idle := 0,
    hold := [], wexited := 0, out := [], oclosed := c.invalid && c.hasOut, wcancel := c.invalid && !c.hasOut, kst := .waiting, closed := false,
    ucancel := false, envStopped := false, cons := if c.hasOut then .idle else .done, got := [], seen := [],
    droppedW := [], droppedR := [], waiters := 0, closeBudget := closes, cancelBudget := cancels }

def step (c : Cfg) (s : St) : Act → Option St
  | .close =>
    if 0 < s.closeBudget then some { s with closed := true, envStopped := true, closeBudget := s.closeBudget - 1 } else none
  | .cancel =>
    if 0 < s.cancelBudget then some { s with ucancel := true, envStopped := true, cancelBudget := s.cancelBudget - 1 } else none
  | .cStart =>
    if s.cons = .idle then
      if s.closed || s.ucancel then some { s with cons := .done }
      else some { s with cons := .parked, started := true,
                         waiters := if c.onceGo && s.started && s.kst != .exited then s.waiters + 1 else s.waiters }
    else none
  | .cRecv =>
    match s.cons, s.out with
    | .parked, x :: rest => some { s with cons := .idle, out := rest, got := s.got ++ [x] }
    | _, _ => none
  | .cEof =>
    if s.cons = .parked ∧ s.out = [] ∧ s.oclosed = true then some { s with cons := .done, closed := true } else none
  | .cCtx =>
    if s.cons = .parked ∧ s.wdone = true then some { s with cons := .done, closed := true } else none
  | .wAdvance =>
    if s.started = true ∧ 0 < s.fresh ∧ s.wdone2 = false then
      match s.rd with
      | .notStarted => some { s with fresh := s.fresh - 1, idle := s.idle + 1, rd := .running none, spawned := s.spawned + 1 }
      | _ => some { s with fresh := s.fresh - 1, idle := s.idle + 1 }
    else none
  | .wCtxFresh =>
    if s.started = true ∧ 0 < s.fresh ∧ s.wdone2 = true then
      some { s with fresh := s.fresh - 1, wexited := s.wexited + 1 }
    else none
  | .rRead =>
    match s.rd, s.src with
    | .running none, x :: xs => if s.wdone2 then none else some { s with rd := .running (some x), src := xs }
    | _, _ => none
  | .rHandoff =>
    match s.rd with
    | .running (some x) =>
      if 0 < s.idle then some { s with rd := .running none, idle := s.idle - 1, hold := s.hold ++ [x] } else none
    | _ => none
  | .rCtx =>
    match s.rd with
    | .running h =>
      if s.wdone2 then some { s with rd := .exited, pclosed := true, droppedR := s.droppedR ++ h.toList } else none
    | _ => none
  | .rEof =>
    match s.rd, s.src with
    | .running none, [] => some { s with rd := .exited, pclosed := true }
    | _, _ => none
  | .wEof =>
    if 0 < s.idle ∧ s.pclosed = true then some { s with idle := s.idle - 1, wexited := s.wexited + 1 } else none
  | .wCtx =>
    if 0 < s.idle ∧ s.wdone2 = true then some { s with idle := s.idle - 1, wexited := s.wexited + 1 } else none
  | .wSend i =>
    match s.hold[i]? with
    | some x =>
      if c.hasOut = true ∧ s.oclosed = false ∧ s.out.length < c.outCap then
        some { s with hold := s.hold.eraseIdx i, idle := s.idle + 1, out := s.out ++ [x] }
      else none
    | none => none
  | .wHandoff i =>
    match s.hold[i]? with
    | some x =>
      if c.hasOut = true ∧ s.oclosed = false ∧ s.cons = .parked ∧ s.out = [] then
        some { s with hold := s.hold.eraseIdx i, idle := s.idle + 1, cons := .idle, got := s.got ++ [x] }
      else none
    | none => none
  | .wCtxHold i =>
    match s.hold[i]? with
    | some x =>
      if c.hasOut = true ∧ s.wdone2 = true then
        some { s with hold := s.hold.eraseIdx i, wexited := s.wexited + 1, droppedW := s.droppedW ++ [x],
                      wcancel := s.wcancel || c.workerCancels }
      else none
    | none => none
  | .wSendClosed i =>
    match s.hold[i]? with
    | some x =>
      if c.hasOut = true ∧ s.oclosed = true then
        some { s with hold := s.hold.eraseIdx i, wexited := s.wexited + 1, droppedW := s.droppedW ++ [x],
                      wcancel := s.wcancel || c.workerCancels }
      else none
    | none => none
  | .wFinish i =>
    match s.hold[i]? with
    | some x =>
      if c.hasOut = false then some { s with hold := s.hold.eraseIdx i, idle := s.idle + 1, seen := s.seen ++ [x] } else none
    | none => none
  | .kCancel =>
    if c.hasCloser = true ∧ s.started = true ∧ s.kst = .waiting ∧ (s.live = 0 ∨ (c.closerCtx = true ∧ s.wdone = true)) then
      some { s with wcancel := true, kst := .cancelled }
    else none
  | .kClose =>
    if s.kst = .cancelled then some { s with oclosed := c.hasOut, kst := .exited } else none
  | .oExit =>
    if s.kst = .exited ∧ 0 < s.waiters then some { s with waiters := s.waiters - 1 } else none

/-- every goroutine (reader, workers, closer, once-waiters) has exited, or none was ever started -/
def St.allExited (c : Cfg) (s : St) : Bool :=
  !s.started ||
  ((s.rd = .exited || s.rd = .notStarted) && s.live = 0 && (!c.hasCloser || s.kst = .exited) && s.waiters = 0)

def St.terminal (c : Cfg) (s : St) : Bool := s.allExited c && s.cons = .done

def run (c : Cfg) (s : St) (as : List Act) : Option St := as.foldlM (step c) s

def Reachable (c : Cfg) (input : List Nat) (closes cancels : Nat) (s : St) : Prop :=
  ∃ as, run c (init c input closes cancels) as = some s

def St.items (s : St) : List Nat :=
  s.got ++ s.seen ++ s.out ++ s.hold ++ s.droppedW ++ s.rd.held ++ s.droppedR ++ s.src

def measure (s : St) : Nat :=
  9 * s.src.length + 8 * s.rd.held.length + 6 * s.hold.length + 3 * s.out.length + s.rd.rank
    + 3 * s.fresh + 2 * s.idle + s.cons.rank + s.kst.rank + s.waiters + s.closeBudget + s.cancelBudget

def acts (k : Nat) : List Act :=
  [.close, .cancel, .cStart, .cRecv, .cEof, .cCtx, .wAdvance, .wCtxFresh, .rRead, .rHandoff, .rCtx, .rEof, .wEof, .wCtx,
   .kCancel, .kClose, .oExit] ++
  (List.range k).flatMap (fun i => [.wSend i, .wHandoff i, .wCtxHold i, .wSendClosed i, .wFinish i])

end FanOut

/-! ## Split with per-output contexts (the shape behind finding D25)

`Iterator.Split` (iterator.go:347-364): `setup` is `….Go().Once()` and is the PreHook of *every*
output, so it runs inside the first `ReadOne` of whichever output is advanced first, with the
context that output's `WithCancel` wrapper derived (producer.go:367-377): the reader goroutine's
sends select on *that* output's context. `Close` of an output cancels only its own context. -/
namespace Split

structure Out where
  closed : Bool := false
  parked : Bool := false
  got : List Nat := []
  deriving Repr, DecidableEq, Inhabited

structure St where
  src : List Nat
  rd : GState
  rdCtx : Option Nat      -- the output whose context the reader goroutine runs under
  spawned : Nat
  pclosed : Bool
  ucancel : Bool          -- the caller's context (shared by all outputs) is done
  outs : List Out
  deriving Repr, DecidableEq

inductive Act where
  | advance (i : Nat)     -- ReadOne on output i: closed → EOF; else PreHook(setup) and park
  | deliver (i : Nat)     -- rendezvous reader → parked output i
  | eof (i : Nat)         -- parked output i observes the closed pipe (and closes itself)
  | ctx (i : Nat)         -- parked output i observes its context done
  | close (i : Nat)       -- Close on output i
  | cancel                -- the caller's context is cancelled
  | rRead | rEof | rCtx
  deriving Repr, DecidableEq

/-- actions performed on or by output `i` (an abandoned output performs none of them) -/
def Act.touches (i : Nat) : Act → Bool
  | .advance j | .deliver j | .eof j | .ctx j | .close j => i == j
  | _ => false

def init (input : List Nat) (n : Nat) : St :=
  { src := input, rd := .notStarted, rdCtx := none, spawned := 0, pclosed := false, ucancel := false,
    outs := List.replicate n {} }

def St.ctxDone (s : St) (i : Nat) : Bool := s.ucancel || (s.outs[i]?.map (·.closed)).getD false

def St.rdDone (s : St) : Bool := match s.rdCtx with
  | some i => s.ctxDone i
  | none => false

def step (s : St) : Act → Option St
  | .advance i =>
    match s.outs[i]? with
    | some o =>
      if o.parked = false ∧ o.closed = false ∧ s.ucancel = false then
        match s.rd with
        | .notStarted => some { s with outs := s.outs.set i { o with parked := true }, rd := .running none,
                                       rdCtx := some i, spawned := s.spawned + 1 }
        | _ => some { s with outs := s.outs.set i { o with parked := true } }
      else none
    | none => none
  | .deliver i =>
    match s.outs[i]?, s.rd with
    | some o, .running (some x) =>
      if o.parked = true then some { s with outs := s.outs.set i { o with parked := false, got := o.got ++ [x] }, rd := .running none }
      else none
    | _, _ => none
  | .eof i =>
    match s.outs[i]? with
    | some o => if o.parked = true ∧ s.pclosed = true then some { s with outs := s.outs.set i { o with parked := false, closed := true } } else none
    | none => none
  | .ctx i =>
    match s.outs[i]? with
    | some o => if o.parked = true ∧ s.ctxDone i = true then some { s with outs := s.outs.set i { o with parked := false, closed := true } } else none
    | none => none
  | .close i =>
    match s.outs[i]? with
    | some o => some { s with outs := s.outs.set i { o with closed := true } }
    | none => none
  | .cancel => some { s with ucancel := true }
  | .rRead =>
    match s.rd, s.src with
    | .running none, x :: xs => if s.rdDone then none else some { s with rd := .running (some x), src := xs }
    | _, _ => none
  | .rEof =>
    match s.rd, s.src with
    | .running none, [] => some { s with rd := .exited, pclosed := true }
    | _, _ => none
  | .rCtx =>
    match s.rd with
    | .running _ => if s.rdDone then some { s with rd := .exited, pclosed := true } else none
    | _ => none

def run (s : St) (as : List Act) : Option St := as.foldlM step s

/-- the reader goroutine is alive and none of its own actions is enabled -/
def St.readerStuck (s : St) : Bool :=
  s.rd != .exited && s.rd != .notStarted &&
  (step s .rRead).isNone && (step s .rEof).isNone && (step s .rCtx).isNone

end Split

/-! ## Outcomes and the decidable `allowed` predicate evaluated by the driver on what the
    implementation did (T-out) -/

/-- what a finished run shows at the boundary -/
structure Outcome where
  delivered : List Nat    -- everything handed to consumers / user functions, per consumer in its order, concatenated
  failureFree : Bool      -- nothing stopped the run from outside
  eof : Bool              -- the consumer's last ReadOne returned io.EOF (workers: returned normally)
  leaked : Nat            -- goroutines of the construct that have not exited
  deriving Repr, DecidableEq

def countEq (a b : List Nat) : Bool := (a ++ b).all (fun x => a.count x == b.count x)
def countLe (a b : List Nat) : Bool := a.all (fun x => a.count x ≤ b.count x)

/-- the property (C01 + C04) as a decidable predicate on an outcome -/
def allowed (ordered : Bool) (input : List Nat) (o : Outcome) : Bool :=
  o.leaked == 0 &&
  countLe o.delivered input &&
  (!o.failureFree || (o.eof && countEq o.delivered input)) &&
  (!ordered || o.delivered.isPrefixOf input)

namespace Feeder
def outcome (s : St) : Outcome :=
  { delivered := s.got, failureFree := !s.envStopped, eof := s.cons = .done && s.pclosed,
    leaked := (if s.fd = .exited || s.fd = .notStarted then 0 else 1) + s.waiters }
end Feeder

namespace FanIn
def outcome (c : Cfg) (s : St) : Outcome :=
  { delivered := s.got, failureFree := !s.envStopped && !c.invalid, eof := s.cons = .done && s.pclosed,
    leaked := if s.started then (s.prods.filter (fun p => !p.exited)).length + (if s.kst = .exited then 0 else 1) else 0 }
end FanIn

namespace FanOut
def outcome (c : Cfg) (s : St) : Outcome :=
  { delivered := s.got ++ s.seen, failureFree := !s.envStopped && !c.invalid,
    eof := s.cons = .done && (if c.hasOut then s.oclosed else s.pclosed),
    leaked := if s.started then (if s.rd = .exited || s.rd = .notStarted then 0 else 1) + s.live
                + (if c.hasCloser && s.kst != .exited then 1 else 0) + s.waiters else 0 }
end FanOut

end FunModel.Pipe
