/-!
# Lock-set facts and the execution model for data-race freedom (property C13)

Core Lean only. Three layers:

* **Facts** — what `tools/lockfacts` extracts from the Go sources: for every node (method, helper,
  closure) its access sites with the tokens held *locally* there, its in-place calls, the ways
  client code can enter it, and the token set it *assumes* on entry (the lock-set certificate);
  plus the protection class of every location. `Disciplined : Facts → Bool` re-checks the
  certificate and every site (decidable, evaluated by the kernel on the generated table).
* **Executions** — traces of events of any number of threads: mutex acquire/release, `sync.Once`
  begin/end/return, spawn, plain and atomic accesses, frame enter/call/return. `WF` = the trace
  respects mutex exclusion, the Once rule and thread creation. Happens-before = program order +
  release→later acquire of the same mutex + Once completion→later Do-return + spawn→child.
* **Conformance** — `Conforms F tr`: the trace is an execution of code described by `F`: every
  access happens at a site of the node on top of the thread's frame stack, and the thread really
  holds the tokens the extractor says are held locally there (in addition to what it held when
  the frame was entered). This is exactly what is *trusted* about the extractor.

`FunProofs/Lockset.lean` proves: `Disciplined F → WF tr → Conforms F tr → ¬ Race tr`.
-/

namespace FunModel.Lockset

/-- what a thread can hold: a mutex, "I am inside the body of Once `o`", "a `Do` on `o` returned to me" -/
inductive Tok where
  | mu (m : Nat)
  | inOnce (o : Nat)
  | afterOnce (o : Nat)
  | afterLatch (a : Nat)   -- "I observed (atomically) that publication flag `a` has its final value"
  deriving DecidableEq, Repr

/-- kind of access at a site (`latchSet`: an atomic store to a publication flag that may store its
final value) -/
inductive Kind where
  | rd | wr | atomic | latchSet | unknown
  deriving DecidableEq, Repr

/-- protection class of a location (from the reviewed table `tools/lockfacts/classes.json`) -/
inductive Class where
  | mutex (m : Nat)     -- every access holds mutex `m`
  | once (o : Nat)      -- written only inside `o`'s body, read only inside it or after a `Do` on `o` returned
  | atomic              -- only accessed through atomic / internally synchronised operations
  | published           -- written only before the object is shared (constructor): every access here is a read
  | confined            -- belongs to a value handed to one goroutine (assumption on clients, see `Conforms`)
  | latched (m a : Nat) -- written under mutex `m` and only while flag `a` is not final; read under `m` or after observing `a` final
  | latch (m : Nat)     -- a publication flag (an atomic): stores happen under mutex `m`, everything else is an atomic load/CAS
  | unknown             -- not classified: never acceptable
  deriving DecidableEq, Repr

structure Site where
  key : String
  loc : Nat
  kind : Kind
  held : List Tok
  lost : List Tok := []       -- tokens of the caller that this node released before the access
  foreign : Bool := false     -- the access goes through *another* instance: nothing held counts
  exempt : Bool := false      -- recorded open finding (known-findings.jsonl): excluded from the claim
  deriving Repr

structure Call where
  key : String
  callee : Nat
  held : List Tok
  lost : List Tok := []
  foreign : Bool := false
  deriving Repr

structure Entry where
  key : String
  held : List Tok
  deriving Repr

structure Node where
  name : String
  ctx : String
  assumes : List Tok
  entries : List Entry
  sites : List Site
  calls : List Call
  deriving Repr

structure Facts where
  name : String
  muNames : List String
  onceNames : List String
  locNames : List String
  classes : List Class
  nodes : List Node
  deriving Repr

def Facts.classOf (F : Facts) (l : Nat) : Class := F.classes.getD l .unknown

def Facts.assumesOf (F : Facts) (n : Nat) : List Tok :=
  match F.nodes[n]? with
  | some nd => nd.assumes
  | none => []

/-- is an access of kind `k` to a location of class `c` ordered, given the tokens held? -/
def guardOK (c : Class) (k : Kind) (held : List Tok) : Bool :=
  match c, k with
  | _, .unknown => false
  | .mutex _, .latchSet => false
  | .mutex m, _ => held.contains (.mu m)
  | .once o, .wr => held.contains (.inOnce o)
  | .once o, .rd => held.contains (.inOnce o) || held.contains (.afterOnce o)
  | .once _, .atomic => false
  | .once _, .latchSet => false
  | .atomic, .atomic => true
  | .atomic, _ => false
  | .published, .rd => true
  | .published, _ => false
  | .confined, .latchSet => false
  | .confined, _ => true
  | .latched m _, .wr => held.contains (.mu m)
  | .latched m a, .rd => held.contains (.mu m) || held.contains (.afterLatch a)
  | .latched _ _, _ => false
  | .latch m, .latchSet => held.contains (.mu m)
  | .latch _, .atomic => true
  | .latch _, _ => false
  | .unknown, _ => false

def subset (a b : List Tok) : Bool := a.all (fun t => b.contains t)

/-- tokens the extractor claims are held at a site of node `nd`: what the node assumes on entry
(minus what it gave up since) plus what it acquired itself -/
def siteHeld (nd : Node) (s : Site) : List Tok :=
  if s.foreign then [] else nd.assumes.filter (fun t => !s.lost.contains t) ++ s.held

def callHeld (nd : Node) (c : Call) : List Tok :=
  if c.foreign then [] else nd.assumes.filter (fun t => !c.lost.contains t) ++ c.held

def siteOK (F : Facts) (nd : Node) (s : Site) : Bool :=
  s.exempt || guardOK (F.classOf s.loc) s.kind (siteHeld nd s)

def callOK (F : Facts) (nd : Node) (c : Call) : Bool :=
  decide (c.callee < F.nodes.length) && subset (F.assumesOf c.callee) (callHeld nd c)

/-- a location published through flag `a` under mutex `m` needs `a` itself to be a flag whose stores
happen under `m` -/
def classOK (F : Facts) (c : Class) : Bool :=
  match c with
  | .latched m a => F.classOf a == .latch m
  | _ => true

def nodeOK (F : Facts) (nd : Node) : Bool :=
  nd.entries.all (fun e => subset nd.assumes e.held) &&
  nd.calls.all (callOK F nd) &&
  nd.sites.all (siteOK F nd)

/-- the lock discipline: every entry provides what the node assumes, every in-place call provides
what the callee assumes, every (non-exempt) site is guarded according to its location's class -/
def Disciplined (F : Facts) : Bool := F.classes.all (classOK F) && F.nodes.all (nodeOK F)

/-- for reporting: keys of the sites / calls / entries that break the discipline -/
def violations (F : Facts) : List String :=
  F.nodes.flatMap fun nd =>
    (nd.entries.filter (fun e => !subset nd.assumes e.held)).map (fun e => "entry " ++ e.key) ++
    (nd.calls.filter (fun c => !callOK F nd c)).map (fun c => "call " ++ nd.name ++ " : " ++ c.key) ++
    (nd.sites.filter (fun s => !siteOK F nd s)).map (fun s => "site " ++ s.key)

def Facts.numSites (F : Facts) : Nat := (F.nodes.map (fun n => n.sites.length)).sum
def Facts.numCalls (F : Facts) : Nat := (F.nodes.map (fun n => n.calls.length)).sum
def Facts.numEntries (F : Facts) : Nat := (F.nodes.map (fun n => n.entries.length)).sum

/-! ## Executions -/

abbrev Tid := Nat

/-- what a thread does in one step. `acc`, `call` name the frame they execute in by the node and
the trace index at which that frame was created; `cell` distinguishes the instances of a
location (only used for class `confined`). -/
inductive Act where
  | acq (m : Nat)
  | rel (m : Nat)
  | onceBegin (o : Nat)      -- this thread is the one that runs the body of Once `o`
  | onceEnd (o : Nat)        -- the body finished
  | onceRet (o : Nat)        -- a call of `o.Do` returns (to the runner or to anybody else)
  | latchObs (a : Nat)       -- an atomic load / CAS observes the final value of flag `a`
  | spawn (child : Tid)
  | acc (node fr site : Nat) (loc cell : Nat) (k : Kind)
  | enter (node entry : Nat) -- client code (any goroutine) enters `node` through its entry #`entry`
  | call (node fr c : Nat)   -- the frame (`node`, created at index `fr`) performs its in-place call #`c`
  deriving DecidableEq, Repr

structure Ev where
  tid : Tid
  act : Act
  deriving DecidableEq, Repr

abbrev Trace := List Ev

/-- step `i` of the trace is action `a` of thread `t` -/
abbrev At (tr : Trace) (i : Nat) (t : Tid) (a : Act) : Prop := tr[i]? = some (Ev.mk t a)

/-- thread `t` holds token `tok` just before step `i` of the trace -/
def Holds (tr : Trace) (i : Nat) (t : Tid) : Tok → Prop
  | .mu m => ∃ j, j < i ∧ At tr j t (.acq m) ∧ ∀ k, j < k → k < i → ¬ At tr k t (.rel m)
  | .inOnce o => ∃ j, j < i ∧ At tr j t (.onceBegin o) ∧ ∀ k, j < k → k < i → ¬ At tr k t (.onceEnd o)
  | .afterOnce o => ∃ j, j < i ∧ At tr j t (.onceRet o)
  | .afterLatch a => ∃ j, j < i ∧ At tr j t (.latchObs a)

/-- the trace respects the synchronisation primitives: a mutex is acquired only when nobody holds
it; the body of a Once is begun at most once, ended by the thread that began it, and `Do` returns
only after the body ended; a flag is observed final only after it was set; a spawned thread has no
earlier steps -/
structure WF (tr : Trace) : Prop where
  mutex : ∀ (i : Nat) (t : Tid) (m : Nat), At tr i t (.acq m) → ∀ t', ¬ Holds tr i t' (.mu m)
  onceBeginUniq : ∀ (i j : Nat) (t t' : Tid) (o : Nat), At tr i t (.onceBegin o) → At tr j t' (.onceBegin o) → i = j
  onceEnd : ∀ (i : Nat) (t : Tid) (o : Nat), At tr i t (.onceEnd o) → Holds tr i t (.inOnce o)
  onceRet : ∀ (i : Nat) (t : Tid) (o : Nat), At tr i t (.onceRet o) → ∃ e t', e < i ∧ At tr e t' (.onceEnd o)
  latchObs : ∀ (i : Nat) (t : Tid) (a : Nat), At tr i t (.latchObs a) →
    ∃ k t' n f s c, k < i ∧ At tr k t' (.acc n f s a c .latchSet)
  spawnFresh : ∀ (i : Nat) (t c : Tid), At tr i t (.spawn c) → ∀ (j : Nat) (a : Act), j ≤ i → ¬ At tr j c a

/-- happens-before of Go's memory model, restricted to the edges this development uses: program
order, unlock → later lock of the same mutex, completion of a Once body → later return of `Do`,
atomic store of a flag → later atomic observation of it, go statement → steps of the new goroutine -/
inductive HB (tr : Trace) : Nat → Nat → Prop where
  | po {i j : Nat} {t : Tid} {a b : Act} : i < j → At tr i t a → At tr j t b → HB tr i j
  | relAcq {i j : Nat} {t t' : Tid} {m : Nat} : i < j → At tr i t (.rel m) → At tr j t' (.acq m) → HB tr i j
  | once {i j : Nat} {t t' : Tid} {o : Nat} : i < j → At tr i t (.onceEnd o) → At tr j t' (.onceRet o) → HB tr i j
  | latch {i j : Nat} {t t' : Tid} {n f s a c : Nat} : i < j → At tr i t (.acc n f s a c .latchSet) →
      At tr j t' (.latchObs a) → HB tr i j
  | spawn {i j : Nat} {t c : Tid} {a : Act} : i < j → At tr i t (.spawn c) → At tr j c a → HB tr i j
  | trans {i j k : Nat} : HB tr i j → HB tr j k → HB tr i k

/-- two accesses conflict when at least one writes and they are not both atomic -/
def conflicting : Kind → Kind → Bool
  | .rd, .rd => false
  | .atomic, .atomic => false
  | .atomic, .latchSet => false
  | .latchSet, .atomic => false
  | .latchSet, .latchSet => false
  | _, _ => true

/-- a data race: two conflicting accesses to the same cell of the same location that are not
ordered by happens-before -/
def Race (tr : Trace) : Prop :=
  ∃ (i j : Nat) (t₁ t₂ : Tid) (n₁ f₁ s₁ n₂ f₂ s₂ l c : Nat) (k₁ k₂ : Kind), i < j ∧
    At tr i t₁ (.acc n₁ f₁ s₁ l c k₁) ∧ At tr j t₂ (.acc n₂ f₂ s₂ l c k₂) ∧
    conflicting k₁ k₂ = true ∧ ¬ HB tr i j

/-- semantic lock discipline of a trace: at every access the thread holds tokens that make the
access acceptable for the class of the location -/
def TraceDisciplined (cls : Nat → Class) (tr : Trace) : Prop :=
  ∀ (i : Nat) (t : Tid) (n f s l c : Nat) (k : Kind), At tr i t (.acc n f s l c k) →
    ∃ held : List Tok, (∀ tok ∈ held, Holds tr i t tok) ∧ guardOK (cls l) k held = true

/-- `confined` locations: each cell is only ever touched by one thread (assumption on clients) -/
def ConfinedOK (cls : Nat → Class) (tr : Trace) : Prop :=
  ∀ (i j : Nat) (t₁ t₂ : Tid) (n₁ f₁ s₁ n₂ f₂ s₂ l c : Nat) (k₁ k₂ : Kind),
    At tr i t₁ (.acc n₁ f₁ s₁ l c k₁) → At tr j t₂ (.acc n₂ f₂ s₂ l c k₂) → cls l = .confined → t₁ = t₂

/-- `latched m a` locations are only written while flag `a` has not been given its final value -/
def PreLatch (cls : Nat → Class) (tr : Trace) : Prop :=
  ∀ (i : Nat) (t : Tid) (n f s l c m a : Nat), At tr i t (.acc n f s l c .wr) → cls l = .latched m a →
    ∀ (k : Nat) (t' : Tid) (n' f' s' c' : Nat), k < i → ¬ At tr k t' (.acc n' f' s' a c' .latchSet)

def LatchConsistent (cls : Nat → Class) : Prop := ∀ l m a, cls l = .latched m a → cls a = .latch m

/-! ## Conformance of a trace with extracted facts (what is trusted about the extractor) -/

/-- step `e` of thread `t` creates a frame of node `n` -/
def Creates (F : Facts) (tr : Trace) (e : Nat) (t : Tid) (n : Nat) : Prop :=
  (∃ k, At tr e t (.enter n k)) ∨
  (∃ n₀ e₀ c nd cl, At tr e t (.call n₀ e₀ c) ∧ F.nodes[n₀]? = some nd ∧ nd.calls[c]? = some cl ∧ cl.callee = n)

/-- the trace is an execution of code described by `F`:
* client code enters nodes only through listed entries, holding what the entry says;
* a frame calls / accesses only through its node's listed calls / (non-exempt) sites;
* at a call or access the thread holds the tokens the extractor lists as acquired locally, and
  still holds whatever its node assumes and it held when the frame was created (unless the node
  gave it up: `lost`);
* the class-specific client / protocol assumptions (`ConfinedOK`, `PreLatch`). -/
structure Conforms (F : Facts) (tr : Trace) : Prop where
  enterOK : ∀ (e : Nat) (t : Tid) (n k : Nat), At tr e t (.enter n k) →
    ∃ nd en, F.nodes[n]? = some nd ∧ nd.entries[k]? = some en ∧ ∀ tok ∈ en.held, Holds tr e t tok
  callOK : ∀ (i : Nat) (t : Tid) (n e c : Nat), At tr i t (.call n e c) →
    ∃ nd cl, F.nodes[n]? = some nd ∧ nd.calls[c]? = some cl ∧ Creates F tr e t n ∧ e < i ∧
      (∀ tok ∈ cl.held, Holds tr i t tok) ∧
      (cl.foreign = false → ∀ tok ∈ nd.assumes, tok ∉ cl.lost → Holds tr e t tok → Holds tr i t tok)
  accOK : ∀ (i : Nat) (t : Tid) (n e s l c : Nat) (k : Kind), At tr i t (.acc n e s l c k) →
    ∃ nd st, F.nodes[n]? = some nd ∧ nd.sites[s]? = some st ∧ st.loc = l ∧ st.kind = k ∧ st.exempt = false ∧
      Creates F tr e t n ∧ e < i ∧
      (∀ tok ∈ st.held, Holds tr i t tok) ∧
      (st.foreign = false → ∀ tok ∈ nd.assumes, tok ∉ st.lost → Holds tr e t tok → Holds tr i t tok)
  confined : ConfinedOK F.classOf tr
  prelatch : PreLatch F.classOf tr

end FunModel.Lockset
