/-!
# Lock-set facts and the execution model for data-race freedom (property C13)

Core Lean only. Three layers:

* **Facts** — what `tools/lockfacts` extracts from the Go sources: for every node (method, helper,
  closure) its access sites with the tokens held *locally* there, its in-place calls, the ways
  client code can enter it, and the token set it *assumes* on entry (the lock-set certificate);
  plus the protection class of every location. `Disciplined : Facts → Bool` re-checks the
  certificate and every site (decidable, evaluated by the kernel on the generated table).
* **Executions** — traces of events of any number of threads: mutex acquire/release, `sync.Once`
  begin/end/return, spawn, plain and atomic accesses, frame enter/call/return. `WF` = the trace
  respects mutex exclusion, the Once rule and thread creation. Happens-before = program order +
  release→later acquire of the same mutex + Once completion→later Do-return + spawn→child.
* **Conformance** — `Conforms F tr`: the trace is an execution of code described by `F`: every
  access happens at a site of the node on top of the thread's frame stack, and the thread really
  holds the tokens the extractor says are held locally there (in addition to what it held when
  the frame was entered). This is exactly what is *trusted* about the extractor.

`FunProofs/Lockset.lean` proves: `Disciplined F → WF tr → Conforms F tr → ¬ Race tr`.
-/

namespace FunModel.Lockset

/-- what a thread can hold: a mutex, "I am inside the body of Once `o`", "a `Do` on `o` returned to me" -/
inductive Tok where
  | mu (m : Nat)
  | inOnce (o : Nat)
  | afterOnce (o : Nat)
  | afterLatch (a : Nat)   -- "I observed (atomically) that publication flag `a` has its final value"
  deriving DecidableEq, Repr

/-- kind of access at a site (`latchSet`: an atomic store to a publication flag that may store its
final value) -/
inductive Kind where
  | rd | wr | atomic | latchSet | unknown
  deriving DecidableEq, Repr

/-- protection class of a location (from the reviewed table `tools/lockfacts/classes.json`) -/
inductive Class where
  | mutex (m : Nat)     -- every access holds mutex `m`
  | once (o : Nat)      -- written only inside `o`'s body, read only inside it or after a `Do` on `o` returned
  | atomic              -- only accessed through atomic / internally synchronised operations
  | published           -- written only before the object is shared (constructor): every access here is a read
  | confined            -- belongs to a value handed to one goroutine (assumption on clients, see `Conforms`)
  | latched (m a : Nat) -- written under mutex `m` and only while flag `a` is not final; read under `m` or after observing `a` final
  | latch (m : Nat)     -- a publication flag (an atomic): stores happen under mutex `m`, everything else is an atomic load/CAS
  | unknown             -- not classified: never acceptable
  deriving DecidableEq, Repr

structure Site where
  key : String
  loc : Nat
  kind : Kind
  held : List Tok
  foreign : Bool := false     -- the access goes through *another* instance: nothing held counts
  exempt : Bool := false      -- recorded open finding (known-findings.jsonl): excluded from the claim
  deriving Repr

structure Call where
  key : String
  callee : Nat
  held : List Tok
  foreign : Bool := false
  deriving Repr

structure Entry where
  key : String
  held : List Tok
  deriving Repr

structure Node where
  name : String
  ctx : String
  assumes : List Tok
  entries : List Entry
  sites : List Site
  calls : List Call
  deriving Repr

structure Facts where
  name : String
  muNames : List String
  onceNames : List String
  locNames : List String
  classes : List Class
  nodes : List Node
  deriving Repr

def Facts.classOf (F : Facts) (l : Nat) : Class := F.classes.getD l .unknown

def Facts.assumesOf (F : Facts) (n : Nat) : List Tok :=
  match F.nodes[n]? with
  | some nd => nd.assumes
  | none => []

/-- is an access of kind `k` to a location of class `c` ordered, given the tokens held? -/
def guardOK (c : Class) (k : Kind) (held : List Tok) : Bool :=
  match c, k with
  | _, .unknown => false
  | .mutex _, .latchSet => false
  | .mutex m, _ => held.contains (.mu m)
  | .once o, .wr => held.contains (.inOnce o)
  | .once o, .rd => held.contains (.inOnce o) || held.contains (.afterOnce o)
  | .once _, .atomic => false
  | .once _, .latchSet => false
  | .atomic, .atomic => true
  | .atomic, _ => false
  | .published, .rd => true
  | .published, _ => false
  | .confined, .latchSet => false
  | .confined, _ => true
  | .latched m _, .wr => held.contains (.mu m)
  | .latched m a, .rd => held.contains (.mu m) || held.contains (.afterLatch a)
  | .latched _ _, _ => false
  | .latch m, .latchSet => held.contains (.mu m)
  | .latch _, .atomic => true
  | .latch _, _ => false
  | .unknown, _ => false

def subset (a b : List Tok) : Bool := a.all (fun t => b.contains t)

/-- tokens the extractor claims are held at a site of node `nd` -/
def siteHeld (nd : Node) (s : Site) : List Tok := if s.foreign then [] else nd.assumes ++ s.held

def callHeld (nd : Node) (c : Call) : List Tok := if c.foreign then [] else nd.assumes ++ c.held

def siteOK (F : Facts) (nd : Node) (s : Site) : Bool :=
  s.exempt || guardOK (F.classOf s.loc) s.kind (siteHeld nd s)

def callOK (F : Facts) (nd : Node) (c : Call) : Bool :=
  decide (c.callee < F.nodes.length) && subset (F.assumesOf c.callee) (callHeld nd c)

def nodeOK (F : Facts) (nd : Node) : Bool :=
  nd.entries.all (fun e => subset nd.assumes e.held) &&
  nd.calls.all (callOK F nd) &&
  nd.sites.all (siteOK F nd)

/-- the lock discipline: every entry provides what the node assumes, every in-place call provides
what the callee assumes, every (non-exempt) site is guarded according to its location's class -/
def Disciplined (F : Facts) : Bool := F.nodes.all (nodeOK F)

/-- for reporting: keys of the sites / calls / entries that break the discipline -/
def violations (F : Facts) : List String :=
  F.nodes.flatMap fun nd =>
    (nd.entries.filter (fun e => !subset nd.assumes e.held)).map (fun e => "entry " ++ e.key) ++
    (nd.calls.filter (fun c => !callOK F nd c)).map (fun c => "call " ++ nd.name ++ " : " ++ c.key) ++
    (nd.sites.filter (fun s => !siteOK F nd s)).map (fun s => "site " ++ s.key)

def Facts.numSites (F : Facts) : Nat := (F.nodes.map (fun n => n.sites.length)).sum
def Facts.numCalls (F : Facts) : Nat := (F.nodes.map (fun n => n.calls.length)).sum
def Facts.numEntries (F : Facts) : Nat := (F.nodes.map (fun n => n.entries.length)).sum

end FunModel.Lockset
