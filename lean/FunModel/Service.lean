/-! Small-step model of `srv.Service` (srv/service.go) — C10.

    One *action* is one atomic step of one actor: a caller thread inside `Start`, `Close`, `Wait`
    or `Running`, one of the three service goroutines that `Start` launches (the error-handler
    goroutine `eh`, the shutdown goroutine `sd`, the Run goroutine `rg` with its deferred chain),
    or the environment cancelling a parent context. The step boundaries are exactly the yield
    points (`verifAt` / `verifYield`) in service.go, so the harness (harness/c10.go) can realise
    any schedule of these actions on the real code and compare observations step by step.

    What is modelled, line by line (numbers = the code's atomic operations):
      Start   : isFinished.Load | isRunning.Swap(true) | [isFinished.Load | isRunning.Store(false)]
                | doStart.Do{ wg.Add×3, go eh, WithCancel, go sd, go rg } | isStarted.Store(true)
                | [isRunning.Store(true)] ; Once completes ; return nil
      Close   : isRunning.Load && cancel != nil → cancel()
      Wait    : isFinished.Load | isStarted.Load | wg.Wait ; ec.Resolve
      Running : [isFinished.Load |] isRunning.Load
      rg      : Run begins | Run ends (ec.Add / panics) | cancel() | Recover | <-shutdownSignal ;
                close(ehSignal) | Cleanup begins | Cleanup ends (ec.Add / Recover) |
                isFinished.Store(true) | isRunning.Store(false) | close(mainSignal) | wg.Done
      sd      : <-ctx.Done ; Shutdown begins | Shutdown ends (ec.Add / Recover) |
                close(shutdownSignal) | wg.Done
      eh      : <-mainSignal | <-ehSignal ; ErrorHandler.Get ; ec.Resolve ; handler begins |
                handler ends (Recover) | wg.Done
    The bracketed parts depend on three flags of `Cfg` that select the code variant:
      `fixD19`     = false : Start still runs the deferred `isRunning.Store(true)` (tree before the fix)
      `fixD20`     = false : Start has no second `isFinished` check after the swap
      `fixRunning` = false : Running() is `isRunning.Load()` alone
    All three are `true` for the tree as it is now; the `false` variants are kept only so that
    the counter-schedules of the old code stay kernel-checked (FunProps/C10.lean, "witness").

    Trusted/abstracted: atomics are sequentially consistent; `sync.Once` = {fresh, running, done}
    (a second caller blocks while running); closing a channel releases every receiver; `cancel()`
    of a context is atomic and propagates from the parent at once; the `erc.Collector` is the list of
    leaf ids pushed under its mutex (FunProps/C10 connects it to the C12 model of `errors.Is`);
    a call of a nil `Run` panics in the Run goroutine (nil-function call) and is recovered there.
    The unsynchronised read of `s.cancel` in `Close` is a data-race question (C13), not modelled. -/

namespace FunModel.Service

/-- what a phase function does when called -/
inductive Outcome where
  | absent            -- the field is nil
  | ok                -- returns nil
  | err (e : Nat)     -- returns the error with identity `e`
  | panic (p : Nat)   -- panics with a payload whose error identity is `p`
  deriving Repr, DecidableEq

inductive Phase where
  | run | shutdown | cleanup | handler
  deriving Repr, DecidableEq

/-- identity of `ers.ErrRecoveredPanic` (same id as in FunModel/Err.lean) -/
def idPanic : Nat := 1000
/-- identity of the runtime error of calling a nil function -/
def idNilCall : Nat := 1002

structure Cfg where
  run : Outcome
  shutdown : Outcome
  cleanup : Outcome
  handler : Outcome
  /-- Run returns only after its context has ended (otherwise it may return at any moment) -/
  runBlocks : Bool
  fixD19 : Bool := true
  fixD20 : Bool := true
  fixRunning : Bool := true
  deriving Repr, DecidableEq

def Cfg.get (c : Cfg) : Phase → Outcome
  | .run => c.run | .shutdown => c.shutdown | .cleanup => c.cleanup | .handler => c.handler

/-- the tree as it is now -/
def Cfg.current (c : Cfg) : Prop := c.fixD19 = true ∧ c.fixD20 = true ∧ c.fixRunning = true

instance (c : Cfg) : Decidable c.current := by unfold Cfg.current; exact inferInstance

/-- what `ec.Add(result)` / `erc.Recover` push for an outcome -/
def Outcome.adds : Outcome → List Nat
  | .absent => []
  | .ok => []
  | .err e => [e]
  | .panic p => [p, idPanic]

inductive Op where
  | start (parent : Nat)   -- Start(ctx) with ctx derived from parent context `parent`
  | close
  | wait
  | running
  deriving Repr, DecidableEq

inductive Ret where
  | startNil | startAlready | startReturned
  | closed
  | waitNotStarted
  | waitResult (ids : List Nat)   -- ec.Resolve(): the leaf ids errors.Is finds; [] = nil
  | running (b : Bool)
  deriving Repr, DecidableEq

/-- where a caller thread is inside its current operation -/
inductive Loc where
  | idle
  | startChecked     -- isFinished was false                          (yield Start.checked)
  | startSwapped     -- Swap(true) returned false                     (yield Start.swapped)
  | startRechecked   -- the second isFinished check said true         (yield Start.rechecked)
  | startClaimed     -- before doStart.Do                             (yield Start.claimed)
  | startLaunched    -- in the closure, goroutines launched           (yield Start.launched)
  | startStarted     -- isStarted stored                              (yield Start.started)
  | waitChecked      -- isFinished was false                          (yield Wait.checked)
  | waitStarted      -- isStarted was true, before wg.Wait            (yield Wait.started)
  | runningChecked   -- Running(): isFinished was false               (yield Running.checked)
  deriving Repr, DecidableEq

inductive Once where
  | fresh | running | done
  deriving Repr, DecidableEq

/-- Run goroutine -/
inductive RgLoc where
  | none         -- not launched
  | entry        -- (yield run.entry)
  | inRun        -- inside Run
  | returned     -- Run returned or panicked; before cancel()     (yield run.returned)
  | cancelled    -- before erc.Recover                            (yield run.cancelled)
  | recovered    -- before <-shutdownSignal                       (yield run.recovered)
  | signalled    -- ehSignal closed; before Cleanup               (yield run.signalled)
  | inCleanup    -- inside Cleanup
  | cleaned      -- before isFinished.Store(true)                 (yield run.cleaned)
  | finished     -- before isRunning.Store(false)                 (yield run.finished)
  | closing      -- before close(mainSignal)                      (yield run.closing)
  | exit         -- before wg.Done                                (yield run.exit)
  | gone
  deriving Repr, DecidableEq

/-- shutdown goroutine -/
inductive SdLoc where
  | none | entry | inShutdown | closing | exit | gone
  deriving Repr, DecidableEq

/-- error-handler goroutine -/
inductive EhLoc where
  | none | entry | main | inHandler | exit | gone
  deriving Repr, DecidableEq

inductive Ev where
  | call (t i : Nat) (op : Op)
  | ret (t i : Nat) (r : Ret)
  | phBegin (p : Phase) (agg : List Nat)   -- `agg`: what the handler was given ([] for the others)
  | phEnd (p : Phase)
  | cancelParent (p : Nat)
  deriving Repr, DecidableEq

structure Thread where
  ops : List Op
  pc : Nat := 0
  loc : Loc := .idle
  deriving Repr, DecidableEq

structure State where
  isRunning : Bool := false
  isFinished : Bool := false
  isStarted : Bool := false
  once : Once := .fresh
  cancelSet : Bool := false           -- s.cancel != nil
  svcParent : Option Nat := none      -- the parent of the service context
  cancelled : List Nat := []          -- parent contexts that were cancelled
  cancelCalled : Bool := false        -- s.cancel() was called
  shutdownSig : Bool := false         -- closed?
  ehSig : Bool := false
  mainSig : Bool := false
  coll : List Nat := []               -- the collector's leaves, oldest first
  wg : Nat := 0
  rg : RgLoc := .none
  sd : SdLoc := .none
  eh : EhLoc := .none
  panicking : Option Nat := none      -- Run panicked with this payload, not yet recovered
  ths : List Thread := []
  claimed : Bool := false             -- ghost: some Start passed the swap (and the re-check)
  clock : Nat := 0                    -- ghost: number of steps so far
  log : List (Nat × Ev) := []         -- ghost: the call log
  deriving Repr, DecidableEq

inductive Act where
  | th (t : Nat) | rg | sd | eh | cancelParent (p : Nat)
  deriving Repr, DecidableEq

/-- the service context has ended -/
def State.ctxDone (s : State) : Bool :=
  s.cancelCalled || (match s.svcParent with | some p => s.cancelled.contains p | none => false)

/-- `Running()` evaluated in one piece (what an observer outside the schedule sees) -/
def State.runningNow (c : Cfg) (s : State) : Bool :=
  if c.fixRunning then !s.isFinished && s.isRunning else s.isRunning

def State.tick (s : State) (evs : List Ev) : State :=
  { s with clock := s.clock + 1, log := s.log ++ evs.map (fun e => (s.clock, e)) }

def State.setTh (s : State) (t : Nat) (th : Thread) : State := { s with ths := s.ths.set t th }

/-- thread `t` moves to `loc` inside its operation -/
def State.goto (s : State) (t : Nat) (th : Thread) (loc : Loc) (evs : List Ev := []) : State :=
  (s.setTh t { th with loc := loc }).tick evs

/-- thread `t` returns `r` from its operation -/
def State.finish (s : State) (t : Nat) (th : Thread) (r : Ret) (evs : List Ev := []) : State :=
  (s.setTh t { th with pc := th.pc + 1, loc := .idle }).tick (evs ++ [.ret t th.pc r])

/-- one atomic step of caller thread `t` -/
def stepTh (c : Cfg) (s : State) (t : Nat) : Option State :=
  match s.ths[t]? with
  | none => none
  | some th =>
    match th.ops[th.pc]? with
    | none => none
    | some op =>
      let call := [Ev.call t th.pc op]
      match op, th.loc with
      -- Start ---------------------------------------------------------------------------------
      | .start _, .idle =>
        if s.isFinished then some (s.finish t th .startReturned call)
        else some (s.goto t th .startChecked call)
      | .start _, .startChecked =>
        if s.isRunning then some (s.finish t th .startAlready)
        else some ({ s with isRunning := true }.goto t th .startSwapped)
      | .start _, .startSwapped =>
        if c.fixD20 && s.isFinished then some (s.goto t th .startRechecked)
        else some ({ s with claimed := true }.goto t th .startClaimed)
      | .start _, .startRechecked =>
        some ({ s with isRunning := false }.finish t th .startReturned)
      | .start p, .startClaimed =>
        match s.once with
        | .fresh =>
          some ({ s with once := .running, wg := s.wg + 3, eh := .entry, sd := .entry, rg := .entry,
                         cancelSet := true, svcParent := some p }.goto t th .startLaunched)
        | .running => none                       -- sync.Once: wait for the first caller
        | .done => some (s.finish t th .startNil)
      | .start _, .startLaunched =>
        some ({ s with isStarted := true }.goto t th .startStarted)
      | .start _, .startStarted =>
        some ({ s with isRunning := if c.fixD19 then s.isRunning else true, once := .done }.finish t th .startNil)
      -- Close ---------------------------------------------------------------------------------
      | .close, .idle =>
        some ({ s with cancelCalled := s.cancelCalled || (s.isRunning && s.cancelSet) }.finish t th .closed call)
      -- Wait ----------------------------------------------------------------------------------
      | .wait, .idle =>
        if s.isFinished then some (s.finish t th (.waitResult s.coll) call)
        else some (s.goto t th .waitChecked call)
      | .wait, .waitChecked =>
        if s.isStarted then some (s.goto t th .waitStarted)
        else some (s.finish t th .waitNotStarted)
      | .wait, .waitStarted =>
        if s.wg = 0 then some (s.finish t th (.waitResult s.coll)) else none
      -- Running -------------------------------------------------------------------------------
      | .running, .idle =>
        if c.fixRunning then
          if s.isFinished then some (s.finish t th (.running false) call)
          else some (s.goto t th .runningChecked call)
        else some (s.finish t th (.running s.isRunning) call)
      | .running, .runningChecked => some (s.finish t th (.running s.isRunning))
      | _, _ => none

/-- one atomic step of the Run goroutine -/
def stepRg (c : Cfg) (s : State) : Option State :=
  match s.rg with
  | .none => none
  | .entry =>
    match c.run with
    | .absent => some ({ s with panicking := some idNilCall, rg := .returned }.tick [])
    | _ => some ({ s with rg := .inRun }.tick [.phBegin .run []])
  | .inRun =>
    if c.runBlocks && !s.ctxDone then none
    else
      match c.run with
      | .panic p => some ({ s with panicking := some p, rg := .returned }.tick [.phEnd .run])
      | o => some ({ s with coll := s.coll ++ o.adds, rg := .returned }.tick [.phEnd .run])
  | .returned => some ({ s with cancelCalled := true, rg := .cancelled }.tick [])
  | .cancelled =>
    match s.panicking with
    | some p => some ({ s with coll := s.coll ++ [p, idPanic], panicking := none, rg := .recovered }.tick [])
    | none => some ({ s with rg := .recovered }.tick [])
  | .recovered =>
    if s.shutdownSig then some ({ s with ehSig := true, rg := .signalled }.tick []) else none
  | .signalled =>
    match c.cleanup with
    | .absent => some ({ s with rg := .cleaned }.tick [])
    | _ => some ({ s with rg := .inCleanup }.tick [.phBegin .cleanup []])
  | .inCleanup => some ({ s with coll := s.coll ++ c.cleanup.adds, rg := .cleaned }.tick [.phEnd .cleanup])
  | .cleaned => some ({ s with isFinished := true, rg := .finished }.tick [])
  | .finished => some ({ s with isRunning := false, rg := .closing }.tick [])
  | .closing => some ({ s with mainSig := true, rg := .exit }.tick [])
  | .exit => some ({ s with wg := s.wg - 1, rg := .gone }.tick [])
  | .gone => none

/-- one atomic step of the shutdown goroutine -/
def stepSd (c : Cfg) (s : State) : Option State :=
  match s.sd with
  | .none => none
  | .entry =>
    if s.ctxDone then
      match c.shutdown with
      | .absent => some ({ s with sd := .closing }.tick [])
      | _ => some ({ s with sd := .inShutdown }.tick [.phBegin .shutdown []])
    else none
  | .inShutdown => some ({ s with coll := s.coll ++ c.shutdown.adds, sd := .closing }.tick [.phEnd .shutdown])
  | .closing => some ({ s with shutdownSig := true, sd := .exit }.tick [])
  | .exit => some ({ s with wg := s.wg - 1, sd := .gone }.tick [])
  | .gone => none

/-- one atomic step of the error-handler goroutine -/
def stepEh (c : Cfg) (s : State) : Option State :=
  match s.eh with
  | .none => none
  | .entry => if s.mainSig then some ({ s with eh := .main }.tick []) else none
  | .main =>
    if s.ehSig then
      if c.handler ≠ .absent ∧ s.coll ≠ [] then some ({ s with eh := .inHandler }.tick [.phBegin .handler s.coll])
      else some ({ s with eh := .exit }.tick [])
    else none
  | .inHandler =>
    match c.handler with
    | .panic p => some ({ s with coll := s.coll ++ [p, idPanic], eh := .exit }.tick [.phEnd .handler])
    | _ => some ({ s with eh := .exit }.tick [.phEnd .handler])
  | .exit => some ({ s with wg := s.wg - 1, eh := .gone }.tick [])
  | .gone => none

def step (c : Cfg) (s : State) : Act → Option State
  | .th t => stepTh c s t
  | .rg => stepRg c s
  | .sd => stepSd c s
  | .eh => stepEh c s
  | .cancelParent p =>
    if s.cancelled.contains p then none
    else some ({ s with cancelled := p :: s.cancelled }.tick [.cancelParent p])

def enabled (c : Cfg) (s : State) (a : Act) : Bool := (step c s a).isSome

/-- run an action list from `s` (none = some action was not enabled) -/
def run (c : Cfg) (s : State) (as : List Act) : Option State := as.foldlM (step c) s

def init (programs : List (List Op)) : State := { ths := programs.map (fun p => { ops := p }) }

/-- `s` is reachable for the thread programs `programs` -/
def Reachable (c : Cfg) (programs : List (List Op)) (s : State) : Prop :=
  ∃ as, run c (init programs) as = some s

/-! ### The property as a decidable predicate on a call log (`allowedLog`)

    The log is what an observer outside the Service can record: calls and returns of the public
    methods, begin/end of the four phase functions, cancellations of parent contexts, each with a
    logical clock. It is evaluated both on the model's own log (theorem `allowedLog_of_reachable`)
    and on the logs the harness records from the real code. -/

abbrev Log := List (Nat × Ev)

def Outcome.present : Outcome → Bool
  | .absent => false
  | _ => true

def countEv (l : Log) (p : Ev → Bool) : Nat := (l.filter (fun x => p x.2)).length

def isBegin (ph : Phase) : Ev → Bool
  | .phBegin q _ => q == ph
  | _ => false

def isEnd (ph : Phase) : Ev → Bool
  | .phEnd q => q == ph
  | _ => false

def isStartNil : Ev → Bool
  | .ret _ _ .startNil => true
  | _ => false

def isStartCall : Ev → Bool
  | .call _ _ (.start _) => true
  | _ => false

def isCall : Ev → Bool
  | .call _ _ _ => true
  | _ => false

def isRet : Ev → Bool
  | .ret _ _ _ => true
  | _ => false

def isWaitRes : Ev → Bool
  | .ret _ _ (.waitResult _) => true
  | _ => false

def isCloseCall : Ev → Bool
  | .call _ _ .close => true
  | _ => false

/-- some event satisfying `p` has a clock strictly below `k` -/
def before (l : Log) (k : Nat) (p : Ev → Bool) : Bool := l.any (fun x => x.1 < k && p x.2)

/-- phase `ph` is not configured, or it has returned before clock `k` -/
def endedBefore (c : Cfg) (l : Log) (k : Nat) (ph : Phase) : Bool :=
  !(c.get ph).present || before l k (isEnd ph)

/-- Run, Shutdown and Cleanup have returned before clock `k` -/
def phasesDoneBefore (c : Cfg) (l : Log) (k : Nat) : Bool :=
  endedBefore c l k .run && endedBefore c l k .shutdown && endedBefore c l k .cleanup

/-- the ids `errors.Is` must find in Wait's result -/
def mustIds (c : Cfg) : List Nat :=
  let one (o : Outcome) : List Nat := match o with | .err e => [e] | .panic _ => [idPanic] | _ => []
  (match c.run with | .absent => [idPanic] | o => one o) ++ one c.shutdown ++ one c.cleanup

/-- a reason why the context may have ended before clock `k` -/
def ctxEndBefore (c : Cfg) (l : Log) (k : Nat) : Bool :=
  !c.run.present || before l k (isEnd .run)
  || before l k isCloseCall
  || l.any (fun x => match x.2 with
      | .cancelParent p => x.1 < k && l.any (fun y => match y.2 with | .call _ _ (.start q) => p == q | _ => false)
      | _ => false)

/-- the log holds a `Running()` call of operation `i` of thread `t` before which no Wait had returned a result -/
def runningCallOk (l : Log) (t i : Nat) : Bool :=
  l.any (fun y => y.2 == .call t i .running && !before l y.1 isWaitRes)

/-- every call in the log has returned -/
def complete (l : Log) : Bool :=
  l.all (fun x => match x.2 with
    | .call t i _ => l.any (fun y => match y.2 with | .ret t' i' _ => t' == t && i' == i | _ => false)
    | _ => true)

/-- the per-event obligations -/
def evOk (c : Cfg) (l : Log) (k : Nat) : Ev → Bool
  | .phBegin .run _ => c.run.present
  | .phBegin .shutdown _ => c.shutdown.present && ctxEndBefore c l k
  | .phBegin .cleanup _ => c.cleanup.present && endedBefore c l k .run && endedBefore c l k .shutdown
  | .phBegin .handler agg => c.handler.present && !agg.isEmpty && phasesDoneBefore c l k
  | .phEnd ph => before l k (isBegin ph)
  | .ret _ _ (.waitResult ids) =>
    phasesDoneBefore c l k && (mustIds c).all (fun i => ids.contains i) && (!(mustIds c).isEmpty || ids.isEmpty)
  | .ret _ _ .startReturned => phasesDoneBefore c l k
  | .ret t i (.running true) => runningCallOk l t i   -- no Wait had returned a result before this call began
  | _ => true

/-- the whole property on a log -/
def allowedLog (c : Cfg) (l : Log) : Bool :=
  l.all (fun x => evOk c l x.1 x.2)
  && countEv l (isBegin .run) ≤ 1 && countEv l (isBegin .shutdown) ≤ 1
  && countEv l (isBegin .cleanup) ≤ 1 && countEv l (isBegin .handler) ≤ 1
  && countEv l isStartNil ≤ 1
  && (!complete l || countEv l isStartCall == 0 || countEv l isStartNil == 1)

end FunModel.Service
