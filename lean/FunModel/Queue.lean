import FunModel.Conc

/-! `pubsub.Queue` (queue.go, tracker.go) as a `Conc.Subject` (C05, C07, C20).
    Conditions: 0 = `nempty`, 1 = `nupdates`. Entries have identities because the non-destructive
    iterator keeps a pointer to the entry it yielded last; a removed entry keeps its `link`. -/
namespace FunModel.Queue
open FunModel.Conc

/-- the three limit trackers of tracker.go (`queueLimitTrackerImpl` keeps its burst credit in a
    float64; the executable model uses Lean's IEEE double, theorems never look inside it) -/
inductive Tracker where
  | noLimit (length : Nat)
  | soft (softQuota hardLimit length : Nat) (credit : Float)
  deriving Repr

namespace Tracker
def len : Tracker → Nat
  | .noLimit l => l
  | .soft _ _ l _ => l

/-- `cap()`; `none` = math.MaxInt -/
def cap : Tracker → Option Nat
  | .noLimit _ => none
  | .soft sq _ _ _ => some sq

def hasRoom (t : Tracker) : Bool :=        -- `cap() > len()`
  match t.cap with
  | none => true
  | some c => c > t.len

inductive AddRes | ok | full | noCredit
  deriving Repr, DecidableEq

/-- `add()` -/
def add : Tracker → Tracker × AddRes
  | .noLimit l => (.noLimit (l + 1), .ok)
  | .soft sq hl l cr =>
    if l ≥ sq then
      if l == hl then (.soft sq hl l cr, .full)
      else if cr < 1 then (.soft sq hl l cr, .noCredit)
      else (.soft (l + 1) hl (l + 1) (cr - 1), .ok)
    else (.soft sq hl (l + 1) cr, .ok)

/-- `remove()` (only called with length > 0 by the queue) -/
def remove : Tracker → Tracker
  | .noLimit l => .noLimit (l - 1)
  | .soft sq hl l cr =>
    let l' := l - 1
    if l' < sq then
      let sq' := if sq > 1 && l' < sq / 2 then sq - 1 else sq
      let cr' := cr + (Float.ofNat (sq' - l')) / (Float.ofNat sq')
      let lenCap := Float.ofNat (hl - sq')
      .soft sq' hl l' (if cr' > lenCap then lenCap else cr')
    else .soft sq hl l' cr
end Tracker

inductive Op where
  | add (v : Int)         -- Add / Distributor.Send
  | badd (v : Int)        -- BlockingAdd
  | remove                -- Remove
  | wait                  -- Wait
  | recv                  -- Distributor.Receive: Remove, else Wait
  | len
  | close
  | next (k : Nat)        -- one call of the producer of iterator k (Queue.Iterator / Producer)
  deriving Repr, DecidableEq

structure St where
  tracker : Tracker
  closed : Bool := false
  q : List (Nat × Int) := []            -- linked entries, front first: (entry id, item)
  links : List (Nat × Nat) := []        -- e ↦ the entry that was appended right after e (kept after removal)
  vals : List (Nat × Int) := []         -- every entry ever created
  nextId : Nat := 1                     -- 0 is the sentinel
  cursors : List (Nat × Nat) := []      -- iterator k ↦ entry it points at (0 = sentinel)
  waited : List Nat := []               -- threads that have already waited inside their current call
  deriving Repr

def St.back (s : St) : Nat := match s.q.getLast? with | some p => p.1 | none => 0
def St.linkOf (s : St) (c : Nat) : Option Nat :=
  if c = 0 then s.q.head?.map (·.1) else (s.links.find? (fun p => p.1 == c)).map (·.2)
def St.valOf (s : St) (e : Nat) : Int := ((s.vals.find? (fun p => p.1 == e)).map (·.2)).getD 0
def St.cursor (s : St) (k : Nat) : Nat := ((s.cursors.find? (fun p => p.1 == k)).map (·.2)).getD 0
def St.setCursor (s : St) (k c : Nat) : St := { s with cursors := (k, c) :: s.cursors.filter (fun p => p.1 != k) }

/-- `doAdd` -/
def doAdd (s : St) (v : Int) : St × String × List Sig :=
  if s.closed then (s, "closed", [])
  else
    match s.tracker.add with
    | (_, .full) => (s, "full", [])
    | (_, .noCredit) => (s, "nocredit", [])
    | (tr, .ok) =>
      let e := s.nextId
      let back := s.back
      let s' : St := { s with tracker := tr, q := s.q ++ [(e, v)], vals := (e, v) :: s.vals, nextId := e + 1,
                              links := if back = 0 then s.links else (back, e) :: s.links }
      (s', "ok", (if tr.len == 1 then [.signal 0] else []) ++ [.broadcast 1])

/-- `popFront` (queue not empty) -/
def popFront (s : St) : St × Int × List Sig :=
  match s.q with
  | [] => (s, 0, [])
  | (_, v) :: rest => ({ s with q := rest, tracker := s.tracker.remove }, v, [.broadcast 1])

/-- loop of `BlockingAdd` (helper already spawned) -/
def baddLoop (s : St) (v : Int) (cancelled : Bool) (sigs : List Sig) : SegOut St :=
  if !s.tracker.hasRoom then
    if s.closed then { st := s, sigs := sigs, fin := .ret "closed" }
    else if cancelled then { st := s, sigs := sigs, fin := .ret "ctx" }
    else { st := s, sigs := sigs, fin := .park 1 }
  else
    let (s', r, sg) := doAdd s v
    { st := s', sigs := sigs ++ sg, fin := .ret r }

/-- loop of `unsafeWaitWhileEmpty` + `popFront` (helper already spawned) -/
def waitLoop (s : St) (cancelled : Bool) (sigs : List Sig) : SegOut St :=
  if s.tracker.len == 0 then
    if s.closed then { st := s, sigs := sigs, fin := .ret "closed" }
    else if cancelled then { st := s, sigs := sigs, fin := .ret "ctx" }
    else { st := s, sigs := sigs, fin := .park 0 }
  else
    let (s', v, sg) := popFront s
    { st := s', sigs := sigs ++ sg, fin := .ret (toString v) }

/-- one pass of the iterator's loop, with the lock held -/
def nextLoop (s : St) (t k : Nat) (cancelled : Bool) : SegOut St :=
  let c := s.cursor k
  -- the entry yielded last was removed while it was the newest one: restart from the sentinel
  let c := if c != 0 && (s.linkOf c).isNone && c != s.back then 0 else c
  match s.linkOf c with
  | some n => { st := { (s.setCursor k n) with waited := s.waited.filter (· != t) }, fin := .ret (toString (s.valOf n)) }
  | none =>
    let s := s.setCursor k c
    let hasWaited := s.waited.contains t
    if s.closed then
      -- (ErrQueueClosed after a wait, io.EOF otherwise: both satisfy errors.Is(err, io.EOF))
      { st := { s with waited := s.waited.filter (· != t) }, fin := .ret "eof" }
    else if cancelled then { st := { s with waited := s.waited.filter (· != t) }, fin := .ret "ctx" }
    else if hasWaited then { st := s, fin := .park 1 }
    else { st := { s with waited := t :: s.waited }, sigs := [.spawn 1], fin := .park 1 }

def start (s : St) (t : Nat) : Op → SegOut St
  | .add v => let (s', r, sg) := doAdd s v; { st := s', sigs := sg, fin := .ret r }
  | .badd v =>
    if s.closed then { st := s, fin := .ret "closed" }
    else if s.tracker.hasRoom then let (s', r, sg) := doAdd s v; { st := s', sigs := sg, fin := .ret r }
    else baddLoop s v false [.spawn 1]
  | .remove =>
    if s.tracker.len == 0 then { st := s, fin := .ret "none" }
    else let (s', v, sg) := popFront s; { st := s', sigs := sg, fin := .ret (toString v) }
  | .wait => waitLoop s false [.spawn 0]
  | .recv =>
    if s.tracker.len == 0 then waitLoop s false [.spawn 0]
    else let (s', v, sg) := popFront s; { st := s', sigs := sg, fin := .ret (toString v) }
  | .len => { st := s, fin := .ret (toString s.tracker.len) }
  | .close => { st := { s with closed := true }, sigs := [.broadcast 1, .broadcast 0], fin := .ret "ok" }
  | .next k => nextLoop s t k false

def resume (s : St) (t : Nat) (op : Op) (cancelled : Bool) : SegOut St :=
  match op with
  | .badd v => baddLoop s v cancelled []
  | .wait => waitLoop s cancelled []
  | .recv => waitLoop s cancelled []
  | .next k => nextLoop s t k cancelled
  | _ => { st := s, fin := .ret "bad-resume" }

def itemsStr (s : St) : String := ",".intercalate (s.q.map (fun p => toString p.2))

def subject : Subject St Op where
  start := start
  resume := resume
  condName := fun c => if c = 0 then "nempty" else "nupdates"
  final := fun s => s!"len={s.tracker.len} closed={if s.closed then 1 else 0} items=[{itemsStr s}]"

/-- `NewQueue(opts)` after `Validate` / `NewUnlimitedQueue()` -/
def mkSoft (hard soft : Nat) (burst : Float) : St :=
  let soft := if soft == 0 then hard else soft
  let burst := if burst == 0 then Float.ofNat soft else burst
  { tracker := .soft soft hard 0 burst }
def mkUnlimited : St := { tracker := .noLimit 0 }

end FunModel.Queue
