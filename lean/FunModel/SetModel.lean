import FunModel.SortSeq

/-! Model of `dt.Set` (C18). The set is a Go map from value to `*Element` (nil for unordered sets)
    plus, when ordered, a `dt.List` of elements. The list is modelled at the sequence level
    (element address × item): its pointer-level behaviour is C16's business, and `Set` only uses
    `PushBack`/`Back().Append`, `Element.Remove`, `Iterator`, `SortQuick`/`SortMerge`.
    Go map iteration order is unspecified: wherever the code ranges over the map the order is a
    parameter (`mapOrder`), and observations of unordered sets are compared as sorted sequences. -/
namespace FunModel.SetModel

structure SetSt where
  hash : List (Int × Option Nat) := []      -- key ↦ element pointer (none = nil)
  list : Option (List (Nat × Int)) := none  -- the order list when the set is ordered
  nextId : Nat := 0
  deriving Repr, DecidableEq

namespace SetSt

def lookup (s : SetSt) (k : Int) : Option (Option Nat) := (s.hash.find? (fun p => p.1 == k)).map (·.2)
def check (s : SetSt) (k : Int) : Bool := (s.lookup k).isSome
def len (s : SetSt) : Nat := s.hash.length
def isOrdered (s : SetSt) : Bool := s.list.isSome

/-- `Order()` on an empty set -/
def order (s : SetSt) : SetSt := if s.list.isSome then s else { s with list := some [] }

/-- `AddCheck`: returns (state, wasPresent) -/
def addCheck (s : SetSt) (k : Int) : SetSt × Bool :=
  if s.check k then (s, true)
  else match s.list with
    | none => ({ s with hash := s.hash ++ [(k, none)] }, false)
    | some l => ({ s with hash := s.hash ++ [(k, some s.nextId)], list := some (l ++ [(s.nextId, k)]),
                          nextId := s.nextId + 1 }, false)

/-- `DeleteCheck`: `defer delete(s.hash, in)`; the element, if the map has one, is removed from the list -/
def deleteCheck (s : SetSt) (k : Int) : SetSt × Bool :=
  match s.lookup k with
  | none => (s, false)
  | some e =>
    let hash' := s.hash.filter (fun p => p.1 != k)
    match e, s.list with
    | some a, some l => ({ s with hash := hash', list := some (l.filter (fun p => p.1 != a)) }, true)
    | _, _ => ({ s with hash := hash' }, true)

/-- `forceSetupOrdered` as repaired: the list is built in map order and the map is pointed at the
    new elements. `mapOrder` is the order in which `range s.hash` yields the keys. -/
def forceSetupOrdered (s : SetSt) (mapOrder : List Int) : SetSt :=
  let keys := mapOrder.filter (fun k => s.check k)
  let elems := keys.zipIdx.map (fun (k, i) => (s.nextId + i, k))
  { hash := s.hash.map (fun p => match elems.find? (fun e => e.2 == p.1) with
                                  | some e => (p.1, some e.1)
                                  | none => p),
    list := some elems, nextId := s.nextId + keys.length }

def sortWith (sorter : (Int → Int → Bool) → List Int → List Int) (lt : Int → Int → Bool)
    (s : SetSt) (mapOrder : List Int) : SetSt :=
  let s := if s.list.isNone then s.forceSetupOrdered mapOrder else s
  match s.list with
  | none => s
  | some l =>
    -- the list sorts elements by item; items are distinct in a set, so addresses follow their items
    let sortedItems := sorter lt (l.map (·.2))
    { s with list := some (sortedItems.filterMap (fun it => l.find? (fun p => p.2 == it))) }

/-- `SortQuick` / `SortMerge` -/
def sortQuick (lt : Int → Int → Bool) (s : SetSt) (mapOrder : List Int) : SetSt := sortWith SortSeq.sortQuick lt s mapOrder
def sortMerge (lt : Int → Int → Bool) (s : SetSt) (mapOrder : List Int) : SetSt := sortWith SortSeq.sortMerge lt s mapOrder

/-- what the iterator yields: list order when ordered, else the map in `mapOrder` -/
def iter (s : SetSt) (mapOrder : List Int) : List Int :=
  match s.list with
  | some l => l.map (·.2)
  | none => mapOrder.filter (fun k => s.check k)

/-- canonical map order used where the real order cannot be known: ascending keys -/
def insertAsc (k : Int) : List Int → List Int
  | [] => [k]
  | x :: xs => if k ≤ x then k :: x :: xs else x :: insertAsc k xs
def ascKeys (s : SetSt) : List Int := (s.hash.map (·.1)).foldr insertAsc []

/-- `Populate` / `Extend` / `UnmarshalJSON`: add every value in order -/
def addAll (s : SetSt) (ks : List Int) : SetSt := ks.foldl (fun s k => (s.addCheck k).1) s

/-- `Equal(other)` -/
def equal (s o : SetSt) : Bool :=
  if s.len != o.len || s.isOrdered != o.isOrdered then false
  else match s.list, o.list with
    | some a, some b => a.map (·.2) == b.map (·.2)
    | _, _ => s.hash.all (fun p => o.check p.1)

end SetSt
end FunModel.SetModel
