/-! Small-step model of the lock-and-condition-variable code (T-sched).

    One *action* is one atomic segment of the implementation: everything a goroutine does between
    acquiring the mutex and either returning or parking in `cond.Wait` (`start`, `resume`), an
    explicit cancellation of an operation's context (`cancel`), or a helper goroutine
    (`<-ctx.Done(); Lock; cond.Broadcast()`) running (`fire`). The data-structure specific part of
    a segment is a `Subject`; this file is the runtime around it: condition variables as FIFO
    queues of parked threads, the set of woken threads that still have to re-acquire the lock,
    helper goroutines gated before their broadcast. It is the exact counterpart of
    harness/sched.go, action by action. -/

namespace FunModel.Conc

inductive SegEnd where
  | ret (r : String)      -- the operation returned
  | park (c : Nat)        -- the goroutine called cond.Wait on condition c
  deriving Repr, DecidableEq

inductive Sig where
  | signal (c : Nat)
  | broadcast (c : Nat)
  | spawn (c : Nat)       -- a helper goroutine for condition c was started
  | release               -- the thread's live helpers' contexts ended (a wait returned)
  deriving Repr, DecidableEq

structure SegOut (σ : Type) where
  st : σ
  sigs : List Sig := []
  fin : SegEnd

structure Subject (σ Op : Type) where
  /-- a thread starts operation `op` with a fresh (live) context -/
  start : σ → Nat → Op → SegOut σ
  /-- a woken thread re-acquires the lock inside `op`; `cancelled` = its context is done -/
  resume : σ → Nat → Op → Bool → SegOut σ
  condName : Nat → String
  final : σ → String

inductive TState where
  | idle | parked (c : Nat) | woken | done
  deriving Repr, DecidableEq

structure Helper where
  cond : Nat
  atGate : Bool := false
  fired : Bool := false
  deriving Repr, DecidableEq

structure Th (Op : Type) where
  ops : List Op
  pc : Nat := 0
  st : TState := .idle
  cancelled : Bool := false
  helpers : List Helper := []

structure Sys (σ Op : Type) where
  subj : σ
  ths : List (Th Op)
  parked : List (Nat × Nat) := []      -- (thread, condition) in parking order

inductive Act where
  | start (t : Nat) | resume (t : Nat) | cancel (t : Nat) | fire (t : Nat)
  deriving Repr, DecidableEq

def Act.label : Act → String
  | .start t => s!"s{t}"
  | .resume t => s!"r{t}"
  | .cancel t => s!"c{t}"
  | .fire t => s!"f{t}"

variable {σ Op : Type}

def idxs (n : Nat) : List Nat := List.range n

def Th.hasGate (t : Th Op) : Bool := t.helpers.any (fun h => h.atGate && !h.fired)

/-- enabled actions in the canonical order of the harness -/
def enabled (s : Sys σ Op) (allowCancel : Bool) : List Act :=
  let n := s.ths.length
  let get (i : Nat) : Option (Th Op) := s.ths[i]?
  ((idxs n).filter (fun i => match get i with
      | some t => t.st == .idle && t.pc < t.ops.length | none => false)).map .start
  ++ ((idxs n).filter (fun i => match get i with | some t => t.st == .woken | none => false)).map .resume
  ++ (if allowCancel then
        ((idxs n).filter (fun i => match get i with
          | some t => (t.st == .woken || (match t.st with | .parked _ => true | _ => false)) && !t.cancelled
          | none => false)).map .cancel
      else [])
  ++ ((idxs n).filter (fun i => match get i with | some t => t.hasGate | none => false)).map .fire

def modTh (s : Sys σ Op) (i : Nat) (f : Th Op → Th Op) : Sys σ Op :=
  { s with ths := s.ths.modify i f }

/-- wake thread `w`: it leaves the condition's queue and waits for the lock -/
def wake (s : Sys σ Op) (w : Nat) : Sys σ Op :=
  modTh { s with parked := s.parked.filter (fun p => p.1 != w) } w (fun t => { t with st := .woken })

/-- `cond.Signal()`: the longest-parked thread on `c`; `cond.Broadcast()`: all of them.
    Returns the new system and who was woken. -/
def signal (s : Sys σ Op) (c : Nat) : Sys σ Op × List Nat :=
  match s.parked.find? (fun p => p.2 == c) with
  | some p => (wake s p.1, [p.1])
  | none => (s, [])

def broadcast (s : Sys σ Op) (c : Nat) : Sys σ Op × List Nat :=
  let ws := (s.parked.filter (fun p => p.2 == c)).map (·.1)
  (ws.foldl wake s, ws)

def gateAll (hs : List Helper) : List Helper := hs.map (fun h => if h.fired then h else { h with atGate := true })

def applySig (t : Nat) (acc : Sys σ Op × List Nat) (sg : Sig) : Sys σ Op × List Nat :=
  let (s, woke) := acc
  match sg with
  | .signal c => let (s', w) := signal s c; (s', woke ++ w)
  | .broadcast c => let (s', w) := broadcast s c; (s', woke ++ w)
  | .spawn c => (modTh s t (fun th => { th with helpers := th.helpers ++ [{ cond := c }] }), woke)
  | .release => (modTh s t (fun th => { th with helpers := gateAll th.helpers }), woke)

/-- apply the outcome of a segment run by thread `t` -/
def applySeg (s : Sys σ Op) (t : Nat) (o : SegOut σ) : Sys σ Op × List Nat :=
  let (s, woke) := o.sigs.foldl (applySig t) ({ s with subj := o.st }, [])
  match o.fin with
  | .ret _ =>
    (modTh s t (fun th =>
      let pc := th.pc + 1
      { th with pc := pc, st := if pc < th.ops.length then .idle else .done, helpers := gateAll th.helpers }), woke)
  | .park c =>
    (modTh { s with parked := s.parked ++ [(t, c)] } t (fun th => { th with st := .parked c }), woke)

def endStr (sub : Subject σ Op) : SegEnd → String
  | .ret r => s!"ret:{r}"
  | .park c => s!"park:{sub.condName c}"

def sortNat (xs : List Nat) : List Nat := (xs.toArray.qsort (· < ·)).toList

def wakeStr (ws : List Nat) : String := "[" ++ " ".intercalate ((sortNat ws).map toString) ++ "]"

/-- one action: new system and the observation the harness prints for it -/
def step (sub : Subject σ Op) (s : Sys σ Op) (a : Act) : Option (Sys σ Op × String) :=
  match a with
  | .start t => do
    let th ← s.ths[t]?
    let op ← th.ops[th.pc]?
    let s := modTh s t (fun th => { th with cancelled := false })
    let o := sub.start s.subj t op
    let (s', woke) := applySeg s t o
    pure (s', s!"{endStr sub o.fin} wake={wakeStr woke}")
  | .resume t => do
    let th ← s.ths[t]?
    let op ← th.ops[th.pc]?
    let o := sub.resume s.subj t op th.cancelled
    let (s', woke) := applySeg s t o
    pure (s', s!"{endStr sub o.fin} wake={wakeStr woke}")
  | .cancel t => do
    let _ ← s.ths[t]?
    pure (modTh s t (fun th => { th with cancelled := true, helpers := gateAll th.helpers }), "ok wake=[]")
  | .fire t => do
    let th ← s.ths[t]?
    let h ← th.helpers.find? (fun h => h.atGate && !h.fired)
    let s := modTh s t (fun th => { th with helpers := markFired th.helpers })
    let (s', woke) := broadcast s h.cond
    pure (s', s!"ok wake={wakeStr woke}")
where
  markFired : List Helper → List Helper
    | [] => []
    | h :: r => if h.atGate && !h.fired then { h with fired := true } :: r else h :: markFired r

def enStr (acts : List Act) : String := "{" ++ ",".intercalate (acts.map Act.label) ++ "}"

/-- run the choice list, then drain with the fixed policy "first enabled non-cancel action" -/
def runChoices (sub : Subject σ Op) (s : Sys σ Op) (choices : List Nat) (log : List String) : Sys σ Op × List String :=
  match choices with
  | [] => (s, log)
  | c :: rest =>
    let en := enabled s true
    if en.isEmpty then (s, log)
    else
      match en[c % en.length]? with
      | none => (s, log)
      | some a =>
        match step sub s a with
        | none => (s, log ++ ["model-stuck"])
        | some (s', obs) => runChoices sub s' rest (log ++ [s!"{enStr en}{a.label}={obs}"])

def drain (sub : Subject σ Op) (s : Sys σ Op) (fuel : Nat) (log : List String) : Sys σ Op × List String :=
  match fuel with
  | 0 => (s, log)
  | fuel + 1 =>
    let en := enabled s false
    match en with
    | [] => (s, log)
    | a :: _ =>
      match step sub s a with
      | none => (s, log ++ ["model-stuck"])
      | some (s', obs) => drain sub s' fuel (log ++ [s!"{enStr en}{a.label}={obs}"])

def blockedStr (sub : Subject σ Op) (s : Sys σ Op) : String :=
  let parts := (idxs s.ths.length).filterMap (fun i => match s.ths[i]? with
    | some t => (match t.st with
      | .parked c => some s!"{i}@{sub.condName c}"
      | .woken => some s!"{i}@woken"
      | _ => none)
    | none => none)
  ",".intercalate parts

def runCase (sub : Subject σ Op) (init : σ) (programs : List (List Op)) (choices : List Nat) : String :=
  let s0 : Sys σ Op := { subj := init, ths := programs.map (fun p => { ops := p, st := if p.isEmpty then .done else .idle }) }
  let (s1, log1) := runChoices sub s0 choices []
  let (s2, log2) := drain sub s1 200 log1
  " ; ".intercalate (log2 ++ [s!"final blocked=[{blockedStr sub s2}] {sub.final s2.subj}"])

/-! ### Drain for subjects whose waiters signal before they park (pubsub.Deque, D28)

    `element.wait` / `waitPushAfter` call `cond.Signal()` before every `cond.Wait()`, so two
    goroutines parked on the same condition wake each other for ever and `drain` (which prefers
    resumes to helper fires) would spin until its fuel is gone. `drainPP` prefers starts, then helper
    fires, then the resume of a woken thread that has not yet been seen to park again since the
    last segment that returned (`checked`); it stops when nothing but such re-parking resumes is
    left ("quiescent up to ping-pong"). Mirrored by `sched.runPP` in harness/sched.go. -/

def Act.isStart : Act → Bool | .start _ => true | _ => false
def Act.isFire : Act → Bool | .fire _ => true | _ => false

def pickPP (en : List Act) (checked : List Nat) : Option Act :=
  match en.find? Act.isStart with
  | some a => some a
  | none =>
    match en.find? Act.isFire with
    | some a => some a
    | none => en.find? (fun a => match a with | .resume t => !checked.contains t | _ => false)

def drainPP (sub : Subject σ Op) (s : Sys σ Op) (fuel : Nat) (checked : List Nat) (log : List String) : Sys σ Op × List String :=
  match fuel with
  | 0 => (s, log)
  | fuel + 1 =>
    let en := enabled s false
    match pickPP en checked with
    | none => (s, log)
    | some a =>
      match step sub s a with
      | none => (s, log ++ ["model-stuck"])
      | some (s', obs) =>
        let checked' := match a with
          | .resume t => if obs.startsWith "park:" then t :: checked else []
          | .start _ => []
          | _ => checked
        drainPP sub s' fuel checked' (log ++ [s!"{enStr en}{a.label}={obs}"])

def runCasePP (sub : Subject σ Op) (init : σ) (programs : List (List Op)) (choices : List Nat) : String :=
  let s0 : Sys σ Op := { subj := init, ths := programs.map (fun p => { ops := p, st := if p.isEmpty then .done else .idle }) }
  let (s1, log1) := runChoices sub s0 choices []
  let (s2, log2) := drainPP sub s1 400 [] log1
  " ; ".intercalate (log2 ++ [s!"final blocked=[{blockedStr sub s2}] {sub.final s2.subj}"])

end FunModel.Conc
