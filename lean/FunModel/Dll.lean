/-! Pointer-level model of `dt.List` / `dt.Element` (C16, C17): a heap of elements and list
    headers. Every definition mirrors one Go function of dt/list.go or dt/cmp.go, assignment by
    assignment. `none` results of the `Option` monad stand for a Go nil-pointer panic. -/

namespace FunModel.Dll

structure Node where
  next : Option Nat := none
  prev : Option Nat := none
  list : Option Nat := none
  ok : Bool := false
  item : Int := 0
  deriving Repr, DecidableEq, Inhabited

structure Hdr where
  root : Option Nat := none
  length : Int := 0
  deriving Repr, DecidableEq, Inhabited

structure Heap where
  node : Nat → Node := fun _ => {}
  hdr : Nat → Hdr := fun _ => {}
  nn : Nat := 0      -- next unused element address
  nl : Nat := 0      -- next unused list address

namespace Heap

def setNode (h : Heap) (a : Nat) (n : Node) : Heap := { h with node := fun i => if i = a then n else h.node i }
def setHdr (h : Heap) (l : Nat) (d : Hdr) : Heap := { h with hdr := fun i => if i = l then d else h.hdr i }

def setNext (h : Heap) (a : Nat) (v : Option Nat) : Heap := h.setNode a { h.node a with next := v }
def setPrev (h : Heap) (a : Nat) (v : Option Nat) : Heap := h.setNode a { h.node a with prev := v }
def setList (h : Heap) (a : Nat) (v : Option Nat) : Heap := h.setNode a { h.node a with list := v }
def addLength (h : Heap) (l : Nat) (d : Int) : Heap := h.setHdr l { h.hdr l with length := (h.hdr l).length + d }

/-- allocate an element (`&Element[T]{...}`) -/
def alloc (h : Heap) (n : Node) : Heap × Nat := ({ h.setNode h.nn n with nn := h.nn + 1 }, h.nn)
/-- allocate a list (`&List[T]{}`) -/
def allocList (h : Heap) : Heap × Nat := ({ h.setHdr h.nl {} with nl := h.nl + 1 }, h.nl)

/-- `makeElem` / `NewElement` -/
def makeElem (h : Heap) (v : Int) : Heap × Nat := h.alloc { ok := true, item := v }

/-- `lazySetup` -/
def lazySetup (h : Heap) (l : Nat) : Heap :=
  match (h.hdr l).root with
  | some _ => h
  | none =>
    let (h, r) := h.makeElem 0
    let h := h.setNext r (some r)
    let h := h.setPrev r (some r)
    let h := h.setList r (some l)
    let h := h.setNode r { h.node r with ok := false }
    h.setHdr l { h.hdr l with root := some r }

/-- `uncheckedAppend` -/
def uncheckedAppend (h : Heap) (e new : Nat) : Option Heap := do
  let l ← (h.node e).list
  let h := h.addLength l 1
  let h := h.setList new (h.node e).list
  let h := h.setPrev new (some e)
  let h := h.setNext new (h.node e).next
  let p ← (h.node new).prev
  let h := h.setNext p (some new)
  let n ← (h.node new).next
  let h := h.setPrev n (some new)
  pure h

/-- `uncheckedRemove` -/
def uncheckedRemove (h : Heap) (e : Nat) : Option Heap := do
  let l ← (h.node e).list
  let h := h.addLength l (-1)
  let p ← (h.node e).prev
  let h := h.setNext p (h.node e).next
  let n ← (h.node e).next
  let h := h.setPrev n (h.node e).prev
  pure (h.setList e none)

/-- `appendable` -/
def appendable (h : Heap) (e : Nat) (new : Option Nat) : Bool :=
  match new with
  | none => false
  | some n => (h.node n).ok && (h.node e).list.isSome && (h.node n).list.isNone

/-- `removable` -/
def removable (h : Heap) (e : Nat) : Option Bool :=
  match (h.node e).list with
  | none => some false
  | some l => some ((h.hdr l).root != some e && (h.hdr l).length > 0)

/-- `Element.Append`: returns the heap and the returned element -/
def elemAppend (h : Heap) (e : Nat) (new : Option Nat) : Option (Heap × Nat) :=
  if h.appendable e new then
    match new with
    | some n => do let h ← h.uncheckedAppend e n; pure (h, n)
    | none => none
  else some (h, e)

/-- `Element.Remove` -/
def elemRemove (h : Heap) (e : Nat) : Option (Heap × Bool) := do
  if (← h.removable e) then
    let h ← h.uncheckedRemove e
    pure (h, true)
  else pure (h, false)

/-- `Element.Drop` -/
def elemDrop (h : Heap) (e : Nat) : Option Heap := do
  let (h, r) ← h.elemRemove e
  if r then pure (h.setNode e { h.node e with item := 0, ok := false }) else pure h

/-- `Element.Set` (non-nil receiver) -/
def elemSet (h : Heap) (e : Nat) (v : Int) : Heap × Bool :=
  match (h.node e).list with
  | some l => if (h.hdr l).root = some e then (h, false) else (h.setNode e { h.node e with ok := true, item := v }, true)
  | none => (h.setNode e { h.node e with ok := true, item := v }, true)

/-- `e.In(l)` with the receiver as a possibly-nil handle: `e != nil && e.list != nil && e.list == l`
    (documented: "Returns false when the element is nil") -/
def elemIn (h : Heap) (e : Option Nat) (l : Nat) : Bool :=
  match e with
  | none => false
  | some a => (h.node a).list.isSome && (h.node a).list == some l

/-- `Element.Swap` exactly as written: `wprev := *with.prev` is a fresh copy of the struct -/
def elemSwap (h : Heap) (e : Nat) (w : Option Nat) : Option (Heap × Bool) :=
  match w with
  | none => some (h, false)
  | some w =>
    if (h.node e).list.isNone || (h.node e).list != (h.node w).list || e = w then some (h, false)
    else do
      let wp ← (h.node w).prev
      let (h, copy) := h.alloc (h.node wp)
      let h ← h.uncheckedRemove w
      let ep ← (h.node e).prev
      let h ← h.uncheckedAppend ep w
      let h ← h.uncheckedRemove e
      let h ← h.uncheckedAppend copy e
      pure (h, true)

/-- `List.pop` -/
def pop (h : Heap) (l : Nat) (it : Option Nat) : Option (Heap × Nat) := do
  let it ← it
  if !(← h.removable it) || (h.node it).list != some l then
    let (h, z) := h.alloc {}
    pure (h, z)
  else
    let h ← h.uncheckedRemove it
    pure (h, it)

def root (h : Heap) (l : Nat) : Option Nat := (h.hdr l).root

/-- `Front` / `Back` (after lazySetup) -/
def front (h : Heap) (l : Nat) : Option Nat := do let r ← h.root l; (h.node r).next
def back (h : Heap) (l : Nat) : Option Nat := do let r ← h.root l; (h.node r).prev

def pushFront (h : Heap) (l : Nat) (v : Int) : Option Heap := do
  let h := h.lazySetup l
  let r ← h.root l
  let (h, n) := h.makeElem v
  let (h, _) ← h.elemAppend r (some n)
  pure h

def pushBack (h : Heap) (l : Nat) (v : Int) : Option Heap := do
  let h := h.lazySetup l
  let b ← h.back l
  let (h, n) := h.makeElem v
  let (h, _) ← h.elemAppend b (some n)
  pure h

def popFront (h : Heap) (l : Nat) : Option (Heap × Nat) :=
  let h := h.lazySetup l
  h.pop l (h.front l)

def popBack (h : Heap) (l : Nat) : Option (Heap × Nat) :=
  let h := h.lazySetup l
  h.pop l (h.back l)

/-- `e.Ok()` on a possibly nil element -/
def okOpt (h : Heap) : Option Nat → Bool
  | none => false
  | some e => (h.node e).ok

/-- forward walk as every public traversal does it: `for e := l.Front(); e.Ok(); e = e.Next()`;
    returns the visited elements and how the walk ended -/
def walk (h : Heap) (dir : Node → Option Nat) (fuel : Nat) (cur : Option Nat) : List Nat × String :=
  match fuel with
  | 0 => ([], "cycle")
  | fuel + 1 =>
    match cur with
    | none => ([], "nil")
    | some e =>
      if (h.node e).ok then
        let (xs, t) := walk h dir fuel (dir (h.node e))
        (e :: xs, t)
      else ([], "end")

def walkFwd (h : Heap) (l : Nat) (fuel : Nat) : List Nat × String := walk h Node.next fuel (h.front l)
def walkBwd (h : Heap) (l : Nat) (fuel : Nat) : List Nat × String := walk h Node.prev fuel (h.back l)

/-- `Extend`: `for elem := input.PopFront(); elem.Ok(); elem = input.PopFront() { back = back.Append(elem) }` -/
def extendLoop (h : Heap) (src : Nat) (back : Nat) (fuel : Nat) : Option Heap :=
  match fuel with
  | 0 => some h
  | fuel + 1 => do
    let (h, e) ← h.popFront src
    if (h.node e).ok then
      let (h, back) ← h.elemAppend back (some e)
      extendLoop h src back fuel
    else pure h

def extend (h : Heap) (l src : Nat) : Option Heap :=
  if (h.hdr src).length = 0 then some h
  else do
    let h := h.lazySetup l
    let b ← h.back l
    extendLoop h src b ((h.hdr src).length.toNat + 1)

/-- `Copy` -/
def copyLoop (h : Heap) (out : Nat) (cur : Option Nat) (fuel : Nat) : Option Heap :=
  match fuel with
  | 0 => some h
  | fuel + 1 =>
    match cur with
    | none => some h
    | some e =>
      if (h.node e).ok then do
        let h ← h.pushBack out (h.node e).item
        copyLoop h out (h.node e).next fuel
      else some h

def copy (h : Heap) (l : Nat) : Option (Heap × Nat) := do
  let (h, out) := h.allocList
  if (h.hdr l).length > 0 then
    let h := h.lazySetup l
    let h ← h.copyLoop out (h.front l) ((h.hdr l).length.toNat + 1)
    pure (h, out)
  else pure (h, out)

/-! ### dt/cmp.go -/

/-- `IsSorted` with `lt` on the items (the loop as repaired: starts at the second element, ends
    after the last) -/
def isSortedLoop (h : Heap) (lt : Int → Int → Bool) (cur : Option Nat) (fuel : Nat) : Option Bool :=
  match fuel with
  | 0 => some true
  | fuel + 1 =>
    match cur with
    | none => some true
    | some e =>
      if (h.node e).ok then do
        let p ← (h.node e).prev
        if lt (h.node e).item (h.node p).item then pure false
        else isSortedLoop h lt (h.node e).next fuel
      else some true

def isSorted (h : Heap) (lt : Int → Int → Bool) (l : Nat) : Option Bool :=
  if (h.hdr l).length ≤ 1 then some true
  else do
    let r ← h.root l
    let f ← (h.node r).next
    isSortedLoop h lt (h.node f).next ((h.hdr l).length.toNat + 1)

/-- `split` -/
def splitLoop (h : Heap) (l out : Nat) (half : Int) (fuel : Nat) : Option Heap :=
  match fuel with
  | 0 => some h
  | fuel + 1 =>
    if (h.hdr l).length > half then do
      let b ← h.back out
      let (h, e) ← h.popFront l
      let (h, _) ← h.elemAppend b (some e)
      splitLoop h l out half fuel
    else some h

def split (h : Heap) (l : Nat) : Option (Heap × Nat) := do
  let total := (h.hdr l).length
  let (h, out) := h.allocList
  let h := h.lazySetup out
  let h ← h.splitLoop l out (total / 2) (total.toNat + 1)
  pure (h, out)

/-- `merge` -/
def mergeLoop (h : Heap) (lt : Int → Int → Bool) (a b out : Nat) (fuel : Nat) : Option Heap :=
  match fuel with
  | 0 => some h
  | fuel + 1 =>
    if (h.hdr a).length ≠ 0 && (h.hdr b).length ≠ 0 then do
      let fa ← (h.lazySetup a).front a
      let h := h.lazySetup a
      let fb ← (h.lazySetup b).front b
      let h := h.lazySetup b
      let ob ← h.back out
      if lt (h.node fa).item (h.node fb).item then
        let (h, e) ← h.popFront a
        let (h, _) ← h.elemAppend ob (some e)
        mergeLoop h lt a b out fuel
      else
        let (h, e) ← h.popFront b
        let (h, _) ← h.elemAppend ob (some e)
        mergeLoop h lt a b out fuel
    else some h

def merge (h : Heap) (lt : Int → Int → Bool) (a b : Nat) : Option (Heap × Nat) := do
  let (h, out) := h.allocList
  let h := h.lazySetup out
  let h ← h.mergeLoop lt a b out (((h.hdr a).length + (h.hdr b).length).toNat + 1)
  let h ← h.extend out a
  let h ← h.extend out b
  pure (h, out)

/-- `mergeSort` (fuel = recursion depth bound) -/
def mergeSort (h : Heap) (lt : Int → Int → Bool) (head : Nat) (fuel : Nat) : Option (Heap × Nat) :=
  match fuel with
  | 0 => some (h, head)
  | fuel + 1 =>
    if (h.hdr head).length < 2 then some (h, head)
    else do
      let (h, tail) ← h.split head
      let (h, head) ← h.mergeSort lt head fuel
      let (h, tail) ← h.mergeSort lt tail fuel
      h.merge lt head tail

/-- `SortMerge` as repaired: the sorted elements are moved back into `l` -/
def sortMerge (h : Heap) (lt : Int → Int → Bool) (l : Nat) : Option Heap := do
  let (h, sorted) ← h.mergeSort lt l ((h.hdr l).length.toNat + 1)
  if sorted ≠ l then h.extend l sorted else pure h

/-- stable insertion of element `e` into the address list `xs` sorted by `lt` on items
    (`sort.SliceStable` is trusted to be a stable sort; this is its specification) -/
def insertStable (h : Heap) (lt : Int → Int → Bool) (e : Nat) : List Nat → List Nat
  | [] => [e]
  | x :: xs => if lt (h.node x).item (h.node e).item then x :: insertStable h lt e xs else e :: x :: xs

def stableSort (h : Heap) (lt : Int → Int → Bool) (xs : List Nat) : List Nat :=
  xs.foldr (fun e acc => insertStable h lt e acc) []

def popAllLoop (h : Heap) (l : Nat) (fuel : Nat) (acc : List Nat) : Option (Heap × List Nat) :=
  match fuel with
  | 0 => some (h, acc.reverse)
  | fuel + 1 =>
    if (h.hdr l).length > 0 then do
      let (h, e) ← h.popFront l
      popAllLoop h l fuel (e :: acc)
    else some (h, acc.reverse)

def appendAll (h : Heap) (l : Nat) : List Nat → Option Heap
  | [] => some h
  | e :: es => do
    let h := h.lazySetup l
    let b ← h.back l
    let (h, _) ← h.elemAppend b (some e)
    appendAll h l es

/-- `SortQuick` -/
def sortQuick (h : Heap) (lt : Int → Int → Bool) (l : Nat) : Option Heap := do
  let (h, elems) ← h.popAllLoop l ((h.hdr l).length.toNat + 1) []
  h.appendAll l (stableSort h lt elems)

/-- `ProducerPop` / `ProducerReversePop` run to EOF: pops until an element that is not ok comes back -/
def popIterLoop (h : Heap) (l : Nat) (fromBack : Bool) (fuel : Nat) (acc : List Nat) : Option (Heap × List Nat) :=
  match fuel with
  | 0 => some (h, acc.reverse)
  | fuel + 1 => do
    let (h, e) ← if fromBack then h.popBack l else h.popFront l
    if (h.node e).ok && h.root l != some e then popIterLoop h l fromBack fuel (e :: acc)
    else pure (h, acc.reverse)

/-- `Heap.Push` on the backing list `l` (kept sorted) -/
def heapPushLoop (h : Heap) (lt : Int → Int → Bool) (l : Nat) (t : Int) (cur : Option Nat) (fuel : Nat) : Option Heap :=
  match fuel with
  | 0 => h.pushFront l t
  | fuel + 1 =>
    match cur with
    | none => h.pushFront l t
    | some e =>
      if (h.node e).ok then
        if lt t (h.node e).item then heapPushLoop h lt l t (h.node e).prev fuel
        else do
          let (h, n) := h.makeElem t
          let (h, _) ← h.elemAppend e (some n)
          pure h
      else h.pushFront l t

def heapPush (h : Heap) (lt : Int → Int → Bool) (l : Nat) (t : Int) : Option Heap :=
  let h := h.lazySetup l
  if (h.hdr l).length = 0 then h.pushBack l t
  else h.heapPushLoop lt l t (h.back l) ((h.hdr l).length.toNat + 1)

end Heap
end FunModel.Dll
