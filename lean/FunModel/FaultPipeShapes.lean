/-! Drift guard for `FunModel.FaultPipe` (T-out): the hashes of the Go functions the process model
    was written against (tree with the D10 repair e06dbb6 and the Map/GenerateParallel D11 repair c9331e6; `Iterator.ProcessParallel` is the unrepaired one), as printed by `tools/go2lean` (target
    C03Shapes: comment-free canonical print, sha256, 16 hex digits). `FunProps.C03.
    modelled_source_unchanged` compares them with the regenerated `FunGen.C03Shapes.shapes`; when a
    modelled function is edited the model has to be re-read against it and this list updated. -/

namespace FunModel.FaultPipe

def expectedShapes : List (String × String) := [
  ("iterator.go:Iterator.ProcessParallel", "9dbe7fc429166244"),
  ("iterator.go:Iterator.Split", "054ceced9baf7b00"),
  ("iterator.go:Iterator.ReadOne", "040ca36508442a90"),
  ("process.go:Processor.ReadAll", "67adf03131941c0d"),
  ("process.go:Processor.WithRecover", "382b154d082864b3"),
  ("process.go:Processor.WithErrorFilter", "d9a4bdf6738cd6a9"),
  ("worker.go:Worker.WithRecover", "f6a2d3c01b9e6ea5"),
  ("worker.go:Worker.Run", "64b8cd101d1889ec"),
  ("transform.go:Map", "3388b3a549865cee"),
  ("transform.go:Transform.ProcessParallel", "a0027a8cabe5d7f0"),
  ("transform.go:Transform.mapPullProcess", "9aa5cb841420d979"),
  ("transform.go:Transform.WithRecover", "cf6169ab32a1189b"),
  ("producer.go:Producer.GenerateParallel", "310d9254901714d9"),
  ("producer.go:Producer.WithRecover", "adf2b434a3b4dc72"),
  ("ers/panic.go:ParsePanic", "606404ab16cbd093"),
  ("itertool/itertool.go:ParallelForEach", "662e54ea1f62ba64"),
  ("itertool/itertool.go:Process", "f19f7298936ad1af"),
  ("itertool/itertool.go:Worker", "2f784b6cc1525d6a"),
  ("itertool/itertool.go:Map", "d5acd75cee19880e"),
  ("itertool/itertool.go:Generate", "07a6853aedc0cf20")
]

end FunModel.FaultPipe
