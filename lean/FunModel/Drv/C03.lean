import FunModel.Sexp
import FunModel.ErrPolicy
import FunModel.FaultPipe
import FunModel.Drv.C12

/-! Driver for C03.
    `(cce (flags cp ce ic) (excl id…) term)` — one cell of the decision table: the error value is
    built from `term` (C12's term language plus the sentinel ids 1002…1006), classified with
    `Err.is`, and `canContinue` decides.
    `(judge (run …) (obs …))` — T-out: the observation the harness made of the real construct on
    the case `(run …)` is judged by the model's outcome predicate `FaultPipe.allowed` and its report
    is compared with the model's collector; prints `ok` or `REJECT <reasons>`. -/
namespace FunModel.DrvC03
open FunModel FunModel.FaultPipe

def flag (s : Sexp) : Bool := s.nat? == some 1

def confOf : List Sexp → Option Conf
  | [cp, ce, ic] => some { continueOnPanic := flag cp, continueOnError := flag ce, includeCtx := flag ic }
  | _ => none

def handleCce (flags excl : List Sexp) (t : Sexp) : String :=
  match confOf flags, DrvC12.evalTerm t with
  | some o, .ok e =>
    let d := canContinue o (classify (excl.filterMap Sexp.nat?) e)
    s!"cont={bit d.cont} reports={d.reports}"
  | _, .error m => s!"bad-op {m}"
  | none, _ => "bad-op flags"

/-! ### constructs -/

def idExcl : Nat := 998

/-- the model outcome of a fault kind at item `x` (ids: 100+x the injected error, 200+x the leaf
    ParsePanic makes of a string / other payload, 300+x… wrappers) -/
def outcomeOf (kind : String) (x : Nat) : Outcome :=
  match kind with
  | "err" => .err (.leaf (100 + x))
  | "werr" => .err (.wrap (300 + x) (.leaf (100 + x)))
  | "xerr" => .err (.multi (400 + x) (.cons (.leaf (100 + x)) (.cons (.leaf idExcl) .nil)))
  | "perr" => .panic (.leaf (100 + x))
  | "pstr" => .panic (.leaf (200 + x))
  | "pval" => .panic (.leaf (200 + x))
  | "peof" => .panic (.leaf idEOF)
  | "pslice" => .panicSlice (.cons (.leaf (100 + x)) .nil)
  | "pempty" => .panicSlice .nil
  | "skip" => .err (.leaf idSkip)
  | "eof" => .err (.leaf idEOF)
  | "abort" => .err (.leaf idAbort)
  | "ctx" => .err (.leaf idCanceled)
  | "dl" => .err (.wrap (500 + x) (.leaf idDeadline))
  | _ => .ok

def hasTarget (kind : String) : Bool := ["err", "werr", "xerr", "perr", "pslice"].contains kind
def hasMarker (kind : String) : Bool := ["pstr", "pval"].contains kind

def arg (name : String) (xs : List Sexp) : List Sexp :=
  match xs.find? (fun s => match s with | .list (.atom h :: _) => h == name | _ => false) with
  | some (.list (_ :: r)) => r
  | _ => []

def nat1 (name : String) (xs : List Sexp) : Nat := ((arg name xs).head?.bind Sexp.nat?).getD 0
def atom1 (name : String) (xs : List Sexp) : String := ((arg name xs).head?.bind Sexp.atom?).getD ""

def nats : Sexp → List Nat
  | .list xs => xs.filterMap Sexp.nat?
  | _ => []

def faultsOf (xs : List Sexp) : List (Nat × String) :=
  (arg "faults" xs).filterMap (fun f => match f with
    | .list (p :: .atom k :: _) => p.nat?.map (fun n => (n, k))
    | _ => none)

def insertByTick (e : Nat × Ev) : List (Nat × Ev) → List (Nat × Ev)
  | [] => [e]
  | f :: r => if e.1 ≥ f.1 then e :: f :: r else f :: insertByTick e r

def handleJudge (run obs : List Sexp) : String :=
  match confOf (arg "flags" run) with
  | none => "bad-op flags"
  | some conf =>
    let faults := faultsOf run
    let kindAt (x : Nat) : String := ((faults.find? (fun f => f.1 == x)).map (·.2)).getD ""
    let construct := atom1 "c" run
    let c : Cfg := { conf := conf, n := nat1 "n" run, gen := construct == "gen", recovers := true,
                     groupCancel := construct == "map" || construct == "gen",
                     excluded := if nat1 "excl" run == 1 then [idExcl] else [],
                     outcome := fun x => outcomeOf (kindAt x) x }
    let input := List.range (nat1 "items" run)
    let sts : List (Nat × Nat × Nat) := (arg "starts" obs).filterMap (fun s => match nats s with
      | [x, t, g] => some (x, t, g) | _ => none)
    let rts : List (Nat × Nat) := (arg "rets" obs).filterMap (fun s => match nats s with
      | [x, t] => some (x, t) | _ => none)
    let workerOf (x : Nat) : Nat := ((sts.find? (fun s => s.1 == x)).map (·.2.2)).getD 0
    let evs : List (Nat × Ev) :=
      sts.map (fun s => (s.2.1, Ev.start s.1 s.2.2)) ++ rts.map (fun r => (r.2, Ev.fin r.1 (workerOf r.1)))
    let log : List Ev := (evs.foldl (fun acc e => insertByTick e acc) []).map (·.2)   -- most recent first
    let nocancel := nat1 "nocancel" obs
    let measured := nat1 "gate" run == 1 && nocancel == 0
    let v := judge c input log measured
    -- the report
    let coll := (fins log).filter c.reports
    let r := resultOf c coll
    let resNil := atom1 "res" obs == "nil"
    let bitsOf (name : String) : List (Nat × Bool) := (arg name obs).filterMap (fun s => match nats s with
      | [p, b] => some (p, b == 1) | _ => none)
    let isOk := (bitsOf "is").all (fun pb => pb.2 == (hasTarget (kindAt pb.1) && isOpt r (100 + pb.1)))
    let txtOk := (bitsOf "txt").all (fun pb => pb.2 == (hasMarker (kindAt pb.1) && isOpt r (200 + pb.1)))
    let sent := (arg "sent" obs).map flag
    let sentWant := [idRecoveredPanic, idSkip, idEOF, idCanceled, idDeadline, idAbort, idExcl].map (isOpt r)
    let bad : List String :=
      (if nocancel == 1 && c.groupCancel then ["the group context was not cancelled after a failure that stops the group"] else []) ++
      (if v.atMostOnce then [] else ["an item was started twice or is not an input item"]) ++
      (if v.allFinished then [] else ["a started item never finished"]) ++
      (if v.stops then [] else ["a worker started an item after a result it may not continue from"]) ++
      (if v.bounded then [] else [s!"{afterStop c log} items started after the first stopping failure returned, workers={c.n}"]) ++
      (if v.complete then [] else ["no finished item stops a worker, yet not every item was processed"]) ++
      (if resNil == r.isNone then [] else [s!"result nil={resNil}, model collector empty={r.isNone}"]) ++
      (if isOk then [] else ["errors.Is(result, injected error) differs from the model's collector"]) ++
      (if txtOk then [] else ["presence of a panic payload text differs from the model's collector"]) ++
      (if sent == sentWant then [] else ["errors.Is(result, sentinel) differs from the model's collector"])
    if bad.isEmpty then "ok" else "REJECT " ++ joinSep "; " bad

def handle (s : Sexp) : String :=
  match s with
  | .list [.atom "cce", .list (.atom "flags" :: flags), .list (.atom "excl" :: excl), t] => handleCce flags excl t
  | .list [.atom "judge", .list (.atom "run" :: run), .list (.atom "obs" :: obs)] => handleJudge run obs
  | _ => "bad-op"

end FunModel.DrvC03
