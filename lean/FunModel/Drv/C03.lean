import FunModel.Sexp
import FunModel.ErrPolicy
import FunModel.Drv.C12

/-! Driver for C03.
    `(cce (flags cp ce ic) (excl id…) term)` — one cell of the decision table: the error value is
    built from `term` (C12's term language plus the sentinel ids 1002…1006), classified with
    `Err.is`, and `canContinue` decides. -/
namespace FunModel.DrvC03
open FunModel

def flag (s : Sexp) : Bool := s.nat? == some 1

def confOf : List Sexp → Option Conf
  | [cp, ce, ic] => some { continueOnPanic := flag cp, continueOnError := flag ce, includeCtx := flag ic }
  | _ => none

def handleCce (flags excl : List Sexp) (t : Sexp) : String :=
  match confOf flags, DrvC12.evalTerm t with
  | some o, .ok e =>
    let d := canContinue o (classify (excl.filterMap Sexp.nat?) e)
    s!"cont={bit d.cont} reports={d.reports}"
  | _, .error m => s!"bad-op {m}"
  | none, _ => "bad-op flags"

def handle (s : Sexp) : String :=
  match s with
  | .list [.atom "cce", .list (.atom "flags" :: flags), .list (.atom "excl" :: excl), t] => handleCce flags excl t
  | _ => "bad-op"

end FunModel.DrvC03
