import FunModel.Sexp
import FunModel.Wrap
import FunModel.WrapConc

/-! Driver for C15.
    `(seq K (stack wspec...) (script step...) (ops callop...))` — sequential call stream
    `(adtonce (new [id]) (script step...) (ops adtop...))`      — adt.Once -/
namespace FunModel.DrvC15
open FunModel FunModel.Wrap FunModel.WrapConc

def atomStr : Atom → String
  | .user n => s!"u{n}"
  | .eof => "eof" | .abort => "abort" | .skip => "skip" | .canceled => "canceled" | .deadline => "deadline"
  | .recovered => "recovered" | .invariant => "invariant" | .other => "other"

def atomOf (s : String) : Option Atom :=
  match s with
  | "eof" => some .eof | "abort" => some .abort | "skip" => some .skip | "canceled" => some .canceled
  | "deadline" => some .deadline | "recovered" => some .recovered | "invariant" => some .invariant
  | "other" => some .other
  | _ => if s.startsWith "u" then (s.drop 1).toString.toNat?.map .user else none

def errStr (e : Err) : String := "+".intercalate (e.map atomStr)

def resStr : Res → String
  | .ret v e => s!"{v}/{errStr e}"
  | .panic p => s!"!{errStr p}"

def evStr : Ev → String
  | .fn id a => s!"({id}:{a}"
  | .fnret id r => s!"{id}){resStr r}"
  | .call k => s!"<{k}"
  | .ret k r => s!"{k}>{resStr r}"

def kindOf (s : String) : Option Kind :=
  match s with
  | "W" => some .worker | "O" => some .operation | "P" => some .producer
  | "X" => some .processor | "H" => some .handler | "F" => some .future
  | _ => none

/-- `(ret v atom... [c])` / `(panic atom [c])` -/
def stepOf : Sexp → Option Step
  | .list (.atom "ret" :: v :: rest) => do
    let v ← v.int?
    let names := rest.filterMap Sexp.atom?
    let cancel := names.contains "c"
    let atoms ← (names.filter (· != "c")).mapM atomOf
    pure { res := .ret v atoms, cancel := cancel }
  | .list (.atom "panic" :: rest) => do
    let names := rest.filterMap Sexp.atom?
    let cancel := names.contains "c"
    let atoms ← (names.filter (· != "c")).mapM atomOf
    pure { res := .panic atoms, cancel := cancel }
  | _ => none

def boolOf (s : Sexp) : Option Bool :=
  match s with
  | .atom "1" => some true
  | .atom "0" => some false
  | _ => none

def wspecOf : Sexp → Option WSpec
  | .list [.atom "once"] => some .once
  | .list [.atom "limit", n] => n.int?.map .limit
  | .list [.atom "ttl0"] => some .ttl0
  | .list [.atom "ttlinf"] => some .ttlInf
  | .list [.atom "lock"] => some .lock
  | .list [.atom "retry", n] => n.nat?.map .retry
  | .list [.atom "join", n] => n.nat?.map .join
  | .list [.atom "prehook"] => some .preHook
  | .list [.atom "posthook"] => some .postHook
  | .list [.atom "withcancel"] => some .withCancel
  | .list [.atom "if", b] => (boolOf b).map .ifc
  | .list (.atom "when" :: bs) => (bs.mapM boolOf).map .when
  | .list [.atom "recover"] => some .recover
  | _ => none

def callOpOf : Sexp → Option CallOp
  | .list [.atom "call", a] => a.int?.map .call
  | .list [.atom "calld", a] => a.int?.map .callDead
  | .list [.atom "cancel"] => some .cancel
  | .list [.atom "wcancel"] => some .wcancel
  | _ => none

def adtOpOf : Sexp → Option AdtOp
  | .list [.atom "do", i] => i.nat?.map .doIt
  | .list [.atom "resolve"] => some .resolve
  | .list [.atom "set", i] => i.nat?.map .set
  | .list [.atom "called"] => some .called
  | .list [.atom "defined"] => some .defined
  | _ => none

def section? (name : String) (args : List Sexp) : Option (List Sexp) :=
  args.findSome? (fun a => match a with
    | .list (.atom n :: rest) => if n == name then some rest else none
    | _ => none)

def obsOf (rs : List Res) (w : World) : String :=
  let tr := w.trace.reverse
  ";".intercalate (rs.map resStr) ++ s!"|inv={invocations 0 tr}|tr=" ++ " ".intercalate (tr.map evStr)

def seqCase (k : Kind) (args : List Sexp) : Option String := do
  let specs ← (← section? "stack" args).mapM wspecOf
  let script ← (← section? "script" args).mapM stepOf
  let ops ← (← section? "ops" args).mapM callOpOf
  match build k specs with
  | .error e => pure s!"ctor!{errStr e}"
  | .ok m =>
    let (rs, _, w) := run m script ops
    pure (obsOf rs w)

def adtCase (args : List Sexp) : Option String := do
  let new ← section? "new" args
  let script ← (← section? "script" args).mapM stepOf
  let ops ← (← section? "ops" args).mapM adtOpOf
  let o0 : AdtOnce := match new with
    | [i] => (match i.nat? with | some id => { ctor := some id, defined := true } | none => {})
    | _ => {}
  let rec go (o : AdtOnce) (w : World) (ops : List AdtOp) (acc : List Res) : List Res × World :=
    match ops with
    | [] => (acc.reverse, w)
    | op :: rest => let (r, o', w') := o.step w op; go o' w' rest (r :: acc)
  let (rs, w) := go o0 { script := script } ops []
  pure (obsOf rs w)

/-! ### concurrent cases: `(conc subject K (n N) (callers G) (script step...) (choices c...))` -/

def sortStr (xs : List String) : List String := (xs.toArray.qsort (· < ·)).toList

def phaseStr (ps : List (Nat × Nat)) : String := "".intercalate (ps.map (fun p => s!"({p.1},{p.2})"))

def concObs (ps : List (Nat × Nat)) (res : List String) (inv : Nat) : String :=
  let maxc := ps.foldl (fun m p => max m p.2) 0
  s!"ph={phaseStr ps}|res={",".intercalate (sortStr res)}|inv={inv}|maxc={maxc}"

def natArg (name : String) (args : List Sexp) (d : Nat) : Nat :=
  match section? name args with
  | some [x] => x.nat?.getD d
  | _ => d

def onceKind (k : String) : Option Kind :=
  match k with
  | "M" | "D" | "A" => some .future
  | "T" => some .operation
  | "B" => some .operation   -- adt.Once driven through Do (callers return right after Do)
  | _ => kindOf k

def concCase (subject k : String) (args : List Sexp) : Option String := do
  let script ← (← section? "script" args).mapM stepOf
  let choices := ((section? "choices" args).getD []).filterMap Sexp.nat?
  let n := natArg "n" args 1
  let g := natArg "callers" args 1
  let fuel := 8192
  match subject with
  | "once" =>
    let kind ← onceKind k
    let (s, ps) := onceSim.phases fuel (onceInit kind g script) choices []
    pure (concObs ps (s.rets.map (fun r => resStr r.res)) s.execs)
  | "limit" =>
    let kind ← kindOf k
    let (s, ps) := limSim.phases fuel (limInit kind n g script) choices []
    pure (concObs ps (s.rets.map (fun r => resStr r.res)) s.execs)
  | "oplimit" =>
    let (s, ps) := olSim.phases fuel (olInit n g script) choices []
    let res := List.replicate (s.retExec + s.retSkip) (resStr .zero) ++ s.panicked.map (fun p => resStr (.panic p))
    pure (concObs ps res s.execs)
  | "oplimitf" =>
    let (s, ps) := olForced fuel (olInit n g script) choices []
    let res := List.replicate (s.retExec + s.retSkip) (resStr .zero) ++ s.panicked.map (fun p => resStr (.panic p))
    let maxc := ps.foldl (fun m p => max m p.2.1) 0
    let ph := "".intercalate (ps.map (fun p => s!"({p.1},{p.2.1},{p.2.2})"))
    pure s!"ph={ph}|res={",".intercalate (sortStr res)}|inv={s.execs}|maxc={maxc}"
  | "lock" =>
    let kind ← kindOf k
    let (s, ps) := lkSim.phases fuel (lkInit kind g script) choices []
    pure (concObs ps (s.rets.map resStr) s.execs)
  | "oplaunch" | "opsignal" =>
    let (s, ps) := bgSim.phases fuel (bgInit false false g script) choices []
    pure (concObs ps (s.rets.map (fun r => resStr r.res)) 1)
  | "wlaunch" | "wsignal" | "wbackground" | "pbackground" | "xbackground" =>
    let (s, ps) := bgSim.phases fuel (bgInit true false g script) choices []
    pure (concObs ps (s.rets.map (fun r => resStr r.res)) 1)
  | "plaunch" =>
    let (s, ps) := plSim.phases fuel (plInit g script) choices []
    pure (concObs ps (s.rets.map (fun r => resStr r.res)) s.finished)
  | "opstartgroup" | "opadd" =>
    let n := if subject == "opadd" then 1 else n
    let (s, ps) := sgSim.phases fuel (sgInit n g script) choices []
    pure (concObs ps (s.rets.map (fun _ => resStr .zero)) n)
  | "wstartgroup" | "wstartgroupx" =>
    let (s, ps) := sgSim.phases fuel (sgInit n g script) choices []
    let errStrSorted (es : List Err) : String := "+".intercalate (sortStr (es.flatten.map atomStr))
    pure (concObs ps (s.rets.map (fun r => s!"0/{errStrSorted r.errs}")) n)
  | _ => none

/-! ### `(allowed (conc …) (obs (ph (r i)…) (res r…) (inv n) (maxc m)))`: evaluate the model's outcome
    predicate on an observation of the implementation -/

def resOf (s : String) : Option Res :=
  if s.startsWith "!" then
    let body := (s.drop 1).toString
    (if body.isEmpty then some [] else (body.splitOn "+").mapM atomOf).map .panic
  else
    match s.splitOn "/" with
    | [v, e] => do
      let v ← v.toInt?
      let atoms ← if e.isEmpty then some [] else (e.splitOn "+").mapM atomOf
      pure (.ret v atoms)
    | _ => none

def obsOfSexp (args : List Sexp) : Option Obs := do
  let ph ← (← section? "ph" args).mapM (fun p => match p with
    | .list [a, b] => do pure ((← a.nat?), (← b.nat?))
    | .list [a, b, _] => do pure ((← a.nat?), (← b.nat?))
    | _ => none)
  let res ← ((← section? "res" args).filterMap Sexp.atom?).mapM resOf
  pure { phases := ph, results := res, inv := natArg "inv" args 0, maxc := natArg "maxc" args 0 }

def allowedCase (subject k : String) (args : List Sexp) (o : Obs) : Option Bool := do
  let script ← (← section? "script" args).mapM stepOf
  let n := natArg "n" args 1
  let g := natArg "callers" args 1
  match subject with
  | "once" => do pure (allowedOnce (← onceKind k) g script o)
  | "limit" => pure (allowedLimit n g o)
  | "oplimit" | "oplimitf" => pure (allowedOpLimit n g o)
  | "lock" => pure (allowedLock g o)
  | "oplaunch" | "opsignal" | "wlaunch" | "wsignal" | "wbackground" | "pbackground" | "xbackground" => pure (allowedBg g o)
  | "plaunch" => pure (o.phases.all (fun p => decide (p.2 ≤ 1)) && o.results.length == g)
  | "opstartgroup" | "wstartgroup" | "wstartgroupx" => pure (allowedSg n g o)
  | "opadd" => pure (allowedSg 1 g o)
  | _ => none

def handle (s : Sexp) : String :=
  match s with
  | .list (.atom "seq" :: .atom k :: args) =>
    match kindOf k with
    | some k => (seqCase k args).getD "bad-op"
    | none => "bad-op"
  | .list (.atom "adtonce" :: args) => (adtCase args).getD "bad-op"
  | .list (.atom "conc" :: .atom subject :: .atom k :: args) => (concCase subject k args).getD "bad-op"
  | .list [.atom "allowed", .list (.atom "conc" :: .atom subject :: .atom k :: args), .list (.atom "obs" :: oargs)] =>
    match obsOfSexp oargs with
    | none => "bad-obs"
    | some o =>
      match allowedCase subject k args o with
      | some true => "ok"
      | some false => "rejected"
      | none => "bad-op"
  | _ => "bad-op"

end FunModel.DrvC15
