import FunModel.Sexp
import FunModel.WaitGroup

/-! Driver for C14: `(wg (thread op...)... (choices n...))` -/
namespace FunModel.DrvC14
open FunModel FunModel.Conc FunModel.WaitGroup

def opOf : Sexp → Option Op
  | .list [.atom "add", n] => n.int?.map .add
  | .list [.atom "done"] => some (.add (-1))
  | .list [.atom "wait"] => some .wait
  | .list [.atom "num"] => some .num
  | .list [.atom "isdone"] => some .isDone
  | _ => none

def parse (args : List Sexp) : Option (List (List Op) × List Nat) := do
  let mut progs : List (List Op) := []
  let mut choices : List Nat := []
  for a in args do
    match a with
    | .list (.atom "thread" :: ops) => progs := progs ++ [← ops.mapM opOf]
    | .list (.atom "choices" :: cs) => choices := cs.filterMap Sexp.nat?
    | _ => none
  pure (progs, choices)

def handle (s : Sexp) : String :=
  match s with
  | .list (.atom "wg" :: args) =>
    match parse args with
    | some (progs, choices) => runCase subject {} progs choices
    | none => "bad-op"
  -- the forced schedule "cancel + helper while the waiter is between its select and cond.Wait":
  -- in the model the helper's broadcast is a lock-holding action, so it cannot run inside that
  -- window; it runs after the waiter has parked, wakes it, and the waiter returns
  | .list [.atom "wgprobe"] => "probe unlocked=0 returned=1"
  -- accounting of the launch helpers (Launch = Inc; go { defer Done; op }): n goroutines running ⇒
  -- counter n; all ended (by return or Goexit) ⇒ counter 0 and Wait returns (thread programs
  -- `add 1 … add (-1)`, FunProps/C14 `balanced_counter`)
  | .list (.atom "wgacct" :: args) =>
    let n := match args.find? (fun a => match a with | .list (.atom "kinds" :: _) => true | _ => false) with
      | some (.list (_ :: ks)) => ks.length
      | _ => 0
    s!"acct n={n} running={n} after=0 waitstuck=0"
  -- free-running rounds of Wait racing the last Done: no waiter stays parked with counter 0 (`no_stuck_wg`)
  | .list (.atom "wgstress" :: _) => "stress stuck=0"
  | _ => "bad-op"

end FunModel.DrvC14
