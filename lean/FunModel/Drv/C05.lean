import FunModel.Sexp
import FunModel.Queue

/-! Driver for C05/C07/C20 (Queue): `(queue (cfg ...) (thread op...)... (choices n...))` -/
namespace FunModel.DrvC05
open FunModel FunModel.Conc FunModel.Queue

def opOf : Sexp → Option Op
  | .list [.atom "add", v] => v.int?.map .add
  | .list [.atom "badd", v] => v.int?.map .badd
  | .list [.atom "remove"] => some .remove
  | .list [.atom "wait"] => some .wait
  | .list [.atom "recv"] => some .recv
  | .list [.atom "len"] => some .len
  | .list [.atom "close"] => some .close
  | .list [.atom "next", k] => k.nat?.map .next
  | _ => none

def cfgOf : Sexp → Option St
  | .list [.atom "cfg", .atom "unlimited"] => some mkUnlimited
  | .list [.atom "cfg", .atom "soft", h, s, bn, bd] => do
    -- QueueOptions.Validate: a soft quota ≤ 0 means "the hard limit"
    pure (mkSoft (← h.nat?) ((← s.int?).toNat) (Float.ofNat (← bn.nat?) / Float.ofNat (← bd.nat?)))
  | _ => none

def parse (args : List Sexp) : Option (St × List (List Op) × List Nat) := do
  let mut st : Option St := none
  let mut progs : List (List Op) := []
  let mut choices : List Nat := []
  for a in args do
    match a with
    | .list (.atom "thread" :: ops) => progs := progs ++ [← ops.mapM opOf]
    | .list (.atom "choices" :: cs) => choices := cs.filterMap Sexp.nat?
    | .list (.atom "cfg" :: _) => st := cfgOf a
    | _ => none
  pure (← st, progs, choices)

/-- free-running contention cases (harness/stress.go): shapes whose observation is fixed by the
    sequential specification whatever the interleaving — a single remover and no adder never sees
    an empty queue while items remain and gets them in order; Len moves monotonically; producers
    and consumers conserve the multiset and each producer's order -/
def stressNum (args : List Sexp) (key : String) (dflt : Nat) : Nat :=
  match args.find? (fun a => match a with | .list [.atom k, _] => k == key | _ => false) with
  | some (.list [_, v]) => (v.nat?).getD dflt
  | _ => dflt

def stressKind (args : List Sexp) : String :=
  match args.find? (fun a => match a with | .list [.atom "kind", _] => true | _ => false) with
  | some (.list [_, .atom k]) => k
  | _ => ""

def qstress (args : List Sexp) : String :=
  let n := stressNum args "n" 1000
  match stressKind args with
  | "drain" => s!"drain removed={n} falseempty=0 outoforder=0 lenbad=0 final=0"
  | "fill" => s!"fill failed=0 lenbad=0 final={n}"
  | "pc" => "pc missing=0 dup=0 invented=0 orderbad=0 final=0"
  | "badd" => "badd failed=0 overlimit=0 missing=0 dup=0 orderbad=0 final=0"
  | _ => "bad-op"

/-- sequential calls (harness `qpre`), the `…c` operations made with a context that is already
    cancelled: they are the model's `start` segment when it returns, and the context error when it
    would park (`resume` with `cancelled = true` right after parking: no effect) -/
def preStep (s : St) (op : Sexp) : Option (St × String) :=
  let run (o : Op) (dead : Bool) : Option (St × String) :=
    let r := start s 0 o
    match r.fin with
    | .ret x => some (r.st, x)
    | .park _ =>
      if dead then
        let r2 := resume r.st 0 o true
        match r2.fin with
        | .ret x => some (r2.st, x)
        | .park _ => none
      else none
  match op with
  | .list [.atom "add", v] => do run (.add (← v.int?)) false
  | .list [.atom "remove"] => run .remove false
  | .list [.atom "len"] => run .len false
  | .list [.atom "close"] => run .close false
  | .list [.atom "baddc", v] => do run (.badd (← v.int?)) true
  | .list [.atom "waitc"] => run .wait true
  | .list [.atom "recvc"] => run .recv true
  | .list [.atom "badd", v] => do run (.badd (← v.int?)) false
  | _ => none

def qpre (args : List Sexp) : String :=
  match args.find? (fun a => match a with | .list (.atom "cfg" :: _) => true | _ => false),
        args.find? (fun a => match a with | .list (.atom "ops" :: _) => true | _ => false) with
  | some c, some (.list (_ :: ops)) =>
    match cfgOf c with
    | none => "bad-op"
    | some st0 =>
      let rec go (s : St) (ops : List Sexp) (acc : List String) : String :=
        match ops with
        | [] => ";".intercalate acc.reverse ++ " | " ++ subject.final s
        | o :: rest =>
          match preStep s o with
          | some (s', r) => go s' rest (r :: acc)
          | none => "would-block"
      go st0 ops []
  | _, _ => "bad-op"

def handle (s : Sexp) : String :=
  match s with
  | .list (.atom "qstress" :: args) => qstress args
  | .list (.atom "qpre" :: args) => qpre args
  | .list (.atom "queue" :: args) =>
    match parse args with
    | some (st, progs, choices) => runCase subject st progs choices
    | none => "bad-op"
  | .list [.atom "qprobe", _] => "probe unlocked=0 returned=1"
  | _ => "bad-op"

end FunModel.DrvC05
