import FunModel.Sexp
import FunModel.Queue

/-! Driver for C05/C07/C20 (Queue): `(queue (cfg ...) (thread op...)... (choices n...))` -/
namespace FunModel.DrvC05
open FunModel FunModel.Conc FunModel.Queue

def opOf : Sexp → Option Op
  | .list [.atom "add", v] => v.int?.map .add
  | .list [.atom "badd", v] => v.int?.map .badd
  | .list [.atom "remove"] => some .remove
  | .list [.atom "wait"] => some .wait
  | .list [.atom "recv"] => some .recv
  | .list [.atom "len"] => some .len
  | .list [.atom "close"] => some .close
  | .list [.atom "next", k] => k.nat?.map .next
  | _ => none

def cfgOf : Sexp → Option St
  | .list [.atom "cfg", .atom "unlimited"] => some mkUnlimited
  | .list [.atom "cfg", .atom "soft", h, s, bn, bd] => do
    pure (mkSoft (← h.nat?) (← s.nat?) (Float.ofNat (← bn.nat?) / Float.ofNat (← bd.nat?)))
  | _ => none

def parse (args : List Sexp) : Option (St × List (List Op) × List Nat) := do
  let mut st : Option St := none
  let mut progs : List (List Op) := []
  let mut choices : List Nat := []
  for a in args do
    match a with
    | .list (.atom "thread" :: ops) => progs := progs ++ [← ops.mapM opOf]
    | .list (.atom "choices" :: cs) => choices := cs.filterMap Sexp.nat?
    | .list (.atom "cfg" :: _) => st := cfgOf a
    | _ => none
  pure (← st, progs, choices)

def handle (s : Sexp) : String :=
  match s with
  | .list (.atom "queue" :: args) =>
    match parse args with
    | some (st, progs, choices) => runCase subject st progs choices
    | none => "bad-op"
  | .list [.atom "qprobe", _] => "probe unlocked=0 returned=1"
  | _ => "bad-op"

end FunModel.DrvC05
