import FunModel.Sexp
import FunModel.Stream

/-! Driver for C02: `(pipe consumer tree)` -/
namespace FunModel.DrvC02
open FunModel FunModel.Stream

def evOf : Sexp → Option Ev
  | .atom "skip" => some .skip
  | .atom "eof" => some .eof
  | .atom "abort" => some .abort
  | .atom "ctx" => some .ctx
  | .list [.atom "err", e] => e.nat?.map .err
  | s => s.int?.map .val

def intsOf (xs : List Sexp) : List Int := xs.filterMap Sexp.int?

def injOf (xs : List Sexp) : List (Nat × Ev) :=
  xs.filterMap (fun x => match x with
    | .list [i, e] => do pure (← i.nat?, ← evOf e)
    | _ => none)

partial def treeOf : Sexp → Option Op
  | .list (.atom "slice" :: vs) => some (.slice (intsOf vs))
  | .list (.atom "vari" :: vs) => some (.slice (intsOf vs))
  | .list (.atom "chan" :: vs) => some (.slice (intsOf vs))
  | .list (.atom "list" :: vs) => some (.slice (intsOf vs))
  | .list (.atom "stack" :: vs) => some (.stack (intsOf vs))
  | .list (.atom "gen" :: evs) => some (.gen (evs.filterMap evOf))
  | .list [.atom "filter", m, r, t] => do pure (.filter (← m.int?) (← r.int?) (← treeOf t))
  | .list [.atom "map", mul, add, .list (.atom "inj" :: inj), t] => do
      pure (.map { mul := (← mul.int?), add := (← add.int?), inj := injOf inj } (← treeOf t))
  | .list (.atom "join" :: t :: rest) => do pure (.join (← treeOf t) (← rest.mapM treeOf))
  | .list (.atom "chain" :: ts) => do pure (.chain (← ts.mapM treeOf))
  | .list [.atom "buffer", _, t] => do pure (.pipe true (← treeOf t))
  | .list [.atom "split1", t] => do pure (.pipe false (← treeOf t))
  | .list [.atom "channel", _, t] => do pure (.pipe false (← treeOf t))
  | .list [.atom "uniq", t] => do pure (.uniq (← treeOf t))
  | .list [.atom "dropzero", t] => do pure (.dropZero (← treeOf t))
  | .list [.atom "indexed", t] => do pure (.indexed (← treeOf t))
  | .list (.atom "mergeslices" :: sls) => some (.mergeSlices (sls.map (fun s => intsOf s.items)))
  | .list (.atom "msi" :: sls) => some (.mergeSlices (sls.map (fun s => intsOf s.items)))
  | .list [.atom "jsonrt", t] => do pure (.jsonRound (← treeOf t))
  -- JSON text with `null` elements: UnmarshalJSON decodes each element into a fresh zero value,
  -- so the iterator holds the integers with 0 for every null (= jsonRound of that slice)
  | .list (.atom "jsonlit" :: vs) => some (.jsonRound (.slice (vs.map (fun v => (v.int?).getD 0))))
  | _ => none

def evStr : Ev → String
  | .val a => s!"v{a}"
  | .skip => "skip"
  | .eof => "eof"
  | .abort => "abort"
  | .ctx => "ctx"
  | .err e => s!"err{e}"

/-- the first `n` results of ReadOne on the stream (eof forever after its end) -/
def reads (s : S) (n : Nat) : List String :=
  (List.range n).map (fun i => match s[i]? with | some e => evStr e | none => "eof")

def sortNat (xs : List Nat) : List Nat := (xs.toArray.qsort (· < ·)).toList

def closeStr (t : Op) : String :=
  joinSep "," ((sortNat (closeErrs t)).eraseDups.map toString)

def handle (s : Sexp) : String :=
  match s with
  | .list [.atom "pipe", cons, tree] =>
    match treeOf tree with
    | none => "bad-op"
    | some t =>
      let st := denote t
      match cons with
      | .list [.atom "read", n] =>
        s!"{joinSep " " (reads st (n.nat?.getD 0))} close={closeStr t}"
      | .list [.atom "count"] => s!"{countS st}"
      | .list [.atom "slicec"] => s!"{joinSep "," ((vals st).map toString)}"
      | .list [.atom "json"] => jsonS st
      | .list [.atom "reduce", mul, add, .list (.atom "inj" :: inj)] =>
        match mul.int?, add.int? with
        | some m, some a =>
          let (v, e) := reduceGo { mul := m, add := a, inj := injOf inj } 0 0 st
          s!"{v} err={match e with | none => "-" | some e => toString e}"
        | _, _ => "bad-op"
      | _ => "bad-op"
  | _ => "bad-op"

end FunModel.DrvC02
