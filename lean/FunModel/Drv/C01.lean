import Std.Data.HashSet
import FunModel.Sexp
import FunModel.Pipe

/-! Driver for C01 / C04 (T-out): `(judge (pipe …) (obs …))` — evaluates the model's decidable
    `allowed` predicate on the implementation's outcome and, for tiny instances, checks that the
    observed delivery sequence is one the model produces under *some* schedule (exhaustive
    enumeration of the model's schedules: a test oracle, not a proof). Prints `ok …` or `no <why>`. -/
namespace FunModel.DrvC01
open FunModel FunModel.Pipe

inductive Shape where
  | feeder (c : Feeder.Cfg)
  | fanIn (c : FanIn.Cfg) (n : Nat) (sharedSrc : Bool)
  | fanOut (c : FanOut.Cfg)
  deriving Repr

structure Kase where
  construct : String
  workers : Nat
  buf : Nat
  input : List Nat
  behaviour : String
  k : Nat
  badopts : Bool := false
  deriving Repr

structure Obs where
  seen : List (List Nat)
  calls : List Nat
  ends : List String
  after : String
  idem : String
  ret : String
  released : String
  closeerr : String
  leak : List String
  deriving Repr

def field (name : String) (xs : List Sexp) : List Sexp :=
  match xs.find? (fun x => match x with | .list (.atom n :: _) => n == name | _ => false) with
  | some (.list (_ :: rest)) => rest
  | _ => []

def natsOf (xs : List Sexp) : List Nat := xs.filterMap Sexp.nat?
def atomsOf (xs : List Sexp) : List String := xs.filterMap Sexp.atom?
def first (xs : List String) (d : String) : String := xs.headD d

def kaseOf (s : Sexp) : Option Kase :=
  match s with
  | .list (.atom "pipe" :: fs) =>
    let cons := field "consumer" fs
    some { construct := first (atomsOf (field "construct" fs)) "", workers := (natsOf (field "workers" fs)).headD 1,
           buf := (natsOf (field "buf" fs)).headD 0, input := natsOf (field "input" fs),
           behaviour := first (atomsOf cons) "exhaust", k := (natsOf cons.tail).headD 0,
           badopts := (natsOf (field "badopts" fs)).headD 0 != 0 }
  | _ => none

def obsOf (s : Sexp) : Option Obs :=
  match s with
  | .list (.atom "obs" :: fs) =>
    some { seen := (field "seen" fs).map (fun l => natsOf l.items), calls := natsOf (field "calls" fs),
           ends := atomsOf (field "end" fs), after := first (atomsOf (field "after" fs)) "none",
           idem := first (atomsOf (field "idem" fs)) "none", ret := first (atomsOf (field "ret" fs)) "none",
           released := first (atomsOf (field "released" fs)) "none",
           closeerr := first (atomsOf (field "closeerr" fs)) "none", leak := atomsOf (field "leak" fs) }
  | _ => none

/-- which shape a construct instantiates, with which parameters (the table in FunModel/Pipe.lean) -/
def shapeOf (k : Kase) : Option Shape :=
  let n := max 1 k.workers
  match k.construct with
  | "buffer" => some (.feeder { cap := k.buf, onceGo := true, srcChecksCtx := true, eager := false })
  | "chain" | "mslices" | "msi" => some (.feeder { cap := 0, onceGo := false, srcChecksCtx := true, eager := false })
  | "bchan" => some (.feeder { cap := k.buf, onceGo := false, srcChecksCtx := true, eager := true })
  | "dtmap" | "adtmap" => some (.feeder { cap := 0, onceGo := false, srcChecksCtx := false, eager := false })
  | "merge" => some (.fanIn { cap := 0, srcChecksCtx := true, closerCtx := true } n false)
  | "merge0" => some (.fanIn { cap := 0, srcChecksCtx := true, closerCtx := true } 0 false)   -- MergeIterators()
  | "genpar" | "itgen" => some (.fanIn { cap := 2 * n + 1, srcChecksCtx := true, closerCtx := true, invalid := k.badopts } n true)
  | "split" | "chanread" =>
    some (.fanOut { n := n, hasOut := false, outCap := 0, hasCloser := false, closerCtx := false, onceGo := false, lazy := false, workerCancels := false })
  | "pp" | "pfe" | "worker" =>
    some (.fanOut { n := n, hasOut := false, outCap := 0, hasCloser := true, closerCtx := false, onceGo := false, lazy := false, workerCancels := false,
                    invalid := k.badopts })
  | "map" | "itmap" =>
    some (.fanOut { n := n, hasOut := true, outCap := 0, hasCloser := true, closerCtx := true, onceGo := false, lazy := true, workerCancels := true,
                    invalid := k.badopts })
  | "pbuf" =>
    some (.fanOut { n := n, hasOut := true, outCap := k.workers, hasCloser := true, closerCtx := false, onceGo := true, lazy := true, workerCancels := false })
  | _ => none

/-- order is part of the claim: Feeder constructs with a sequential source, and a single worker -/
def orderedCase (k : Kase) : Bool :=
  match k.construct with
  | "buffer" | "chain" | "mslices" | "msi" | "bchan" => true
  | "dtmap" | "adtmap" => false
  | _ => k.workers ≤ 1

def multiConsumer (k : Kase) : Bool := k.construct == "split" || k.construct == "chanread"

/-- the run ended by exhaustion (nothing stopped it from outside) -/
def failureFreeCase (k : Kase) (o : Obs) : Bool :=
  !k.badopts &&
  (k.behaviour == "exhaust" || k.behaviour == "blockedclose" || k.behaviour == "blockedcancel" ||
  ((k.behaviour == "close" || k.behaviour == "closecancel" || k.behaviour == "cancel") && o.seen.length == 1 &&
    k.k > k.input.length && !(k.construct == "pp" || k.construct == "pfe" || k.construct == "worker")))

def outcomeOfObs (k : Kase) (o : Obs) : Outcome :=
  let blocked := k.behaviour == "blockedclose" || k.behaviour == "blockedcancel"
  { delivered := o.seen.flatten, failureFree := failureFreeCase k o,
    eof := blocked || (if k.construct == "chanread" then o.ends.contains "eof" && o.ends.all (fun e => e == "eof" || e == "ctx")
                       else o.ends.all (· == "eof")),
    leaked := o.leak.length }

/-- Close idempotent and non-blocking, parked consumer released, ReadOne after the stop -/
def protocolOk (k : Kase) (o : Obs) : Bool :=
  !(o.ends.contains "hang") && !(o.ends.contains "other") && o.idem != "0" && o.released != "0" && o.released != "unparked" &&
  (if k.behaviour == "close" || k.behaviour == "closecancel" then o.after == "eof" && o.idem == "1"
   else if k.behaviour == "cancel" then o.after == "ctx" || o.after == "eof" || o.after == "none"
   else if k.behaviour == "closeduringfirst" then o.released == "1" && o.idem == "1" && o.after == "eof"
   else true) &&
  -- a rejected option set: nothing is delivered (`*_invalid_nothing_delivered`), the run ends with EOF / the
  -- worker returns, and the output iterator's Close reports the configuration error
  (!k.badopts || (o.seen.flatten.isEmpty &&
     (if k.behaviour == "exhaust" then o.ends.all (· == "eof") &&
        (if k.construct == "pp" || k.construct == "pfe" || k.construct == "worker" then true else o.closeerr == "invalid")
      else true))) &&
  (if k.behaviour == "exhaust" && !k.badopts && (k.construct == "pp" || k.construct == "pfe" || k.construct == "worker") then o.ret == "nil" else true)

/-! ### exhaustive enumeration of the model's schedules (tiny instances) -/

structure Explore (σ α : Type) [BEq σ] [Hashable σ] where
  step : σ → α → Option σ
  acts : σ → List α
  terminal : σ → Bool

partial def bfs {σ α : Type} [BEq σ] [Hashable σ] (e : Explore σ α) (fuel : Nat) (work : List σ)
    (seen : Std.HashSet σ) (terms : List σ) : Option (List σ) :=
  match work with
  | [] => some terms
  | s :: rest =>
    if seen.size > fuel then none
    else
      let succs := (e.acts s).filterMap (e.step s)
      let (seen', new) := succs.foldl (fun (acc : Std.HashSet σ × List σ) t =>
        if acc.1.contains t then acc else (acc.1.insert t, t :: acc.2)) (seen, [])
      bfs e fuel (new ++ rest) seen' (if e.terminal s then s :: terms else terms)

/-- environment actions follow the harness' consumer: `close`/`cancel` happen exactly when the
    consumer has received k items and is between two ReadOne calls -/
def envOk (beh : String) (k : Nat) (gotLen : Nat) (consIdle closed : Bool) (isClose isCancel : Bool)
    (consParked : Bool := false) : Bool :=
  if isClose then ((beh == "close" || beh == "closecancel") && gotLen == k && consIdle) ||
                  -- Close lands while the first ReadOne is between its closed-check and its park: the schedule
                  -- class `cStart, close, …` (Close at k = 0 with the consumer already inside ReadOne)
                  (beh == "closeduringfirst" && gotLen == 0 && consParked && !closed)
  else if isCancel then (beh == "cancel" && gotLen == k && consIdle) || (beh == "closecancel" && closed)
  else true

def budgets (beh : String) : Nat × Nat :=
  if beh == "close" || beh == "closeduringfirst" then (1, 0) else if beh == "cancel" then (0, 1) else if beh == "closecancel" then (1, 1) else (0, 0)

def cutRoundRobin (xs : List Nat) (n : Nat) : List (List Nat) :=
  (List.range n).map (fun i => (xs.zipIdx.filter (fun p => p.2 % n == i)).map (·.1))

/-- the delivery sequences of all terminal states of the model for this case, or none when the
    instance is not tiny / the behaviour is not enumerated -/
def enumerate (k : Kase) (sh : Shape) : Option (List (List Nat)) :=
  let beh := k.behaviour
  if !(beh == "exhaust" || beh == "close" || beh == "cancel" || beh == "closecancel" || beh == "closeduringfirst") then none
  else if (k.construct == "dtmap" || k.construct == "adtmap") && beh != "exhaust" then none   -- map iteration order is not the input order
  else
  let (cb, kb) := budgets beh
  match sh with
  | .feeder c =>
    if k.input.length > 5 then none else
    let e : Explore Feeder.St Feeder.Act :=
      { step := Feeder.step c, terminal := fun s => s.terminal,
        acts := fun s => Feeder.allActs.filter (fun a =>
          envOk beh k.k s.got.length (s.cons == .idle) s.closed (a == .close) (a == .cancel) (s.cons == .parked)) }
    let s0 := Feeder.init c k.input cb kb
    (bfs e 200000 [s0] (Std.HashSet.emptyWithCapacity.insert s0) []).map (fun ts => (ts.map (·.got)).eraseDups)
  | .fanIn c n sharedSrc =>
    if k.input.length > 3 || n > 2 then none else
    let privs := if sharedSrc then List.replicate n [] else cutRoundRobin k.input n
    let shared := if sharedSrc then k.input else []
    let e : Explore FanIn.St FanIn.Act :=
      { step := FanIn.step c, terminal := fun s => s.terminal,
        acts := fun s => (FanIn.acts n).filter (fun a =>
          envOk beh k.k s.got.length (s.cons == .idle) s.closed (a == .close) (a == .cancel) (s.cons == .parked)) }
    let s0 := FanIn.init c privs shared cb kb
    (bfs e 200000 [s0] (Std.HashSet.emptyWithCapacity.insert s0) []).map (fun ts => (ts.map (·.got)).eraseDups)
  | .fanOut c =>
    if k.input.length > 3 || c.n > 2 then none
    else if !c.hasOut && beh != "exhaust" then none
    else
    let e : Explore FanOut.St FanOut.Act :=
      { step := FanOut.step c, terminal := fun s => s.terminal c,
        acts := fun s => (FanOut.acts c.n).filter (fun a =>
          envOk beh k.k s.got.length (s.cons == .idle) s.closed (a == .close) (a == .cancel) (s.cons == .parked)) }
    let s0 := FanOut.init c k.input cb kb
    (bfs e 200000 [s0] (Std.HashSet.emptyWithCapacity.insert s0) []).map (fun ts => (ts.map (fun s => s.got ++ s.seen)).eraseDups)

def sortNats (xs : List Nat) : List Nat := (xs.toArray.qsort (· < ·)).toList

def judge (k : Kase) (o : Obs) : String :=
  match shapeOf k with
  | none => "no unknown-construct"
  | some sh =>
    if k.behaviour == "abandonfirst" || k.behaviour == "abandonother" then
      -- Split with per-output contexts: the model predicts a leak exactly when the first-advanced
      -- output is the abandoned one and the reader still holds an item (input longer than n)
      let leakPredicted := k.behaviour == "abandonfirst" && k.input.length > max 1 k.workers
      if o.leak.length > 0 then s!"no leak (Split model with per-output contexts predicts a leak: {leakPredicted})"
      else if leakPredicted then "no model-predicts-leak-but-none-observed"
      else "ok split-ctx"
    else
    let oc := outcomeOfObs k o
    if !allowed (orderedCase k) k.input oc then
      s!"no not-allowed leaked={oc.leaked} eof={oc.eof} failureFree={oc.failureFree} delivered={oc.delivered.length}/{k.input.length}"
    else if !countLe o.calls k.input || (oc.failureFree && !o.calls.isEmpty && !countEq o.calls k.input) then "no calls"
    else if !protocolOk k o then "no protocol"
    else
      match enumerate k sh with
      | none => "ok enum=0"
      | some outs =>
        let unordered := multiConsumer k || (match sh with | .fanOut c => !c.hasOut | _ => false) ||
                         k.construct == "dtmap" || k.construct == "adtmap"
        let hit := if unordered then (outs.map sortNats).contains (sortNats oc.delivered) else outs.contains oc.delivered
        if hit then s!"ok enum=1 outcomes={outs.length}" else s!"no not-in-model-outcome-set outcomes={outs.length}"

def handle (s : Sexp) : String :=
  match s with
  | .list [.atom "judge", ks, os] =>
    match kaseOf ks, obsOf os with
    | some k, some o => judge k o
    | _, _ => "no bad-judge-line"
  | .list [.atom "judge-none"] => "no no-observation"
  | _ => "bad-op"

end FunModel.DrvC01
