import FunModel.Sexp
import FunModel.Service

/-! Driver for C10 (srv.Service):
      `(svc (cfg R S C H blocks) [(variant d19 d20 running)] (thread op...)... (choices n...))`
         replays the schedule on the model and prints one observation per action (T-sched);
      `(svclog (cfg R S C H blocks) (clock ev...)...)`
         evaluates `allowedLog` on a call log recorded from the implementation. -/
namespace FunModel.DrvC10
open FunModel FunModel.Service

def phaseIdx : Phase → Nat
  | .run => 1 | .shutdown => 2 | .cleanup => 3 | .handler => 4

def outcomeOf (ph : Phase) : Sexp → Option Outcome
  | .atom "absent" => some .absent
  | .atom "ok" => some .ok
  | .atom "err" => some (.err (10 + phaseIdx ph))
  | .atom "panic" => some (.panic (20 + phaseIdx ph))
  | _ => none

def cfgOf (variant : Bool × Bool × Bool) : Sexp → Option Cfg
  | .list [.atom "cfg", r, s, c, h, b] => do
    pure { run := ← outcomeOf .run r, shutdown := ← outcomeOf .shutdown s, cleanup := ← outcomeOf .cleanup c,
           handler := ← outcomeOf .handler h, runBlocks := (← b.nat?) != 0,
           fixD19 := variant.1, fixD20 := variant.2.1, fixRunning := variant.2.2 }
  | _ => none

def opOf : Sexp → Option Op
  | .list [.atom "start", p] => p.nat?.map .start
  | .list [.atom "close"] => some .close
  | .list [.atom "wait"] => some .wait
  | .list [.atom "running"] => some .running
  | _ => none

def sortNat (xs : List Nat) : List Nat := (xs.toArray.qsort (· < ·)).toList

/-- the ids the harness can probe with errors.Is -/
def probeIds : List Nat := [11, 12, 13, 1000]

def project (ids : List Nat) : List Nat := probeIds.filter (fun i => ids.contains i)

def idsStr (ids : List Nat) : String := String.join ((project ids).map (fun i => s!".{i}"))

def retStr : Ret → String
  | .startNil => "nil" | .startAlready => "already" | .startReturned => "returned"
  | .closed => "closed" | .waitNotStarted => "notstarted"
  | .waitResult ids => "res" ++ idsStr ids
  | .running b => s!"running{bit b}"

def phaseStr : Phase → String
  | .run => "run" | .shutdown => "shutdown" | .cleanup => "cleanup" | .handler => "handler"

def opStr : Op → String
  | .start p => s!"start.{p}" | .close => "close" | .wait => "wait" | .running => "running"

def evStr : Ev → String
  | .call t i op => s!"call.{t}.{i}.{opStr op}"
  | .ret t i r => s!"ret.{t}.{i}.{retStr r}"
  | .phBegin ph agg => s!"beg.{phaseStr ph}{idsStr agg}"
  | .phEnd ph => s!"end.{phaseStr ph}"
  | .cancelParent p => s!"cancel.{p}"

def logStr (l : Log) : String := " ".intercalate (l.map (fun x => s!"{x.1}:{evStr x.2}"))

def locStr : Loc → String
  | .idle => "idle" | .startChecked => "Start.checked" | .startSwapped => "Start.swapped"
  | .startRechecked => "Start.rechecked" | .startClaimed => "Start.claimed"
  | .startLaunched => "Start.launched" | .startStarted => "Start.started"
  | .waitChecked => "Wait.checked" | .waitStarted => "Wait.started" | .runningChecked => "Running.checked"

def rgStr : RgLoc → String
  | .none => "none" | .entry => "run.entry" | .inRun => "phase.run" | .returned => "run.returned"
  | .cancelled => "run.cancelled" | .recovered => "run.recovered" | .signalled => "run.signalled"
  | .inCleanup => "phase.cleanup" | .cleaned => "run.cleaned" | .finished => "run.finished"
  | .closing => "run.closing" | .exit => "run.exit" | .gone => "gone"

def sdStr : SdLoc → String
  | .none => "none" | .entry => "shutdown.entry" | .inShutdown => "phase.shutdown"
  | .closing => "shutdown.closing" | .exit => "shutdown.exit" | .gone => "gone"

def ehStr : EhLoc → String
  | .none => "none" | .entry => "handler.entry" | .main => "handler.main" | .inHandler => "phase.handler"
  | .exit => "handler.exit" | .gone => "gone"

def actLabel : Act → String
  | .th t => s!"t{t}" | .rg => "rg" | .sd => "sd" | .eh => "eh" | .cancelParent p => s!"p{p}"

def parentsOf (progs : List (List Op)) : List Nat :=
  sortNat ((progs.flatten.filterMap (fun o => match o with | .start p => some p | _ => none)).eraseDups)

/-- enabled actions in the canonical order of the harness -/
def enabledActs (c : Cfg) (s : State) (parents : List Nat) (allowCancel : Bool) : List Act :=
  let cands := (List.range s.ths.length).map Act.th ++ [.rg, .sd, .eh]
    ++ (if allowCancel then parents.map Act.cancelParent else [])
  cands.filter (enabled c s)

/-- what the harness prints for the actor that just moved -/
def whereStr (s s' : State) : Act → String
  | .th t =>
    match s.ths[t]?, s'.ths[t]? with
    | some th, some th' =>
      if th'.pc != th.pc then
        match s'.log.getLast? with
        | some (_, .ret _ _ r) => s!"ret:{retStr r}"
        | _ => "ret:?"
      else s!"at:{locStr th'.loc}"
    | _, _ => "?"
  | .rg => if s'.rg == .gone then "gone" else s!"at:{rgStr s'.rg}"
  | .sd => if s'.sd == .gone then "gone" else s!"at:{sdStr s'.sd}"
  | .eh => if s'.eh == .gone then "gone" else s!"at:{ehStr s'.eh}"
  | .cancelParent _ => "ok"

def enStr (acts : List Act) : String := "{" ++ ",".intercalate (acts.map actLabel) ++ "}"

def doStep (c : Cfg) (s : State) (en : List Act) (a : Act) (log : List String) : Option State × List String :=
  match step c s a with
  | none => (none, log ++ ["model-stuck"])
  | some s' => (some s', log ++ [s!"{enStr en}{actLabel a}={whereStr s s' a} R{bit (s'.runningNow c)}"])

/-- a choice is an index into the enabled list, or the name of an actor (skipped when not enabled) -/
inductive Choice where
  | idx (n : Nat)
  | label (l : String)

def runChoices (c : Cfg) (parents : List Nat) (s : State) (choices : List Choice) (log : List String) : State × List String :=
  match choices with
  | [] => (s, log)
  | ch :: rest =>
    let en := enabledActs c s parents true
    if en.isEmpty then (s, log)
    else
      let pick : Option Act := match ch with
        | .idx n => en[n % en.length]?
        | .label l => en.find? (fun a => actLabel a == l)
      match pick with
      | none => runChoices c parents s rest log
      | some a =>
        match doStep c s en a log with
        | (some s', log') => runChoices c parents s' rest log'
        | (none, log') => (s, log')

def drain (c : Cfg) (parents : List Nat) (s : State) (fuel : Nat) (log : List String) : State × List String :=
  match fuel with
  | 0 => (s, log)
  | fuel + 1 =>
    let en := enabledActs c s parents false
    match en with
    | [] => (s, log)
    | a :: _ =>
      match doStep c s en a log with
      | (some s', log') => drain c parents s' fuel log'
      | (none, log') => (s, log')

def blockedStr (s : State) : String :=
  let ths := (List.range s.ths.length).filterMap (fun i => match s.ths[i]? with
    | some th => if th.pc < th.ops.length then some s!"t{i}@{locStr th.loc}" else none
    | none => none)
  let g (name : String) (live : Bool) (w : String) : List String := if live then [s!"{name}@{w}"] else []
  ",".intercalate (ths ++ g "rg" (s.rg != .none && s.rg != .gone) (rgStr s.rg)
    ++ g "sd" (s.sd != .none && s.sd != .gone) (sdStr s.sd) ++ g "eh" (s.eh != .none && s.eh != .gone) (ehStr s.eh))

def runCase (c : Cfg) (progs : List (List Op)) (choices : List Choice) : String :=
  let parents := parentsOf progs
  let (s1, log1) := runChoices c parents (init progs) choices []
  let (s2, log2) := drain c parents s1 600 log1
  " ; ".intercalate (log2 ++ [s!"final blocked=[{blockedStr s2}] log=[{logStr s2.log}]"])

def parseSvc (args : List Sexp) : Option (Cfg × List (List Op) × List Choice) := do
  let mut variant : Bool × Bool × Bool := (true, true, true)
  for a in args do
    match a with
    | .list [.atom "variant", a, b, c] => variant := ((← a.nat?) != 0, (← b.nat?) != 0, (← c.nat?) != 0)
    | _ => pure ()
  let mut cfg : Option Cfg := none
  let mut progs : List (List Op) := []
  let mut choices : List Choice := []
  for a in args do
    match a with
    | .list (.atom "cfg" :: _) => cfg := cfgOf variant a
    | .list (.atom "variant" :: _) => pure ()
    | .list (.atom "thread" :: ops) => progs := progs ++ [← ops.mapM opOf]
    | .list (.atom "choices" :: cs) =>
      choices := cs.filterMap (fun x => match x with
        | .atom a => some (match a.toNat? with | some n => Choice.idx n | none => Choice.label a)
        | _ => none)
    | _ => none
  pure (← cfg, progs, choices)

/-! ### logs recorded from the implementation -/

def phaseOf : String → Option Phase
  | "run" => some .run | "shutdown" => some .shutdown | "cleanup" => some .cleanup | "handler" => some .handler
  | _ => none

def retOf : List Sexp → Option Ret
  | [.atom "nil"] => some .startNil
  | [.atom "already"] => some .startAlready
  | [.atom "returned"] => some .startReturned
  | [.atom "closed"] => some .closed
  | [.atom "notstarted"] => some .waitNotStarted
  | [.atom "running0"] => some (.running false)
  | [.atom "running1"] => some (.running true)
  | .atom "res" :: ids => some (.waitResult (ids.filterMap Sexp.nat?))
  | _ => none

def evOf : Sexp → Option (Nat × Ev)
  | .list (k :: .atom "call" :: t :: i :: op) => do
    let o ← match op with
      | [.atom "start", p] => p.nat?.map Op.start
      | [.atom "close"] => some .close
      | [.atom "wait"] => some .wait
      | [.atom "running"] => some .running
      | _ => none
    pure (← k.nat?, .call (← t.nat?) (← i.nat?) o)
  | .list (k :: .atom "ret" :: t :: i :: r) => do pure (← k.nat?, .ret (← t.nat?) (← i.nat?) (← retOf r))
  | .list (k :: .atom "beg" :: .atom ph :: ids) => do pure (← k.nat?, .phBegin (← phaseOf ph) (ids.filterMap Sexp.nat?))
  | .list [k, .atom "end", .atom ph] => do pure (← k.nat?, .phEnd (← phaseOf ph))
  | .list [k, .atom "cancel", p] => do pure (← k.nat?, .cancelParent (← p.nat?))
  | _ => none

/-- first reason for which `allowedLog` rejects -/
def whyRejected (c : Cfg) (l : Log) : String :=
  match l.find? (fun x => !evOk c l x.1 x.2) with
  | some x => s!"event {x.1}:{evStr x.2} violates its obligation"
  | none =>
    if countEv l (isBegin .run) > 1 then "Run invoked more than once"
    else if countEv l (isBegin .shutdown) > 1 then "Shutdown ran more than once"
    else if countEv l (isBegin .cleanup) > 1 then "Cleanup ran more than once"
    else if countEv l (isBegin .handler) > 1 then "ErrorHandler ran more than once"
    else if countEv l isStartNil > 1 then "more than one Start returned nil"
    else "no Start returned nil although every call has returned"

def handle (s : Sexp) : String :=
  match s with
  | .list (.atom "svc" :: args) =>
    match parseSvc args with
    | some (cfg, progs, choices) => runCase cfg progs choices
    | none => "bad-op"
  | .list (.atom "svclog" :: cfg :: evs) =>
    match cfgOf (true, true, true) cfg, evs.mapM evOf with
    | some c, some l => if allowedLog c l then "allowed" else "rejected: " ++ whyRejected c l
    | _, _ => "bad-op"
  | _ => "bad-op"

end FunModel.DrvC10
