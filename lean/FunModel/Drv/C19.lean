import FunModel.Sexp
import FunModel.Hdr

/-! Driver for C19: a case is `(hist (new min max sig) op ...)`; one observation per op, joined by `;`. -/
namespace FunModel.DrvC19
open FunModel FunModel.Hdr

def distOf (h : Hist) : String :=
  match lastNonZero h.counts 0 none with
  | none => ""
  | some last =>
    let idxs := (List.range (last + 1)).filter (fun i => h.counts.getD i 0 ≠ 0)
    joinSep "," (idxs.map (fun i =>
      let v := h.shape.valueAt i
      s!"{h.shape.lowestEquiv v}-{h.shape.highestEquiv v}:{h.counts.getD i 0}"))

def stepOp (h : Hist) (op : Sexp) : Hist × String :=
  match op with
  | .list [.atom "rec", v, n] =>
    match v.nat?, n.nat? with
    | some v, some n =>
      match h.record v n with
      | some h' => (h', "ok")
      | none => (h, "err")
    | _, _ => (h, "bad-op")
  | .list [.atom "total"] => (h, toString h.total)
  | .list [.atom "q", _, r] =>
    match r.nat? with
    | some r => (h, toString (h.valueAtRank r))
    | none => (h, "bad-op")
  | .list [.atom "min"] => (h, toString h.min)
  | .list [.atom "max"] => (h, toString h.max)
  | .list [.atom "reimport"] => (h, bit (h.reimport == h))
  -- Export/Import gives an independent copy (`reimport` is a value): recording into the original
  -- afterwards leaves the copy's total unchanged; the copy answers Max like the original
  | .list [.atom "snaprec", v, n] =>
    match v.nat?, n.nat? with
    | some v, some n =>
      let imp := h.reimport
      match h.record v n with
      | some h' => (h', s!"{imp.total},{imp.total},{bit (imp.max == h.max)},1/ok")
      | none => (h, s!"{imp.total},{imp.total},{bit (imp.max == h.max)},1/err")
    | _, _ => (h, "bad-op")
  | .list [.atom "merge"] =>
    let (m, dropped) := (Hist.new h.shape.lowest h.shape.highest h.shape.sigfigs).merge h
    (h, s!"{dropped},{bit (m == h)}")
  | .list [.atom "dist"] => (h, distOf h)
  | .list [.atom "reset"] => ({ h with counts := List.replicate h.counts.length 0, total := 0 }, "ok")
  | _ => (h, "bad-op")

def handle (s : Sexp) : String :=
  match s with
  | .list (.atom "hist" :: .list [.atom "new", mn, mx, sg] :: ops) =>
    match mn.nat?, mx.nat?, sg.nat? with
    | some mn, some mx, some sg =>
      let h0 := Hist.new mn mx sg
      let (_, outs) := ops.foldl (fun (acc : Hist × List String) op =>
        let (h', o) := stepOp acc.1 op
        (h', o :: acc.2)) (h0, [s!"len={h0.shape.countsLen}"])
      joinSep ";" outs.reverse
    | _, _, _ => "bad-op"
  | .list [.atom "bitlen", x] =>
    match x.nat? with
    | some x => s!"{bitLen x},{bitLenGo x}"
    | none => "bad-op"
  | _ => "bad-op"

end FunModel.DrvC19
