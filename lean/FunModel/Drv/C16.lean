import FunModel.Sexp
import FunModel.Dll
import FunModel.Sll
import FunModel.SortSeq

/-! Driver for C16/C17: a case is `(seq op ...)` over lists L0.. / stacks S0.. with element handles
    e0.. / item handles i0.. registered in order of appearance. After every op: the op's own result
    and a dump of every container (Len, forward walk, backward walk) and every handle. -/
namespace FunModel.DrvC16
open FunModel

structure St where
  dh : Dll.Heap := {}
  sh : Sll.Heap := {}
  lists : Array Nat := #[]
  stacks : Array Nat := #[]
  elems : Array (Option Nat) := #[]
  items : Array (Option Nat) := #[]
  heapList : Option Nat := none
  heapCmp : String := "lt"

def ltOf (c : String) : Int → Int → Bool :=
  match c with
  | "gt" => fun a b => a > b
  | "key" => fun a b => (a + 1000) / 10 < (b + 1000) / 10
  | _ => fun a b => a < b

def fuel : Nat := 400

def vals (h : Dll.Heap) (xs : List Nat) : String := joinSep "," (xs.map (fun a => toString (h.node a).item))
def svals (h : Sll.Heap) (xs : List Nat) : String := joinSep "," (xs.map (fun a => toString (h.item a).value))

def itemsOf (h : Dll.Heap) (l : Nat) : List Int := (h.walkFwd l fuel).1.map (fun a => (h.node a).item)

def listIdx (st : St) (s : Sexp) : Option Nat := do
  let a ← s.atom?
  if a.startsWith "L" then st.lists[(← (a.drop 1).toString.toNat?)]? else none

def stackIdx (st : St) (s : Sexp) : Option Nat := do
  let a ← s.atom?
  if a.startsWith "S" then st.stacks[(← (a.drop 1).toString.toNat?)]? else none

/-- element handle: `some none` = the nil pointer -/
def elemH (st : St) (s : Sexp) : Option (Option Nat) := do
  let a ← s.atom?
  if a == "nil" then some none
  else if a.startsWith "e" then st.elems[(← (a.drop 1).toString.toNat?)]? else none

def itemH (st : St) (s : Sexp) : Option (Option Nat) := do
  let a ← s.atom?
  if a == "nil" then some none
  else if a.startsWith "i" then st.items[(← (a.drop 1).toString.toNat?)]? else none

def dump (st : St) : St × String :=
  -- stacks: Head() initialises lazily, exactly as the harness' walk does
  let (sh, sparts) := st.stacks.toList.foldl (fun (acc : Sll.Heap × List String) s =>
    let (h, hd) := acc.1.head s
    let (xs, t) := h.walk fuel hd
    (h, s!"{(h.hdr s).length}|{svals h xs}:{t}" :: acc.2)) (st.sh, [])
  let st := { st with sh := sh }
  let lparts := st.lists.toList.map (fun l =>
    let h := st.dh.lazySetup l
    let (f, tf) := h.walkFwd l fuel
    let (b, tb) := h.walkBwd l fuel
    s!"{(h.hdr l).length}|{vals h f}:{tf}|{vals h b}:{tb}")
  -- Front()/Back() in the harness' walk run lazySetup
  let st := { st with dh := st.lists.toList.foldl (fun h l => h.lazySetup l) st.dh }
  let eparts := st.elems.toList.map (fun e =>
    let ins := String.join (st.lists.toList.map (fun l => bit (st.dh.elemIn e l)))
    match e with
    | none => s!"nil/{ins}"      -- `In` is documented for a nil element; `Ok`/`Value` are not asked of it
    | some a =>
      let n := st.dh.node a
      s!"{bit n.ok}{n.item}/{ins}")
  let iparts := st.items.toList.map (fun e =>
    match e with
    | none => "nil"
    | some a =>
      let n := st.sh.item a
      let ins := String.join (st.stacks.toList.map (fun s => bit (n.stack == some s)))
      s!"{bit n.ok}{n.value}/{ins}")
  (st, s!"L[{joinSep " " lparts}] S[{joinSep " " sparts.reverse}] E[{joinSep " " eparts}] I[{joinSep " " iparts}]")

def regE (st : St) (e : Option Nat) : St × String :=
  ({ st with elems := st.elems.push e }, s!"e{st.elems.size}")
def regI (st : St) (e : Option Nat) : St × String :=
  ({ st with items := st.items.push e }, s!"i{st.items.size}")

/-- integer arguments; the atom `null` (a JSON null in an `unjson` document) is the zero value -/
def intArgs (xs : List Sexp) : List Int :=
  xs.filterMap (fun x => match x with | .atom "null" => some 0 | _ => x.int?)

def jsonOf (xs : List String) : String := "[" ++ joinSep "," xs ++ "]"

/-- one operation: `none` = the implementation would panic (nil dereference) -/
def stepOp (st : St) (op : Sexp) : Option (St × String) :=
  match op with
  | .list [.atom "newlist"] =>
    let (h, l) := st.dh.allocList
    some ({ st with dh := h, lists := st.lists.push l }, s!"L{st.lists.size}")
  | .list [.atom "newstack"] =>
    let (h, s) := st.sh.allocStack
    some ({ st with sh := h, stacks := st.stacks.push s }, s!"S{st.stacks.size}")
  | .list [.atom "nspop"] => do
    -- a new stack that is popped before anything else touches it (no Head() in between)
    let (h, s) := st.sh.allocStack
    let (h, e) ← h.pop s
    let st := { st with sh := h, stacks := st.stacks.push s }
    pure (regI st (some e))
  | .list [.atom "le", v] => do
    let (h, a) := st.dh.makeElem (← v.int?)
    pure (regE { st with dh := h } (some a))
  | .list [.atom "pf", l, v] => do
    let h ← st.dh.pushFront (← listIdx st l) (← v.int?)
    pure ({ st with dh := h }, "ok")
  | .list [.atom "pb", l, v] => do
    let h ← st.dh.pushBack (← listIdx st l) (← v.int?)
    pure ({ st with dh := h }, "ok")
  | .list [.atom "popf", l] => do
    let (h, e) ← st.dh.popFront (← listIdx st l)
    pure (regE { st with dh := h } (some e))
  | .list [.atom "popb", l] => do
    let (h, e) ← st.dh.popBack (← listIdx st l)
    pure (regE { st with dh := h } (some e))
  | .list [.atom "front", l] => do
    let li ← listIdx st l
    let h := st.dh.lazySetup li
    pure (regE { st with dh := h } (h.front li))
  | .list [.atom "back", l] => do
    let li ← listIdx st l
    let h := st.dh.lazySetup li
    pure (regE { st with dh := h } (h.back li))
  | .list [.atom "next", e] => do
    let a ← (← elemH st e)
    pure (regE st (st.dh.node a).next)
  | .list [.atom "prev", e] => do
    let a ← (← elemH st e)
    pure (regE st (st.dh.node a).prev)
  | .list [.atom "app", e, n] => do
    let a ← (← elemH st e)
    let (h, r) ← st.dh.elemAppend a (← elemH st n)
    pure (regE { st with dh := h } (some r))
  | .list [.atom "rm", e] => do
    let a ← (← elemH st e)
    let (h, r) ← st.dh.elemRemove a
    pure ({ st with dh := h }, bit r)
  | .list [.atom "drop", e] => do
    let a ← (← elemH st e)
    let h ← st.dh.elemDrop a
    pure ({ st with dh := h }, "ok")
  | .list [.atom "swap", e, w] => do
    let a ← (← elemH st e)
    let (h, r) ← st.dh.elemSwap a (← elemH st w)
    pure ({ st with dh := h }, bit r)
  | .list [.atom "set", e, v] => do
    let a ← (← elemH st e)
    let (h, r) := st.dh.elemSet a (← v.int?)
    pure ({ st with dh := h }, bit r)
  | .list [.atom "ext", l, src] => do
    let h ← st.dh.extend (← listIdx st l) (← listIdx st src)
    pure ({ st with dh := h }, "ok")
  | .list [.atom "copy", l] => do
    let (h, out) ← st.dh.copy (← listIdx st l)
    pure ({ st with dh := h, lists := st.lists.push out }, s!"L{st.lists.size}")
  | .list [.atom "sortm", l, .atom c] => do
    let li ← listIdx st l
    let before := itemsOf (st.dh.lazySetup li) li
    let h ← st.dh.sortMerge (ltOf c) li
    -- cross-check of the two Lean models (pointer level vs sequence level)
    let okx := itemsOf (h.lazySetup li) li == SortSeq.sortMerge (ltOf c) before
    pure ({ st with dh := h }, if okx then "ok" else "MODEL-MISMATCH")
  | .list [.atom "sortq", l, .atom c] => do
    let li ← listIdx st l
    let before := itemsOf (st.dh.lazySetup li) li
    let h ← st.dh.sortQuick (ltOf c) li
    let okx := itemsOf (h.lazySetup li) li == SortSeq.sortQuick (ltOf c) before
    pure ({ st with dh := h }, if okx then "ok" else "MODEL-MISMATCH")
  | .list [.atom "sorted", l, .atom c] => do
    let li ← listIdx st l
    let r ← st.dh.isSorted (ltOf c) li
    let okx := r == SortSeq.isSorted (ltOf c) (itemsOf (st.dh.lazySetup li) li)
    pure (st, if okx then bit r else "MODEL-MISMATCH")
  | .list [.atom "iter", l] => do
    let li ← listIdx st l
    let h := st.dh.lazySetup li
    pure ({ st with dh := h }, vals h (h.walkFwd li fuel).1)
  | .list [.atom "riter", l] => do
    let li ← listIdx st l
    let h := st.dh.lazySetup li
    pure ({ st with dh := h }, vals h (h.walkBwd li fuel).1)
  | .list [.atom "piter", l] => do
    let li ← listIdx st l
    let (h, xs) ← st.dh.popIterLoop li false fuel []
    pure ({ st with dh := h }, vals h xs)
  | .list [.atom "rpiter", l] => do
    let li ← listIdx st l
    let (h, xs) ← st.dh.popIterLoop li true fuel []
    pure ({ st with dh := h }, vals h xs)
  | .list [.atom "json", l] => do
    let li ← listIdx st l
    -- MarshalJSON: `if l.Len() > 0 { for i := l.Front(); i.Ok(); ... }`
    if (st.dh.hdr li).length > 0 then
      let h := st.dh.lazySetup li
      pure ({ st with dh := h }, jsonOf ((h.walkFwd li fuel).1.map (fun a => toString (h.node a).item)))
    else pure (st, "[]")
  | .list [.atom "unjson", l, .list vs] => do
    let li ← listIdx st l
    -- UnmarshalJSON: tail := l.Back(); for each value: tail = tail.Append(NewElement(v))
    let h := st.dh.lazySetup li
    let tail ← h.back li
    let r ← (intArgs vs).foldlM (fun (acc : Dll.Heap × Nat) v => do
      let (h, n) := acc.1.makeElem 0
      let (h, _) := h.elemSet n v
      let (h, t) ← h.elemAppend acc.2 (some n)
      pure (h, t)) (h, tail)
    pure ({ st with dh := r.1 }, "ok")
  | .list [.atom "heap", .atom c] =>
    let (h, l) := st.dh.allocList
    some ({ st with dh := h.lazySetup l, heapList := some l, heapCmp := c }, "ok")
  -- NewHeapFromIterator over a source that yields the first `k` of `vs` and then fails (k ≥ length: no
  -- failure): the heap handed back — with or without the error — holds what was pushed, in heap order
  | .list [.atom "heapfrom", .atom c, .list vs, k] => do
    let (h0, l) := st.dh.allocList
    let xs := (vs.filterMap Sexp.int?).take (← k.nat?)
    let h ← xs.foldlM (fun h v => h.heapPush (ltOf c) l v) (h0.lazySetup l)
    pure ({ st with dh := h, heapList := some l, heapCmp := c }, if vs.length ≤ (← k.nat?) then "ok" else "err")
  | .list [.atom "hpush", v] => do
    let l ← st.heapList
    let before := itemsOf st.dh l
    let h ← st.dh.heapPush (ltOf st.heapCmp) l (← v.int?)
    let okx := itemsOf h l == SortSeq.heapInsert (ltOf st.heapCmp) (← v.int?) before
    pure ({ st with dh := h }, if okx then "ok" else "MODEL-MISMATCH")
  | .list [.atom "hpop"] => do
    let l ← st.heapList
    let (h, e) ← st.dh.popFront l
    pure ({ st with dh := h }, s!"{(h.node e).item},{bit (h.node e).ok}")
  | .list [.atom "hiter"] => do
    let l ← st.heapList
    pure (st, s!"{(st.dh.hdr l).length}|{vals st.dh (st.dh.walkFwd l fuel).1}")
  -- stacks
  | .list [.atom "si", v] => do
    let (h, a) := st.sh.alloc { ok := true, value := (← v.int?) }
    pure (regI { st with sh := h } (some a))
  | .list [.atom "push", s, v] => do
    let h ← st.sh.push (← stackIdx st s) (← v.int?)
    pure ({ st with sh := h }, "ok")
  | .list [.atom "spop", s] => do
    let (h, e) ← st.sh.pop (← stackIdx st s)
    pure (regI { st with sh := h } (some e))
  | .list [.atom "head", s] => do
    let (h, e) := st.sh.head (← stackIdx st s)
    pure (regI { st with sh := h } e)
  | .list [.atom "snext", i] => do
    let a ← (← itemH st i)
    pure (regI st (st.sh.item a).next)
  | .list [.atom "sapp", i, n] => do
    let a ← (← itemH st i)
    let (h, r) ← st.sh.itemAppend a (← itemH st n)
    pure (regI { st with sh := h } (some r))
  | .list [.atom "srm", i] => do
    match ← itemH st i with
    | none => pure (st, "0")
    | some a =>
      let (h, r) ← st.sh.itemRemove a
      pure ({ st with sh := h }, bit r)
  | .list [.atom "sset", i, v] => do
    let a ← (← itemH st i)
    let (h, r) := st.sh.itemSet a (← v.int?)
    pure ({ st with sh := h }, bit r)
  | .list [.atom "siter", s] => do
    let si ← stackIdx st s
    pure (st, svals st.sh (st.sh.walk fuel (st.sh.hdr si).head).1)
  | .list [.atom "spiter", s] => do
    let si ← stackIdx st s
    let (h, xs) ← st.sh.popIterLoop si fuel []
    pure ({ st with sh := h }, svals h xs)
  | .list [.atom "sjson", s] => do
    let si ← stackIdx st s
    let (h, hd) := st.sh.head si
    pure ({ st with sh := h }, jsonOf ((h.walk fuel hd).1.map (fun a => toString (h.item a).value)))
  | .list [.atom "sunjson", s, .list vs] => do
    let si ← stackIdx st s
    -- UnmarshalJSON: push all onto a temporary stack, then pop them onto s (keeps the JSON order)
    let (h, tmp) := st.sh.allocStack
    let (h, hd0) := h.head tmp
    let hd0 ← hd0
    let r ← (intArgs vs).foldlM (fun (acc : Sll.Heap × Nat) v => do
      let (h, n) := acc.1.alloc { ok := true, value := 0 }
      let (h, _) := h.itemSet n v
      let (h, t) ← h.itemAppend acc.2 (some n)
      pure (h, t)) (h, hd0)
    let (h, shd) := r.1.head si
    let shd ← shd
    let rec loop (h : Sll.Heap) (k : Nat) : Option Sll.Heap :=
      match k with
      | 0 => some h
      | k + 1 => do
        let (h, it) ← h.pop tmp
        if (h.item it).ok then
          let (h, _) ← h.itemAppend shd (some it)
          loop h k
        else pure h
    let h ← loop h (vs.length + 1)
    pure ({ st with sh := h }, "ok")
  | _ => some (st, "bad-op")

def handle (s : Sexp) : String :=
  match s with
  | .list (.atom "seq" :: ops) =>
    let rec go (st : St) (ops : List Sexp) (acc : List String) : List String :=
      match ops with
      | [] => acc.reverse
      | op :: rest =>
        match stepOp st op with
        | none => ("PANIC" :: acc).reverse
        | some (st, r) =>
          let (st, d) := dump st
          go st rest (s!"{r} {d}" :: acc)
    joinSep " ; " (go {} ops [])
  | _ => "bad-op"

end FunModel.DrvC16
