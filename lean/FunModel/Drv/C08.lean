import FunModel.Sexp
import FunModel.Broker

/-! Driver for C08 and C09 (T-out): `(judge (broker …) (obs …))`.

    The observation of harness/c08.go is turned into a log of model events (`Broker.Ev`, ordered
    by the harness' logical clock) and `Broker.allowed` is evaluated on it. A quiescence of the
    process observed by the harness (`quiet`, or a call found blocked at quiescence) becomes the
    model's `quiet` event with the counts the harness can see: Publish/Subscribe/Unsubscribe/Stats
    calls in progress, Wait calls in progress, calls in progress whose own context was cancelled.
    Quiescences observed while the harness holds dispatch workers at its hook are not states the
    model calls quiescent and are skipped. -/
namespace FunModel.DrvC08
open FunModel FunModel.Broker

def arg (name : String) (xs : List Sexp) : List Sexp :=
  match xs.find? (fun x => match x with | .list (.atom n :: _) => n == name | _ => false) with
  | some (.list (_ :: rest)) => rest
  | _ => []

def nat1 (name : String) (xs : List Sexp) : Nat := ((arg name xs).head?.bind Sexp.nat?).getD 0

def backendOf (xs : List Sexp) : Option Backend :=
  match xs with
  | [.atom "chan", n] => n.nat?.map .blocking
  | [.atom "queue", .atom "unl"] => some .fifo
  | [.atom "queue", .atom "lim", _, h, _] => h.nat?.map .shedding
  | [.atom "deque", .atom "unl"] => some .fifo
  | [.atom "deque", .atom "cap", n] => n.nat?.map .blocking
  | [.atom "lifo", n] => n.nat?.map .evicting
  | _ => none

def cfgOf (run : List Sexp) : Option Cfg := do
  let b ← backendOf (arg "backend" run)
  let o := arg "opts" run
  pure { backend := b, workers := nat1 "workers" o, parallel := nat1 "parallel" o == 1, bufSize := nat1 "buffer" o }

/-- one entry of the harness log: kind, arguments, tick -/
structure HEv where
  kind : String
  args : List Nat
  tick : Nat
  deriving Inhabited

def hevOf : Sexp → Option HEv
  | .list (.atom k :: rest) =>
    let ns := rest.filterMap Sexp.nat?
    match ns.getLast? with
    | some t => some { kind := k, args := ns.dropLast, tick := t }
    | none => none
  | _ => none

/-- the receive events `(S id tick id tick …)` -/
def recvsOf : Sexp → List HEv
  | .list (s :: rest) =>
    match s.nat? with
    | none => []
    | some k =>
      let ns := rest.filterMap Sexp.nat?
      let rec go : List Nat → List HEv
        | id :: t :: more => { kind := "recv", args := [k, id], tick := t } :: go more
        | _ => []
      go ns
  | _ => []

def msgOf (id : Nat) : Msg := (id / 1000, id % 1000)

structure Acc where
  log : List Ev := []                 -- most recent first
  held : Bool := false
  gated : List Nat := []              -- subscribers that are not receiving
  pubsOpen : List (Nat × Nat) := []   -- Publish calls in progress
  waitsOpen : List Nat := []
  bad : List String := []

def quietEv (a : Acc) (extraPending zombies : Nat) : Ev :=
  .quiet (!stopped a.log && a.gated.isEmpty) (a.pubsOpen.length + extraPending) a.waitsOpen.length zombies

def feed (a : Acc) (e : HEv) : Acc :=
  let push (ev : Ev) : Acc := { a with log := ev :: a.log }
  let obsQuiet (extra zombies : Nat) : Acc := if a.held then a else { a with log := quietEv a extra zombies :: a.log }
  match e.kind, e.args with
  | "sr", [k] => push (.subRet k)
  | "uc", [k] => push (.unsubCall k)
  | "pc", [p, q] => { a with log := .pubCall (p, q) :: a.log, pubsOpen := (p, q) :: a.pubsOpen }
  | "pr", [p, q] => { a with log := .pubRet (p, q) :: a.log, pubsOpen := a.pubsOpen.erase (p, q) }
  | "px", [p, q] => { a with pubsOpen := a.pubsOpen.erase (p, q) }
  | "recv", [k, id] => push (.recv k (msgOf id))
  | "stopc", _ => push .stop
  | "cancelc", _ => push .stop
  | "open", [k] => { a with gated := a.gated.erase k }
  | "gate", [k] => { a with gated := if a.gated.contains k then a.gated else k :: a.gated }
  | "hold", _ => { a with held := true }
  | "release", _ => { a with held := false }
  | "final", _ => { a with held := false }
  | "wc", [i] => { a with waitsOpen := i :: a.waitsOpen }
  | "wr", [i] => { a with waitsOpen := a.waitsOpen.erase i }
  | "wx", [i] => { a with waitsOpen := a.waitsOpen.erase i }
  | "quiet", _ => obsQuiet 0 0
  | "pblocked", _ => obsQuiet 0 0        -- the call is among pubsOpen
  | "wblocked", _ => obsQuiet 0 0        -- the call is among waitsOpen
  | "sblocked", _ => obsQuiet 1 0
  | "ublocked", _ => obsQuiet 1 0
  | "tblocked", _ => obsQuiet 1 0
  | "tcblocked", _ => obsQuiet 1 1
  | "stopblocked", _ => { a with bad := "Stop is blocked at quiescence (Stop is one atomic cancellation in the model)" :: a.bad }
  | "stopstuck", _ => { a with bad := "Stop never returned" :: a.bad }
  | "census", [n] => push (.census n)
  | k, _ =>
    if k.endsWith "stuck" then
      -- still pending at quiescence after its own context was cancelled
      if a.held then a else { a with log := quietEv a 1 1 :: a.log }
    else a

def insertByTick (e : HEv) : List HEv → List HEv
  | [] => [e]
  | f :: r => if e.tick ≤ f.tick then e :: f :: r else f :: insertByTick e r

def sortByTick (es : List HEv) : List HEv := es.foldl (fun acc e => insertByTick e acc) []

def evStr : Ev → String
  | .subRet k => s!"subRet {k}"
  | .unsubCall k => s!"unsubCall {k}"
  | .pubCall m => s!"pubCall {m.1}.{m.2}"
  | .pubRet m => s!"pubRet {m.1}.{m.2}"
  | .recv k m => s!"recv {k} {m.1}.{m.2}"
  | .stop => "stop"
  | .quiet g p w z => s!"quiet good={g} pending={p} waits={w} zombies={z}"
  | .census n => s!"census {n}"

/-- the first event (oldest first) whose check against its past fails -/
def firstBad (c : Cfg) : List Ev → Option String
  | [] => none
  | e :: l =>
    match firstBad c l with
    | some r => some r
    | none => if checkEvent c l e then none else some (evStr e)

def handleJudge (run obs : List Sexp) : String :=
  match cfgOf run with
  | none => "bad-op config"
  | some c =>
    let hes := (arg "log" obs).filterMap hevOf ++ (arg "recv" obs).flatMap recvsOf
    let sorted := sortByTick hes
    let last := (sorted.getLast?.map (·.tick)).getD 0
    let leak := nat1 "leak" obs
    let all := sorted ++ [{ kind := "census", args := [leak], tick := last + 1 }]
    let a := all.foldl feed {}
    let bad :=
      a.bad.reverse
      ++ (if nat1 "noquiesce" obs == 1 then ["no quiescence within the deadline"] else [])
      ++ (match firstBad c a.log with
          | some r => [s!"event rejected by the model's outcome predicate: {r}"]
          | none => [])
      ++ (if orderOk c (liveLog a.log) then [] else ["single dispatch worker: the subscribers' sequences do not fit one order"])
      ++ (if allowed c a.log || firstBad c a.log != none || !orderOk c (liveLog a.log) then [] else ["allowed = false"])
    if bad.isEmpty then "ok" else "REJECT " ++ joinSep "; " bad

def handle (s : Sexp) : String :=
  match s with
  | .list [.atom "judge", .list (.atom "broker" :: run), .list (.atom "obs" :: obs)] => handleJudge run obs
  | _ => "bad-op"

end FunModel.DrvC08
