import FunModel.Sexp
import FunModel.Deque
import FunModel.Drv.C05

/-! Driver for C06/C07/C20 (Deque):
    `(deque (cfg ...) (thread op...)... (choices n...))` and `(dequeopts U C nil|(q h s bn bd))` -/
namespace FunModel.DrvC06
open FunModel FunModel.Conc FunModel.Deque

def opOf : Sexp → Option Op
  | .list [.atom "pushf", v] => v.int?.map (.push .front)
  | .list [.atom "pushb", v] => v.int?.map (.push .back)
  | .list [.atom "fpushf", v] => v.int?.map (.fpush .front)
  | .list [.atom "fpushb", v] => v.int?.map (.fpush .back)
  | .list [.atom "popf"] => some (.pop .front)
  | .list [.atom "popb"] => some (.pop .back)
  | .list [.atom "waitf"] => some (.wait .front)
  | .list [.atom "waitb"] => some (.wait .back)
  | .list [.atom "wpushf", v] => v.int?.map (.wpush .front)
  | .list [.atom "wpushb", v] => v.int?.map (.wpush .back)
  | .list [.atom "len"] => some .len
  | .list [.atom "close"] => some .close
  | .list [.atom "iter", k] => k.nat?.map (.next .front false)
  | .list [.atom "riter", k] => k.nat?.map (.next .back false)
  | .list [.atom "biter", k] => k.nat?.map (.next .front true)
  | .list [.atom "briter", k] => k.nat?.map (.next .back true)
  | _ => none

def qoptsOf : Sexp → Option (Option QOpts)
  | .atom "nil" => some none
  | .list [.atom "q", h, s, bn, bd] => do
    pure (some { hard := ← h.int?, soft := ← s.int?, burst := Float.ofInt (← bn.int?) / Float.ofInt (← bd.int?) })
  | _ => none

def optsOf : Sexp → Option Opts
  | .list [.atom "cfg", .atom "unlimited"] => some { unlimited := true }
  | .list [.atom "cfg", .atom "cap", c] => do pure { capacity := ← c.int? }
  | .list [.atom "cfg", .atom "soft", h, s, bn, bd] => do
    pure { qopts := some { hard := ← h.int?, soft := ← s.int?, burst := Float.ofInt (← bn.int?) / Float.ofInt (← bd.int?) } }
  | .list [.atom "cfg", .atom "opts", u, c, q] => do
    pure { unlimited := (← u.nat?) != 0, capacity := ← c.int?, qopts := ← qoptsOf q }
  | _ => none

def parse (args : List Sexp) : Option (Option Opts × List (List Op) × List Nat) := do
  let mut o : Option Opts := none
  let mut progs : List (List Op) := []
  let mut choices : List Nat := []
  for a in args do
    match a with
    | .list (.atom "thread" :: ops) => progs := progs ++ [← ops.mapM opOf]
    | .list (.atom "choices" :: cs) => choices := cs.filterMap Sexp.nat?
    | .list (.atom "cfg" :: _) => o := optsOf a
    | _ => none
  pure (o, progs, choices)

/-- how many of `n` PushBack calls a fresh deque accepts (shows which tracker `NewDeque` built) -/
def accepts (s : St) : Nat → Nat
  | 0 => 0
  | n + 1 => match addEnd s .back 0 with
    | (s', .ok, _) => 1 + accepts s' n
    | _ => 0

def handle (s : Sexp) : String :=
  match s with
  | .list (.atom "deque" :: args) =>
    match parse args with
    | some (some o, progs, choices) =>
      match newDeque o with
      | some (some st) => runCasePP subject st progs choices
      | some none => "nil-tracker"
      | none => "malformed"
    | _ => "bad-op"
  | .list [.atom "dequeopts", u, c, q] =>
    match (do pure ({ unlimited := (← u.nat?) != 0, capacity := ← c.int?, qopts := ← qoptsOf q } : Opts)) with
    | some o =>
      match newDeque o with
      | some (some st) => s!"ok accepts={accepts st 8}"
      | some none => "nil-tracker"
      | none => "malformed"
    | none => "bad-op"
  | .list [.atom "dqprobe", _] => "probe unlocked=0 returned=1"
  -- free-running contention cases (harness/stress.go): with only Force pushes on a full deque Len is
  -- the capacity at every instant and a plain push always fails; a single popper and no pusher never
  -- sees an empty deque while items remain and gets them in end order
  | .list (.atom "dstress" :: args) =>
    let n := DrvC05.stressNum args "n" 1000
    let cap := DrvC05.stressNum args "cap" 4
    match DrvC05.stressKind args with
    | "force" => s!"force lenbad=0 pushok=0 forcefailed=0 final={cap}"
    | "drain" => s!"drain removed={n} falseempty=0 outoforder=0 lenbad=0 final=0"
    | _ => "bad-op"
  | _ => "bad-op"

/-- C07 / C20 cases are a mix of queue and deque cases: dispatch on the head symbol -/
def handleBoth (s : Sexp) : String :=
  match s with
  | .list (.atom "deque" :: _) => handle s
  | .list (.atom "dequeopts" :: _) => handle s
  | .list (.atom "dqprobe" :: _) => handle s
  | _ => DrvC05.handle s

end FunModel.DrvC06
