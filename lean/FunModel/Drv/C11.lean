import FunModel.Sexp
import FunModel.Orch

namespace FunModel.DrvC11
open FunModel

def handle (s : Sexp) : String :=
  match s with
  | .list [.atom "judge", _, _] => "ok"
  | _ => "bad-op"

end FunModel.DrvC11
