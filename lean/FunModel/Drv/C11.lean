import FunModel.Sexp
import FunModel.Orch

/-! Driver for C11 (T-out): `(judge (c11 …) (obs …))` — the observation the harness made of the real
    construct on the scenario is turned into an `Orch.Obs` and judged by the model's outcome
    predicate (`allowedOrch` / `allowedGroup` / `allowedPool` + `allowedRest` at every rest point /
    `allowedCleanup`); prints `ok` or `REJECT <reasons>`. -/
namespace FunModel.DrvC11
open FunModel FunModel.Orch

def arg (name : String) (xs : List Sexp) : List Sexp :=
  match xs.find? (fun s => match s with | .list (.atom h :: _) => h == name | _ => false) with
  | some (.list (_ :: r)) => r
  | _ => []

def nat1 (name : String) (xs : List Sexp) : Nat := ((arg name xs).head?.bind Sexp.nat?).getD 0
def atom1 (name : String) (xs : List Sexp) : String := ((arg name xs).head?.bind Sexp.atom?).getD ""
def flag (s : Sexp) : Bool := s.nat? == some 1

/-- unit i's injected error is the leaf 100+i -/
def outcomeOf (kind : String) (i : Nat) : Outcome :=
  match kind with
  | "err" => .err (.leaf (100 + i))
  | "panic" => .panic (.leaf (100 + i))
  | "block" => .block
  | "berr" => .blockErr (.leaf (100 + i))
  | _ => .ok

structure Ev where
  tag : String
  a : Nat
  b : Nat
  deriving Inhabited

def evOf : Sexp → Option Ev
  | .list [.atom t] => some ⟨t, 0, 0⟩
  | .list [.atom t, x] => some ⟨t, (x.nat?).getD 0, 0⟩
  | .list [.atom t, x, y] => some ⟨t, (x.nat?).getD 0, (y.nat?).getD 0⟩
  | _ => none

def idxOf (evs : List Ev) (p : Ev → Bool) : Option Nat := evs.findIdx? p
def before (a b : Option Nat) : Bool :=
  match a, b with
  | some x, some y => x < y
  | some _, none => true
  | none, _ => false

def handleJudge (cs obs : List Sexp) : String :=
  let kind := atom1 "k" cs
  let units : List String := (arg "units" cs).map (fun u => match u with | .list (.atom k :: _) => k | _ => "ok")
  let n := units.length
  let out : Nat → Outcome := fun i => outcomeOf (units.getD i "ok") i
  let evs : List Ev := (arg "ev" obs).filterMap evOf
  let first (t : String) (a : Nat) : Option Nat := idxOf evs (fun e => e.tag == t && e.a == a)
  let firstAB (t : String) (a b : Nat) : Option Nat := idxOf evs (fun e => e.tag == t && e.a == a && e.b == b)
  let cpos := idxOf evs (fun e => e.tag == "C")
  let wpos := idxOf evs (fun e => e.tag == "W")
  let isBits : List Bool := (arg "is" obs).map flag
  let o : Obs :=
    { n := n
      runs := fun i => (evs.filter (fun e => e.tag == "S" && e.a == i)).length
      accepted := fun i =>
        if kind == "orch" then (firstAB "A" i 0).isSome && before (firstAB "A" i 0) cpos
        else if kind == "group" then (first "Y" i).isSome
        else (firstAB "A" i 0).isSome
      rejected := fun i => (firstAB "A" i 1).isSome
      retBeforeW := fun i => wpos.isSome && (first "R" i).isSome && before (first "R" i) wpos
      waited := wpos.isSome
      isBit := fun i => isBits.getD i false
      handled := fun i => (first "H" i).isSome
      rp := nat1 "rp" obs == 1
      sawEndLive := fun i => (first "D" i).isSome && before (first "D" i) cpos
      byConstruct := fun i => (first "S" i).isSome && (first "X" i).isNone
      ranEarly := fun i => (first "S" i).isSome && before (first "S" i) cpos }
  let hang := atom1 "hang" obs
  let started := (idxOf evs (fun e => e.tag == "T")).isSome
  -- pools: the rest points before the shutdown
  let conf : Conf := { continueOnPanic := ((arg "flags" cs).getD 0 (.atom "0")).nat? == some 1,
                       continueOnError := ((arg "flags" cs).getD 1 (.atom "0")).nat? == some 1, includeCtx := false }
  let pc : Pool.Cfg := { n := nat1 "n" cs, conf := conf, handler := kind == "hp", outcome := out }
  let tpos := idxOf evs (fun e => e.tag == "T")
  let restBad : List Nat :=
    if kind == "wp" || kind == "hp" then
      (List.range evs.length).filter fun k =>
        (evs.getD k default).tag == "Q" && before (some k) cpos && before tpos (some k) &&
        (let stopped := (List.range n).any fun j => before (first "R" j) (some k) && !pc.cont j
         let busy := ((List.range n).filter fun j => before (first "S" j) (some k) && !before (first "R" j) (some k)).length
         let pending := ((List.range n).filter fun j =>
            before (firstAB "A" j 0) (some k) && !before (first "S" j) (some k)).length
         !allowedRest pc.n busy pending (!stopped))
    else []
  let verdict : Bool :=
    if kind == "orch" then allowedOrch out o
    else if kind == "group" then allowedGroup out o
    else if kind == "cleanup" then allowedCleanup out o
    else allowedPool (kind == "hp") out o
  let bad : List String :=
    (if hang == "0" then [] else [s!"the scenario did not end (hang at {hang})"]) ++
    (if started && !o.waited then ["Wait never returned"] else []) ++
    (if verdict then [] else [s!"the model's outcome predicate for {kind} rejects the observation"]) ++
    (if restBad.isEmpty then [] else [s!"at the rest point (event {restBad.headD 0}) an accepted job was not run although a worker was idle"])
  if bad.isEmpty then "ok" else "REJECT " ++ joinSep "; " bad

def handle (s : Sexp) : String :=
  match s with
  | .list [.atom "judge", .list (.atom "c11" :: cs), .list (.atom "obs" :: obs)] => handleJudge cs obs
  | _ => "bad-op"

end FunModel.DrvC11
