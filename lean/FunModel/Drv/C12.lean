import FunModel.Sexp
import FunModel.Err

/-! Driver for C12: evaluates one term per line with the model functions of `FunModel.Err`. -/
namespace FunModel.DrvC12
open FunModel

/-- children of a container term: nil entries stay as `skip` -/
partial def evalTerm : Sexp → Except String (Option Err)
  | .atom "N" => pure none
  | .list [.atom "L", id] => do pure (some (.leaf (← nat id)))
  | .list [.atom "T", ty, id] => do pure (some (.typed (← nat ty) (← nat id)))
  | .list [.atom "W", id, x] => do
      match ← evalTerm x with
      | none => pure none
      | some e => pure (some (.wrap (← nat id) e))
  | .list (.atom "M" :: id :: xs) => do pure (some (.multi (← nat id) (← evalList xs)))
  | .list (.atom "U" :: id :: xs) => do pure (some (.unwinder (← nat id) (← evalList xs)))
  | .list (.atom "S" :: xs) => do pure (some (.stack (ErrList.ofErrs (flatten (← evalList xs)))))
  | .list (.atom "J" :: xs) => do pure (join (← evalList xs))
  | .list [.atom "X", a, x] => do pure (wrapAnnot (← evalTerm x) (← nat a))
  | .list [.atom "P", x] => do pure (parsePanicErr (← evalTerm x))
  | s => throw s!"bad-term {repr s}"
where
  nat (s : Sexp) : Except String Nat :=
    match s.nat? with | some n => pure n | none => throw "bad-nat"
  evalList (xs : List Sexp) : Except String ErrList := do
    let os ← xs.mapM evalTerm
    pure (ErrList.ofList os)

def obs (ids : List Nat) (r : Option Err) : String :=
  match r with
  | none => "nil"
  | some e =>
    let isBits := String.join (ids.map (fun t => bit (e.is t)))
    let asS := joinSep "," ([0, 1, 2].map (fun ty => match e.as ty with | none => "-" | some id => toString id))
    let unw := joinSep "," (e.unwind.map Err.label)
    let len := match e with | .stack cs => toString cs.toList.length | _ => "-"
    s!"res={e.label} is={isBits} as={asS} unwind=[{unw}] len={len}"

def sortStrings (xs : List String) : List String := (xs.toArray.qsort (· < ·)).toList

def handle (s : Sexp) : String :=
  match s with
  | .list [.atom "case", .list ids, t] =>
    match evalTerm t with
    | .error e => s!"bad-op {e}"
    | .ok r => obs (ids.filterMap Sexp.nat?) r
  | .list (.atom "collector" :: .list ids :: ts) =>
    match ts.mapM evalTerm with
    | .error e => s!"bad-op {e}"
    | .ok adds =>
      let items := flatten (ErrList.ofList adds)
      let r := collectorResolve items
      let idl := ids.filterMap Sexp.nat?
      let isBits := String.join (idl.map (fun t => bit (isOpt r t)))
      let unw := joinSep "," (sortStrings ((unwindOpt r).map Err.label))
      s!"len={items.length} nil={bit r.isNone} is={isBits} unwind=[{unw}]"
  | _ => "bad-op"

end FunModel.DrvC12
