import FunModel.Sexp
import FunModel.Err

/-! Driver for C12: evaluates one term per line with the model functions of `FunModel.Err`. -/
namespace FunModel.DrvC12
open FunModel

/-- children of a container term: nil entries stay as `skip` -/
partial def evalTerm : Sexp → Except String (Option Err)
  | .atom "N" => pure none
  | .atom "NS" => pure none   -- a nil *ers.Stack operand: ignored like nil
  | .list [.atom "L", id] => do pure (some (.leaf (← nat id)))
  | .list [.atom "T", ty, id] => do pure (some (.typed (← nat ty) (← nat id)))
  | .list [.atom "W", id, x] => do
      match ← evalTerm x with
      | none => pure none
      | some e => pure (some (.wrap (← nat id) e))
  | .list (.atom "M" :: id :: xs) => do pure (some (.multi (← nat id) (← evalList xs)))
  | .list (.atom "U" :: id :: xs) => do pure (some (.unwinder (← nat id) (← evalList xs)))
  | .list (.atom "S" :: xs) => do pure (some (.stack (ErrList.ofErrs (flatten (← evalList xs)))))
  | .list (.atom "J" :: xs) => do pure (join (← evalList xs))
  | .list [.atom "X", a, x] => do pure (wrapAnnot (← evalTerm x) (← nat a))
  | .list [.atom "P", x] => do pure (parsePanicErr (← evalTerm x))
  -- errors.Unwrap of a *Stack: the inner node (the stack without its most recent item); other values unchanged
  | .list [.atom "UWS", x] => do
      match ← evalTerm x with
      | some (.stack cs) =>
        match cs.toList with
        | _ :: y :: r => pure (some (.stack (ErrList.ofErrs (y :: r))))
        | _ => pure none
      | o => pure o
  | .list [.atom "V", x] => evalTerm x   -- the operand was looked at (Unwind, Is, As) before use: no effect
  | s => throw s!"bad-term {repr s}"
where
  nat (s : Sexp) : Except String Nat :=
    match s.nat? with | some n => pure n | none => throw "bad-nat"
  evalList (xs : List Sexp) : Except String ErrList := do
    let os ← xs.mapM evalTerm
    pure (ErrList.ofList os)

def obs (ids : List Nat) (r : Option Err) : String :=
  match r with
  | none => "nil"
  | some e =>
    let isBits := String.join (ids.map (fun t => bit (e.is t)))
    -- the fourth target is `*ers.Error`: the harness builds the leaves with id % 3 = 0 as ers.Error constants
    let asS := joinSep "," (([0, 1, 2].map (fun ty => match e.as ty with | none => "-" | some id => toString id))
      ++ [match e.asLeaf (fun id => id % 3 == 0 || id == idRecoveredPanic || id == idInvariant) with | none => "-" | some id => toString id])
    let unw := joinSep "," (e.unwind.map Err.label)
    let len := match e with | .stack cs => toString cs.toList.length | _ => "-"
    s!"res={e.label} is={isBits} as={asS} unwind=[{unw}] len={len}"

def sortStrings (xs : List String) : List String := (xs.toArray.qsort (· < ·)).toList

def handle (s : Sexp) : String :=
  match s with
  | .list [.atom "case", .list ids, t] =>
    match evalTerm t with
    | .error e => s!"bad-op {e}"
    | .ok r => obs (ids.filterMap Sexp.nat?) r
  | .list (.atom "collector" :: .list ids :: ts) =>
    match ts.mapM evalTerm with
    | .error e => s!"bad-op {e}"
    | .ok adds =>
      let items := flatten (ErrList.ofList adds)
      let r := collectorResolve items
      let idl := ids.filterMap Sexp.nat?
      let isBits := String.join (idl.map (fun t => bit (isOpt r t)))
      let unw := joinSep "," (sortStrings ((unwindOpt r).map Err.label))
      s!"len={items.length} nil={bit r.isNone} is={isBits} unwind=[{unw}]"
  -- a sequence of calls on one Collector: (add TERM) | (resolve) | (iter) | (len). Every observation
  -- (Resolve, Iterator, Len) shows exactly the constituents added so far, whatever was observed before.
  | .list (.atom "colseq" :: .list _ :: steps) =>
    let rec go (adds : List (Option Err)) (steps : List Sexp) (acc : List String) : String :=
      match steps with
      | [] => ";".intercalate acc.reverse
      | st :: rest =>
        let view (adds : List (Option Err)) : String :=
          let items := flatten (ErrList.ofList adds)
          joinSep "," (sortStrings ((unwindOpt (collectorResolve items)).map Err.label))
        match st with
        | .list [.atom "add", t] =>
          (match evalTerm t with
           | .error e => s!"bad-op {e}"
           | .ok e => go (adds ++ [e]) rest ("ok" :: acc))
        | .list [.atom "resolve"] => go adds rest (s!"r[{view adds}]" :: acc)
        | .list [.atom "iter"] => go adds rest (s!"i[{view adds}]" :: acc)
        | .list [.atom "len"] => go adds rest (toString (flatten (ErrList.ofList adds)).length :: acc)
        | _ => "bad-op"
    go [] steps []
  | _ => "bad-op"

end FunModel.DrvC12
