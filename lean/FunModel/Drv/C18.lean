import FunModel.Sexp
import FunModel.SetModel

/-! Driver for C18: `(set (mk ordered sync) (mk ...) op...)`; sets are named s0, s1. -/
namespace FunModel.DrvC18
open FunModel FunModel.SetModel

def ltOf (c : String) : Int → Int → Bool :=
  match c with
  | "gt" => fun a b => a > b
  | _ => fun a b => a < b

def ints (xs : List Int) : String := joinSep "," (xs.map toString)

def setIdx (s : Sexp) : Option Nat := do
  let a ← s.atom?
  if a.startsWith "s" then (a.drop 1).toString.toNat? else none

def stepOp (sets : Array SetSt) (op : Sexp) : Option (Array SetSt × String) :=
  match op with
  | .list [.atom "mk", .atom ord, _] =>
    let s : SetSt := {}
    some (sets.push (if ord == "1" then s.order else s), s!"s{sets.size}")
  | .list [.atom "add", s, v] => do
    let i ← setIdx s; let st ← sets[i]?
    let (st', r) := st.addCheck (← v.int?)
    pure (sets.set! i st', bit r)
  | .list [.atom "del", s, v] => do
    let i ← setIdx s; let st ← sets[i]?
    let (st', r) := st.deleteCheck (← v.int?)
    pure (sets.set! i st', bit r)
  | .list [.atom "check", s, v] => do
    let i ← setIdx s; let st ← sets[i]?
    pure (sets, bit (st.check (← v.int?)))
  | .list [.atom "len", s] => do
    let i ← setIdx s; let st ← sets[i]?
    pure (sets, toString st.len)
  | .list [.atom "iter", s] => do
    let i ← setIdx s; let st ← sets[i]?
    pure (sets, ints (st.iter st.ascKeys))
  | .list [.atom "json", s] => do
    let i ← setIdx s; let st ← sets[i]?
    pure (sets, "[" ++ ints (st.iter st.ascKeys) ++ "]")
  | .list [.atom "sortq", s, .atom c] => do
    let i ← setIdx s; let st ← sets[i]?
    pure (sets.set! i (st.sortQuick (ltOf c) st.ascKeys), "ok")
  | .list [.atom "sortm", s, .atom c] => do
    let i ← setIdx s; let st ← sets[i]?
    pure (sets.set! i (st.sortMerge (ltOf c) st.ascKeys), "ok")
  | .list [.atom "equal", s, t] => do
    let i ← setIdx s; let st ← sets[i]?
    let j ← setIdx t; let ot ← sets[j]?
    pure (sets, bit (st.equal ot))
  | .list [.atom "extend", s, t] => do
    let i ← setIdx s; let st ← sets[i]?
    let j ← setIdx t; let ot ← sets[j]?
    pure (sets.set! i (st.addAll (ot.iter ot.ascKeys)), "ok")
  | .list [.atom "addall", s, .list vs] => do
    let i ← setIdx s; let st ← sets[i]?
    pure (sets.set! i (st.addAll (vs.filterMap Sexp.int?)), "ok")
  | .list [.atom "unjson", s, .list vs] => do
    let i ← setIdx s; let st ← sets[i]?
    pure (sets.set! i (st.addAll (vs.filterMap Sexp.int?)), "ok")
  | _ => none

def handle (s : Sexp) : String :=
  match s with
  -- mutual exclusion of a synchronized set across a second Synchronize / a refused WithLock: the
  -- mutex is installed once (`atomic.Set` succeeds only on the empty slot), so a later operation
  -- waits for the one in progress
  | .list (.atom "setexcl" :: .list [.atom "variant", .atom "equal"] :: _) =>
    -- {1,2} against {1,3} with a concurrent Delete(2): false in either order (Equal holds the receiver's
    -- mutex from its first test to its answer)
    "excl equal-true=0"
  | .list (.atom "setexcl" :: _) => "excl overlapped=0"
  | .list (.atom "set" :: ops) =>
    let rec go (sets : Array SetSt) (ops : List Sexp) (acc : List String) : List String :=
      match ops with
      | [] => acc.reverse
      | op :: rest =>
        match stepOp sets op with
        | none => ("bad-op" :: acc).reverse
        | some (sets, r) => go sets rest (r :: acc)
    joinSep ";" (go #[] ops [])
  | _ => "bad-op"

end FunModel.DrvC18
