import FunModel.Wrap

/-! Small-step concurrent models of the wrappers whose contract is about interleavings (C15).

    One *action* is one atomic action of the code: an atomic load / CAS / store, a mutex
    acquire / release, entering or leaving `sync.Once.Do`, a channel close / receive, the wrapped
    function's begin and end.  Callers are interchangeable, so a state records *how many* callers
    are at each program point (symmetry reduction); the only caller-local data — `num` of the
    mutex owner in `limitExec`, `current` in the CAS loop of `Operation.Limit` — is kept
    explicitly.  Every return appends a record to `rets` with ghost fields that freeze what was
    true at the moment of the return (how many executions had finished), which is how "no caller
    returns before …" is stated.

    Trusted primitives (DESIGN §3): `sync.Once` (the first caller runs, later callers block until
    it has finished, also when it panics), `sync.Mutex`, sequentially consistent atomics,
    unbuffered channels (a send completes together with a receive; a receive on a closed channel
    returns at once), `go`. -/

namespace FunModel.WrapConc
open FunModel.Wrap

structure Machine where
  S : Type
  A : Type
  step : S → A → Option S

def Machine.run (m : Machine) (s : m.S) (as : List m.A) : Option m.S := as.foldlM m.step s

def Machine.Reachable (m : Machine) (s0 s : m.S) : Prop := ∃ as, m.run s0 as = some s

def popStep (script : List Step) : Step × List Step :=
  match script with
  | [] => ({}, [])
  | s :: r => (s, r)

/-! ## sync.Once based wrappers: Worker/Operation/Producer/Processor/Handler.Once, ft.Once,
    ft.OnceDo = Future.Once = adt.Mnemonize, adt.Once.Resolve

    `return func(ctx) error { once.Do(func() { err = wf(ctx) }); return err }` -/

inductive RunPC where
  | none
  | inFn                       -- the first caller is inside the wrapped function
  | assigned                   -- the function returned and the closure stored its result; Do has not returned yet
  | panicking (p : Err)        -- the function panicked; Do has not unwound yet
  deriving Repr, DecidableEq

structure ORet where
  res : Res
  fin : Nat                    -- ghost: executions finished when this caller returned
  deriving Repr, DecidableEq

structure OnceS where
  k : Kind
  idle : Nat                   -- callers that have not called yet
  blocked : Nat := 0           -- callers inside once.Do waiting for the first caller
  after : Nat := 0             -- callers whose once.Do has returned and who still have to read the captured variables
  runner : RunPC := .none
  started : Bool := false      -- some caller has been admitted as the first
  fired : Bool := false        -- once.done
  cache : Res := .zero
  script : List Step := []
  execs : Nat := 0             -- ghost: executions begun
  finished : Nat := 0          -- ghost: executions ended (returned or panicked)
  rets : List ORet := []
  deriving Repr

inductive OnceA where
  | enter | fnEnd | exit | wake | ret
  deriving Repr, DecidableEq

def onceStep (s : OnceS) : OnceA → Option OnceS
  | .enter =>
    if s.idle = 0 then none
    else if s.fired then some { s with idle := s.idle - 1, after := s.after + 1 }
    else if s.started then some { s with idle := s.idle - 1, blocked := s.blocked + 1 }
    else some { s with idle := s.idle - 1, started := true, runner := .inFn, execs := s.execs + 1 }
  | .fnEnd =>
    match s.runner with
    | .inFn =>
      let (st, rest) := popStep s.script
      match s.k.proj st.res with
      | .panic p => some { s with runner := .panicking p, script := rest, finished := s.finished + 1 }
      | .ret v e => some { s with runner := .assigned, cache := s.k.cache (.ret v e), script := rest, finished := s.finished + 1 }
    | _ => none
  | .exit =>
    match s.runner with
    | .assigned => some { s with runner := .none, fired := true, after := s.after + 1 }
    | .panicking p => some { s with runner := .none, fired := true, rets := { res := .panic p, fin := s.finished } :: s.rets }
    | _ => none
  | .wake =>
    if s.blocked > 0 ∧ s.fired then some { s with blocked := s.blocked - 1, after := s.after + 1 } else none
  | .ret =>
    if s.after > 0 then some { s with after := s.after - 1, rets := { res := s.cache, fin := s.finished } :: s.rets } else none

def onceM : Machine := { S := OnceS, A := OnceA, step := onceStep }

def onceInit (k : Kind) (callers : Nat) (script : List Step) : OnceS := { k := k, idle := callers, script := script }

/-! ## limitExec (process.go:403-425)

```
if counter.CompareAndSwap(n, n) { return output }
mtx.Lock(); defer mtx.Unlock()
num := counter.Load()
if num < n { output = op(); counter.Store(min(n, num+1)) }
return output
``` -/

inductive HPC where
  | locked                                   -- owns the mutex, before counter.Load()
  | inFn (num : Nat)
  | assigning (num : Nat) (r : Res)          -- op() returned r, `output = r` not yet performed
  | storing (num : Nat) (r : Res)            -- before counter.Store
  | leaving (own : Option Res)               -- before `return output` + deferred Unlock
  | panicLeaving (p : Err)                   -- op() panicked; the deferred Unlock is about to run
  deriving Repr, DecidableEq

structure LRet where
  res : Res
  own : Option Res             -- ghost: the result of the execution this caller performed itself, if any
  fin : Nat                    -- ghost: completed executions when this caller returned
  deriving Repr, DecidableEq

structure LimS where
  k : Kind
  n : Nat
  idle : Nat
  want : Nat := 0              -- the fast-path CAS failed; waiting for the mutex
  fastRead : Nat := 0          -- the fast-path CAS succeeded; `output` not yet read
  holder : Option HPC := none
  counter : Nat := 0
  output : Res := .zero
  script : List Step := []
  execs : Nat := 0             -- ghost: executions begun
  finished : Nat := 0          -- ghost: executions that returned
  panics : Nat := 0            -- ghost: executions that panicked
  hist : List Res := []        -- ghost: results of the completed executions, latest first
  retOwn : Nat := 0            -- ghost: callers that returned after performing an execution themselves
  retCached : Nat := 0         -- ghost: callers that returned the cached output without executing
  retPanic : Nat := 0          -- ghost: callers whose execution panicked
  rets : List LRet := []
  deriving Repr

inductive LimA where
  | fast | readFast | lock | load | fnEnd | assign | store | unlock
  deriving Repr, DecidableEq

def limStep (s : LimS) : LimA → Option LimS
  | .fast =>
    if s.idle = 0 then none
    else if s.counter = s.n then some { s with idle := s.idle - 1, fastRead := s.fastRead + 1 }
    else some { s with idle := s.idle - 1, want := s.want + 1 }
  | .readFast =>
    if s.fastRead = 0 then none
    else some { s with fastRead := s.fastRead - 1, retCached := s.retCached + 1,
                       rets := { res := s.output, own := none, fin := s.finished } :: s.rets }
  | .lock =>
    if s.want = 0 then none
    else match s.holder with
      | none => some { s with want := s.want - 1, holder := some .locked }
      | some _ => none
  | .load =>
    match s.holder with
    | some .locked =>
      if s.counter < s.n then some { s with holder := some (.inFn s.counter), execs := s.execs + 1 }
      else some { s with holder := some (.leaving none) }
    | _ => none
  | .fnEnd =>
    match s.holder with
    | some (.inFn num) =>
      let (st, rest) := popStep s.script
      match s.k.proj st.res with
      | .panic p => some { s with holder := some (.panicLeaving p), script := rest, panics := s.panics + 1 }
      | .ret v e => some { s with holder := some (.assigning num (.ret v e)), script := rest,
                                  finished := s.finished + 1, hist := .ret v e :: s.hist }
    | _ => none
  | .assign =>
    match s.holder with
    | some (.assigning num r) => some { s with holder := some (.storing num r), output := r }
    | _ => none
  | .store =>
    match s.holder with
    | some (.storing num r) => some { s with holder := some (.leaving (some r)), counter := min s.n (num + 1) }
    | _ => none
  | .unlock =>
    match s.holder with
    | some (.leaving (some r)) =>
      some { s with holder := none, retOwn := s.retOwn + 1, rets := { res := s.output, own := some r, fin := s.finished } :: s.rets }
    | some (.leaving none) =>
      some { s with holder := none, retCached := s.retCached + 1, rets := { res := s.output, own := none, fin := s.finished } :: s.rets }
    | some (.panicLeaving p) =>
      some { s with holder := none, retPanic := s.retPanic + 1, rets := { res := .panic p, own := none, fin := s.finished } :: s.rets }
    | _ => none

/-- all callers have returned -/
def LimS.terminal (s : LimS) : Prop := s.idle = 0 ∧ s.want = 0 ∧ s.fastRead = 0 ∧ s.holder = none

def limM : Machine := { S := LimS, A := LimA, step := limStep }

def limInit (k : Kind) (n callers : Nat) (script : List Step) : LimS := { k := k, n := n, idle := callers, script := script }

/-! ## Operation.Limit (operation.go:181-197): `wf.When(casLoop)`

```
for { current := counter.Load(); if current >= n { return false }
      if counter.CompareAndSwap(current, current+1) { return true } }
``` -/

structure OLS where
  n : Nat
  idle : Nat                   -- callers at the top of the loop
  loaded : List Nat := []      -- callers between Load and CAS, with the value they loaded
  inFn : Nat := 0              -- callers whose condition was true: inside the operation
  counter : Nat := 0
  script : List Step := []
  execs : Nat := 0             -- ghost: how often the condition answered true
  finished : Nat := 0
  retExec : Nat := 0           -- callers that returned after running the operation
  retPanic : Nat := 0
  retSkip : Nat := 0           -- callers that returned without running it
  panicked : List Err := []    -- the panic values the panicking callers saw
  deriving Repr

inductive OLA where
  | load | cas (i : Nat) | fnEnd
  deriving Repr, DecidableEq

def olStep (s : OLS) : OLA → Option OLS
  | .load =>
    if s.idle = 0 then none
    else if s.counter ≥ s.n then some { s with idle := s.idle - 1, retSkip := s.retSkip + 1 }
    else some { s with idle := s.idle - 1, loaded := s.counter :: s.loaded }
  | .cas i =>
    match s.loaded[i]? with
    | none => none
    | some cur =>
      if s.counter = cur then
        some { s with loaded := s.loaded.eraseIdx i, counter := cur + 1, inFn := s.inFn + 1, execs := s.execs + 1 }
      else some { s with loaded := s.loaded.eraseIdx i, idle := s.idle + 1 }
  | .fnEnd =>
    if s.inFn = 0 then none
    else
      let (st, rest) := popStep s.script
      match st.res with
      | .panic p => some { s with inFn := s.inFn - 1, script := rest, finished := s.finished + 1, retPanic := s.retPanic + 1,
                                  panicked := p :: s.panicked }
      | .ret _ _ => some { s with inFn := s.inFn - 1, script := rest, finished := s.finished + 1, retExec := s.retExec + 1 }

/-- all callers have returned -/
def OLS.terminal (s : OLS) : Prop := s.idle = 0 ∧ s.loaded = [] ∧ s.inFn = 0

def olM : Machine := { S := OLS, A := OLA, step := olStep }

def olInit (n callers : Nat) (script : List Step) : OLS := { n := n, idle := callers, script := script }

/-! ## Lock / WithLock: `mtx.Lock(); defer mtx.Unlock(); return wf(ctx)` -/

structure LkS where
  k : Kind
  idle : Nat
  locked : Bool := false       -- the mutex
  acquired : Nat := 0          -- callers that hold the mutex and have not begun the function
  active : Nat := 0            -- callers inside the function
  leaving : List Res := []     -- callers whose function ended, before the deferred Unlock
  script : List Step := []
  execs : Nat := 0
  maxActive : Nat := 0         -- ghost: high-water mark of `active`
  rets : List Res := []
  deriving Repr

inductive LkA where
  | lock | begin | fnEnd | unlock
  deriving Repr, DecidableEq

def lkStep (s : LkS) : LkA → Option LkS
  | .lock =>
    if s.idle = 0 ∨ s.locked then none
    else some { s with idle := s.idle - 1, locked := true, acquired := s.acquired + 1 }
  | .begin =>
    if s.acquired = 0 then none
    else some { s with acquired := s.acquired - 1, active := s.active + 1, execs := s.execs + 1,
                       maxActive := max s.maxActive (s.active + 1) }
  | .fnEnd =>
    if s.active = 0 then none
    else
      let (st, rest) := popStep s.script
      some { s with active := s.active - 1, script := rest, leaving := s.k.proj st.res :: s.leaving }
  | .unlock =>
    match s.leaving with
    | [] => none
    | r :: rest => some { s with leaving := rest, locked := false, rets := r :: s.rets }

def lkM : Machine := { S := LkS, A := LkA, step := lkStep }

def lkInit (k : Kind) (callers : Nat) (script : List Step) : LkS := { k := k, idle := callers, script := script }

/-! ## Signal / Launch / Background

Operation.Signal: `out := make(chan struct{}); go func() { defer close(out); wf(ctx) }()`
Operation.Launch: waiter = `WaitChannel(sig)(ctx)` — as written before the repair the waiter was
  `func(ctx) { WaitChannel(sig) }`, which builds the operation and drops it (`dropsWait`).
Worker.Signal: `go func() { defer out.Close(); out.Send().Ignore(ctx, wf.Run(ctx)) }()`
Worker.Launch: waiter = `WorkerFuture(out)`: receives the error, or nil once the channel is closed.
Worker.Background(ctx, ob) = `wf.Launch(ctx).Operation(ob)`; Producer.Background / Processor.Background
  = `….Worker(…).Launch(ctx)`.  Contexts are live. -/

inductive BgPC where
  | spawned | inFn | fnDone (e : Err) | sent | closed
  deriving Repr, DecidableEq

structure BRet where
  res : Res
  done : Bool                  -- ghost: the background execution had finished when the waiter returned
  deriving Repr, DecidableEq

structure BgS where
  worker : Bool                -- Worker flavour: the result is sent before the channel is closed
  dropsWait : Bool := false    -- the unrepaired Operation.Launch
  bg : BgPC := .spawned
  waiting : Nat                -- waiter calls not yet returned
  script : List Step := []
  rets : List BRet := []
  deriving Repr

inductive BgA where
  | begin | fnEnd | send | close | waitRet
  deriving Repr, DecidableEq

def BgS.fnFinished (s : BgS) : Bool :=
  match s.bg with
  | .fnDone _ | .sent | .closed => true
  | _ => false

def bgStep (s : BgS) : BgA → Option BgS
  | .begin => if s.bg = .spawned then some { s with bg := .inFn } else none
  | .fnEnd =>
    if s.bg = .inFn then
      let (st, rest) := popStep s.script
      match st.res with
      | .panic _ => none                        -- a panic in a bare goroutine ends the process: not modelled
      | .ret _ e => some { s with bg := .fnDone (if s.worker then e else []), script := rest }
    else none
  | .send =>
    -- unbuffered send of the error meets a waiter's receive
    match s.bg with
    | .fnDone e =>
      if s.worker ∧ s.waiting > 0 then
        some { s with bg := .sent, waiting := s.waiting - 1, rets := { res := .ret 0 e, done := true } :: s.rets }
      else none
    | _ => none
  | .close =>
    match s.bg with
    | .fnDone _ => if s.worker then none else some { s with bg := .closed }
    | .sent => some { s with bg := .closed }
    | _ => none
  | .waitRet =>
    if s.waiting = 0 then none
    else if s.bg = .closed ∨ s.dropsWait then
      some { s with waiting := s.waiting - 1, rets := { res := .zero, done := s.fnFinished } :: s.rets }
    else none

def bgM : Machine := { S := BgS, A := BgA, step := bgStep }

def bgInit (worker dropsWait : Bool) (waiters : Nat) (script : List Step) : BgS :=
  { worker := worker, dropsWait := dropsWait, waiting := waiters, script := script }

/-! ## StartGroup: n × `wg.Inc(); go op.PostHook(wg.Done)(ctx)`; the waiter is `wg.Wait`
    (Worker.StartGroup also collects the errors: `wf.Operation(eh)`) -/

structure GRet where
  errs : List Err
  fin : Nat                    -- ghost: executions finished when the waiter returned
  deriving Repr, DecidableEq

structure SgS where
  n : Nat
  spawned : Nat                -- goroutines started, function not yet begun
  inFn : Nat := 0
  fnDone : Nat := 0            -- function ended, wg.Done not yet called
  counter : Nat                -- the WaitGroup
  waiting : Nat
  script : List Step := []
  finished : Nat := 0
  errs : List Err := []        -- the error collector (latest first)
  rets : List GRet := []
  deriving Repr

inductive SgA where
  | begin | fnEnd | done | waitRet
  deriving Repr, DecidableEq

def sgStep (s : SgS) : SgA → Option SgS
  | .begin => if s.spawned = 0 then none else some { s with spawned := s.spawned - 1, inFn := s.inFn + 1 }
  | .fnEnd =>
    if s.inFn = 0 then none
    else
      let (st, rest) := popStep s.script
      match st.res with
      | .panic _ => none
      | .ret _ e => some { s with inFn := s.inFn - 1, fnDone := s.fnDone + 1, script := rest, finished := s.finished + 1,
                                  errs := if e = [] then s.errs else e :: s.errs }
  | .done => if s.fnDone = 0 ∨ s.counter = 0 then none else some { s with fnDone := s.fnDone - 1, counter := s.counter - 1 }
  | .waitRet =>
    if s.waiting = 0 ∨ s.counter ≠ 0 then none
    else some { s with waiting := s.waiting - 1, rets := { errs := s.errs, fin := s.finished } :: s.rets }

def sgM : Machine := { S := SgS, A := SgA, step := sgStep }

def sgInit (n waiters : Nat) (script : List Step) : SgS :=
  { n := n, spawned := n, counter := n, waiting := waiters, script := script }

/-! ## Producer.Launch (producer.go:217-226): a background loop runs the producer and hands each value
    through an unbuffered channel (`ReadAll`: nil error → send, ErrIteratorSkip → next, io.EOF /
    ErrCurrentOpAbort → stop, anything else → record the error and stop), closing it at the end; the
    waiter receives a value, or — once the channel is closed — io.EOF joined with the recorded error -/

inductive PlPC where
  | inFn | sending (v : Int) | closed (e : Err)
  deriving Repr, DecidableEq

structure PRet where
  res : Res
  fin : Nat                    -- ghost: executions finished when the waiter returned
  idx : Nat                    -- ghost: how many values had been delivered before this return
  deriving Repr, DecidableEq

structure PlS where
  bg : PlPC := .inFn
  waiting : Nat
  script : List Step := []
  finished : Nat := 0
  delivered : Nat := 0
  rets : List PRet := []
  deriving Repr

inductive PlA where
  | fnEnd | recv | recvClosed
  deriving Repr, DecidableEq

def plStep (s : PlS) : PlA → Option PlS
  | .fnEnd =>
    if s.bg = .inFn then
      let (st, rest) := popStep s.script
      match st.res with
      | .panic _ => none
      | .ret v e =>
        if e = [] then some { s with bg := .sending v, script := rest, finished := s.finished + 1 }
        else if isSkip e then some { s with script := rest, finished := s.finished + 1 }
        else if isAny e [.eof, .abort] then some { s with bg := .closed [], script := rest, finished := s.finished + 1 }
        else some { s with bg := .closed (join [e]), script := rest, finished := s.finished + 1 }   -- the collector's stack
    else none
  | .recv =>
    match s.bg with
    | .sending v =>
      if s.waiting = 0 then none
      else some { s with bg := .inFn, waiting := s.waiting - 1, delivered := s.delivered + 1,
                         rets := { res := .ret v [], fin := s.finished, idx := s.delivered } :: s.rets }
    | _ => none
  | .recvClosed =>
    match s.bg with
    | .closed e =>
      if s.waiting = 0 then none
      else some { s with waiting := s.waiting - 1,
                         rets := { res := .ret 0 (join [[.eof], e]), fin := s.finished, idx := s.delivered } :: s.rets }
    | _ => none

def plM : Machine := { S := PlS, A := PlA, step := plStep }

def plInit (waiters : Nat) (script : List Step) : PlS := { waiting := waiters, script := script }

/-! ## outcome predicates (T-out): what an observation of the real wrapper under contention must
    satisfy. An observation is the list of (callers returned, executions inside the function) pairs
    noted at the quiescent points — the j-th pair after j executions have been let through the
    gate — plus the callers' results, the invocation count and the concurrency high-water mark.
    `FunProps/C15.lean` proves that every reachable state of the corresponding machine yields a pair
    that passes, and every terminal state a final part that passes. -/

structure Obs where
  phases : List (Nat × Nat)
  results : List Res
  inv : Nat
  maxc : Nat
  deriving Repr

def isPanicB : Res → Bool
  | .panic _ => true
  | .ret _ _ => false

def idxAll (ps : List (Nat × Nat)) (f : Nat → Nat × Nat → Bool) : Bool :=
  (List.zip (List.range ps.length) ps).all (fun jp => f jp.1 jp.2)

/-- Once: nobody has returned while the execution is inside; one execution; everybody sees its result -/
def oncePhaseOK (p : Nat × Nat) : Bool := decide (p.2 ≤ 1) && (p.2 == 0 || p.1 == 0)

def onceFinalOK (k : Kind) (callers : Nat) (script : List Step) (results : List Res) (inv : Nat) : Bool :=
  let first := k.proj (popStep script).1.res
  let want := match first with | .ret v e => k.cache (.ret v e) | .panic _ => Res.zero
  results.length == callers && decide (inv ≤ 1) && (callers == 0 || inv == 1) &&
  results.all (fun r => r == want || (isPanicB first && r == first))

def allowedOnce (k : Kind) (callers : Nat) (script : List Step) (o : Obs) : Bool :=
  o.phases.all oncePhaseOK && decide (o.maxc ≤ 1) && onceFinalOK k callers script o.results o.inv

/-- limitExec: one execution at a time; while the (j+1)-th execution is inside exactly j callers have returned -/
def limPhaseOK (j : Nat) (p : Nat × Nat) : Bool := decide (p.2 ≤ 1) && (p.2 == 0 || p.1 == j)

def limFinalOK (n callers : Nat) (results : List Res) (inv : Nat) : Bool :=
  let npan := (results.filter isPanicB).length
  results.length == callers && decide (npan ≤ inv) && (inv - npan == min n (callers - npan))

def allowedLimit (n callers : Nat) (o : Obs) : Bool :=
  idxAll o.phases limPhaseOK && decide (o.maxc ≤ 1) && limFinalOK n callers o.results o.inv

/-- Operation.Limit: never more than n executions begun; min n calls at the end -/
def allowedOpLimit (n callers : Nat) (o : Obs) : Bool :=
  o.phases.all (fun p => decide (p.2 ≤ n)) && decide (o.maxc ≤ n) &&
  o.results.length == callers && o.inv == min n callers

/-- Lock: one execution at a time; every call is one execution -/
def allowedLock (callers : Nat) (o : Obs) : Bool :=
  o.phases.all (fun p => decide (p.2 ≤ 1)) && decide (o.maxc ≤ 1) && o.results.length == callers && o.inv == callers

/-- Signal/Launch/Background: no waiter has returned while the background execution is inside -/
def allowedBg (waiters : Nat) (o : Obs) : Bool :=
  o.phases.all (fun p => decide (p.2 ≤ 1) && (p.2 == 0 || p.1 == 0)) && o.results.length == waiters && o.inv == 1

/-- StartGroup: no waiter has returned while any of the n executions is unfinished -/
def allowedSg (n waiters : Nat) (o : Obs) : Bool :=
  o.phases.all (fun p => decide (p.2 ≤ n) && (p.2 == 0 || p.1 == 0)) && o.results.length == waiters && o.inv == n

/-! ## canonical simulation used by the driver: run internal actions (picked by the case's choice
    list) to quiescence, note (returned, inside), let one execution end, repeat -/

structure Sim (S A : Type) where
  step : S → A → Option S
  internal : S → List A          -- candidate internal actions
  gate : A                       -- the wrapped function's end
  returned : S → Nat
  inside : S → Nat

def Sim.enabled {S A : Type} (m : Sim S A) (s : S) : List A := (m.internal s).filter (fun a => (m.step s a).isSome)

def Sim.settle {S A : Type} (m : Sim S A) : Nat → S → List Nat → S × List Nat
  | 0, s, cs => (s, cs)
  | fuel + 1, s, cs =>
    match m.enabled s with
    | [] => (s, cs)
    | en =>
      let (c, cs') := match cs with | [] => (0, []) | c :: r => (c, r)
      match en[c % en.length]? with
      | none => (s, cs')
      | some a =>
        match m.step s a with
        | none => (s, cs')
        | some s' => m.settle fuel s' cs'

def Sim.phases {S A : Type} (m : Sim S A) : Nat → S → List Nat → List (Nat × Nat) → S × List (Nat × Nat)
  | 0, s, _, acc => (s, acc.reverse)
  | fuel + 1, s, cs, acc =>
    let (s1, cs1) := m.settle 100000 s cs
    let acc := (m.returned s1, m.inside s1) :: acc
    match m.step s1 m.gate with
    | none => (s1, acc.reverse)
    | some s2 => m.phases fuel s2 cs1 acc

/-- forced schedule of the CAS loop (harness subject `oplimitf`): all callers at the top of the loop
    load, then all of them attempt their CAS (order from the choice list), repeat; executions end
    only when nobody is left to load. Each round notes (returned, inside, callers about to load). -/
def olCasAll : Nat → OLS → List Nat → OLS × List Nat
  | 0, s, cs => (s, cs)
  | fuel + 1, s, cs =>
    if s.loaded.isEmpty then (s, cs)
    else
      let (c, cs') := match cs with | [] => (0, []) | c :: r => (c, r)
      match olStep s (.cas (c % s.loaded.length)) with
      | none => (s, cs')
      | some s' => olCasAll fuel s' cs'

def olLoadAll : Nat → OLS → OLS
  | 0, s => s
  | fuel + 1, s => match olStep s .load with | none => s | some s' => olLoadAll fuel s'

def olForced : Nat → OLS → List Nat → List (Nat × Nat × Nat) → OLS × List (Nat × Nat × Nat)
  | 0, s, _, acc => (s, acc.reverse)
  | fuel + 1, s, cs, acc =>
    let acc := (s.retExec + s.retPanic + s.retSkip, s.inFn, s.idle) :: acc
    if s.idle > 0 then
      let s1 := olLoadAll s.idle s
      let (s2, cs') := olCasAll (s1.loaded.length + 1) s1 cs
      olForced fuel s2 cs' acc
    else
      match olStep s .fnEnd with
      | none => (s, acc.reverse)
      | some s' => olForced fuel s' cs acc

def onceSim : Sim OnceS OnceA :=
  { step := onceStep, internal := fun _ => [.enter, .exit, .wake, .ret], gate := .fnEnd,
    returned := fun s => s.rets.length, inside := fun s => if s.runner = .inFn then 1 else 0 }

def limSim : Sim LimS LimA :=
  { step := limStep, internal := fun _ => [.fast, .readFast, .lock, .load, .assign, .store, .unlock], gate := .fnEnd,
    returned := fun s => s.rets.length,
    inside := fun s => match s.holder with | some (.inFn _) => 1 | _ => 0 }

def olSim : Sim OLS OLA :=
  { step := olStep, internal := fun s => .load :: (List.range s.loaded.length).map .cas, gate := .fnEnd,
    returned := fun s => s.retExec + s.retPanic + s.retSkip, inside := fun s => s.inFn }

def lkSim : Sim LkS LkA :=
  { step := lkStep, internal := fun _ => [.lock, .begin, .unlock], gate := .fnEnd,
    returned := fun s => s.rets.length, inside := fun s => s.active }

def bgSim : Sim BgS BgA :=
  { step := bgStep, internal := fun _ => [.begin, .send, .close, .waitRet], gate := .fnEnd,
    returned := fun s => s.rets.length, inside := fun s => if s.bg = .inFn then 1 else 0 }

def plSim : Sim PlS PlA :=
  { step := plStep, internal := fun _ => [.recv, .recvClosed], gate := .fnEnd,
    returned := fun s => s.rets.length, inside := fun s => if s.bg = .inFn then 1 else 0 }

def sgSim : Sim SgS SgA :=
  { step := sgStep, internal := fun _ => [.begin, .done, .waitRet], gate := .fnEnd,
    returned := fun s => s.rets.length, inside := fun s => s.inFn }

end FunModel.WrapConc
