/-! Line protocol shared by the Go harness and the Lean driver: one S-expression per line.
    atoms are maximal runs of non-space, non-paren characters. -/

namespace FunModel

inductive Sexp
  | atom (s : String)
  | list (xs : List Sexp)
  deriving Repr, Inhabited

namespace Sexp

def tokenize (s : String) : List String := Id.run do
  let mut out : Array String := #[]
  let mut cur : String := ""
  for c in s.toList do
    if c == '(' || c == ')' then
      if cur != "" then out := out.push cur; cur := ""
      out := out.push (String.singleton c)
    else if c == ' ' || c == '\t' || c == '\n' || c == '\r' then
      if cur != "" then out := out.push cur; cur := ""
    else cur := cur.push c
  if cur != "" then out := out.push cur
  return out.toList

/-- parse with an explicit stack of open lists (total, no recursion on the sexp) -/
def parseToks (toks : List String) : Option Sexp := Id.run do
  let mut stack : List (Array Sexp) := []
  let mut top : Array Sexp := #[]
  for t in toks do
    if t == "(" then
      stack := top :: stack
      top := #[]
    else if t == ")" then
      match stack with
      | [] => return none
      | p :: rest =>
        top := p.push (Sexp.list top.toList)
        stack := rest
    else top := top.push (Sexp.atom t)
  if !stack.isEmpty then return none
  match top.toList with
  | [x] => return some x
  | _ => return none

def parse (s : String) : Option Sexp := parseToks (tokenize s)

def atom? : Sexp → Option String
  | .atom s => some s
  | _ => none

def nat? : Sexp → Option Nat
  | .atom s => s.toNat?
  | _ => none

def int? : Sexp → Option Int
  | .atom s => s.toInt?
  | _ => none

def items : Sexp → List Sexp
  | .list xs => xs
  | _ => []

end Sexp

def joinSep (sep : String) (xs : List String) : String := sep.intercalate xs

def bit (b : Bool) : String := if b then "1" else "0"

end FunModel
