/-! Pointer-level heap of `pubsub.Queue` (queue.go): entries `entry[T]{item, link}` at addresses, and the
    two header pointers `front` (the sentinel) and `back` (the newest entry) of the one queue under
    consideration. The link updates of `doAdd` / `popFront` are *generated* over this heap
    (lean/FunGen/QueuePtr.lean); the list-level model FunModel/Queue.lean is proved to be their
    abstraction in FunProofs/QueuePtr.lean (C05, C20). Core Lean only. -/

namespace FunModel.QueuePtr

structure Heap where
  link : Nat → Option Nat := fun _ => none   -- `entry.link` (nil = none)
  item : Nat → Int := fun _ => 0             -- `entry.item`
  front : Option Nat := none                 -- `Queue.front`
  back : Option Nat := none                  -- `Queue.back`
  nn : Nat := 0                              -- next unused address

namespace Heap

def setLink (h : Heap) (a : Nat) (v : Option Nat) : Heap := { h with link := fun i => if i = a then v else h.link i }
def setFront (h : Heap) (v : Option Nat) : Heap := { h with front := v }
def setBack (h : Heap) (v : Option Nat) : Heap := { h with back := v }

/-- `&entry[T]{item: v}` / `new(entry[T])`: a fresh entry with a nil link -/
def alloc (h : Heap) (v : Int) : Heap × Nat :=
  ({ h with link := fun i => if i = h.nn then none else h.link i,
            item := fun i => if i = h.nn then v else h.item i,
            nn := h.nn + 1 }, h.nn)

/-- `makeQueue`: `sentinel := new(entry[T])`, `back: sentinel, front: sentinel` -/
def init : Heap :=
  let (h, s) := ({} : Heap).alloc 0
  (h.setFront (some s)).setBack (some s)

/-- the entries reachable from `cur` by `link`, at most `fuel` of them (the abstraction function:
    applied to `front.link` with `fuel = nn` it lists the queue, front first) -/
def walk (h : Heap) : Nat → Option Nat → List Nat
  | 0, _ => []
  | _ + 1, none => []
  | fuel + 1, some e => e :: walk h fuel (h.link e)

end Heap
end FunModel.QueuePtr
