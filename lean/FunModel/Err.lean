/-! Model of Go error values as `ers`/`erc` see them (C12).

    Node kinds = the cases of the type switches in `ers.Stack.Push`, `internal.Unwind`
    and of `errors.Is/As`:
      leaf     comparable or pointer error with no Unwrap (identity = id)
      typed    leaf whose concrete type is `ty` (what errors.As looks for)
      wrap     `Unwrap() error`           (fmt.Errorf("%w"))
      multi    `Unwrap() []error`         (errors.Join, multi-%w, custom)
      unwinder `Unwind() []error` only    (custom)
      stack    `*ers.Stack`, items most recent first (has Unwrap() error, Unwind, Is, As)
    Lists of children may contain nil entries (`skip`). -/

namespace FunModel

mutual
inductive Err
  | leaf (id : Nat)
  | typed (ty id : Nat)
  | wrap (id : Nat) (inner : Err)
  | multi (id : Nat) (cs : ErrList)
  | unwinder (id : Nat) (cs : ErrList)
  | stack (cs : ErrList)
inductive ErrList
  | nil
  | cons (e : Err) (rest : ErrList)
  | skip (rest : ErrList)
end

namespace ErrList
def ofList : List (Option Err) → ErrList
  | [] => .nil
  | some e :: r => .cons e (ofList r)
  | none :: r => .skip (ofList r)

def ofErrs : List Err → ErrList
  | [] => .nil
  | e :: r => .cons e (ofErrs r)

/-- the non-nil entries -/
def toList : ErrList → List Err
  | .nil => []
  | .cons e r => e :: toList r
  | .skip r => toList r
end ErrList

/-! ### errors.Is with a leaf/typed/wrap/multi target identified by its id -/
mutual
/-- `errors.Is(e, target)` where `target` is the node with identity `t` -/
def Err.is : Err → Nat → Bool
  | .leaf id, t => id == t
  | .typed _ id, t => id == t
  | .wrap id inner, t => id == t || inner.is t
  | .multi id cs, t => id == t || cs.isAny t
  | .unwinder id _, t => id == t          -- errors.Is cannot see through Unwind()
  | .stack cs, t => cs.isAny t            -- Stack.Is on the head, then Unwrap() to the next
def ErrList.isAny : ErrList → Nat → Bool
  | .nil, _ => false
  | .cons e r, t => e.is t || r.isAny t
  | .skip r, t => r.isAny t
end

/-! ### errors.As: the id of the first node (pre-order) whose concrete type is `ty` -/
mutual
def Err.as : Err → Nat → Option Nat
  | .leaf _, _ => none
  | .typed ty' id, ty => if ty' == ty then some id else none
  | .wrap _ inner, ty => inner.as ty
  | .multi _ cs, ty => cs.asFirst ty
  | .unwinder _ _, _ => none
  | .stack cs, ty => cs.asFirst ty
def ErrList.asFirst : ErrList → Nat → Option Nat
  | .nil, _ => none
  | .cons e r, ty => (e.as ty).orElse (fun _ => r.asFirst ty)
  | .skip r, ty => r.asFirst ty
end

/-! ### errors.As with a target of a *leaf* type (e.g. `*ers.Error`, the comparable string constants):
    the id of the first leaf (same traversal as `as`) that satisfies `p` -/
mutual
def Err.asLeaf (p : Nat → Bool) : Err → Option Nat
  | .leaf id => if p id then some id else none
  | .typed _ _ => none
  | .wrap _ inner => inner.asLeaf p
  | .multi _ cs => cs.asLeafFirst p
  | .unwinder _ _ => none
  | .stack cs => cs.asLeafFirst p
def ErrList.asLeafFirst (p : Nat → Bool) : ErrList → Option Nat
  | .nil => none
  | .cons e r => (e.asLeaf p).orElse (fun _ => r.asLeafFirst p)
  | .skip r => r.asLeafFirst p
end

/-! ### Stack.Push: `acc` is the stack's content, most recent first -/
mutual
def Err.push (acc : List Err) : Err → List Err
  | .stack cs => cs.pushAll acc
  | .unwinder _ cs => cs.pushAll acc
  | .multi _ cs => cs.pushAll acc
  | e@(.leaf _) => e :: acc
  | e@(.typed _ _) => e :: acc
  | e@(.wrap _ _) => e :: acc
def ErrList.pushAll (acc : List Err) : ErrList → List Err
  | .nil => acc
  | .cons e r => r.pushAll (e.push acc)
  | .skip r => r.pushAll acc
end

/-- `st.Add(errs...)` on an empty stack -/
def flatten (es : ErrList) : List Err := es.pushAll []

/-- `Stack.Resolve` -/
def resolve : List Err → Option Err
  | [] => none
  | [x] => some x
  | xs => some (.stack (ErrList.ofErrs xs))

/-- `ers.Join(errs...)` -/
def join (es : ErrList) : Option Err := resolve (flatten es)

/-! independent description of what a supplied error contributes, in supply order -/
mutual
def Err.parts : Err → List Err
  | .stack cs => cs.partsAll
  | .unwinder _ cs => cs.partsAll
  | .multi _ cs => cs.partsAll
  | e@(.leaf _) => [e]
  | e@(.typed _ _) => [e]
  | e@(.wrap _ _) => [e]
def ErrList.partsAll : ErrList → List Err
  | .nil => []
  | .cons e r => e.parts ++ r.partsAll
  | .skip r => r.partsAll
end

/-! ### internal.Unwind -/
def Err.unwind : Err → List Err
  | .stack cs => cs.toList
  | .unwinder _ cs => cs.toList
  | .multi _ cs => cs.toList
  | e@(.wrap _ inner) => e :: inner.unwind
  | e@(.leaf _) => [e]
  | e@(.typed _ _) => [e]

def unwindOpt : Option Err → List Err
  | none => []
  | some e => e.unwind

/-- errors.Is / errors.As on a possibly-nil error -/
def isOpt (o : Option Err) (t : Nat) : Bool := match o with | none => false | some r => r.is t
def asOpt (o : Option Err) (ty : Nat) : Option Nat := match o with | none => none | some r => r.as ty

/-- `ers.Ok` on a non-nil error: only an empty `*Stack` says it is ok -/
def Err.okStack : Err → Bool
  | .stack cs => cs.toList.isEmpty
  | _ => false

/-- `ers.Wrap(err, annotation)`: `annot` is the fresh `errors.New` leaf -/
def wrapAnnot (e : Option Err) (annot : Nat) : Option Err :=
  match e with
  | none => none
  | some e => if e.okStack then none else join (.cons e (.cons (.leaf annot) .nil))

/-- ids reserved for the library's sentinels -/
def idRecoveredPanic : Nat := 1000
def idInvariant : Nat := 1001

/-- `ers.ParsePanic(r)` for r an error value (or nil) -/
def parsePanicErr (e : Option Err) : Option Err :=
  match e with
  | none => none
  | some e => join (.cons e (.cons (.leaf idRecoveredPanic) .nil))

/-- `Stack.Len` / `Collector.Len` after pushing `es` -/
def lenAfter (es : ErrList) : Nat := (flatten es).length

/-- the Collector's `Resolve`: nil iff empty, otherwise the stack itself (never the single item) -/
def collectorResolve (items : List Err) : Option Err :=
  if items.isEmpty then none else some (.stack (ErrList.ofErrs items))

/-- label printed for a node in observations -/
def Err.label : Err → String
  | .leaf id => s!"L{id}"
  | .typed ty id => s!"T{ty}.{id}"
  | .wrap id _ => s!"W{id}"
  | .multi id _ => s!"M{id}"
  | .unwinder id _ => s!"U{id}"
  | .stack _ => "S"

end FunModel
