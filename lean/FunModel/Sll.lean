/-! Pointer-level model of `dt.Stack` / `dt.Item` (C16). Mirrors dt/stack.go; `none` = nil-pointer panic. -/
namespace FunModel.Sll

structure Item where
  next : Option Nat := none
  stack : Option Nat := none
  ok : Bool := false
  value : Int := 0
  deriving Repr, DecidableEq, Inhabited

structure SHdr where
  head : Option Nat := none
  length : Int := 0
  deriving Repr, DecidableEq, Inhabited

structure Heap where
  item : Nat → Item := fun _ => {}
  hdr : Nat → SHdr := fun _ => {}
  ni : Nat := 0
  ns : Nat := 0

namespace Heap
def setItem (h : Heap) (a : Nat) (n : Item) : Heap := { h with item := fun i => if i = a then n else h.item i }
def setHdr (h : Heap) (s : Nat) (d : SHdr) : Heap := { h with hdr := fun i => if i = s then d else h.hdr i }
def alloc (h : Heap) (n : Item) : Heap × Nat := ({ h.setItem h.ni n with ni := h.ni + 1 }, h.ni)
def allocStack (h : Heap) : Heap × Nat := ({ h.setHdr h.ns {} with ns := h.ns + 1 }, h.ns)

/-- `lazyInit` -/
def lazyInit (h : Heap) (s : Nat) : Heap :=
  match (h.hdr s).head with
  | some _ => h
  | none =>
    let (h, a) := h.alloc { ok := false, stack := some s }
    h.setHdr s { head := some a, length := 0 }

/-- `Item.Append` (non-nil receiver) -/
def itemAppend (h : Heap) (it : Nat) (n : Option Nat) : Option (Heap × Nat) :=
  match n with
  | none => some (h, it)
  | some n =>
    match (h.item it).stack with
    | none => some (h, it)
    | some s =>
      if (h.item n).stack.isSome || !(h.item n).ok then some (h, it)
      else
        let h := h.lazyInit s
        let h := h.setItem n { h.item n with next := (h.hdr s).head, stack := some s }
        let h := h.setHdr s { head := some n, length := (h.hdr s).length + 1 }
        some (h, n)

/-- `Item.Remove` as repaired (non-head items are unlinked from their predecessor) -/
def removeLoop (h : Heap) (it : Nat) (s : Nat) (prev : Option Nat) (fuel : Nat) : Option (Heap × Bool) :=
  match fuel with
  | 0 => some (h, false)
  | fuel + 1 =>
    match prev with
    | none => some (h, false)
    | some p =>
      if (h.item p).ok then
        if (h.item p).next = some it then
          let h := h.setItem p { h.item p with next := (h.item it).next }
          let h := h.setHdr s { h.hdr s with length := (h.hdr s).length - 1 }
          some (h.setItem it { h.item it with stack := none }, true)
        else removeLoop h it s (h.item p).next fuel
      else some (h, false)

def itemRemove (h : Heap) (it : Nat) : Option (Heap × Bool) :=
  match (h.item it).stack with
  | none => some (h, false)
  | some s =>
    if !(h.item it).ok then some (h, false)
    else if (h.hdr s).head = some it then
      -- removing the head item: the length drops and the item forgets its stack, but the stack's
      -- head pointer is left alone (known finding: TestStack/Item/RemovingRoot asserts this)
      let h := h.setHdr s { h.hdr s with length := (h.hdr s).length - 1 }
      some (h.setItem it { h.item it with stack := none }, true)
    else removeLoop h it s (h.hdr s).head ((h.hdr s).length.toNat + 2)

/-- `Stack.Push` -/
def push (h : Heap) (s : Nat) (v : Int) : Option Heap := do
  let h := h.lazyInit s
  let hd ← (h.hdr s).head
  let (h, n) := h.alloc { ok := true, value := v }
  let (h, _) ← h.itemAppend hd (some n)
  pure h

/-- `Stack.Head` -/
def head (h : Heap) (s : Nat) : Heap × Option Nat :=
  let h := h.lazyInit s
  (h, (h.hdr s).head)

/-- `Stack.Pop` -/
def pop (h : Heap) (s : Nat) : Option (Heap × Nat) :=
  match (h.hdr s).head with
  | none =>
    let h := h.lazyInit s
    match (h.hdr s).head with
    | some a => some (h, a)
    | none => none
  | some hd =>
    if (h.hdr s).length = 0 then some (h, hd)
    else
      let h := h.setHdr s { h.hdr s with length := (h.hdr s).length - 1 }
      let h := h.setItem hd { h.item hd with stack := none }
      some (h.setHdr s { h.hdr s with head := (h.item hd).next }, hd)

/-- `Item.Set` -/
def itemSet (h : Heap) (it : Nat) (v : Int) : Heap × Bool :=
  if (h.item it).stack.isSome && (h.item it).next.isNone then (h, false)
  else (h.setItem it { h.item it with ok := true, value := v }, true)

/-- traversal `for i := s.Head(); i.Ok(); i = i.Next()` -/
def walk (h : Heap) (fuel : Nat) (cur : Option Nat) : List Nat × String :=
  match fuel with
  | 0 => ([], "cycle")
  | fuel + 1 =>
    match cur with
    | none => ([], "nil")
    | some e =>
      if (h.item e).ok then
        let (xs, t) := walk h fuel (h.item e).next
        (e :: xs, t)
      else ([], "end")

/-- `ProducerPop` run to EOF -/
def popIterLoop (h : Heap) (s : Nat) (fuel : Nat) (acc : List Nat) : Option (Heap × List Nat) :=
  match fuel with
  | 0 => some (h, acc.reverse)
  | fuel + 1 => do
    let (h, e) ← h.pop s
    if (h.hdr s).head = some e then pure (h, acc.reverse)
    else popIterLoop h s fuel (e :: acc)

end Heap
end FunModel.Sll
