/-! Sequential call-stream semantics of the function wrappers of `tychoish/fun` (C15).

    The wrapped function is *data*: a script of outcomes for its successive invocations
    (`World.script`); a wrapper is a state machine (`Mach`) built from the machine of the function
    it wraps, closure branch for closure branch as in worker.go / operation.go / producer.go /
    process.go / handler.go / future.go / ft/ft.go / adt/atomics.go.  A call takes the state of the
    context it is given and returns a result, the new private state of every closure in the
    stack, and the new world (script left, context state, trace of function/hook executions).

    Errors are what `ers` makes of them: a flat stack of atoms, most recent first (`[]` = nil);
    `ers.Join` re-pushes every operand's atoms in supply order, i.e. it *reverses* each operand.

    Time-based wrappers: `TTL(0)` is the identity and `TTL(d)` with `d` longer than the whole run
    (the harness uses one hour) is modelled (`ttlInf`); `Jitter/Delay/After` with a positive
    duration depend on the wall clock and with a cancelled context on the pseudo-random choice of
    `select` — they are left out. -/

namespace FunModel.Wrap

inductive Atom where
  | user (n : Nat)
  | eof | abort | skip | canceled | deadline
  | recovered      -- ers.ErrRecoveredPanic
  | invariant      -- ers.ErrInvariantViolation
  | other          -- an `errors.New(message)` leaf made by the library (invariant messages)
  deriving Repr, DecidableEq

/-- an error value: the atoms of the `*ers.Stack` (or the single error), most recent first; `[]` is nil -/
abbrev Err := List Atom

/-- `ers.Join(errs...)`: `Stack.Push` walks each operand from its head, so operands are reversed -/
def join (es : List Err) : Err := es.foldl (fun acc e => e.reverse ++ acc) []

/-- `ers.Is(err, targets...)` -/
def isAny (e : Err) (ts : List Atom) : Bool := e.any (fun a => decide (a ∈ ts))

def isTerminating (e : Err) : Bool := isAny e [.eof, .abort, .canceled, .deadline]
def isExpired (e : Err) : Bool := isAny e [.canceled, .deadline]
def isSkip (e : Err) : Bool := isAny e [.skip]
def isEOF (e : Err) : Bool := isAny e [.eof]

/-- `ers.ParsePanic(r)` for a recovered error value `p` -/
def parsePanic (p : Err) : Err := join [p, [.recovered]]

inductive Res where
  | ret (v : Int) (e : Err)
  | panic (p : Err)          -- the panic value is an error
  deriving Repr, DecidableEq

def Res.zero : Res := .ret 0 []

inductive Kind where
  | worker | operation | producer | processor | handler | future
  deriving Repr, DecidableEq

/-- what a function of this type can return -/
def Kind.proj : Kind → Res → Res
  | _, .panic p => .panic p
  | .worker, .ret _ e => .ret 0 e
  | .processor, .ret _ e => .ret 0 e
  | .operation, .ret _ _ => .ret 0 []
  | .handler, .ret _ _ => .ret 0 []
  | .producer, .ret v e => .ret v e
  | .future, .ret v _ => .ret v []

def Kind.hasArg : Kind → Bool
  | .processor | .handler => true
  | _ => false

inductive Ev where
  | fn (id : Nat) (arg : Int)      -- scripted function `id` begins
  | fnret (id : Nat) (r : Res)     -- … and ends
  | call (layer : Nat)             -- probe between two wrapper layers: call enters layer
  | ret (layer : Nat) (r : Res)
  deriving Repr, DecidableEq

structure Step where
  res : Res := .zero
  cancel : Bool := false           -- the function cancels the (global) context before it returns
  deriving Repr, DecidableEq

structure World where
  script : List Step := []
  gc : Bool := false               -- the global context is cancelled
  trace : List Ev := []            -- most recent first
  deriving Repr

structure Out (σ : Type) where
  res : Res
  st : σ
  w : World

/-- a function value with the private state of its closures. `call st dead arg w`: `dead` = the
    context handed to the call is already cancelled independently of the global one (so the
    call's context is done iff `dead || w.gc`). `cancel` runs every `WithCancel` cancel function
    of the stack. -/
structure Mach where
  σ : Type
  init : σ
  call : σ → Bool → Int → World → Out σ
  cancel : σ → σ := id

def done (dead : Bool) (w : World) : Bool := dead || w.gc

/-! ### the scripted function -/
def popScript (w : World) : Step × List Step :=
  match w.script with
  | [] => ({}, [])
  | s :: r => (s, r)

def base (k : Kind) (id : Nat) : Mach where
  σ := Unit
  init := ()
  call := fun _ _ arg w =>
    let a := if k.hasArg then arg else 0
    let (s, rest) := popScript w
    let r := k.proj s.res
    { res := r, st := (), w := { script := rest, gc := w.gc || s.cancel, trace := .fnret id r :: .fn id a :: w.trace } }

/-- transparent probe between layers -/
def probe (layer : Nat) (f : Mach) : Mach where
  σ := f.σ
  init := f.init
  call := fun s dead arg w =>
    let o := f.call s dead arg { w with trace := .call layer :: w.trace }
    { o with w := { o.w with trace := .ret layer o.res :: o.w.trace } }
  cancel := f.cancel

/-- recorder of the results of every execution (specification device, not a wrapper of the
    library): the log holds the results of the calls made to `f`, latest first -/
def logged (f : Mach) : Mach where
  σ := List Res × f.σ
  init := ([], f.init)
  call := fun (l, s) dead arg w =>
    let o := f.call s dead arg w
    { res := o.res, st := (o.res :: l, o.st), w := o.w }
  cancel := fun (l, s) => (l, f.cancel s)

/-! ### Once (worker.go:157, operation.go:59, producer.go:249, process.go:225, handler.go Once,
    future.go Once = ft.OnceDo = adt.Mnemonize, ft.Once) -/

structure OnceSt where
  fired : Bool := false            -- sync.Once.done
  cache : Res := .zero             -- the captured `err` / `out, err` / `cache` variables
  deriving Repr, DecidableEq

/-- which part of the execution's result the closure stores -/
def Kind.cache : Kind → Res → Res
  | .worker, .ret _ e => .ret 0 e
  | .processor, .ret _ e => .ret 0 e
  | .producer, .ret v e => .ret v e
  | .future, .ret v _ => .ret v []
  | .operation, _ => .zero
  | .handler, _ => .zero
  | _, .panic _ => .zero

def once (k : Kind) (f : Mach) : Mach where
  σ := OnceSt × f.σ
  init := ({}, f.init)
  call := fun (o, s) dead arg w =>
    if o.fired then { res := o.cache, st := (o, s), w := w }       -- Do is a no-op; return the captured variables
    else
      let r := f.call s dead arg w
      match r.res with
      -- sync.Once marks itself done even when f panics; the variables keep their zero value
      | .panic p => { res := .panic p, st := ({ o with fired := true }, r.st), w := r.w }
      | .ret v e =>
        let c := k.cache (.ret v e)
        { res := c, st := ({ fired := true, cache := c }, r.st), w := r.w }
  cancel := fun (o, s) => (o, f.cancel s)

/-! ### Limit: `limitExec` (process.go:403) and `Operation.Limit` (operation.go:181) -/

structure LimitSt where
  counter : Nat := 0
  output : Res := .zero
  deriving Repr, DecidableEq

/-- `limitExec(n)` for n > 0 (the constructor panics otherwise, see `build`) -/
def limit (n : Nat) (f : Mach) : Mach where
  σ := LimitSt × f.σ
  init := ({}, f.init)
  call := fun (l, s) dead arg w =>
    if l.counter == n then { res := l.output, st := (l, s), w := w }          -- CAS(n, n) fast path
    else
      -- mtx.Lock(); defer mtx.Unlock()
      let num := l.counter
      if num < n then
        let r := f.call s dead arg w
        match r.res with
        | .panic p => { res := .panic p, st := (l, r.st), w := r.w }            -- nothing stored, mutex released
        | .ret v e => { res := .ret v e, st := ({ counter := min n (num + 1), output := .ret v e }, r.st), w := r.w }
      else { res := l.output, st := (l, s), w := w }
  cancel := fun (l, s) => (l, f.cancel s)

/-- `Operation.Limit(n)` = `wf.Worker().When(casLoop).Ignore()` -/
def opLimit (n : Nat) (f : Mach) : Mach where
  σ := Nat × f.σ
  init := (0, f.init)
  call := fun (c, s) dead arg w =>
    if c ≥ n then { res := .zero, st := (c, s), w := w }
    else
      let r := f.call s dead arg w
      match r.res with
      | .panic p => { res := .panic p, st := (c + 1, r.st), w := r.w }
      | .ret _ _ => { res := .zero, st := (c + 1, r.st), w := r.w }
  cancel := fun (c, s) => (c, f.cancel s)

/-! ### TTL with a duration longer than the run: `ttlExec` (process.go:427); TTL(0) is `f` itself -/
structure TtlSt where
  has : Bool := false              -- !lastAt.IsZero()
  output : Res := .zero
  deriving Repr, DecidableEq

def ttlInf (k : Kind) (f : Mach) : Mach where
  σ := TtlSt × f.σ
  init := ({}, f.init)
  call := fun (t, s) dead arg w =>
    if t.has then { res := t.output, st := (t, s), w := w }
    else
      let r := f.call s dead arg w
      match r.res with
      | .panic p => { res := .panic p, st := (t, r.st), w := r.w }
      | .ret v e =>
        -- Operation.TTL stores `true`, the others the result
        let c := if k = .operation then Res.zero else .ret v e
        { res := c, st := ({ has := true, output := c }, r.st), w := r.w }
  cancel := fun (t, s) => (t, f.cancel s)

/-! ### Lock / WithLock: sequentially the identity (the deferred Unlock also runs on a panic) -/
def lock (f : Mach) : Mach := f

/-! ### Retry (worker.go:436-455, producer.go:410-429; Processor.Retry = Worker(in).Retry) -/

/-- the loop of `Worker.Retry` with `i` iterations left and `err` aggregated so far -/
def retryW (f : Mach) (dead : Bool) (arg : Int) : Nat → Err → f.σ → World → Out f.σ
  | 0, err, s, w => { res := .ret 0 err, st := s, w := w }
  | i + 1, err, s, w =>
    let r := f.call s dead arg w
    match r.res with
    | .panic p => { res := .panic p, st := r.st, w := r.w }
    | .ret _ e =>
      if e = [] then { res := .ret 0 [], st := r.st, w := r.w }
      else if isExpired e then { res := .ret 0 (join [e, err]), st := r.st, w := r.w }
      else if isSkip e then retryW f dead arg i err r.st r.w
      else if isTerminating e then { res := .ret 0 [], st := r.st, w := r.w }
      else retryW f dead arg i (join [e, err]) r.st r.w

/-- the loop of `Producer.Retry` -/
def retryP (f : Mach) (dead : Bool) (arg : Int) : Nat → Err → f.σ → World → Out f.σ
  | 0, err, s, w => { res := .ret 0 err, st := s, w := w }
  | i + 1, err, s, w =>
    let r := f.call s dead arg w
    match r.res with
    | .panic p => { res := .panic p, st := r.st, w := r.w }
    | .ret v e =>
      if e = [] then { res := .ret v [], st := r.st, w := r.w }
      else if isTerminating e then { res := .ret 0 (join [e, err]), st := r.st, w := r.w }
      else if isSkip e then retryP f dead arg i err r.st r.w
      else retryP f dead arg i (join [e, err]) r.st r.w

def retry (k : Kind) (n : Nat) (f : Mach) : Mach where
  σ := f.σ
  init := f.init
  call := fun s dead arg w =>
    if k = .producer then retryP f dead arg n [] s w else retryW f dead arg n [] s w
  cancel := f.cancel

/-! ### Join -/

/-- `Worker.merge` / `Processor.merge`: run `f`; on an error return it; otherwise run `g` only if the
    context is still live (`next.If(ctx.Err() == nil)`), else nil -/
def mergeW (f g : Mach) : Mach where
  σ := f.σ × g.σ
  init := (f.init, g.init)
  call := fun (s, t) dead arg w =>
    let r := f.call s dead arg w
    match r.res with
    | .panic p => { res := .panic p, st := (r.st, t), w := r.w }
    | .ret _ e =>
      if e ≠ [] then { res := .ret 0 e, st := (r.st, t), w := r.w }
      else if done dead r.w then { res := .zero, st := (r.st, t), w := r.w }
      else
        let q := g.call t dead arg r.w
        { res := q.res, st := (r.st, q.st), w := q.w }
  cancel := fun (s, t) => (f.cancel s, g.cancel t)

/-- `Operation.merge`: `wf(ctx); next.If(ctx.Err() == nil).Run(ctx)` -/
def mergeO (f g : Mach) : Mach where
  σ := f.σ × g.σ
  init := (f.init, g.init)
  call := fun (s, t) dead arg w =>
    let r := f.call s dead arg w
    match r.res with
    | .panic p => { res := .panic p, st := (r.st, t), w := r.w }
    | .ret _ _ =>
      if done dead r.w then { res := .zero, st := (r.st, t), w := r.w }
      else
        let q := g.call t dead arg r.w
        match q.res with
        | .panic p => { res := .panic p, st := (r.st, q.st), w := q.w }
        | .ret _ _ => { res := .zero, st := (r.st, q.st), w := q.w }
  cancel := fun (s, t) => (f.cancel s, g.cancel t)

/-- `Handler.Join(next)`: `of(in); next(in)` -/
def mergeH (f g : Mach) : Mach where
  σ := f.σ × g.σ
  init := (f.init, g.init)
  call := fun (s, t) dead arg w =>
    let r := f.call s dead arg w
    match r.res with
    | .panic p => { res := .panic p, st := (r.st, t), w := r.w }
    | .ret _ _ =>
      let q := g.call t dead arg r.w
      match q.res with
      | .panic p => { res := .panic p, st := (r.st, q.st), w := q.w }
      | .ret _ _ => { res := .zero, st := (r.st, q.st), w := q.w }
  cancel := fun (s, t) => (f.cancel s, g.cancel t)

/-- one step of `Future.Join(merge, ops...)` with `merge = (+)`: `out = merge(out, op())` -/
def mergeF (f g : Mach) : Mach where
  σ := f.σ × g.σ
  init := (f.init, g.init)
  call := fun (s, t) dead arg w =>
    let r := f.call s dead arg w
    match r.res with
    | .panic p => { res := .panic p, st := (r.st, t), w := r.w }
    | .ret v _ =>
      let q := g.call t dead arg r.w
      match q.res with
      | .panic p => { res := .panic p, st := (r.st, q.st), w := q.w }
      | .ret v' _ => { res := .ret (v + v') [], st := (r.st, q.st), w := q.w }
  cancel := fun (s, t) => (f.cancel s, g.cancel t)

/-- `Producer.Join(next)` (producer.go:107-173): first producer until io.EOF, then the second;
    stage 0 runFirst, 1 firstErrored, 2 runSecond, 3 secondErrored, 4 eof -/
structure PJoinSt where
  stage : Nat := 0
  ferr : Err := []
  serr : Err := []
  deriving Repr, DecidableEq

/-- the RETRY_SECOND loop; `fuel` bounds the number of consecutive ErrIteratorSkip results (the Go
    loop is unbounded; exhausting the fuel is reported as a panic with `other`) -/
def pjoinSecond (g : Mach) (dead : Bool) (arg : Int) : Nat → PJoinSt → g.σ → World → Out (PJoinSt × g.σ)
  | 0, j, t, w => { res := .panic [.other], st := (j, t), w := w }
  | fuel + 1, j, t, w =>
    let q := g.call t dead arg w
    match q.res with
    | .panic p => { res := .panic p, st := (j, q.st), w := q.w }
    | .ret v e =>
      if e = [] then { res := .ret v [], st := (j, q.st), w := q.w }
      else if isSkip e then pjoinSecond g dead arg fuel j q.st q.w
      else if !isEOF e then { res := .ret 0 e, st := ({ j with serr := e, stage := 3 }, q.st), w := q.w }
      else { res := .ret 0 e, st := ({ j with stage := 4 }, q.st), w := q.w }

def pjoinFirst (f g : Mach) (dead : Bool) (arg : Int) : Nat → PJoinSt → f.σ → g.σ → World → Out (PJoinSt × f.σ × g.σ)
  | 0, j, s, t, w => { res := .panic [.other], st := (j, s, t), w := w }
  | fuel + 1, j, s, t, w =>
    let r := f.call s dead arg w
    match r.res with
    | .panic p => { res := .panic p, st := (j, r.st, t), w := r.w }
    | .ret v e =>
      if e = [] then { res := .ret v [], st := (j, r.st, t), w := r.w }
      else if isSkip e then pjoinFirst f g dead arg fuel j r.st t r.w
      else if !isEOF e then { res := .ret 0 e, st := ({ j with ferr := e, stage := 1 }, r.st, t), w := r.w }
      else
        let q := pjoinSecond g dead arg 256 { j with stage := 2 } t r.w
        { res := q.res, st := (q.st.1, r.st, q.st.2), w := q.w }

def joinP (f g : Mach) : Mach where
  σ := PJoinSt × f.σ × g.σ
  init := ({}, f.init, g.init)
  call := fun (j, s, t) dead arg w =>
    if j.stage = 3 then { res := .ret 0 j.serr, st := (j, s, t), w := w }
    else if j.stage = 1 then { res := .ret 0 j.ferr, st := (j, s, t), w := w }
    else if j.stage = 0 then pjoinFirst f g dead arg 256 j s t w
    else if j.stage = 2 then
      let q := pjoinSecond g dead arg 256 j t w
      { res := q.res, st := (q.st.1, s, q.st.2), w := q.w }
    else { res := .ret 0 [.eof], st := (j, s, t), w := w }
  cancel := fun (j, s, t) => (j, f.cancel s, g.cancel t)

def merge (k : Kind) (f g : Mach) : Mach :=
  match k with
  | .worker | .processor => mergeW f g
  | .operation => mergeO f g
  | .handler => mergeH f g
  | .future => mergeF f g
  | .producer => joinP f g

/-! ### PreHook / PostHook. `h` is the hook (an Operation / `func()` / Handler). -/

/-- `ers.WithRecoverCall(hook)` -/
def hookErr : Res → Err
  | .panic p => parsePanic p
  | .ret _ _ => []

def preHook (k : Kind) (f h : Mach) : Mach where
  σ := f.σ × h.σ
  init := (f.init, h.init)
  call := fun (s, t) dead arg w =>
    let q := h.call t dead arg w
    match k with
    | .worker | .processor =>
      -- ers.Join(ers.WithRecoverCall(op), wf(ctx))
      let r := f.call s dead arg q.w
      match r.res with
      | .panic p => { res := .panic p, st := (r.st, q.st), w := r.w }
      | .ret _ e => { res := .ret 0 (join [hookErr q.res, e]), st := (r.st, q.st), w := r.w }
    | .producer =>
      -- e := WithRecoverCall(op); out, err = pf(ctx); return out, ers.Join(err, e)
      let r := f.call s dead arg q.w
      match r.res with
      | .panic p => { res := .panic p, st := (r.st, q.st), w := r.w }
      | .ret v e => { res := .ret v (join [e, hookErr q.res]), st := (r.st, q.st), w := r.w }
    | .operation | .handler | .future =>
      -- hook(c); wf(c): no recover
      match q.res with
      | .panic p => { res := .panic p, st := (s, q.st), w := q.w }
      | .ret _ _ =>
        let r := f.call s dead arg q.w
        { res := r.res, st := (r.st, q.st), w := r.w }
  cancel := fun (s, t) => (f.cancel s, h.cancel t)

def postHook (k : Kind) (f h : Mach) : Mach where
  σ := f.σ × h.σ
  init := (f.init, h.init)
  call := fun (s, t) dead arg w =>
    let r := f.call s dead arg w
    match k with
    | .worker | .processor =>
      -- ers.Join(ft.Flip(wf(ctx), ers.WithRecoverCall(op))): a panic of wf skips the hook
      match r.res with
      | .panic p => { res := .panic p, st := (r.st, t), w := r.w }
      | .ret _ e =>
        let q := h.call t dead arg r.w
        { res := .ret 0 (join [hookErr q.res, e]), st := (r.st, q.st), w := q.w }
    | .producer =>
      match r.res with
      | .panic p => { res := .panic p, st := (r.st, t), w := r.w }
      | .ret v e =>
        let q := h.call t dead arg r.w
        { res := .ret v (join [hookErr q.res, e]), st := (r.st, q.st), w := q.w }
    | .operation | .future | .handler =>
      -- defer hook(); wf(ctx): the hook runs also when wf panics; a panicking hook wins
      let q := h.call t dead arg r.w
      match q.res with
      | .panic p => { res := .panic p, st := (r.st, q.st), w := q.w }
      | .ret _ _ => { res := r.res, st := (r.st, q.st), w := q.w }
  cancel := fun (s, t) => (f.cancel s, h.cancel t)

/-! ### WithCancel (worker.go:329, operation.go:46, producer.go:357, process.go:274) -/
structure CancelSt where
  fired : Bool := false                 -- the sync.Once
  wctx : Option Bool := none            -- some parentDead once derived
  cancelled : Bool := false             -- the cancel function has been called on a derived context
  deriving Repr, DecidableEq

def withCancel (k : Kind) (f : Mach) : Mach where
  σ := CancelSt × f.σ
  init := ({}, f.init)
  call := fun (c, s) dead arg w =>
    let c := if c.fired then c else { c with fired := true, wctx := some dead }
    match c.wctx with
    | none =>
      -- the cancel function ran before the first call: Worker/Operation/Processor panic with an
      -- invariant violation; a Producer (the one every iterator is built on) reports context.Canceled
      if k = .producer then { res := .ret 0 [.canceled], st := (c, s), w := w }
      else { res := .panic [.invariant, .other], st := (c, s), w := w }
    | some pd =>
      let r := f.call s (pd || c.cancelled) arg w
      { res := r.res, st := (c, r.st), w := r.w }
  cancel := fun (c, s) =>
    -- once.Do(func() {}); ft.SafeCall(cancel)
    ({ c with fired := true, cancelled := c.cancelled || c.wctx.isSome }, f.cancel s)

/-! ### If / When -/
def whenW (k : Kind) (conds : List Bool) (f : Mach) : Mach where
  σ := List Bool × f.σ                    -- the condition function's successive answers (true when exhausted)
  init := (conds, f.init)
  call := fun (cs, s) dead arg w =>
    let (c, rest) := match cs with | [] => (true, []) | c :: r => (c, r)
    if c then
      let r := f.call s dead arg w
      match k, r.res with
      | .operation, .ret _ _ => { res := .zero, st := (rest, r.st), w := r.w }
      | _, res => { res := res, st := (rest, r.st), w := r.w }
    else { res := .zero, st := (rest, s), w := w }
  cancel := fun (cs, s) => (cs, f.cancel s)

/-- `If(cond)` = `When(ft.Wrapper(cond))` -/
def ifW (k : Kind) (c : Bool) (f : Mach) : Mach where
  σ := f.σ
  init := f.init
  call := fun s dead arg w =>
    if c then
      let r := f.call s dead arg w
      match k, r.res with
      | .operation, .ret _ _ => { res := .zero, st := r.st, w := r.w }
      | _, res => { res := res, st := r.st, w := r.w }
    else { res := .zero, st := s, w := w }
  cancel := f.cancel

/-! ### WithRecover (Worker, Producer, Processor) -/
def recover (f : Mach) : Mach where
  σ := f.σ
  init := f.init
  call := fun s dead arg w =>
    let r := f.call s dead arg w
    match r.res with
    -- defer func() { err = ers.Join(err, ers.ParsePanic(recover())) }()
    | .panic p => { res := .ret 0 (join [[], parsePanic p]), st := r.st, w := r.w }
    | .ret v e => { res := .ret v (join [e, []]), st := r.st, w := r.w }
  cancel := f.cancel

/-! ### adt.Once (adt/atomics.go:38-91): Do(ctor) / Resolve() / Set(ctor) / Called() / Defined() -/
structure AdtOnce where
  ctor : Option Nat := none        -- id of the stored constructor function
  fired : Bool := false
  called : Bool := false
  defined : Bool := false
  comp : Int := 0
  deriving Repr, DecidableEq

inductive AdtOp where
  | doIt (id : Nat) | resolve | set (id : Nat) | called | defined
  deriving Repr, DecidableEq

/-- populate(): called.Store(true); comp = SafeDo(ctor.Get()); ctor.Set(nil) -/
def AdtOnce.populate (o : AdtOnce) (w : World) : Res × AdtOnce × World :=
  let o := { o with called := true, fired := true }
  match o.ctor with
  | none => (.zero, { o with ctor := none }, w)
  | some id =>
    let r := (base .future id).call () false 0 w
    match r.res with
    | .panic p => (.panic p, o, r.w)                        -- comp and ctor untouched, the sync.Once is done
    | .ret v _ => (.zero, { o with comp := v, ctor := none }, r.w)

def AdtOnce.step (o : AdtOnce) (w : World) : AdtOp → Res × AdtOnce × World
  | .doIt id =>
    if o.fired then (.zero, o, w)
    else ({ o with ctor := some id, defined := true }).populate w
  | .resolve =>
    if o.fired then (.ret o.comp [], o, w)
    else
      let (r, o', w') := o.populate w
      match r with
      | .panic p => (.panic p, o', w')
      | .ret _ _ => (.ret o'.comp [], o', w')
  | .set id =>
    if o.called then (.zero, o, w) else (.zero, { o with defined := true, ctor := some id }, w)
  | .called => (.ret (if o.called then 1 else 0) [], o, w)
  | .defined => (.ret (if o.defined then 1 else 0) [], o, w)

/-! ### running a call sequence -/
inductive CallOp where
  | call (arg : Int)          -- with the global context
  | callDead (arg : Int)      -- with a context that is already cancelled
  | cancel                    -- cancel the global context
  | wcancel                   -- call the cancel functions returned by WithCancel
  deriving Repr, DecidableEq

def runOps (m : Mach) : m.σ → World → List CallOp → List Res → List Res × m.σ × World
  | s, w, [], acc => (acc.reverse, s, w)
  | s, w, .call a :: ops, acc => let o := m.call s false a w; runOps m o.st o.w ops (o.res :: acc)
  | s, w, .callDead a :: ops, acc => let o := m.call s true a w; runOps m o.st o.w ops (o.res :: acc)
  | s, w, .cancel :: ops, acc => runOps m s { w with gc := true } ops acc
  | s, w, .wcancel :: ops, acc => runOps m (m.cancel s) w ops acc

def run (m : Mach) (script : List Step) (ops : List CallOp) : List Res × m.σ × World :=
  runOps m m.init { script := script } ops []

/-- how often scripted function `id` was invoked according to the trace -/
def invocations (id : Nat) (tr : List Ev) : Nat :=
  (tr.filter (fun e => match e with | .fn i _ => i == id | _ => false)).length

/-! ### building a stack from its description (innermost wrapper first) -/
inductive WSpec where
  | once | limit (n : Int) | ttl0 | ttlInf | lock | retry (n : Nat)
  | join (parts : Nat) | preHook | postHook | withCancel | ifc (c : Bool) | when (cs : List Bool) | recover
  deriving Repr, DecidableEq

/-- ids of the scripted functions: 0 is the wrapped function, `10*layer + j` the hook / j-th joined part of a layer -/
def partId (layer j : Nat) : Nat := 10 * layer + j

def applyW (k : Kind) (layer : Nat) (f : Mach) : WSpec → Except Err Mach
  | .once => .ok (once k f)
  | .limit n =>
    -- Invariant.IsTrue(in > 0, "limit must be greater than zero;", in) panics in the constructor
    if n ≤ 0 then .error [.other, .invariant]
    else if k = .operation then .ok (opLimit n.toNat f) else .ok (limit n.toNat f)
  | .ttl0 => .ok f
  | .ttlInf => .ok (ttlInf k f)
  | .lock => .ok (lock f)
  | .retry n => .ok (retry k n f)
  | .join parts =>
    .ok ((List.range parts).foldl (fun acc j => merge k acc (base k (partId layer (j + 1)))) f)
  | .preHook =>
    -- Handler.PreHook(prev) = prev.Join(of); the others take an Operation / func()
    if k = .handler then .ok (mergeH (base .handler (partId layer 1)) f)
    else .ok (preHook k f (base .operation (partId layer 1)))
  | .postHook => .ok (postHook k f (base .operation (partId layer 1)))
  | .withCancel => .ok (withCancel k f)
  | .ifc c => .ok (ifW k c f)
  | .when cs => .ok (whenW k cs f)
  | .recover => .ok (recover f)

def buildFrom (k : Kind) : Nat → Mach → List WSpec → Except Err Mach
  | _, f, [] => .ok f
  | layer, f, s :: rest =>
    match applyW k layer f s with
    | .error e => .error e
    | .ok g => buildFrom k (layer + 1) (probe layer g) rest

def build (k : Kind) (specs : List WSpec) : Except Err Mach :=
  buildFrom k 1 (probe 0 (base k 0)) specs

end FunModel.Wrap
