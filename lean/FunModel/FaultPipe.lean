import FunModel.ErrPolicy

/-! C03 (ii): the worker group with failing user functions.

    One model for `Iterator.ProcessParallel` (hence `itertool.ParallelForEach/Process/Worker`),
    `Transform.ProcessParallel` (= `fun.Map`, `itertool.Map`) and `Producer.GenerateParallel`
    (= `itertool.Generate`), on the tree with the D10 repair and the D11 repair for Map/GenerateParallel:

    * a *reader* goroutine (`Split`) moves items from the source into an unbuffered pipe
      (`read`, then the rendezvous `handoff w`); it checks its context before every read, so a
      cancelled group reads nothing new, and a blocked send may lose against `ctx.Done()` (`drop`);
      it closes the pipe when it returns (`rdExit`);
    * worker `w` (`Processor.ReadAll`) receives an item (`handoff`), calls the user function
      (`start w` … `finish w`) and loops; it returns when the pipe is closed or its context is
      cancelled (`exit w`).  A worker blocked in the receive `select` may still win an item after
      the cancellation, so `handoff` stays enabled when the group is cancelled;
    * `finish w` is everything the worker does with the result of the user function, taken as one
      step: `WithRecover` turns a panic into `Join(payload, ErrRecoveredPanic)`;
      `CanContinueOnError` (the decision table of `FunModel.ErrPolicy`) hands the error to the
      collector or not and says whether this worker goes on; if it does not, the worker returns
      (`io.EOF` ends its `ReadAll`).  Whether it also **cancels the group** depends on the construct
      (`Cfg.groupCancel`):
        - `Map` (`Transform.ProcessParallel`) and `GenerateParallel` do (D11 repair c9331e6): the
          statement right after the processor / `CanContinueOnError` said "stop".  For the generator,
          whose "item" is one call of the producer, a plain `io.EOF` (an exhausted generator) ends
          the worker without cancelling, because other workers may hold values not yet delivered;
        - `Iterator.ProcessParallel` and everything built on it (`itertool.ParallelForEach`,
          `Process`, `Worker`) does NOT: the observer meant to cancel never fires because `ReadAll`
          maps io.EOF to nil, and the unedited test TestParallelForEach/AbortOnPanic asserts that
          the item after the failure is still processed, so this stays as it is (open finding
          `ProcessParallel-family:abort-does-not-cancel-group`): the failing worker stops, the
          others go on to the end of the input.
      Modelling assumption: this result handling is atomic with respect to the other goroutines'
      `start`s (the harness makes the same thing observable by holding new starts after a failing
      call returned until the cancellation is visible in the context it was given).

    For the generator the reader is the shared call counter (a call index is "read" and handed to
    the calling worker); `drop` never happens there, so the model over-approximates.

    The output stage of `Map`/`GenerateParallel` (send of the produced value to the consumer) is not
    part of this model: C03 is about which items the user function was run on and what is reported
    (delivery of outputs is C01's subject). -/

namespace FunModel.FaultPipe
open FunModel

/-- what the user function does on an item -/
inductive Outcome
  | ok
  | err (e : Err)        -- returns the error `e` (skip / EOF / abort / context errors are such `e`)
  | panic (p : Err)      -- panics; `p` is the error `ers.ParsePanic` makes of the payload (the error
                         -- itself, `ers.New(string)`, or the `fmt.Errorf("[%T]: %v")` leaf)
  | panicSlice (es : ErrList)  -- panics with a `[]error` payload: ParsePanic returns `ers.Join(es...)`
                         -- WITHOUT ErrRecoveredPanic (ers/panic.go; an existing test pins this)
  deriving Inhabited

/-- the error the worker sees once `WithRecover` has run -/
def Outcome.result : Outcome → Option Err
  | .ok => none
  | .err e => some e
  | .panic p => parsePanicErr (some p)
  | .panicSlice es => join es

def Outcome.isPanic : Outcome → Bool
  | .panic _ => true
  | .panicSlice _ => true
  | _ => false

structure Cfg where
  conf : Conf
  n : Nat                   -- NumWorkers
  gen : Bool                -- GenerateParallel: a plain io.EOF does not cancel the group
  groupCancel : Bool        -- a stopping result cancels the group context: true for Map and
                            -- GenerateParallel, false for the ProcessParallel family
  recovers : Bool           -- the user function is wrapped in WithRecover (true for all constructs)
  excluded : List Nat       -- ids of the errors in ExcludedErrors
  outcome : Nat → Outcome

def Cfg.cls (c : Cfg) (x : Nat) : ErrClass := classify c.excluded (c.outcome x).result
def Cfg.dec (c : Cfg) (x : Nat) : Decision := canContinue c.conf (c.cls x)
/-- the worker goes on after item `x` -/
def Cfg.cont (c : Cfg) (x : Nat) : Bool := (c.dec x).cont
/-- the result of item `x` is handed to the ErrorHandler -/
def Cfg.reports (c : Cfg) (x : Nat) : Bool := (c.dec x).reports != 0
/-- item `x` ends in a result after which the group ought to stop: the worker may not continue,
    and it is not the plain io.EOF of an exhausted generator -/
def Cfg.stops (c : Cfg) (x : Nat) : Bool :=
  !c.cont x && !(c.gen && (c.cls x).isEOF && !(c.cls x).hadPanic)
/-- finishing item `x` cancels the group -/
def Cfg.cancels (c : Cfg) (x : Nat) : Bool := c.groupCancel && c.stops x

inductive WSt
  | idle                 -- in `ReadOne` of its split: context check passed, blocked in the receive select
  | holding (x : Nat)    -- received `x`, user function not yet entered
  | busy (x : Nat)       -- inside the user function
  | done                 -- returned (wg.Done)
  deriving DecidableEq, Repr, Inhabited

inductive Ev
  | start (x w : Nat)    -- worker `w` entered the user function on `x`
  | fin (x w : Nat)      -- worker `w` is through with `x` (user function returned, result handled)
  | dropped (x : Nat)    -- the reader gave up sending `x` after the cancellation
  deriving DecidableEq, Repr, Inhabited

structure St where
  src : List Nat         -- not yet read from the source
  rd : Option Nat        -- the reader holds an item, blocked sending it
  rdDone : Bool          -- reader returned, pipe closed
  ws : List WSt
  cancelled : Bool       -- the group context
  coll : List Nat        -- items whose result was handed to the ErrorHandler, most recent first
  escaped : Bool         -- a panic left the user function without being recovered
  log : List Ev          -- most recent first
  deriving Repr, Inhabited

inductive Act
  | read | handoff (w : Nat) | drop | rdExit | start (w : Nat) | finish (w : Nat) | exit (w : Nat)
  deriving DecidableEq, Repr, Inhabited

def step (c : Cfg) (s : St) : Act → Option St
  | .read =>
    match s.src, s.rd, s.rdDone, s.cancelled with
    | x :: xs, none, false, false => some { s with src := xs, rd := some x }
    | _, _, _, _ => none
  | .handoff w =>
    match s.rd, s.ws[w]? with
    | some x, some .idle => some { s with rd := none, ws := s.ws.set w (.holding x) }
    | _, _ => none
  | .drop =>
    match s.rd, s.cancelled, s.rdDone with
    | some x, true, false => some { s with rd := none, rdDone := true, log := .dropped x :: s.log }
    | _, _, _ => none
  | .rdExit =>
    match s.rd, s.rdDone with
    | none, false => if s.src.isEmpty || s.cancelled then some { s with rdDone := true } else none
    | _, _ => none
  | .start w =>
    match s.ws[w]? with
    | some (.holding x) => some { s with ws := s.ws.set w (.busy x), log := .start x w :: s.log }
    | _ => none
  | .finish w =>
    match s.ws[w]? with
    | some (.busy x) =>
      if (c.outcome x).isPanic && !c.recovers then
        some { s with ws := s.ws.set w .done, escaped := true }
      else
        some { s with ws := s.ws.set w (if c.cont x then .idle else .done),
                      cancelled := s.cancelled || c.cancels x,
                      coll := if c.reports x then x :: s.coll else s.coll,
                      log := .fin x w :: s.log }
    | _ => none
  | .exit w =>
    match s.ws[w]? with
    | some .idle => if s.cancelled || s.rdDone then some { s with ws := s.ws.set w .done } else none
    | _ => none

def init (c : Cfg) (input : List Nat) : St :=
  { src := input, rd := none, rdDone := false, ws := List.replicate c.n .idle, cancelled := false,
    coll := [], escaped := false, log := [] }

def run (c : Cfg) (s : St) (acts : List Act) : Option St := acts.foldlM (step c) s

def Reachable (c : Cfg) (input : List Nat) (s : St) : Prop := ∃ acts, run c (init c input) acts = some s

/-- every goroutine has returned -/
def Terminal (s : St) : Prop := s.rdDone = true ∧ ∀ w ∈ s.ws, w = .done

instance (s : St) : Decidable (Terminal s) := by unfold Terminal; infer_instance

/-! ### what is read off a log (most recent first) -/

def starts : List Ev → List Nat
  | [] => []
  | .start x _ :: l => x :: starts l
  | _ :: l => starts l

def fins : List Ev → List Nat
  | [] => []
  | .fin x _ :: l => x :: fins l
  | _ :: l => fins l

def droppedItems : List Ev → List Nat
  | [] => []
  | .dropped x :: l => x :: droppedItems l
  | _ :: l => droppedItems l

def isCancelFin (c : Cfg) : Ev → Bool
  | .fin x _ => c.cancels x
  | _ => false

def isStopFin (c : Cfg) : Ev → Bool
  | .fin x _ => c.stops x
  | _ => false

/-- worker `w` has finished an item after which it may not go on -/
def stoppedIn (c : Cfg) (w : Nat) : List Ev → Bool
  | [] => false
  | .fin y w' :: l => (w' == w && !c.cont y) || stoppedIn c w l
  | _ :: l => stoppedIn c w l

/-- no worker starts an item after it finished one that does not allow it to continue -/
def workerStops (c : Cfg) : List Ev → Bool
  | [] => true
  | .start _ w :: l => !stoppedIn c w l && workerStops c l
  | _ :: l => workerStops c l

/-- number of `start`s that happened after the first group-cancelling `fin` -/
def afterCount (c : Cfg) : List Ev → Nat
  | [] => 0
  | .start _ _ :: l => afterCount c l + (if l.any (isCancelFin c) then 1 else 0)
  | _ :: l => afterCount c l

/-- the quantity of the property: number of `start`s that happened after the first finished call
    whose result stops the group ("items started after the first failure returned") -/
def afterStop (c : Cfg) : List Ev → Nat
  | [] => 0
  | .start _ _ :: l => afterStop c l + (if l.any (isStopFin c) then 1 else 0)
  | _ :: l => afterStop c l

/-- the errors handed to the collector, in the order of the calls -/
def collectedErrs (c : Cfg) (coll : List Nat) : List (Option Err) :=
  coll.reverse.map (fun x => (c.outcome x).result)

/-- the content of the collector (`erc.Collector` / the iterator's locked error stack) -/
def collected (c : Cfg) (coll : List Nat) : List Err := flatten (ErrList.ofList (collectedErrs c coll))

/-- what the construct returns / what `Close()` of the output iterator returns -/
def resultOf (c : Cfg) (coll : List Nat) : Option Err := collectorResolve (collected c coll)

def heldOf : WSt → List Nat
  | .holding x => [x]
  | _ => []

def busyOf : WSt → List Nat
  | .busy x => [x]
  | _ => []

def heldItems (ws : List WSt) : List Nat := ws.flatMap heldOf
def busyItems (ws : List WSt) : List Nat := ws.flatMap busyOf

/-! ### the outcome predicate evaluated on an observed run (T-out)

    `log` is the observed event sequence (most recent first), `measured` says whether the harness
    held back new starts until the cancellation was visible (only then is the bound meaningful for
    the implementation); the bound is judged only when the construct cancels its group. The checks are exactly the statements proved for every reachable terminal
    state in `FunProps.C03` (`terminal_allowed`). -/

def countLe (xs input : List Nat) : Bool := xs.all (fun x => xs.count x ≤ input.count x)

structure Verdict where
  atMostOnce : Bool      -- every item started at most once, and only items of the input
  allFinished : Bool     -- every started item was finished (all goroutines have returned)
  stops : Bool           -- a worker that may not continue starts nothing more
  bounded : Bool         -- starts after the first stopping finish ≤ number of workers (judged only
                         -- for a construct that cancels its group, and only on a measured run)
  complete : Bool        -- if no finished item stops its worker, every item was processed
  deriving Repr

def judge (c : Cfg) (input : List Nat) (log : List Ev) (measured : Bool) : Verdict :=
  { atMostOnce := countLe (starts log) input
    allFinished := (starts log).isPerm (fins log)
    stops := workerStops c log
    bounded := !(measured && c.groupCancel) || decide (afterStop c log ≤ c.n)
    complete := !((fins log).all c.cont) || (starts log).isPerm input }

def Verdict.ok (v : Verdict) : Bool := v.atMostOnce && v.allFinished && v.stops && v.bounded && v.complete

def allowed (c : Cfg) (input : List Nat) (log : List Ev) (measured : Bool) : Bool :=
  (judge c input log measured).ok

end FunModel.FaultPipe
