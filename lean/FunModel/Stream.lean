/-! Call-stream model of sequential iterator pipelines (C02).

    A producer closure is modelled by the finite list of results of its successive calls
    (`Ev`), after which every further call yields `eof`. Each Go combinator is a function from
    the call streams of its operands to its own call stream that mirrors the closure's control
    flow: which upstream results make it return, retry, or switch state. User functions are data
    (`Fn`): an arithmetic map plus events injected at given call indices. -/

namespace FunModel.Stream

inductive Ev where
  | val (a : Int)
  | skip            -- ErrIteratorSkip
  | eof             -- io.EOF
  | abort           -- ers.ErrCurrentOpAbort
  | ctx             -- context.Canceled returned as a value
  | err (e : Nat)   -- any other error (identity e)
  deriving Repr, DecidableEq, Inhabited

abbrev S := List Ev

/-- `Iterator.ReadOne` over the raw operation: retry on skip, return terminating errors and close,
    turn any other error into AddError + EOF and close. Returns the call stream of `ReadOne` and
    the errors handed to the iterator's collector. -/
def readOne : S → S × List Nat
  | [] => ([], [])
  | .val a :: r => let (s, e) := readOne r; (.val a :: s, e)
  | .skip :: r => readOne r
  | .eof :: _ => ([.eof], [])
  | .abort :: _ => ([.abort], [])
  | .ctx :: _ => ([.ctx], [])
  | .err e :: _ => ([.eof], [e])

/-- `pf.Iterator()` then reading it: the stream a consumer of the iterator sees -/
def iter (s : S) : S := (readOne s).1
def iterErrs (s : S) : List Nat := (readOne s).2

/-- the values an iterator yields before its first error -/
def vals : S → List Int
  | .val a :: r => a :: vals r
  | _ => []

/-- `Iterator.Filter(check)`: loop on ReadOne until the check passes; errors are returned as is -/
def filterS (p : Int → Bool) : S → S
  | [] => []
  | .val a :: r => if p a then .val a :: filterS p r else filterS p r
  | t :: r => t :: filterS p r

/-- a user function as data: what the `n`-th call (0-based) returns for input `x` -/
structure Fn where
  mul : Int := 1
  add : Int := 0
  inj : List (Nat × Ev) := []      -- call index ↦ injected result (instead of the value)
  deriving Repr

def Fn.call (f : Fn) (n : Nat) (x : Int) : Ev :=
  match f.inj.find? (fun p => p.1 == n) with
  | some p => p.2
  | none => .val (x * f.mul + f.add)

/-- `Transform.Producer(prod)`: call prod; on success run the function; skip from either retries;
    any other error is returned. `n` counts calls of the user function. -/
def transformS (f : Fn) (n : Nat) : S → S
  | [] => []
  | .val a :: r =>
    match f.call n a with
    | .skip => transformS f (n + 1) r
    | ev => ev :: transformS f (n + 1) r
  | .skip :: r => transformS f n r
  | t :: r => t :: transformS f n r

/-- second stage of `Producer.Join` -/
def joinSecond : S → S
  | [] => []
  | .val x :: r => .val x :: joinSecond r
  | .skip :: r => joinSecond r
  | .eof :: _ => [.eof]
  | t :: _ => [t]

/-- `Producer.Join(next)`: first producer until io.EOF, then the second; any other error of either
    is returned (and would be returned again on every later call) -/
def joinS : S → S → S
  | [], b => joinSecond b
  | .val x :: r, b => .val x :: joinS r b
  | .skip :: r, b => joinS r b
  | .eof :: _, b => joinSecond b
  | t :: _, _ => [t]

/-- `Iterator.Join(iters...)`: `proc = i.Producer(); proc = proc.Join(it.ReadOne)...; proc.Iterator()` -/
def iterJoin (first : S) (rest : List S) : S := iter (rest.foldl joinS first)

/-- the goroutine-backed identity stages (`Buffer`, `Split(1)`, `Channel`, `BufferedChannel`): every
    value the source yields before its first error is forwarded in order, then the pipe is closed -/
def pipeS (s : S) : S := (vals s).map .val ++ [.eof]

/-- `itertool.Chain`: each iterator is read until its first error, then the next -/
def chainS (ss : List S) : S := (ss.flatMap vals).map .val ++ [.eof]

/-- `itertool.Uniq` (uses Next/Value: any error ends it) -/
def uniqGo (seen : List Int) : List Int → List Int
  | [] => []
  | x :: r => if seen.contains x then uniqGo seen r else x :: uniqGo (x :: seen) r
def uniqS (s : S) : S := (uniqGo [] (vals s)).map .val ++ [.eof]

/-- `itertool.DropZeroValues` -/
def dropZeroS : S → S
  | [] => []
  | .val a :: r => if a = 0 then dropZeroS r else .val a :: dropZeroS r
  | t :: r => t :: dropZeroS r

/-- `itertool.Indexed` followed by the harness' re-encoding of the pair (idx*1000 + value) -/
def indexedS (n : Nat) : S → S
  | [] => []
  | .val a :: r => .val (n * 1000 + a) :: indexedS (n + 1) r
  | t :: r => t :: indexedS n r

/-- `MergeSlices` / `MergeSliceIterators` -/
def mergeSlicesS (sls : List (List Int)) : S := (sls.flatMap id).map .val ++ [.eof]

/-- `Iterator.Reduce(reducer)` with the reducer `fun item acc => acc + item` under `Fn` injection:
    returns the value and whether an error was returned -/
def reduceGo (f : Fn) (n : Nat) (acc : Int) : S → Int × Option Nat
  | [] => (acc, none)
  | .val a :: r =>
    match f.call n a with
    | .val b => reduceGo f (n + 1) (acc + b) r
    | .skip => reduceGo f (n + 1) acc r
    | .eof => (acc, none)
    | .abort => (acc, none)
    | .ctx => (acc, some 0)
    | .err e => (acc, some e)
  | _ => (acc, none)

/-- `Iterator.Count` -/
def countS (s : S) : Nat := (vals s).length

/-- `MarshalJSON` text of the values read until the first error -/
def jsonS (s : S) : String := "[" ++ ",".intercalate ((vals s).map toString) ++ "]"

/-- pipelines as syntax -/
inductive Op where
  | slice (xs : List Int)                 -- SliceIterator / VariadicIterator / list / channel sources
  | stack (xs : List Int)                 -- dt.Stack iterator: LIFO
  | gen (evs : S)                         -- Generator over a scripted producer
  | filter (m r : Int) (t : Op)           -- keep x with x % m == r  (m > 0)
  | map (f : Fn) (t : Op)
  | join (t : Op) (rest : List Op)
  | chain (ts : List Op)
  | pipe (hook : Bool) (t : Op)           -- Buffer (hook = true: closing it closes t and adopts its errors) / Split(1) / Channel / BufferedChannel
  | uniq (t : Op)
  | dropZero (t : Op)
  | indexed (t : Op)
  | mergeSlices (sls : List (List Int))
  | jsonRound (t : Op)                    -- MarshalJSON then UnmarshalJSON into an empty iterator
  deriving Repr

def keep (m r : Int) (x : Int) : Bool := x.tmod m == r   -- Go `%` truncates toward zero

mutual
/-- the call stream a consumer of the pipeline's iterator sees -/
def denote : Op → S
  | .slice xs => iter (xs.map .val)
  | .stack xs => iter (xs.reverse.map .val)
  | .gen evs => iter evs
  | .filter m r t => iter (filterS (keep m r) (denote t))
  | .map f t => iter (transformS f 0 (denote t))
  | .join t rest => iterJoin (denote t) (denoteAll rest)
  | .chain ts => iter (chainS (denoteAll ts))
  | .pipe _ t => iter (pipeS (denote t))
  | .uniq t => iter (uniqS (denote t))
  | .dropZero t => iter (dropZeroS (denote t))
  | .indexed t => iter (indexedS 0 (denote t))
  | .mergeSlices sls => iter (mergeSlicesS sls)
  | .jsonRound t => iter (joinS [] ((vals (denote t)).map .val))
def denoteAll : List Op → List S
  | [] => []
  | t :: ts => denote t :: denoteAll ts
end

mutual
/-- the errors `Close()` of the pipeline's iterator reports (by identity): its own collector plus,
    for the stages that install a close hook, what closing the upstream iterator reports -/
def closeErrs : Op → List Nat
  | .slice _ => []
  | .stack _ => []
  | .gen evs => iterErrs evs
  | .filter _ _ _ => []
  | .map f t => iterErrs (transformS f 0 (denote t))
  | .join _ _ => []
  | .chain ts => closeErrsAll ts
  | .pipe hook t => if hook then closeErrs t else []
  | .uniq t => closeErrs t
  | .dropZero t => closeErrs t
  | .indexed _ => []
  | .mergeSlices _ => []
  | .jsonRound _ => []
def closeErrsAll : List Op → List Nat
  | [] => []
  | t :: ts => closeErrs t ++ closeErrsAll ts
end

end FunModel.Stream
