import FunModel.Conc

/-! `fun.WaitGroup` (sync.go) as a `Conc.Subject` (C14). Condition 0 is `wg.cond`. -/
namespace FunModel.WaitGroup
open FunModel.Conc

inductive Op where
  | add (n : Int)     -- Add(n); Done = add (-1); Inc = add 1
  | wait              -- Wait(ctx)
  | num               -- Num()
  | isDone            -- IsDone()
  deriving Repr, DecidableEq

structure St where
  counter : Int := 0
  deriving Repr, DecidableEq

/-- the loop of `Wait` after the helper exists: `select ctx.Done → return; default → cond.Wait()` -/
def waitLoop (s : St) (cancelled : Bool) : SegOut St :=
  if cancelled then { st := s, fin := .ret "ok" } else { st := s, fin := .park 0 }

def start (s : St) (_t : Nat) : Op → SegOut St
  | .add n =>
    if s.counter + n < 0 then { st := s, fin := .ret "panic" }       -- Invariant.IsTrue panics, nothing changes
    else
      let s' : St := { counter := s.counter + n }
      { st := s', sigs := if s'.counter = 0 then [.broadcast 0] else [], fin := .ret "ok" }
  | .wait =>
    if s.counter = 0 then { st := s, fin := .ret "ok" }               -- (a fresh context is never done)
    else { st := s, sigs := [.spawn 0], fin := .park 0 }
  | .num => { st := s, fin := .ret (toString s.counter) }
  | .isDone => { st := s, fin := .ret (if s.counter = 0 then "1" else "0") }

def resume (s : St) (_t : Nat) (op : Op) (cancelled : Bool) : SegOut St :=
  match op with
  | .wait => if s.counter = 0 then { st := s, fin := .ret "ok" } else waitLoop s cancelled
  | _ => { st := s, fin := .ret "bad-resume" }

def subject : Subject St Op where
  start := start
  resume := resume
  condName := fun _ => "wg"
  final := fun s => s!"num={s.counter}"

end FunModel.WaitGroup
