import FunModel.Err

/-! C03 (i): the decision table of `WorkerGroupConf.CanContinueOnError` (opts.go).

    The Go method looks at an error only through `errors.Is` / `ers.Is…` tests; `ErrClass` is the
    vector of those tests, `Conf` the three flags (the fourth option, `ExcludedErrors`, enters
    through the `isExcluded` bit: `ers.Is(err, o.ExcludedErrors...)`).  `canContinue` mirrors the
    method branch for branch: `reports` = how often `o.ErrorHandler(err)` is called, `cont` = the
    returned bool.  `FunGen.canContinueOnError` is regenerated from the source on every run and
    `FunProps.C03.generated_eq_model` proves both equal, so a change of the source breaks a proof
    obligation instead of silently invalidating the model. -/

namespace FunModel

structure Conf where
  continueOnPanic : Bool
  continueOnError : Bool
  includeCtx : Bool
  deriving DecidableEq, Repr, Inhabited

structure ErrClass where
  isNil : Bool        -- err == nil
  hadPanic : Bool     -- errors.Is(err, ErrRecoveredPanic)
  isSkip : Bool       -- errors.Is(err, ErrIteratorSkip)
  isEOF : Bool        -- errors.Is(err, io.EOF)
  isCtx : Bool        -- ers.IsExpiredContext(err): context.Canceled or context.DeadlineExceeded
  isAbort : Bool      -- errors.Is(err, ers.ErrCurrentOpAbort)  (not consulted by the method)
  isExcluded : Bool   -- ers.Is(err, o.ExcludedErrors...)
  deriving DecidableEq, Repr, Inhabited

structure Decision where
  reports : Nat
  cont : Bool
  deriving DecidableEq, Repr, Inhabited

/-- opts.go `CanContinueOnError`, branch for branch (tree with the D10 repair) -/
def canContinue (o : Conf) (c : ErrClass) : Decision :=
  if c.isNil then ⟨0, true⟩
  else if c.hadPanic && !o.continueOnPanic then ⟨1, false⟩
  else if c.hadPanic && o.continueOnPanic then ⟨1, true⟩
  else if c.isSkip then ⟨0, true⟩
  else if c.isEOF then ⟨0, false⟩
  else if c.isCtx then
    (if o.includeCtx && !c.isExcluded then ⟨1, false⟩ else ⟨0, false⟩)
  else
    (if !c.isExcluded then ⟨1, o.continueOnError⟩ else ⟨0, o.continueOnError⟩)

/-! ### the class of a model error value (C12's `Err.is`) -/

/-- ids reserved for the sentinels the method tests for (1000/1001 are in `FunModel.Err`) -/
def idSkip : Nat := 1002
def idEOF : Nat := 1003
def idCanceled : Nat := 1004
def idDeadline : Nat := 1005
def idAbort : Nat := 1006

/-- `ers.Is(err, targets...)` for a non-nil `err` and non-nil targets -/
def isAnyOf (e : Err) (targets : List Nat) : Bool := targets.any (fun t => e.is t)

def classify (excluded : List Nat) : Option Err → ErrClass
  | none => { isNil := true, hadPanic := false, isSkip := false, isEOF := false, isCtx := false,
              isAbort := false, isExcluded := false }
  | some e => { isNil := false, hadPanic := e.is idRecoveredPanic, isSkip := e.is idSkip,
                isEOF := e.is idEOF, isCtx := e.is idCanceled || e.is idDeadline,
                isAbort := e.is idAbort, isExcluded := isAnyOf e excluded }

/-- will the error be handed to the collector? (the reading of the property: panics always; never
    skip / EOF / excluded; context errors only when included; everything else always) -/
def ErrClass.reportable (o : Conf) (c : ErrClass) : Bool :=
  !c.isNil && (c.hadPanic || (!c.isSkip && !c.isEOF && !c.isExcluded && (!c.isCtx || o.includeCtx)))

/-- may the worker go on after this result? -/
def ErrClass.continues (o : Conf) (c : ErrClass) : Bool :=
  c.isNil || (if c.hadPanic then o.continueOnPanic
              else c.isSkip || (!c.isEOF && !c.isCtx && o.continueOnError))

end FunModel
