import FunModel.Sexp
import FunModel.Drv.C12
import FunModel.Drv.C19
import FunModel.Drv.C16
import FunModel.Drv.C18
import FunModel.Drv.C02
import FunModel.Drv.C14
import FunModel.Drv.C05
import FunModel.Drv.C06
import FunModel.Drv.C03
import FunModel.Drv.C10
import FunModel.Drv.C15
import FunModel.Drv.C01
import FunModel.Drv.C11
import FunModel.Drv.C08

/-! Line-protocol driver: `driver <property>` reads one S-expression per line on stdin and prints
    the model's observation for it on one line. Core Lean only (no Mathlib) so it links. -/
open FunModel

def handlerFor : String → Option (Sexp → String)
  | "C12" => some DrvC12.handle
  | "C19" => some DrvC19.handle
  | "C16" => some DrvC16.handle
  | "C18" => some DrvC18.handle
  | "C02" => some DrvC02.handle
  | "C14" => some DrvC14.handle
  | "C05" => some DrvC05.handle
  | "C06" => some DrvC06.handle
  | "C07" => some DrvC06.handleBoth
  | "C20" => some DrvC06.handleBoth
  | "C03" => some DrvC03.handle
  | "C10" => some DrvC10.handle
  | "C11" => some DrvC11.handle
  | "C17" => some DrvC16.handle
  | "C15" => some DrvC15.handle
  | "C01" => some DrvC01.handle
  | "C04" => some DrvC01.handle
  | "C08" => some DrvC08.handle
  | "C09" => some DrvC08.handle
  | _ => none

partial def loop (h : IO.FS.Stream) (out : IO.FS.Stream) (f : Sexp → String) : IO Unit := do
  let line ← h.getLine
  if line.isEmpty then return ()
  let l := line.trimAscii.toString
  if l.isEmpty then
    loop h out f
  else
    match Sexp.parse l with
    | none => out.putStrLn "bad-parse"
    | some s => out.putStrLn (f s)
    loop h out f

def main (args : List String) : IO UInt32 := do
  match args with
  | [p] =>
    match handlerFor p with
    | some f =>
      let out ← IO.getStdout
      loop (← IO.getStdin) out f
      out.flush
      return 0
    | none => IO.eprintln s!"unknown property {p}"; return 2
  | _ => IO.eprintln "usage: driver <property>"; return 2
