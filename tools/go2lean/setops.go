package main

// Target SetOps: the sequential core of dt/set.go over the state record of FunModel/SetModel.lean
//   isOrdered, lockedIsOrdered, Len, Check, Order, forceSetupOrdered, AddCheck, DeleteCheck, Add, Delete,
//   SortQuick, SortMerge, keys, unsafeIterator, Producer, Iterator, Populate, Extend, Equal
//                                                                                   -> lean/FunGen/SetOps.lean
// translated statement by statement into the `Option` monad (`none` = panic). What is regenerated is what
// `Set` itself does: the order of its tests and effects, which branch stores what, what is returned. The
// operations of the Go map behind `s.hash`, of the `dt.List`/`dt.Element` behind `s.list` and of iterators
// are *named primitives* whose meaning is fixed by hand in lean/FunModel/SetPrim.lean (trusted, documented
// there). A function that writes the receiver's state becomes `SetSt → … → Option (SetSt × result)`
// (`Option SetSt` without a result), a read-only one `SetSt → … → Option result`.
//
// Skipped, and said so in the generated text: the optional mutex — `defer s.with(s.lock())` and the deferred
// closure of Producer that wraps its result in `WithLock` (mutual exclusion is C13's and the `setexcl`
// cases' business); `s.mtx.Get() != nil` becomes the Boolean parameter `sync_s`. Go's map order is the
// parameter `mo_s` of every function that (transitively) ranges over `s.hash`.
//
// Supported subset (anything else in a targeted function makes this target, and only it, fail loudly):
//   statements   x := e | x = e | x, ok := s.hash.Load(k) | _ = s.M(…) | s.list = &List[T]{} | s.hash[k] = v |
//                primitive / translated calls as statements | ft.WhenCall(c, f) / ft.WhenDo(c, f) (= if c { f() }) |
//                fun.Invariant.Ok(c, …) (= if !c { panic }) | fun.Invariant.Must(it.Observe(s.M).Wait()) |
//                defer of the lock (skipped) | defer delete(s.hash, k) and the like (run at every return, after the
//                result is evaluated, arguments evaluated at the defer) | return [e] (named results allowed) |
//                if c { …; return }  (early exit: the rest of the function is the else-branch) |
//                if c { … }          (no return inside, no else: only the receiver's state is joined) |
//                for k := range s.hash { … }   (no return inside; a fold over `mapRange s mo_s` threading the state
//                                               and the outer locals the body assigns) |
//                for it.Next(ctx) [&& it2.Next(ctx)] { … } (read-only body that may return: `iterLoop`)
//   expressions  nil, true, false, 0, variables, ! && || == !=, s.list ==/!= nil, len(s.hash), s.mtx.Get() ==/!= nil,
//                the primitives of SetPrim.lean, read-only methods translated earlier, it.Value(), it.Close(),
//                fun.SliceIterator(x), x.Producer(), x.Iterator(), x.WithLock(m) (identities on the item sequence)
// `if … else`, `switch`, other loops, `go`, closures, other defers, multiple assignment, writes to a set other
// than the receiver, and any call not listed are outside the subset.

import (
	"bytes"
	"fmt"
	"go/ast"
	"go/parser"
	"go/printer"
	"go/token"
	"path/filepath"
	"regexp"
	"strings"
)

const soFile = "dt/set.go"

// callees first
var soTargets = []string{
	"isOrdered", "lockedIsOrdered", "Len", "Check", "Order", "forceSetupOrdered", "AddCheck", "DeleteCheck",
	"Add", "Delete", "SortQuick", "SortMerge", "keys", "unsafeIterator", "Producer", "Iterator", "Populate",
	"Extend", "Equal",
}

var soLeanType = map[string]string{
	"set": "SetSt", "item": "Int", "count": "Nat", "bool": "Bool", "eptr": "Option Nat", "elem": "Elem",
	"slice": "List Int", "iter": "List Int", "prod": "List Int", "lt": "Int → Int → Bool", "ctx": "Unit", "err": "Bool",
}

var soZero = map[string]string{
	"item": "0", "count": "0", "bool": "false", "eptr": "none", "slice": "[]", "iter": "[]", "prod": "[]", "err": "false",
}

type soEnv struct {
	set  int    // index of the set parameter (receiver = 0) the extra parameter belongs to
	what string // "mo" | "sync"
}

type soSig struct {
	lean   string
	params []string // kinds, receiver first
	res    string   // kind or ""
	effect bool
	env    []soEnv
}

type soCtx struct {
	ret        func(v string, ind string, b *strings.Builder) // `return v` (v = "" without a result)
	fall       func(ind string, b *strings.Builder)           // control falls off the end of the statement list
	nested     bool                                           // inside a join-`if` or a loop body
	assignable map[string]bool                                // outer locals a range-loop body may assign
	inLoop     bool
}

type soTr struct {
	fset      *token.FileSet
	sigs      map[string]*soSig
	vars      map[string]string
	n         int
	recv      string
	lean      string
	res       string
	named     string
	sigEffect bool // the assumption this pass translates under
	effect    bool // a state write was translated
	defers    []string
	setParams []string
	needMo    map[string]bool
	needSync  map[string]bool
	consumed  map[string]bool
	iterVal   map[string]string
}

var soReserved = regexp.MustCompile(`^([vcrdx][0-9]+|r|mo_.*|sync_.*)$`)

// Go identifiers that are Lean keywords (or would shadow a name the generated text uses) get a trailing underscore
func soIdent(s string) string {
	switch s {
	case "do", "let", "match", "with", "where", "def", "theorem", "instance", "structure", "namespace", "section",
		"some", "none", "pure", "if", "else", "mut", "by", "from", "end", "open", "at", "fun", "have", "show", "then", "in":
		return s + "_"
	}
	return s
}

func (t *soTr) src(n ast.Node) string {
	var b bytes.Buffer
	_ = printer.Fprint(&b, t.fset, n)
	return strings.Join(strings.Fields(b.String()), " ")
}

func (t *soTr) fresh(p string) string { t.n++; return fmt.Sprintf("%s%d", p, t.n) }

func (t *soTr) declare(name, kind string, at ast.Node) {
	if name == "_" {
		return
	}
	if soReserved.MatchString(name) {
		die(t.fset, at, "variable name %s is reserved by the translation", name)
	}
	if _, dup := t.vars[name]; dup {
		die(t.fset, at, "redefinition of %s", name)
	}
	t.vars[name] = kind
}

func soTypeName(e ast.Expr) string {
	switch x := e.(type) {
	case *ast.IndexExpr:
		return soTypeName(x.X)
	case *ast.SelectorExpr:
		if id, ok := x.X.(*ast.Ident); ok {
			return id.Name + "." + x.Sel.Name
		}
	case *ast.Ident:
		return x.Name
	}
	return ""
}

func soKindOfType(e ast.Expr) string {
	switch x := e.(type) {
	case *ast.StarExpr:
		switch soTypeName(x.X) {
		case "Set":
			return "set"
		case "Element":
			return "eptr"
		case "fun.Iterator":
			return "iter"
		}
	case *ast.ArrayType:
		if x.Len == nil && soTypeName(x.Elt) == "T" {
			return "slice"
		}
	default:
		switch soTypeName(e) {
		case "T":
			return "item"
		case "bool":
			return "bool"
		case "int":
			return "count"
		case "fun.Producer":
			return "prod"
		case "cmp.LessThan":
			return "lt"
		case "context.Context":
			return "ctx"
		case "error":
			return "err"
		}
	}
	return ""
}

// setField: e is `X.f` for a set variable X; returns X
func (t *soTr) setField(e ast.Expr, f string) (string, bool) {
	sel, ok := e.(*ast.SelectorExpr)
	if !ok || sel.Sel.Name != f {
		return "", false
	}
	id, ok := sel.X.(*ast.Ident)
	if !ok || t.vars[id.Name] != "set" {
		return "", false
	}
	return id.Name, true
}

func isNil(e ast.Expr) bool { id, ok := e.(*ast.Ident); return ok && id.Name == "nil" }

// method: e is a call `recv.name(args)`
func soMethod(e ast.Expr) (recv ast.Expr, name string, args []ast.Expr, ok bool) {
	c, ok := e.(*ast.CallExpr)
	if !ok {
		return nil, "", nil, false
	}
	sel, ok := c.Fun.(*ast.SelectorExpr)
	if !ok {
		return nil, "", nil, false
	}
	return sel.X, sel.Sel.Name, c.Args, true
}

func soFunc(e ast.Expr) (name string, args []ast.Expr, ok bool) {
	c, ok := e.(*ast.CallExpr)
	if !ok {
		return "", nil, false
	}
	switch f := c.Fun.(type) {
	case *ast.Ident:
		return f.Name, c.Args, true
	case *ast.SelectorExpr:
		if id, ok := f.X.(*ast.Ident); ok && (id.Name == "fun" || id.Name == "ft" || id.Name == "context") {
			return id.Name + "." + f.Sel.Name, c.Args, true
		}
	}
	return "", nil, false
}

func (t *soTr) mo(x string) string {
	t.needMo[x] = true
	return "mo_" + soIdent(x)
}

func (t *soTr) sync(x string) string {
	t.needSync[x] = true
	return "sync_" + soIdent(x)
}

// coerce a plain term of kind `have` to kind `want` ("" = impossible)
func soCoerce(term, have, want string) string {
	switch {
	case have == want:
		return term
	case have == "elem" && want == "eptr":
		return "(Elem.ptr " + term + ")"
	case have == "nil" && want == "eptr":
		return "none"
	case have == "nil" && want == "err":
		return "false"
	}
	return ""
}

// plain: a total expression as a Lean term, or ok=false
func (t *soTr) plain(e ast.Expr) (string, string, bool) {
	switch x := e.(type) {
	case *ast.ParenExpr:
		return t.plain(x.X)
	case *ast.Ident:
		switch x.Name {
		case "nil":
			return "none", "nil", true
		case "true", "false":
			return x.Name, "bool", true
		}
		k, ok := t.vars[x.Name]
		if !ok {
			die(t.fset, e, "%s is not a variable of the translated function", x.Name)
		}
		if t.consumed[x.Name] {
			die(t.fset, e, "iterator %s is used after the loop that consumed it", x.Name)
		}
		return soIdent(x.Name), k, true
	case *ast.BasicLit:
		if x.Kind == token.INT {
			return "(" + x.Value + " : Nat)", "count", true
		}
		die(t.fset, e, "unsupported literal %s", x.Value)
	case *ast.UnaryExpr:
		if x.Op == token.NOT {
			if a, k, ok := t.plain(x.X); ok {
				if k != "bool" {
					die(t.fset, e, "! of a non-boolean")
				}
				return "(!" + a + ")", "bool", true
			}
		}
		return "", "", false
	case *ast.BinaryExpr:
		switch x.Op {
		case token.EQL, token.NEQ:
			// s.list ==/!= nil, s.mtx.Get() ==/!= nil
			for _, p := range [][2]ast.Expr{{x.X, x.Y}, {x.Y, x.X}} {
				if !isNil(p[1]) {
					continue
				}
				if X, ok := t.setField(p[0], "list"); ok {
					if x.Op == token.EQL {
						return "(listIsNil " + soIdent(X) + ")", "bool", true
					}
					return "(!(listIsNil " + soIdent(X) + "))", "bool", true
				}
				if r, name, args, ok := soMethod(p[0]); ok && name == "Get" && len(args) == 0 {
					if X, ok := t.setField(r, "mtx"); ok {
						if x.Op == token.EQL {
							return "(!" + t.sync(X) + ")", "bool", true
						}
						return t.sync(X), "bool", true
					}
				}
			}
			a, ka, oka := t.plain(x.X)
			b, kb, okb := t.plain(x.Y)
			if !oka || !okb {
				return "", "", false
			}
			a, b = t.unify(e, a, ka, b, kb)
			if x.Op == token.EQL {
				return "(" + a + " == " + b + ")", "bool", true
			}
			return "(" + a + " != " + b + ")", "bool", true
		case token.LOR, token.LAND:
			a, ka, oka := t.plain(x.X)
			b, kb, okb := t.plain(x.Y)
			if !oka || !okb {
				return "", "", false
			}
			if ka != "bool" || kb != "bool" {
				die(t.fset, e, "%s of non-booleans", x.Op)
			}
			return "(" + a + " " + x.Op.String() + " " + b + ")", "bool", true
		}
		die(t.fset, e, "unsupported operator %s", x.Op)
	case *ast.CallExpr:
		if name, args, ok := soFunc(e); ok {
			switch {
			case name == "len" && len(args) == 1:
				if X, ok := t.setField(args[0], "hash"); ok {
					return "(mapLen " + soIdent(X) + ")", "count", true
				}
			case name == "context.Background" && len(args) == 0:
				return "()", "ctx", true
			case name == "fun.SliceIterator" && len(args) == 1:
				if a, k, ok := t.plain(args[0]); ok && k == "slice" {
					return a, "iter", true
				}
				return "", "", false
			case name == "append" && len(args) == 2:
				a, ka, oka := t.plain(args[0])
				b, kb, okb := t.plain(args[1])
				if oka && okb && ka == "slice" && kb == "item" {
					return "(sliceAppend " + a + " " + b + ")", "slice", true
				}
			case name == "make" && len(args) == 3:
				if at, ok := args[0].(*ast.ArrayType); ok && soKindOfType(at) == "slice" {
					if l, ok := args[1].(*ast.BasicLit); ok && l.Value == "0" {
						if c, k, ok := t.plain(args[2]); ok && k == "count" {
							return "(sliceMake " + c + ")", "slice", true
						}
					}
				}
			}
			return "", "", false
		}
		r, name, args, ok := soMethod(e)
		if !ok {
			return "", "", false
		}
		if X, ok := t.setField(r, "hash"); ok {
			switch {
			case name == "Check" && len(args) == 1:
				if a, k, ok := t.plain(args[0]); ok && k == "item" {
					return "(mapCheck " + soIdent(X) + " " + a + ")", "bool", true
				}
			case name == "Len" && len(args) == 0:
				return "(mapLen " + soIdent(X) + ")", "count", true
			case name == "ProducerKeys" && len(args) == 0:
				return "(mapProducerKeys " + soIdent(X) + " " + t.mo(X) + ")", "prod", true
			}
			return "", "", false
		}
		if id, ok := r.(*ast.Ident); ok && t.vars[id.Name] == "iter" {
			switch {
			case name == "Value" && len(args) == 0:
				v, ok := t.iterVal[id.Name]
				if !ok {
					die(t.fset, e, "%s.Value() outside a loop over %s", id.Name, id.Name)
				}
				return v, "item", true
			case name == "Close" && len(args) == 0:
				return "(iterClose " + soIdent(id.Name) + ")", "err", true
			}
		}
		// conversions that are the identity on the item sequence
		conv := map[string]map[string]string{
			"Producer": {"iter": "prod", "slice": "prod"},
			"Iterator": {"prod": "iter", "slice": "iter"},
			"WithLock": {"prod": "prod", "iter": "iter"},
		}
		if to, ok := conv[name]; ok && ((name == "WithLock" && len(args) == 1) || (name != "WithLock" && len(args) == 0)) {
			if a, k, ok := t.plain(r); ok {
				if nk, ok := to[k]; ok {
					return a, nk, true
				}
			}
		}
		return "", "", false
	}
	return "", "", false
}

// unify the two operands of a comparison
func (t *soTr) unify(at ast.Node, a, ka, b, kb string) (string, string) {
	if ka == "nil" && kb == "nil" {
		die(t.fset, at, "comparison of nil with nil")
	}
	if c := soCoerce(a, ka, kb); c != "" && ka != kb {
		return c, b
	}
	if c := soCoerce(b, kb, ka); c != "" {
		return a, c
	}
	die(t.fset, at, "comparison %s of incompatible operands", t.src(at))
	return "", ""
}

// expr: (Lean term of type `Option τ`, kind); `none` = evaluating the expression panics
func (t *soTr) expr(e ast.Expr) (string, string) {
	if v, k, ok := t.plain(e); ok {
		if k == "nil" {
			die(t.fset, e, "untyped nil in an unsupported position")
		}
		return "(some " + v + ")", k
	}
	switch x := e.(type) {
	case *ast.ParenExpr:
		return t.expr(x.X)
	case *ast.UnaryExpr:
		if x.Op == token.NOT {
			a, k := t.expr(x.X)
			if k != "bool" {
				die(t.fset, e, "! of a non-boolean")
			}
			return "(notP " + a + ")", "bool"
		}
	case *ast.BinaryExpr:
		side := func(y, other ast.Expr) (string, string) {
			if isNil(y) {
				_, k := t.expr(other)
				c := soCoerce("none", "nil", k)
				if c == "" {
					die(t.fset, e, "comparison %s of incompatible operands", t.src(e))
				}
				return "(some " + c + ")", k
			}
			return t.expr(y)
		}
		switch x.Op {
		case token.LOR, token.LAND:
			a, ka := t.expr(x.X)
			b, kb := t.expr(x.Y)
			if ka != "bool" || kb != "bool" {
				die(t.fset, e, "%s of non-booleans", x.Op)
			}
			op := map[token.Token]string{token.LOR: "orP", token.LAND: "andP"}[x.Op]
			return fmt.Sprintf("(%s %s %s)", op, a, b), "bool"
		case token.EQL, token.NEQ:
			a, ka := side(x.X, x.Y)
			b, kb := side(x.Y, x.X)
			if ka != kb {
				die(t.fset, e, "comparison %s of incompatible operands", t.src(e))
			}
			op := map[token.Token]string{token.EQL: "eqP", token.NEQ: "neP"}[x.Op]
			return fmt.Sprintf("(%s %s %s)", op, a, b), "bool"
		}
	case *ast.CallExpr:
		if name, args, ok := soFunc(e); ok && name == "fun.SliceIterator" && len(args) == 1 {
			if a, k := t.expr(args[0]); k == "slice" {
				return a, "iter"
			}
		}
		r, name, args, ok := soMethod(e)
		if !ok {
			break
		}
		if X, ok := t.setField(r, "list"); ok && len(args) == 0 {
			switch name {
			case "Iterator":
				return "(listItems " + soIdent(X) + ")", "iter"
			case "Producer":
				return "(listItems " + soIdent(X) + ")", "prod"
			case "Len":
				return "(listLen " + soIdent(X) + ")", "count"
			}
		}
		// a read-only method translated earlier
		if id, ok := r.(*ast.Ident); ok && t.vars[id.Name] == "set" {
			if sg := t.sigs[name]; sg != nil && !sg.effect {
				return "(" + t.callTerm(e, sg, id.Name, args, nil) + ")", sg.res
			}
		}
		// conversions on a value that may panic
		conv := map[string]map[string]string{"Producer": {"iter": "prod", "slice": "prod"}, "Iterator": {"prod": "iter", "slice": "iter"}}
		if to, ok := conv[name]; ok && len(args) == 0 {
			a, k := t.expr(r)
			if nk, ok := to[k]; ok {
				return a, nk
			}
		}
	}
	die(t.fset, e, "expression %s is outside the subset", t.src(e))
	return "", ""
}

// callTerm: `Set_M X args… env…`; the arguments must be total here (`bound` = already evaluated arguments)
func (t *soTr) callTerm(at ast.Node, sg *soSig, X string, args []ast.Expr, bound []string) string {
	if len(sg.params) != len(args)+1 {
		die(t.fset, at, "call %s with the wrong number of arguments", t.src(at))
	}
	parts := []string{sg.lean, soIdent(X)}
	sets := []string{X}
	for i, a := range args {
		want := sg.params[i+1]
		var v, k string
		if bound != nil {
			v, k = bound[2*i], bound[2*i+1]
		} else {
			var ok bool
			v, k, ok = t.plain(a)
			if !ok {
				die(t.fset, a, "argument %s of a call inside an expression must be a total expression", t.src(a))
			}
		}
		c := soCoerce(v, k, want)
		if c == "" {
			die(t.fset, a, "argument %s has another type", t.src(a))
		}
		parts = append(parts, c)
		if want == "set" {
			id, ok := a.(*ast.Ident)
			if !ok {
				die(t.fset, a, "a set argument must be a variable")
			}
			sets = append(sets, id.Name)
		}
	}
	for _, ev := range sg.env {
		if ev.what == "mo" {
			parts = append(parts, t.mo(sets[ev.set]))
		} else {
			parts = append(parts, t.sync(sets[ev.set]))
		}
	}
	return strings.Join(parts, " ")
}

// val: the value of an expression as a total Lean term, binding it first when it may panic
func (t *soTr) val(e ast.Expr, ind string, b *strings.Builder) (string, string) {
	if v, k, ok := t.plain(e); ok {
		return v, k
	}
	term, k := t.expr(e)
	v := t.fresh("v")
	fmt.Fprintf(b, "%slet %s ← %s\n", ind, v, term)
	return v, k
}

func (t *soTr) wantRecv(X string, at ast.Node) string {
	if X != t.recv {
		die(t.fset, at, "%s writes the state of %s, which is not the receiver", t.src(at), X)
	}
	t.effect = true
	return soIdent(X)
}

// write: a state-writing call (statement, right-hand side, or argument); returns (result variable, kind, handled)
func (t *soTr) write(e ast.Expr, ind string, b *strings.Builder, discard bool) (string, string, bool) {
	res := func(kind string) string {
		if discard {
			return "_"
		}
		return t.fresh("v")
	}
	s := soIdent(t.recv)
	if name, args, ok := soFunc(e); ok {
		switch {
		case name == "NewElement" && len(args) == 1:
			a, k := t.val(args[0], ind, b)
			if k != "item" {
				die(t.fset, e, "NewElement of a non-item")
			}
			t.effect = true
			v := res("elem")
			fmt.Fprintf(b, "%slet (%s, %s) := newElement %s %s\n", ind, s, v, s, a)
			return v, "elem", true
		case name == "delete" && len(args) == 2:
			if X, ok := t.setField(args[0], "hash"); ok {
				k, kk := t.val(args[1], ind, b)
				if kk != "item" {
					die(t.fset, e, "delete with a key of another type")
				}
				x := t.wantRecv(X, e)
				fmt.Fprintf(b, "%slet %s := mapDelete %s %s\n", ind, x, x, k)
				return "", "", true
			}
		}
		return "", "", false
	}
	// fun.Invariant.Must(it.Observe(s.M).Wait())
	if c, ok := e.(*ast.CallExpr); ok && t.src(c.Fun) == "fun.Invariant.Must" && len(c.Args) == 1 {
		if w, wn, wa, ok := soMethod(c.Args[0]); ok && wn == "Wait" && len(wa) == 0 {
			if it, on, oa, ok := soMethod(w); ok && on == "Observe" && len(oa) == 1 {
				itv, ik := t.val(it, ind, b)
				if sel, ok := oa[0].(*ast.SelectorExpr); ok && ik == "iter" {
					if id, ok := sel.X.(*ast.Ident); ok && t.vars[id.Name] == "set" {
						sg := t.sigs[sel.Sel.Name]
						if sg != nil && sg.effect && sg.res == "" && len(sg.params) == 2 && sg.params[1] == "item" && len(sg.env) == 0 {
							x := t.wantRecv(id.Name, e)
							fmt.Fprintf(b, "%slet %s ← iterObserve (fun %s x => %s %s x) %s %s\n", ind, x, x, sg.lean, x, itv, x)
							if id2, ok := it.(*ast.Ident); ok {
								t.consumed[id2.Name] = true
							}
							return "", "", true
						}
					}
				}
			}
		}
		die(t.fset, e, "%s is outside the subset (only fun.Invariant.Must(it.Observe(s.M).Wait()))", t.src(e))
	}
	r, name, args, ok := soMethod(e)
	if !ok {
		return "", "", false
	}
	if X, ok := t.setField(r, "hash"); ok {
		switch {
		case name == "SetDefault" && len(args) == 1:
			k, kk := t.val(args[0], ind, b)
			if kk != "item" {
				die(t.fset, e, "key of another type")
			}
			x := t.wantRecv(X, e)
			fmt.Fprintf(b, "%slet %s := mapSetDefault %s %s\n", ind, x, x, k)
			return "", "", true
		case name == "Delete" && len(args) == 1:
			k, kk := t.val(args[0], ind, b)
			if kk != "item" {
				die(t.fset, e, "key of another type")
			}
			x := t.wantRecv(X, e)
			fmt.Fprintf(b, "%slet %s := mapDelete %s %s\n", ind, x, x, k)
			return "", "", true
		case name == "Add" && len(args) == 2:
			t.store(X, args[0], args[1], e, ind, b)
			return "", "", true
		}
		return "", "", false
	}
	if X, ok := t.setField(r, "list"); ok {
		switch {
		case name == "PushBack" && len(args) == 1:
			a, k := t.val(args[0], ind, b)
			if k != "item" {
				die(t.fset, e, "PushBack of a non-item")
			}
			x := t.wantRecv(X, e)
			fmt.Fprintf(b, "%slet %s ← listPushBack %s %s\n", ind, x, x, a)
			return "", "", true
		case (name == "SortQuick" || name == "SortMerge") && len(args) == 1:
			a, k := t.val(args[0], ind, b)
			if k != "lt" {
				die(t.fset, e, "%s with an argument that is no comparison", name)
			}
			x := t.wantRecv(X, e)
			fmt.Fprintf(b, "%slet %s ← list%s %s %s\n", ind, x, name, x, a)
			return "", "", true
		}
		return "", "", false
	}
	// s.list.Back().Append(elem)
	if name == "Append" && len(args) == 1 {
		if br, bn, ba, ok := soMethod(r); ok && bn == "Back" && len(ba) == 0 {
			if X, ok := t.setField(br, "list"); ok {
				a, k, ok := t.plain(args[0])
				if !ok || k != "elem" {
					die(t.fset, e, "%s: only an element made by NewElement in this function can be appended", t.src(e))
				}
				if !discard {
					die(t.fset, e, "the result of Append is used")
				}
				x := t.wantRecv(X, e)
				fmt.Fprintf(b, "%slet %s ← listBackAppend %s %s\n", ind, x, x, a)
				return "", "", true
			}
		}
	}
	// e.Remove(), e.Drop()
	if id, ok := r.(*ast.Ident); ok && (t.vars[id.Name] == "eptr" || t.vars[id.Name] == "elem") && len(args) == 0 {
		p := soCoerce(soIdent(id.Name), t.vars[id.Name], "eptr")
		switch name {
		case "Remove":
			t.effect = true
			v := res("bool")
			fmt.Fprintf(b, "%slet (%s, %s) ← elemRemove %s %s\n", ind, s, v, s, p)
			return v, "bool", true
		case "Drop":
			t.effect = true
			fmt.Fprintf(b, "%slet %s ← elemDrop %s %s\n", ind, s, s, p)
			return "", "", true
		}
	}
	// a state-writing method translated earlier
	if id, ok := r.(*ast.Ident); ok && t.vars[id.Name] == "set" {
		if sg := t.sigs[name]; sg != nil && sg.effect {
			bound := []string{}
			for _, a := range args {
				v, k := t.val(a, ind, b)
				bound = append(bound, v, k)
			}
			x := t.wantRecv(id.Name, e)
			call := t.callTerm(e, sg, id.Name, args, bound)
			if sg.res == "" {
				fmt.Fprintf(b, "%slet %s ← %s\n", ind, x, call)
				return "", "", true
			}
			v := res(sg.res)
			fmt.Fprintf(b, "%slet (%s, %s) ← %s\n", ind, x, v, call)
			return v, sg.res, true
		}
	}
	return "", "", false
}

// store: s.hash[k] = v / s.hash.Add(k, v)
func (t *soTr) store(X string, key, value ast.Expr, at ast.Node, ind string, b *strings.Builder) {
	k, kk := t.val(key, ind, b)
	if kk != "item" {
		die(t.fset, at, "key of another type")
	}
	v, kv := t.val(value, ind, b)
	c := soCoerce(v, kv, "eptr")
	if c == "" {
		die(t.fset, at, "value of another type stored in the map")
	}
	x := t.wantRecv(X, at)
	fmt.Fprintf(b, "%slet %s := mapStore %s %s %s\n", ind, x, x, k, c)
}

// rhs: value of the right-hand side of an assignment/definition/return
func (t *soTr) rhs(e ast.Expr, ind string, b *strings.Builder) (string, string) {
	if v, k, ok := t.write(e, ind, b, false); ok {
		if k == "" {
			die(t.fset, e, "call without a result used as a value")
		}
		return v, k
	}
	return t.val(e, ind, b)
}

func soTerminates(list []ast.Stmt) bool {
	if len(list) == 0 {
		return false
	}
	_, ok := list[len(list)-1].(*ast.ReturnStmt)
	return ok
}

// lockDefer: `defer s.with(s.lock())`
func (t *soTr) lockDefer(c *ast.CallExpr) bool {
	r, name, args, ok := soMethod(c)
	if !ok || name != "with" || len(args) != 1 {
		return false
	}
	r2, name2, args2, ok := soMethod(args[0])
	if !ok || name2 != "lock" || len(args2) != 0 {
		return false
	}
	a, ok1 := r.(*ast.Ident)
	b, ok2 := r2.(*ast.Ident)
	return ok1 && ok2 && a.Name == b.Name && t.vars[a.Name] == "set"
}

// lockClosure: `defer func() { if mu := s.mtx.Get(); mu != nil { out = out.WithLock(mu) } }()`
func (t *soTr) lockClosure(c *ast.CallExpr) bool {
	fl, ok := c.Fun.(*ast.FuncLit)
	if !ok || len(c.Args) != 0 || len(fl.Type.Params.List) != 0 || len(fl.Body.List) != 1 {
		return false
	}
	is, ok := fl.Body.List[0].(*ast.IfStmt)
	if !ok || is.Else != nil || is.Init == nil || len(is.Body.List) != 1 {
		return false
	}
	init, ok := is.Init.(*ast.AssignStmt)
	if !ok || init.Tok != token.DEFINE || len(init.Lhs) != 1 || len(init.Rhs) != 1 {
		return false
	}
	mu, ok := init.Lhs[0].(*ast.Ident)
	if !ok {
		return false
	}
	r, name, args, ok := soMethod(init.Rhs[0])
	if !ok || name != "Get" || len(args) != 0 {
		return false
	}
	if _, ok := t.setField(r, "mtx"); !ok {
		return false
	}
	if t.src(is.Cond) != mu.Name+" != nil" {
		return false
	}
	as, ok := is.Body.List[0].(*ast.AssignStmt)
	if !ok || as.Tok != token.ASSIGN || len(as.Lhs) != 1 || len(as.Rhs) != 1 {
		return false
	}
	return t.named != "" && t.src(as.Lhs[0]) == t.named && t.src(as.Rhs[0]) == t.named+".WithLock("+mu.Name+")"
}

func (t *soTr) cond(e ast.Expr, ind string, b *strings.Builder) string {
	if c, k, ok := t.plain(e); ok {
		if k != "bool" {
			die(t.fset, e, "non-boolean condition")
		}
		return c
	}
	term, k := t.expr(e)
	if k != "bool" {
		die(t.fset, e, "non-boolean condition")
	}
	cv := t.fresh("c")
	fmt.Fprintf(b, "%slet %s ← %s\n", ind, cv, term)
	return cv
}

func (t *soTr) scoped(f func()) {
	saved, savedConsumed := t.vars, t.consumed
	t.vars, t.consumed = map[string]string{}, map[string]bool{}
	for k, v := range saved {
		t.vars[k] = v
	}
	for k, v := range savedConsumed {
		t.consumed[k] = v
	}
	nd := len(t.defers)
	f()
	t.vars, t.consumed, t.defers = saved, savedConsumed, t.defers[:nd] // a defer registered inside a block ends with it
}

func (t *soTr) assign(name string, at ast.Node, value ast.Expr, c soCtx, ind string, b *strings.Builder) {
	k, ok := t.vars[name]
	if !ok || k == "set" {
		die(t.fset, at, "assignment to %s is outside the subset", name)
	}
	if c.nested && !c.assignable[name] {
		die(t.fset, at, "assignment to the local %s inside a conditional block is outside the subset", name)
	}
	v, kv := t.rhs(value, ind, b)
	cv := soCoerce(v, kv, k)
	if cv == "" {
		die(t.fset, at, "assignment of another type to %s", name)
	}
	fmt.Fprintf(b, "%slet %s : %s := %s\n", ind, soIdent(name), soLeanType[k], cv)
}

func (t *soTr) stmts(list []ast.Stmt, ind string, c soCtx, b *strings.Builder) {
	for i, st := range list {
		rest := list[i+1:]
		switch x := st.(type) {
		case *ast.ReturnStmt:
			if len(rest) != 0 {
				die(t.fset, st, "statements after return")
			}
			if c.ret == nil {
				die(t.fset, st, "return in an unsupported position")
			}
			switch {
			case len(x.Results) == 0 && t.res == "":
				c.ret("", ind, b)
			case len(x.Results) == 0 && t.named != "":
				c.ret(soIdent(t.named), ind, b)
			case len(x.Results) == 1 && t.res != "":
				v, k := t.rhs(x.Results[0], ind, b)
				cv := soCoerce(v, k, t.res)
				if cv == "" {
					die(t.fset, st, "result of another type")
				}
				c.ret(cv, ind, b)
			default:
				die(t.fset, st, "unsupported result list")
			}
			return
		case *ast.DeferStmt:
			if c.nested || c.inLoop {
				die(t.fset, st, "defer inside a block is outside the subset")
			}
			switch {
			case t.lockDefer(x.Call):
				fmt.Fprintf(b, "%s-- `%s`: locking, skipped\n", ind, t.src(st))
			case t.lockClosure(x.Call):
				fmt.Fprintf(b, "%s-- `defer func() { … %s.WithLock(…) … }()`: locking, skipped\n", ind, t.named)
			default:
				// a deferred map write: arguments are evaluated now, the write happens at every return
				var key ast.Expr
				var X string
				if name, args, ok := soFunc(x.Call); ok && name == "delete" && len(args) == 2 {
					if Y, ok := t.setField(args[0], "hash"); ok {
						X, key = Y, args[1]
					}
				} else if r, name, args, ok := soMethod(x.Call); ok && name == "Delete" && len(args) == 1 {
					if Y, ok := t.setField(r, "hash"); ok {
						X, key = Y, args[0]
					}
				}
				if key == nil {
					die(t.fset, st, "%s is outside the subset (only the lock and delete(s.hash, k) can be deferred)", t.src(st))
				}
				k, kk := t.val(key, ind, b)
				if kk != "item" {
					die(t.fset, st, "key of another type")
				}
				xs := t.wantRecv(X, st)
				d := t.fresh("d")
				fmt.Fprintf(b, "%slet %s : Int := %s  -- `%s`: the key is evaluated now, the delete runs at every return\n", ind, d, k, t.src(st))
				t.defers = append(t.defers, fmt.Sprintf("let %s := mapDelete %s %s", xs, xs, d))
			}
		case *ast.AssignStmt:
			switch {
			case x.Tok == token.DEFINE && len(x.Lhs) == 2 && len(x.Rhs) == 1:
				// e, ok := s.hash.Load(k)
				r, name, args, ok := soMethod(x.Rhs[0])
				X, okh := "", false
				if ok {
					X, okh = t.setField(r, "hash")
				}
				a, ok1 := x.Lhs[0].(*ast.Ident)
				o, ok2 := x.Lhs[1].(*ast.Ident)
				if !ok || !okh || name != "Load" || len(args) != 1 || !ok1 || !ok2 {
					die(t.fset, st, "only `e, ok := s.hash.Load(k)` is supported as a two-valued definition")
				}
				k, kk := t.val(args[0], ind, b)
				if kk != "item" {
					die(t.fset, st, "key of another type")
				}
				t.declare(a.Name, "eptr", st)
				t.declare(o.Name, "bool", st)
				fmt.Fprintf(b, "%slet (%s, %s) := mapLoad %s %s\n", ind, soIdent(a.Name), soIdent(o.Name), soIdent(X), k)
			case len(x.Lhs) != 1 || len(x.Rhs) != 1:
				die(t.fset, st, "only single assignments are supported")
			case x.Tok == token.DEFINE:
				id, ok := x.Lhs[0].(*ast.Ident)
				if !ok {
					die(t.fset, st, "unsupported definition")
				}
				v, k := t.rhs(x.Rhs[0], ind, b)
				if k == "nil" || soLeanType[k] == "" {
					die(t.fset, st, "definition of %s from a value of unsupported type", id.Name)
				}
				t.declare(id.Name, k, st)
				if id.Name != "_" {
					fmt.Fprintf(b, "%slet %s : %s := %s\n", ind, soIdent(id.Name), soLeanType[k], v)
				}
			case x.Tok == token.ASSIGN:
				switch l := x.Lhs[0].(type) {
				case *ast.Ident:
					if l.Name == "_" {
						if _, _, ok := t.write(x.Rhs[0], ind, b, true); !ok {
							t.val(x.Rhs[0], ind, b)
						}
						break
					}
					t.assign(l.Name, st, x.Rhs[0], c, ind, b)
				case *ast.SelectorExpr:
					// s.list = &List[T]{}
					X, ok := t.setField(l, "list")
					u, oku := x.Rhs[0].(*ast.UnaryExpr)
					if !ok || !oku || u.Op != token.AND {
						die(t.fset, st, "assignment to %s is outside the subset", t.src(l))
					}
					cl, okc := u.X.(*ast.CompositeLit)
					if !okc || soTypeName(cl.Type) != "List" || len(cl.Elts) != 0 {
						die(t.fset, st, "only `s.list = &List[T]{}` is supported")
					}
					xs := t.wantRecv(X, st)
					fmt.Fprintf(b, "%slet %s := listNew %s\n", ind, xs, xs)
				case *ast.IndexExpr:
					X, ok := t.setField(l.X, "hash")
					if !ok {
						die(t.fset, st, "assignment to %s is outside the subset", t.src(l))
					}
					t.store(X, l.Index, x.Rhs[0], st, ind, b)
				default:
					die(t.fset, st, "assignment to %s is outside the subset", t.src(x.Lhs[0]))
				}
			default:
				die(t.fset, st, "unsupported assignment operator %s", x.Tok)
			}
		case *ast.ExprStmt:
			cl, ok := x.X.(*ast.CallExpr)
			if !ok {
				die(t.fset, st, "unsupported expression statement")
			}
			switch t.src(cl.Fun) {
			case "ft.WhenCall", "ft.WhenDo":
				// = if cond { f() }
				if len(cl.Args) != 2 {
					die(t.fset, st, "unsupported %s", t.src(cl.Fun))
				}
				sel, ok := cl.Args[1].(*ast.SelectorExpr)
				if !ok {
					die(t.fset, st, "%s with something other than a method value", t.src(cl.Fun))
				}
				syn := &ast.IfStmt{If: st.Pos(), Cond: cl.Args[0], Body: &ast.BlockStmt{Lbrace: st.Pos(), List: []ast.Stmt{
					&ast.ExprStmt{X: &ast.CallExpr{Fun: sel, Lparen: st.Pos()}}}}}
				t.stmts(append([]ast.Stmt{syn}, rest...), ind, c, b)
				return
			case "fun.Invariant.Ok":
				// = if !cond { panic }
				if len(cl.Args) < 1 {
					die(t.fset, st, "fun.Invariant.Ok without a condition")
				}
				cv := t.cond(cl.Args[0], ind, b)
				fmt.Fprintf(b, "%sif !%s then  -- `fun.Invariant.Ok(%s…)`: panics unless the condition holds\n%s  none\n%selse\n", ind, cv, t.src(cl.Args[0]), ind, ind)
				t.stmts(rest, ind+"  ", c, b)
				return
			}
			if _, _, ok := t.write(cl, ind, b, true); !ok {
				die(t.fset, st, "call %s is outside the subset", t.src(cl))
			}
		case *ast.IfStmt:
			if x.Init != nil || x.Else != nil {
				die(t.fset, st, "if with initialiser or else is outside the subset")
			}
			cv := t.cond(x.Cond, ind, b)
			if soTerminates(x.Body.List) {
				if c.nested {
					die(t.fset, st, "early exit inside a conditional block is outside the subset")
				}
				fmt.Fprintf(b, "%sif %s then\n", ind, cv)
				t.scoped(func() { t.stmts(x.Body.List, ind+"  ", c, b) })
				fmt.Fprintf(b, "%selse\n", ind)
				t.stmts(rest, ind+"  ", c, b)
				return
			}
			if hasReturn(x.Body.List) {
				die(t.fset, st, "return inside a conditional block that does not end in return is outside the subset")
			}
			s := soIdent(t.recv)
			fmt.Fprintf(b, "%slet %s ← (if %s then (do\n", ind, s, cv)
			inner := soCtx{nested: true, inLoop: c.inLoop, fall: func(ind string, b *strings.Builder) { fmt.Fprintf(b, "%spure %s", ind, s) }}
			before := t.effect
			t.effect = false
			t.scoped(func() { t.stmts(x.Body.List, ind+"    ", inner, b) })
			if !t.effect {
				die(t.fset, st, "a conditional block that neither returns nor writes the receiver's state is outside the subset")
			}
			t.effect = t.effect || before
			fmt.Fprintf(b, ") else pure %s)\n", s)
		case *ast.RangeStmt:
			t.rangeLoop(x, ind, c, b)
		case *ast.ForStmt:
			t.iterLoop(x, rest, ind, c, b)
			return
		default:
			die(t.fset, st, "statement %s is outside the subset", t.src(st))
		}
	}
	c.fall(ind, b)
}

// rangeLoop: `for k := range s.hash { body }`
func (t *soTr) rangeLoop(x *ast.RangeStmt, ind string, c soCtx, b *strings.Builder) {
	X, ok := t.setField(x.X, "hash")
	kid, okk := x.Key.(*ast.Ident)
	if !ok || !okk || x.Value != nil || x.Tok != token.DEFINE {
		die(t.fset, x, "only `for k := range s.hash` is supported")
	}
	if c.nested || c.inLoop {
		die(t.fset, x, "a loop inside a block is outside the subset")
	}
	if hasReturn(x.Body.List) {
		die(t.fset, x, "return inside a range loop is outside the subset")
	}
	ast.Inspect(x.Body, func(n ast.Node) bool {
		if br, ok := n.(*ast.BranchStmt); ok {
			die(t.fset, br, "%s inside a range loop is outside the subset", br.Tok)
		}
		return true
	})
	// the outer locals the body assigns, in order of first assignment
	assigned, seen := []string{}, map[string]bool{}
	ast.Inspect(x.Body, func(n ast.Node) bool {
		if as, ok := n.(*ast.AssignStmt); ok && as.Tok == token.ASSIGN {
			for _, l := range as.Lhs {
				if id, ok := l.(*ast.Ident); ok && id.Name != "_" && !seen[id.Name] {
					if k, ok := t.vars[id.Name]; ok && k != "set" {
						seen[id.Name] = true
						assigned = append(assigned, id.Name)
					}
				}
			}
		}
		return true
	})
	keys := "(mapRange " + soIdent(X) + " " + t.mo(X) + ")"
	var body strings.Builder
	before := t.effect
	t.effect = false
	var tup string
	inner := soCtx{nested: true, inLoop: true, assignable: seen, fall: func(ind string, b *strings.Builder) {
		fmt.Fprintf(b, "%spure %s", ind, "\x00")
	}}
	t.scoped(func() {
		t.declare(kid.Name, "item", x)
		t.stmts(x.Body.List, ind+"    ", inner, &body)
	})
	parts := []string{}
	if t.effect {
		parts = append(parts, soIdent(t.recv))
	}
	for _, a := range assigned {
		parts = append(parts, soIdent(a))
	}
	if len(parts) == 0 {
		die(t.fset, x, "a range loop that writes neither the receiver's state nor a local is outside the subset")
	}
	t.effect = t.effect || before
	tup = parts[0]
	if len(parts) > 1 {
		tup = "(" + strings.Join(parts, ", ") + ")"
	}
	fmt.Fprintf(b, "%slet %s ← %s.foldlM (fun %s %s => do\n%s) %s\n", ind, tup, keys, tup, soIdent(kid.Name),
		strings.ReplaceAll(body.String(), "\x00", tup), tup)
}

// iterLoop: `for it.Next(ctx) [&& it2.Next(ctx)] { body }` followed by rest
func (t *soTr) iterLoop(x *ast.ForStmt, rest []ast.Stmt, ind string, c soCtx, b *strings.Builder) {
	if x.Init != nil || x.Post != nil || x.Cond == nil {
		die(t.fset, x, "only `for it.Next(ctx) [&& it2.Next(ctx)] {…}` loops are supported")
	}
	if c.nested || c.inLoop || t.sigEffect || len(t.defers) > 0 {
		die(t.fset, x, "an iterator loop inside a block or in a state-writing function is outside the subset")
	}
	next := func(e ast.Expr) string {
		r, name, args, ok := soMethod(e)
		id, oki := r.(*ast.Ident)
		if !ok || !oki || name != "Next" || len(args) != 1 || t.vars[id.Name] != "iter" || t.consumed[id.Name] {
			die(t.fset, e, "loop condition %s is outside the subset", t.src(e))
		}
		if _, k, ok := t.plain(args[0]); !ok || k != "ctx" {
			die(t.fset, e, "Next wants a context")
		}
		return id.Name
	}
	its := []string{}
	if be, ok := x.Cond.(*ast.BinaryExpr); ok && be.Op == token.LAND {
		its = append(its, next(be.X), next(be.Y))
		if its[0] == its[1] {
			die(t.fset, x, "the same iterator twice in a loop condition")
		}
	} else {
		its = append(its, next(x.Cond))
	}
	r := t.fresh("r")
	xs, pat := []string{}, ""
	for _, it := range its {
		v := t.fresh("x")
		xs = append(xs, v)
		t.iterVal[it] = v
	}
	if len(its) == 1 {
		fmt.Fprintf(b, "%slet %s ← iterLoop %s (fun %s => do\n", ind, r, soIdent(its[0]), xs[0])
	} else {
		pat = "(" + xs[0] + ", " + xs[1] + ")"
		fmt.Fprintf(b, "%slet %s ← iterLoop (List.zip %s %s) (fun %s => do\n", ind, r, soIdent(its[0]), soIdent(its[1]), pat)
	}
	inner := soCtx{inLoop: true,
		ret: func(v string, ind string, b *strings.Builder) {
			if v == "" {
				v = "()"
			}
			fmt.Fprintf(b, "%spure (some %s)\n", ind, v)
		},
		fall: func(ind string, b *strings.Builder) { fmt.Fprintf(b, "%spure none", ind) }}
	before := t.effect
	t.effect = false
	var body strings.Builder
	t.scoped(func() { t.stmts(x.Body.List, ind+"    ", inner, &body) })
	if t.effect {
		die(t.fset, x, "an iterator loop whose body writes the receiver's state is outside the subset")
	}
	t.effect = before
	b.WriteString(strings.TrimRight(body.String(), "\n"))
	b.WriteString(")\n")
	for _, it := range its {
		delete(t.iterVal, it)
		t.consumed[it] = true
	}
	fmt.Fprintf(b, "%smatch %s with\n%s| some r =>\n", ind, r, ind)
	rv := ""
	if t.res != "" {
		rv = "r"
	}
	c.ret(rv, ind+"  ", b)
	fmt.Fprintf(b, "%s| none =>\n", ind)
	// after the loop the iterators stay marked as consumed: only Close() may still be called on them
	t.stmts(rest, ind+"  ", c, b)
}

const soHeader = `import FunModel.SetPrim

/-! GENERATED by tools/go2lean (setops.go) from the working tree of tychoish/fun on every run of ./check — do not edit.
    The sequential core of dt/set.go, statement by statement, over the state record ` + "`SetSt`" + ` of FunModel/SetModel.lean
    (` + "`hash`" + `: the map as an association list key ↦ element pointer, ` + "`list`" + `: ` + "`none`" + ` = nil, else the (address, item) sequence).
    The result is in ` + "`Option`" + `: ` + "`none`" + ` = panic. Calls into the Go map, dt.List/dt.Element and iterators are the named
    primitives of FunModel/SetPrim.lean (hand-written, trusted). ` + "`T`" + ` is ` + "`Int`" + `.
    Skipped: the optional mutex (` + "`defer s.with(s.lock())`" + `, the ` + "`WithLock`" + ` wrapper of Producer) — C13 and the ` + "`setexcl`" + ` cases of
    C18 cover mutual exclusion; ` + "`s.mtx.Get() != nil`" + ` is the parameter ` + "`sync_s`" + `. The order in which a ` + "`range s.hash`" + ` visits the
    keys is the parameter ` + "`mo_s`" + `. A deferred ` + "`delete(s.hash, k)`" + ` runs at every return after the result has been evaluated. -/

set_option linter.unusedVariables false

namespace FunGen.SetOps
open FunModel.SetModel FunModel.SetPrim

`

func genSetOps(repo string) string {
	fset := token.NewFileSet()
	f, err := parser.ParseFile(fset, filepath.Join(repo, soFile), nil, 0)
	if err != nil {
		panic(fail{err.Error()})
	}
	var out strings.Builder
	out.WriteString(soHeader)
	sigs := map[string]*soSig{}
	for _, fn := range soTargets {
		var fd *ast.FuncDecl
		for _, d := range f.Decls {
			x, ok := d.(*ast.FuncDecl)
			if !ok || x.Name.Name != fn || x.Recv == nil || len(x.Recv.List) != 1 {
				continue
			}
			if soKindOfType(x.Recv.List[0].Type) == "set" {
				fd = x
			}
		}
		if fd == nil || fd.Body == nil {
			panic(fail{fmt.Sprintf("%s: method Set.%s not found", soFile, fn)})
		}
		var text string
		passes := []bool{false, true} // first try "read-only"; a function without a result can only be a state writer
		if fd.Type.Results == nil {
			passes = []bool{true}
		}
		for _, assume := range passes {
			var done bool
			text, done = soTranslate(fset, fd, sigs, assume)
			if done {
				break
			}
			if assume {
				die(fset, fd, "Set.%s neither writes the receiver's state nor has a result", fn)
			}
		}
		out.WriteString(text)
	}
	out.WriteString("end FunGen.SetOps\n")
	return out.String()
}

// soTranslate: one pass under the assumption `assume` = "the function writes the receiver's state"; done = the
// assumption was right (and the signature has been recorded)
func soTranslate(fset *token.FileSet, fd *ast.FuncDecl, sigs map[string]*soSig, assume bool) (string, bool) {
	fn := fd.Name.Name
	lean := "Set_" + fn
	t := &soTr{fset: fset, sigs: sigs, vars: map[string]string{}, lean: lean, sigEffect: assume,
		needMo: map[string]bool{}, needSync: map[string]bool{}, consumed: map[string]bool{}, iterVal: map[string]string{}}
	sg := &soSig{lean: lean, effect: assume}
	params := []string{}
	addParam := func(n *ast.Ident, ty ast.Expr) {
		k := soKindOfType(ty)
		if k == "" || soLeanType[k] == "" {
			die(fset, ty, "unsupported parameter type %s", t.src(ty))
		}
		t.declare(n.Name, k, n)
		sg.params = append(sg.params, k)
		if k == "set" {
			t.setParams = append(t.setParams, n.Name)
		}
		params = append(params, fmt.Sprintf("(%s : %s)", soIdent(n.Name), soLeanType[k]))
	}
	if len(fd.Recv.List[0].Names) != 1 {
		die(fset, fd, "unnamed receiver")
	}
	t.recv = fd.Recv.List[0].Names[0].Name
	addParam(fd.Recv.List[0].Names[0], fd.Recv.List[0].Type)
	for _, p := range fd.Type.Params.List {
		if len(p.Names) == 0 {
			die(fset, p, "unnamed parameter")
		}
		for _, n := range p.Names {
			addParam(n, p.Type)
		}
	}
	var body strings.Builder
	if fd.Type.Results != nil {
		if len(fd.Type.Results.List) != 1 || len(fd.Type.Results.List[0].Names) > 1 {
			die(fset, fd, "unsupported result list")
		}
		r := fd.Type.Results.List[0]
		sg.res = soKindOfType(r.Type)
		if sg.res == "" || soZero[sg.res] == "" {
			die(fset, fd, "unsupported result type %s", t.src(r.Type))
		}
		if len(r.Names) == 1 {
			t.named = r.Names[0].Name
			t.declare(t.named, sg.res, fd)
			fmt.Fprintf(&body, "  let %s : %s := %s\n", soIdent(t.named), soLeanType[sg.res], soZero[sg.res])
		}
	}
	t.res = sg.res
	s := soIdent(t.recv)
	ctx := soCtx{}
	ctx.ret = func(v string, ind string, b *strings.Builder) {
		if len(t.defers) > 0 && v != "" {
			r := t.fresh("r")
			fmt.Fprintf(b, "%slet %s : %s := %s\n", ind, r, soLeanType[sg.res], v)
			v = r
		}
		for i := len(t.defers) - 1; i >= 0; i-- {
			fmt.Fprintf(b, "%s%s\n", ind, t.defers[i])
		}
		switch {
		case assume && v == "":
			fmt.Fprintf(b, "%spure %s\n", ind, s)
		case assume:
			fmt.Fprintf(b, "%spure (%s, %s)\n", ind, s, v)
		case v == "":
			die(fset, fd, "a function that neither writes its state nor has a result is outside the subset")
		default:
			fmt.Fprintf(b, "%spure %s\n", ind, v)
		}
	}
	ctx.fall = func(ind string, b *strings.Builder) {
		if sg.res != "" && t.named == "" {
			die(fset, fd, "control reaches the end of a function with a result")
		}
		v := ""
		if t.named != "" {
			v = soIdent(t.named)
		}
		ctx.ret(v, ind, b)
	}
	t.stmts(fd.Body.List, "  ", ctx, &body)
	if t.effect != assume {
		return "", false
	}
	// extra parameters: per set parameter, the map order and the "has a mutex" flag, when used
	for i, x := range t.setParams {
		if t.needMo[x] {
			sg.env = append(sg.env, soEnv{i, "mo"})
			params = append(params, fmt.Sprintf("(mo_%s : List Int)", soIdent(x)))
		}
		if t.needSync[x] {
			sg.env = append(sg.env, soEnv{i, "sync"})
			params = append(params, fmt.Sprintf("(sync_%s : Bool)", soIdent(x)))
		}
	}
	// env indices refer to positions among the set parameters; callTerm indexes `sets` the same way
	resT := soLeanType[sg.res]
	if strings.Contains(resT, " ") {
		resT = "(" + resT + ")"
	}
	switch {
	case assume && sg.res == "":
		resT = "Option SetSt"
	case assume:
		resT = "Option (SetSt × " + soLeanType[sg.res] + ")"
	default:
		resT = "Option " + resT
	}
	sigs[fn] = sg
	return fmt.Sprintf("/-- generated from %s `Set.%s` -/\ndef %s %s : %s := do\n%s\n", soFile, fn, lean, strings.Join(params, " "), resT,
		body.String()), true
}

func init() {
	register("SetOps", func(repo string) (text string, err error) {
		defer func() {
			if r := recover(); r != nil {
				f, ok := r.(fail)
				if !ok {
					panic(r)
				}
				err = fmt.Errorf("%s", f.msg)
			}
		}()
		return genSetOps(repo), nil
	})
}
