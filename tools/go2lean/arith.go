// arith.go — integer/float and pointer-splice targets of the T-gen translator: re-reads a fixed list of small, loop-light integer
// functions of tychoish/fun from the repository's *current* working tree and emits Lean 4
// definitions for them, statement by statement (lean/FunGen/*.lean). The tie theorems in
// lean/FunProofs/GenTie.lean state that the hand-written models used by the property theorems are
// equal to these generated definitions; a source change that alters a translated function changes
// the generated definition, and `lake build` then re-checks the tie against what the code says now.
//
// Supported subset (anything else in a targeted function is a loud failure, never a silent skip):
//   statements:  x := e | x = e | x op= e | x++ | x-- (x a local, a named result or recv.field)
//                if [init;] cond {..} [else if ..] [else {..}] | return [e] | for ; cond; post {..}
//                calls to fun.Invariant.* (assertions: dropped, listed in the output as a comment)
//   expressions: identifiers, recv.field, integer literals, + - * / % << >> | & && || ! < <= > >= == !=,
//                integer conversions (dropped), float64(e), method calls on the receiver and calls of
//                other translated functions, math.MaxInt, error sentinels (as an enum)
// Go integers are translated to Int with exact arithmetic (overflow is not modelled: the property
// theorems carry the guards under which no Go operation overflows); `/`, `%` truncate as in Go;
// shift counts and the operands of `|`, `&` go through toNat (faithful for non-negative values,
// which is all these functions are applied to; stated in the trusted base). float64 is translated
// to Lean's Float (same IEEE operations).
package main

import (
	"fmt"
	"go/ast"
	"go/parser"
	"go/token"
	"path/filepath"
	"sort"
	"strings"
)

type arithTarget struct {
	file, recv, fn string
	fuel           int // fuel for `for` loops in this function
}

type unit struct {
	out, ns string
	pre     string
	targets []arithTarget
}

var units = []unit{
	{out: "Tracker.lean", ns: "FunGen.Tracker", targets: []arithTarget{
		{"pubsub/tracker.go", "queueNoLimitTrackerImpl", "len", 0},
		{"pubsub/tracker.go", "queueNoLimitTrackerImpl", "cap", 0},
		{"pubsub/tracker.go", "queueNoLimitTrackerImpl", "add", 0},
		{"pubsub/tracker.go", "queueNoLimitTrackerImpl", "remove", 0},
		{"pubsub/tracker.go", "queueHardLimitTracker", "len", 0},
		{"pubsub/tracker.go", "queueHardLimitTracker", "cap", 0},
		{"pubsub/tracker.go", "queueHardLimitTracker", "remove", 0},
		{"pubsub/tracker.go", "queueHardLimitTracker", "add", 0},
		{"pubsub/tracker.go", "queueLimitTrackerImpl", "cap", 0},
		{"pubsub/tracker.go", "queueLimitTrackerImpl", "len", 0},
		{"pubsub/tracker.go", "queueLimitTrackerImpl", "add", 0},
		{"pubsub/tracker.go", "queueLimitTrackerImpl", "remove", 0},
	}},
	{out: "Hdr.lean", ns: "FunGen.Hdr", targets: []arithTarget{
		{"dt/hdrhist/hdr.go", "", "bitLen", 8},
		{"dt/hdrhist/hdr.go", "Histogram", "getBucketIndex", 0},
		{"dt/hdrhist/hdr.go", "Histogram", "getSubBucketIdx", 0},
		{"dt/hdrhist/hdr.go", "Histogram", "countsIndex", 0},
		{"dt/hdrhist/hdr.go", "Histogram", "countsIndexFor", 0},
		{"dt/hdrhist/hdr.go", "Histogram", "valueFromIndex", 0},
		{"dt/hdrhist/hdr.go", "Histogram", "sizeOfEquivalentValueRange", 0},
		{"dt/hdrhist/hdr.go", "Histogram", "lowestEquivalentValue", 0},
		{"dt/hdrhist/hdr.go", "Histogram", "nextNonEquivalentValue", 0},
		{"dt/hdrhist/hdr.go", "Histogram", "highestEquivalentValue", 0},
		{"dt/hdrhist/hdr.go", "Histogram", "medianEquivalentValue", 0},
	}},
}

// pointer-code units: straight-line splices over the element/list heap of FunModel/Dll.lean
type ptrTarget struct{ file, recv, fn string }

var ptrTargets = []ptrTarget{
	{"dt/list.go", "Element", "uncheckedAppend"},
	{"dt/list.go", "Element", "uncheckedRemove"},
}

// field -> (kind of the object the field lives in, kind of the value, setter)
var ptrFields = map[string][3]string{
	"next":   {"node", "node", "setNext"},
	"prev":   {"node", "node", "setPrev"},
	"list":   {"node", "hdr", "setList"},
	"length": {"hdr", "int", "addLength"},
}

type ptrTr struct {
	fset *token.FileSet
	b    strings.Builder
	n    int
}

// addr emits the binds needed to obtain the address of the object denoted by path and returns it
func (t *ptrTr) addr(e ast.Expr) string {
	switch x := e.(type) {
	case *ast.Ident:
		return leanIdent(x.Name)
	case *ast.SelectorExpr:
		f, ok := ptrFields[x.Sel.Name]
		if !ok || f[1] == "int" {
			die(t.fset, e, "unsupported pointer field %s", x.Sel.Name)
		}
		base := t.addr(x.X)
		t.n++
		v := fmt.Sprintf("a%d", t.n)
		fmt.Fprintf(&t.b, "  let %s ← (h.node %s).%s\n", v, base, x.Sel.Name)
		return v
	}
	die(t.fset, e, "unsupported path")
	return ""
}

// value is the Option-valued content of a pointer expression
func (t *ptrTr) value(e ast.Expr) string {
	switch x := e.(type) {
	case *ast.Ident:
		if x.Name == "nil" {
			return "none"
		}
		return "(some " + leanIdent(x.Name) + ")"
	case *ast.SelectorExpr:
		if f, ok := ptrFields[x.Sel.Name]; ok && f[0] == "node" {
			return fmt.Sprintf("(h.node %s).%s", t.addr(x.X), x.Sel.Name)
		}
	}
	die(t.fset, e, "unsupported pointer value")
	return ""
}

func genPtrUnit(repo string) string {
	fset := token.NewFileSet()
	var b strings.Builder
	b.WriteString("import FunModel.Dll\n\n/-! GENERATED by tools/go2lean from the working tree of tychoish/fun on every run of ./check — do not edit.\n")
	b.WriteString("    Straight-line pointer code of dt/list.go over the heap of FunModel/Dll.lean: a field write `p.f = q` becomes a\n")
	b.WriteString("    functional heap update, every dereference a bind in `Option` (`none` = nil-pointer panic). -/\n\n")
	b.WriteString("namespace FunGen.Dll\nopen FunModel.Dll\n\n")
	for _, tg := range ptrTargets {
		f, err := parser.ParseFile(fset, filepath.Join(repo, tg.file), nil, 0)
		if err != nil {
			panic(fail{err.Error()})
		}
		var fd *ast.FuncDecl
		for _, d := range f.Decls {
			if x, ok := d.(*ast.FuncDecl); ok && x.Name.Name == tg.fn && x.Recv != nil {
				fd = x
			}
		}
		if fd == nil {
			panic(fail{tg.fn + " not found"})
		}
		t := &ptrTr{fset: fset}
		params := []string{leanIdent(fd.Recv.List[0].Names[0].Name)}
		for _, p := range fd.Type.Params.List {
			for _, n := range p.Names {
				params = append(params, leanIdent(n.Name))
			}
		}
		if fd.Type.Results != nil {
			die(fset, fd, "results are not supported in pointer units")
		}
		for _, st := range fd.Body.List {
			switch x := st.(type) {
			case *ast.IncDecStmt:
				sel, ok := x.X.(*ast.SelectorExpr)
				if !ok || ptrFields[sel.Sel.Name][1] != "int" {
					die(fset, st, "unsupported ++/--")
				}
				d := "1"
				if x.Tok == token.DEC {
					d = "(-1)"
				}
				a := t.addr(sel.X)
				fmt.Fprintf(&t.b, "  let h := h.%s %s %s\n", ptrFields[sel.Sel.Name][2], a, d)
			case *ast.AssignStmt:
				if x.Tok != token.ASSIGN || len(x.Lhs) != 1 {
					die(fset, st, "unsupported assignment")
				}
				sel, ok := x.Lhs[0].(*ast.SelectorExpr)
				if !ok {
					die(fset, st, "unsupported assignment arithTarget")
				}
				fl, ok := ptrFields[sel.Sel.Name]
				if !ok || fl[1] == "int" {
					die(fset, st, "unsupported field %s", sel.Sel.Name)
				}
				a := t.addr(sel.X)
				v := t.value(x.Rhs[0])
				fmt.Fprintf(&t.b, "  let h := h.%s %s %s\n", fl[2], a, v)
			default:
				die(fset, st, "unsupported statement %T", st)
			}
		}
		fmt.Fprintf(&b, "/-- generated from %s `%s.%s` -/\ndef %s (h : Heap) (%s : Nat) : Option Heap := do\n%s  pure h\n\n",
			tg.file, tg.recv, tg.fn, tg.fn, strings.Join(params, " "), t.b.String())
	}
	b.WriteString("end FunGen.Dll\n")
	return b.String()
}

type fail struct{ msg string }

func die(fset *token.FileSet, n ast.Node, f string, a ...any) {
	pos := ""
	if n != nil {
		pos = fset.Position(n.Pos()).String() + ": "
	}
	panic(fail{pos + fmt.Sprintf(f, a...)})
}

type tr struct {
	fset   *token.FileSet
	file   *ast.File
	recv   string // receiver variable name ("" for plain functions)
	rtype  string
	known  map[string]bool // translated function names (recv "." name or name)
	fuel   int
	nloop  int
	aux    []string // auxiliary loop definitions
	fname  string
	drops  []string
	errs   map[string]bool
	locals map[string]bool
	floats map[string]bool // float-typed locals and "recv.field" names
}

func (t *tr) isFloat(e ast.Expr) bool {
	switch x := e.(type) {
	case *ast.ParenExpr:
		return t.isFloat(x.X)
	case *ast.Ident:
		return t.floats[x.Name]
	case *ast.SelectorExpr:
		return t.floats["."+x.Sel.Name]
	case *ast.BinaryExpr:
		return t.isFloat(x.X) || t.isFloat(x.Y)
	case *ast.CallExpr:
		if id, ok := x.Fun.(*ast.Ident); ok && id.Name == "float64" {
			return true
		}
	}
	return false
}

func leanIdent(s string) string {
	switch s {
	case "from", "end", "open", "at", "fun", "have", "show", "then", "in":
		return s + "_"
	}
	return s
}

var intTypes = map[string]bool{"int": true, "int8": true, "int16": true, "int32": true, "int64": true, "uint": true,
	"uint8": true, "uint16": true, "uint32": true, "uint64": true}

func (t *tr) expr(e ast.Expr) string {
	switch x := e.(type) {
	case *ast.Ident:
		switch x.Name {
		case "true", "false":
			return x.Name
		case "nil":
			return "GErr.nil"
		}
		if strings.HasPrefix(x.Name, "Err") || strings.HasPrefix(x.Name, "err") {
			if !t.locals[x.Name] {
				t.errs[x.Name] = true
				return "GErr." + x.Name
			}
		}
		return leanIdent(x.Name)
	case *ast.BasicLit:
		if x.Kind == token.INT {
			return x.Value
		}
		die(t.fset, e, "unsupported literal %s", x.Value)
	case *ast.ParenExpr:
		return "(" + t.expr(x.X) + ")"
	case *ast.SelectorExpr:
		if id, ok := x.X.(*ast.Ident); ok {
			if id.Name == t.recv && t.recv != "" {
				return fmt.Sprintf("%s.%s", leanIdent(t.recv), leanIdent(x.Sel.Name))
			}
			if id.Name == "math" && x.Sel.Name == "MaxInt" {
				return "maxInt"
			}
		}
		die(t.fset, e, "unsupported selector")
	case *ast.UnaryExpr:
		switch x.Op {
		case token.NOT:
			return "(!" + t.expr(x.X) + ")"
		case token.SUB:
			return "(-" + t.expr(x.X) + ")"
		case token.ADD:
			return t.expr(x.X)
		}
		die(t.fset, e, "unsupported unary operator %s", x.Op)
	case *ast.BinaryExpr:
		ops := map[token.Token]string{token.ADD: "+", token.SUB: "-", token.MUL: "*", token.QUO: "/", token.REM: "%",
			token.SHL: "<<<", token.SHR: ">>>", token.OR: "|||", token.AND: "&&&", token.LAND: "&&", token.LOR: "||",
			token.LSS: "<", token.LEQ: "≤", token.GTR: ">", token.GEQ: "≥", token.EQL: "==", token.NEQ: "!="}
		op, ok := ops[x.Op]
		if !ok {
			die(t.fset, e, "unsupported operator %s", x.Op)
		}
		l, r := t.expr(x.X), t.expr(x.Y)
		switch x.Op {
		case token.LSS, token.LEQ, token.GTR, token.GEQ:
			return fmt.Sprintf("(decide (%s %s %s))", l, op, r)
		case token.SHL, token.SHR:
			return fmt.Sprintf("(%s %s Int.toNat %s)", l, op, r)
		case token.OR, token.AND:
			// core Lean has no bitwise or/and on Int: operands are non-negative (stated in the header)
			return fmt.Sprintf("((Int.toNat %s %s Int.toNat %s : Nat) : Int)", l, op, r)
		case token.QUO:
			if t.isFloat(x) {
				return fmt.Sprintf("(%s / %s)", l, r)
			}
			return fmt.Sprintf("(Int.tdiv %s %s)", l, r)
		case token.REM:
			return fmt.Sprintf("(Int.tmod %s %s)", l, r)
		}
		return fmt.Sprintf("(%s %s %s)", l, op, r)
	case *ast.CallExpr:
		switch f := x.Fun.(type) {
		case *ast.Ident:
			if intTypes[f.Name] && len(x.Args) == 1 {
				return t.expr(x.Args[0])
			}
			if f.Name == "float64" && len(x.Args) == 1 {
				return "(Float.ofInt " + t.expr(x.Args[0]) + ")"
			}
			if t.known[f.Name] {
				args := []string{}
				for _, a := range x.Args {
					args = append(args, t.expr(a))
				}
				return "(" + f.Name + " " + strings.Join(args, " ") + ")"
			}
		case *ast.SelectorExpr:
			if id, ok := f.X.(*ast.Ident); ok && id.Name == t.recv && t.known[t.rtype+"."+f.Sel.Name] {
				args := []string{leanIdent(t.recv)}
				for _, a := range x.Args {
					args = append(args, t.expr(a))
				}
				return "(" + t.rtype + "." + f.Sel.Name + " " + strings.Join(args, " ") + ")"
			}
		}
		die(t.fset, e, "unsupported call")
	}
	die(t.fset, e, "unsupported expression %T", e)
	return ""
}

// assigned collects the variables (locals or "recv") written by a statement list
func (t *tr) assigned(stmts []ast.Stmt, acc map[string]bool) {
	lhs := func(e ast.Expr) {
		switch x := e.(type) {
		case *ast.Ident:
			acc[x.Name] = true
		case *ast.SelectorExpr:
			acc[t.recv] = true
		}
	}
	for _, s := range stmts {
		switch x := s.(type) {
		case *ast.AssignStmt:
			if x.Tok != token.DEFINE {
				lhs(x.Lhs[0])
			}
		case *ast.IncDecStmt:
			lhs(x.X)
		case *ast.IfStmt:
			t.assigned(x.Body.List, acc)
			if x.Else != nil {
				switch el := x.Else.(type) {
				case *ast.BlockStmt:
					t.assigned(el.List, acc)
				case *ast.IfStmt:
					t.assigned([]ast.Stmt{el}, acc)
				}
			}
		case *ast.ForStmt:
			t.assigned(x.Body.List, acc)
			if x.Post != nil {
				t.assigned([]ast.Stmt{x.Post}, acc)
			}
		}
	}
}

func hasReturn(stmts []ast.Stmt) bool {
	found := false
	for _, s := range stmts {
		ast.Inspect(s, func(n ast.Node) bool {
			if _, ok := n.(*ast.ReturnStmt); ok {
				found = true
			}
			return !found
		})
	}
	return found
}

func tuple(vs []string) string {
	if len(vs) == 1 {
		return leanIdent(vs[0])
	}
	out := []string{}
	for _, v := range vs {
		out = append(out, leanIdent(v))
	}
	return "(" + strings.Join(out, ", ") + ")"
}

func sorted(m map[string]bool) []string {
	out := []string{}
	for k := range m {
		out = append(out, k)
	}
	sort.Strings(out)
	return out
}

// assign emits `let <arithTarget> := <value>` for a write to a local or to recv.field
func (t *tr) assign(lhs ast.Expr, val string, ind string) string {
	switch x := lhs.(type) {
	case *ast.Ident:
		return fmt.Sprintf("%slet %s := %s\n", ind, leanIdent(x.Name), val)
	case *ast.SelectorExpr:
		if id, ok := x.X.(*ast.Ident); ok && id.Name == t.recv {
			r := leanIdent(t.recv)
			return fmt.Sprintf("%slet %s := { %s with %s := %s }\n", ind, r, r, leanIdent(x.Sel.Name), val)
		}
	}
	die(t.fset, lhs, "unsupported assignment arithTarget")
	return ""
}

// stmts translates a statement list followed by the continuation `ret` (the text of the value
// returned when control falls off the end)
func (t *tr) stmts(list []ast.Stmt, ind string, ret func() string) string {
	if len(list) == 0 {
		return ind + ret() + "\n"
	}
	s, rest := list[0], list[1:]
	switch x := s.(type) {
	case *ast.AssignStmt:
		if len(x.Lhs) != 1 || len(x.Rhs) != 1 {
			die(t.fset, s, "only single assignments are supported")
		}
		val := t.expr(x.Rhs[0])
		switch x.Tok {
		case token.DEFINE:
			t.locals[x.Lhs[0].(*ast.Ident).Name] = true
			if t.isFloat(x.Rhs[0]) {
				t.floats[x.Lhs[0].(*ast.Ident).Name] = true
			}
		case token.ASSIGN:
		default:
			ops := map[token.Token]token.Token{token.ADD_ASSIGN: token.ADD, token.SUB_ASSIGN: token.SUB, token.SHL_ASSIGN: token.SHL,
				token.SHR_ASSIGN: token.SHR, token.MUL_ASSIGN: token.MUL, token.OR_ASSIGN: token.OR, token.AND_ASSIGN: token.AND}
			op, ok := ops[x.Tok]
			if !ok {
				die(t.fset, s, "unsupported assignment operator %s", x.Tok)
			}
			val = t.expr(&ast.BinaryExpr{X: x.Lhs[0], Op: op, Y: x.Rhs[0], OpPos: x.Pos()})
		}
		return t.assign(x.Lhs[0], val, ind) + t.stmts(rest, ind, ret)
	case *ast.IncDecStmt:
		op := "+"
		if x.Tok == token.DEC {
			op = "-"
		}
		return t.assign(x.X, fmt.Sprintf("(%s %s 1)", t.expr(x.X), op), ind) + t.stmts(rest, ind, ret)
	case *ast.ReturnStmt:
		if len(x.Results) > 1 {
			die(t.fset, s, "multiple results are not supported")
		}
		if len(x.Results) == 1 {
			return ind + t.retWith(t.expr(x.Results[0])) + "\n"
		}
		return ind + ret() + "\n"
	case *ast.ExprStmt:
		if c, ok := x.X.(*ast.CallExpr); ok {
			if sel, ok := c.Fun.(*ast.SelectorExpr); ok {
				if in, ok := sel.X.(*ast.SelectorExpr); ok && in.Sel.Name == "Invariant" {
					t.drops = append(t.drops, fmt.Sprintf("%s: assertion fun.Invariant.%s(...) dropped", t.fname, sel.Sel.Name))
					return t.stmts(rest, ind, ret)
				}
			}
		}
		die(t.fset, s, "unsupported expression statement")
	case *ast.IfStmt:
		pre := ""
		if x.Init != nil {
			as, ok := x.Init.(*ast.AssignStmt)
			if !ok || as.Tok != token.DEFINE {
				die(t.fset, s, "unsupported if-initialiser")
			}
			t.locals[as.Lhs[0].(*ast.Ident).Name] = true
			if t.isFloat(as.Rhs[0]) {
				t.floats[as.Lhs[0].(*ast.Ident).Name] = true
			}
			pre = t.assign(as.Lhs[0], t.expr(as.Rhs[0]), ind)
		}
		var elseList []ast.Stmt
		switch el := x.Else.(type) {
		case *ast.BlockStmt:
			elseList = el.List
		case *ast.IfStmt:
			elseList = []ast.Stmt{el}
		}
		if !hasReturn(x.Body.List) && !hasReturn(elseList) {
			// join form: the branches only update variables
			vs := map[string]bool{}
			t.assigned(x.Body.List, vs)
			t.assigned(elseList, vs)
			names := sorted(vs)
			if len(names) == 0 {
				return pre + t.stmts(rest, ind, ret)
			}
			tp := tuple(names)
			join := func() string { return tp }
			out := pre + fmt.Sprintf("%slet %s :=\n%s  if %s then\n", ind, tp, ind, t.expr(x.Cond))
			out += t.stmts(x.Body.List, ind+"    ", join)
			out += ind + "  else\n" + t.stmts(elseList, ind+"    ", join)
			return out + t.stmts(rest, ind, ret)
		}
		// continuation form: a branch returns, so the rest of the function is duplicated
		out := pre + fmt.Sprintf("%sif %s then\n", ind, t.expr(x.Cond))
		out += t.stmts(append(append([]ast.Stmt{}, x.Body.List...), rest...), ind+"  ", ret)
		out += ind + "else\n" + t.stmts(append(append([]ast.Stmt{}, elseList...), rest...), ind+"  ", ret)
		return out
	case *ast.ForStmt:
		if x.Init != nil || x.Cond == nil || hasReturn(x.Body.List) || t.fuel == 0 {
			die(t.fset, s, "unsupported for-statement (need `for ; cond; post` without return, and a fuel entry)")
		}
		vs := map[string]bool{}
		t.assigned(x.Body.List, vs)
		if x.Post != nil {
			t.assigned([]ast.Stmt{x.Post}, vs)
		}
		names := sorted(vs)
		tp := tuple(names)
		t.nloop++
		lname := fmt.Sprintf("%s_loop%d", t.fname, t.nloop)
		body := append(append([]ast.Stmt{}, x.Body.List...), []ast.Stmt{}...)
		if x.Post != nil {
			body = append(body, x.Post)
		}
		params := []string{}
		for _, n := range names {
			params = append(params, "("+leanIdent(n)+" : Int)")
		}
		typ := "Int"
		if len(names) > 1 {
			typ = strings.TrimSuffix(strings.Repeat("Int × ", len(names)), " × ")
		}
		aux := fmt.Sprintf("def %s (fuel : Nat) %s : %s :=\n  match fuel with\n  | 0 => %s\n  | fuel + 1 =>\n    if %s then\n",
			lname, strings.Join(params, " "), typ, tp, t.expr(x.Cond))
		args := []string{}
		for _, n := range names {
			args = append(args, leanIdent(n))
		}
		aux += t.stmts(body, "      ", func() string { return lname + " fuel " + strings.Join(args, " ") })
		aux += "    else " + tp + "\n"
		t.aux = append(t.aux, aux)
		out := fmt.Sprintf("%slet %s := %s %d %s\n", ind, tp, lname, t.fuel, strings.Join(args, " "))
		return out + t.stmts(rest, ind, ret)
	}
	die(t.fset, s, "unsupported statement %T", s)
	return ""
}

var mutates bool
var curRecv string

func (t *tr) retWith(v string) string {
	if mutates {
		return "(" + leanIdent(t.recv) + ", " + v + ")"
	}
	return v
}

func leanType(e ast.Expr) string {
	if id, ok := e.(*ast.Ident); ok {
		switch {
		case intTypes[id.Name]:
			return "Int"
		case id.Name == "float64":
			return "Float"
		case id.Name == "bool":
			return "Bool"
		case id.Name == "error":
			return "GErr"
		}
	}
	return ""
}

func init() {
	for _, u := range units {
		u := u
		register(strings.TrimSuffix(u.out, ".lean"), func(repo string) (text string, err error) {
			defer func() {
				if r := recover(); r != nil {
					f, ok := r.(fail)
					if !ok {
						panic(r)
					}
					err = fmt.Errorf("%s", f.msg)
				}
			}()
			return genUnit(repo, u), nil
		})
	}
	register("Dll", func(repo string) (text string, err error) {
		defer func() {
			if r := recover(); r != nil {
				f, ok := r.(fail)
				if !ok {
					panic(r)
				}
				err = fmt.Errorf("%s", f.msg)
			}
		}()
		return genPtrUnit(repo), nil
	})
}

func genUnit(repo string, u unit) string {
	fset := token.NewFileSet()
	files := map[string]*ast.File{}
	known := map[string]bool{}
	for _, tg := range u.targets {
		if tg.recv == "" {
			known[tg.fn] = true
		} else {
			known[tg.recv+"."+tg.fn] = true
		}
	}
	errs := map[string]bool{}
	var defs []string
	var drops []string
	structs := map[string]string{}
	var structOrder []string
	for _, tg := range u.targets {
		f, ok := files[tg.file]
		if !ok {
			var err error
			f, err = parser.ParseFile(fset, filepath.Join(repo, tg.file), nil, 0)
			if err != nil {
				panic(fail{err.Error()})
			}
			files[tg.file] = f
		}
		if tg.recv != "" {
			if _, ok := structs[tg.recv]; !ok {
				structs[tg.recv] = genStruct(fset, f, tg.recv)
				structOrder = append(structOrder, tg.recv)
			}
		}
		var fd *ast.FuncDecl
		for _, d := range f.Decls {
			if x, ok := d.(*ast.FuncDecl); ok && x.Name.Name == tg.fn {
				r := ""
				if x.Recv != nil {
					switch rt := x.Recv.List[0].Type.(type) {
					case *ast.StarExpr:
						r = rt.X.(*ast.Ident).Name
					case *ast.Ident:
						r = rt.Name
					}
				}
				if r == tg.recv {
					fd = x
				}
			}
		}
		if fd == nil {
			panic(fail{fmt.Sprintf("%s: function %s.%s not found", tg.file, tg.recv, tg.fn)})
		}
		t := &tr{fset: fset, file: f, rtype: tg.recv, known: known, fuel: tg.fuel, errs: errs, locals: map[string]bool{}, floats: map[string]bool{}}
		if tg.recv != "" {
			for _, fl := range structFloatFields(f, tg.recv) {
				t.floats["."+fl] = true
			}
		}
		t.fname = tg.fn
		if tg.recv != "" {
			t.fname = tg.recv + "." + tg.fn
			if len(fd.Recv.List[0].Names) > 0 {
				t.recv = fd.Recv.List[0].Names[0].Name
			} else {
				t.recv = "self"
			}
		}
		params := []string{}
		if t.recv != "" {
			params = append(params, fmt.Sprintf("(%s : %s)", leanIdent(t.recv), tg.recv))
		}
		for _, p := range fd.Type.Params.List {
			lt := leanType(p.Type)
			if lt == "" {
				die(fset, p, "unsupported parameter type")
			}
			for _, n := range p.Names {
				params = append(params, fmt.Sprintf("(%s : %s)", leanIdent(n.Name), lt))
				t.locals[n.Name] = true
			}
		}
		vs := map[string]bool{}
		t.assigned(fd.Body.List, vs)
		mutates = t.recv != "" && vs[t.recv]
		resT, named := "", ""
		if fd.Type.Results != nil {
			if len(fd.Type.Results.List) != 1 {
				die(fset, fd, "unsupported result list")
			}
			r := fd.Type.Results.List[0]
			resT = leanType(r.Type)
			if resT == "" {
				die(fset, fd, "unsupported result type")
			}
			if len(r.Names) == 1 {
				named = r.Names[0].Name
				t.locals[named] = true
			}
		}
		fullT := resT
		switch {
		case mutates && resT != "":
			fullT = tg.recv + " × " + resT
		case mutates:
			fullT = tg.recv
		case resT == "":
			fullT = "Unit"
		}
		fall := func() string {
			switch {
			case named != "":
				return t.retWith(leanIdent(named))
			case resT == "" && mutates:
				return leanIdent(t.recv)
			case resT == "":
				return "()"
			}
			die(fset, fd, "control reaches the end of a function with a result")
			return ""
		}
		body := ""
		if named != "" {
			body += fmt.Sprintf("  let %s : %s := 0\n", leanIdent(named), resT)
		}
		body += t.stmts(fd.Body.List, "  ", fall)
		for _, a := range t.aux {
			defs = append(defs, a)
		}
		pos := fset.Position(fd.Pos())
		rel, _ := filepath.Rel(repo, pos.Filename)
		defs = append(defs, fmt.Sprintf("/-- generated from %s `%s` -/\ndef %s %s : %s :=\n%s", rel, t.fname, t.fname,
			strings.Join(params, " "), fullT, body))
		drops = append(drops, t.drops...)
	}
	var b strings.Builder
	b.WriteString("/-! GENERATED by tools/go2lean from the working tree of tychoish/fun on every run of ./check — do not edit.\n")
	b.WriteString("    Go integers are Int (exact arithmetic: no overflow is modelled; `/` and `%` truncate as in Go; shifts take\n")
	b.WriteString("    their count through toNat and `|`/`&` their operands through toNat, i.e. they are faithful for non-negative\n")
	b.WriteString("    operands only), float64 is Float; see tools/go2lean/main.go. -/\n")
	for _, d := range drops {
		b.WriteString("-- " + d + "\n")
	}
	b.WriteString("\nset_option linter.unusedVariables false\n\nnamespace " + u.ns + "\n\n")
	b.WriteString("def maxInt : Int := 9223372036854775807\n\n")
	if len(errs) > 0 {
		b.WriteString("inductive GErr where\n  | nil\n")
		for _, e := range sorted(errs) {
			b.WriteString("  | " + e + "\n")
		}
		b.WriteString("  deriving Repr, DecidableEq\n\n")
	}
	for _, s := range structOrder {
		b.WriteString(structs[s] + "\n")
	}
	for _, d := range defs {
		b.WriteString(d + "\n")
	}
	b.WriteString("end " + u.ns + "\n")
	return b.String()
}

func structFloatFields(f *ast.File, name string) []string {
	var out []string
	ast.Inspect(f, func(n ast.Node) bool {
		ts, ok := n.(*ast.TypeSpec)
		if !ok || ts.Name.Name != name {
			return true
		}
		if st, ok := ts.Type.(*ast.StructType); ok {
			for _, fl := range st.Fields.List {
				if leanType(fl.Type) == "Float" {
					for _, n := range fl.Names {
						out = append(out, n.Name)
					}
				}
			}
		}
		return false
	})
	return out
}

func genStruct(fset *token.FileSet, f *ast.File, name string) string {
	for _, d := range f.Decls {
		gd, ok := d.(*ast.GenDecl)
		if !ok {
			continue
		}
		for _, sp := range gd.Specs {
			ts, ok := sp.(*ast.TypeSpec)
			if !ok || ts.Name.Name != name {
				continue
			}
			st, ok := ts.Type.(*ast.StructType)
			if !ok {
				die(fset, ts, "not a struct")
			}
			var b strings.Builder
			fmt.Fprintf(&b, "/-- generated from the scalar fields of `%s` -/\nstructure %s where\n", name, name)
			for _, fl := range st.Fields.List {
				lt := leanType(fl.Type)
				if lt == "" {
					continue // non-scalar fields (slices, pointers) are not part of the translated state
				}
				for _, n := range fl.Names {
					fmt.Fprintf(&b, "  %s : %s\n", leanIdent(n.Name), lt)
				}
			}
			return b.String()
		}
	}
	panic(fail{"struct " + name + " not found"})
}
