package main

// Target Cmp: the pointer-level algorithms of dt/cmp.go over the heap of FunModel/Dll.lean (C17)
//   List.IsSorted, split, merge, mergeSort, List.SortMerge, Heap.lazySetup, Heap.Push, Heap.Pop, Heap.Len
//                                                                                   -> lean/FunGen/Cmp.lean
// translated statement by statement into the `Option` monad (`none` = panic: nil dereference, call of
// a nil comparator, explicit `panic(...)`). Every pointer (`*List[T]`, `*Element[T]`) is an `Option Nat`
// (`none` = nil), `T` and `int` are `Int`, a comparator parameter `cmp.LessThan[T]` is a function
// `Int → Int → Bool`; the receiver of a `Heap` method is a value `Option HObj` (`HObj` = the two
// fields `LT`, `list`) that the generated function hands back next to the heap (in/out parameter).
// Every generated function takes the heap `μ` and returns it first: `Option (Heap × results…)`.
//
// Calls into dt/list.go are NOT translated here: they are mapped onto the operations of the C16 model
// (table `cmBuiltins`; the Lean side of the table is the preamble of the generated file). That table is
// the trusted part of this target.
//
// Expressions are evaluated in Go's order into A-normal form (one `let` per call/field read that can
// panic or writes the heap), `&&`/`||` keep the short-circuit (the right operand must be read-only).
// Control flow: `if [init;] c {A} [else {B}]; rest` becomes `if c then A;rest else B;rest` (the
// continuation is duplicated, so locals may be assigned in branches), `return`, `panic`, `continue`,
// `for [x := e]; c; [x = e'] { … }` becomes a function recursive over `fuel` returning `some r` when the
// body returned `r` and `none` when the loop was left (out of fuel = the loop is left). A self-recursive
// function is recursive over `fuel` (out of fuel = it returns its first parameter of the result type,
// unchanged heap). A call of another generated function that takes fuel passes `φ "<callee>" μ [pointer
// arguments]`, where `φ` is a parameter of the caller: the generator does not choose fuel measures.
//
// Anything else in a targeted function (switch, range, defer, go, closures, slices, multiple assignment,
// assignment inside a loop to a variable declared outside it, shadowing, calls not in the table) is a
// loud failure of this target only.

import (
	"bytes"
	"fmt"
	"go/ast"
	"go/parser"
	"go/printer"
	"go/token"
	"path/filepath"
	"regexp"
	"strings"
)

const cmFile = "dt/cmp.go"

type cmTarget struct{ recv, fn string }

// callees first
var cmTargets = []cmTarget{
	{"List", "IsSorted"},
	{"", "split"},
	{"", "merge"},
	{"", "mergeSort"},
	{"List", "SortMerge"},
	{"Heap", "lazySetup"},
	{"Heap", "Push"},
	{"Heap", "Pop"},
	{"Heap", "Len"},
}

var cmLeanType = map[string]string{
	"lptr": "Option Nat", "eptr": "Option Nat", "hptr": "Option HObj", "int": "Int", "bool": "Bool",
	"lt": "Int → Int → Bool", "ltopt": "Option (Int → Int → Bool)",
}

var cmRecvOfKind = map[string]string{"lptr": "List", "eptr": "Element", "hptr": "Heap"}

// field -> kind, per owner
var cmFields = map[string]map[string]string{
	"eptr": {"item": "int", "next": "eptr", "prev": "eptr", "list": "lptr", "ok": "bool"},
	"lptr": {"root": "eptr", "length": "int"},
	"hptr": {"LT": "ltopt", "list": "lptr"},
}

var cmFieldStruct = map[string]string{"eptr": "Node", "lptr": "Hdr", "hptr": "HObj"}

type cmSig struct {
	lean   string
	params []string // kinds, receiver first
	res    []string // result kinds
	effect bool     // returns the heap first
	inout  bool     // receiver is a *Heap: handed back after the heap
	fuel   bool
	phi    bool
}

// dt/list.go as seen from dt/cmp.go: the trusted mapping onto the C16 model (Lean side: cmPreamble)
var cmBuiltins = map[string]*cmSig{
	"List.Len":         {lean: "List_Len", params: []string{"lptr"}, res: []string{"int"}},
	"List.lazySetup":   {lean: "List_lazySetup", params: []string{"lptr"}, effect: true},
	"List.Front":       {lean: "List_Front", params: []string{"lptr"}, res: []string{"eptr"}, effect: true},
	"List.Back":        {lean: "List_Back", params: []string{"lptr"}, res: []string{"eptr"}, effect: true},
	"List.PopFront":    {lean: "List_PopFront", params: []string{"lptr"}, res: []string{"eptr"}, effect: true},
	"List.PopBack":     {lean: "List_PopBack", params: []string{"lptr"}, res: []string{"eptr"}, effect: true},
	"List.PushBack":    {lean: "List_PushBack", params: []string{"lptr", "int"}, effect: true},
	"List.PushFront":   {lean: "List_PushFront", params: []string{"lptr", "int"}, effect: true},
	"List.Extend":      {lean: "List_Extend", params: []string{"lptr", "lptr"}, effect: true},
	"Element.Ok":       {lean: "Element_Ok", params: []string{"eptr"}, res: []string{"bool"}},
	"Element.Value":    {lean: "Element_Value", params: []string{"eptr"}, res: []string{"int"}},
	"Element.Next":     {lean: "Element_Next", params: []string{"eptr"}, res: []string{"eptr"}},
	"Element.Previous": {lean: "Element_Previous", params: []string{"eptr"}, res: []string{"eptr"}},
	"Element.Append":   {lean: "Element_Append", params: []string{"eptr", "eptr"}, res: []string{"eptr"}, effect: true},
	"Element.Remove":   {lean: "Element_Remove", params: []string{"eptr"}, res: []string{"bool"}, effect: true},
	"NewElement":       {lean: "NewElement", params: []string{"int"}, res: []string{"eptr"}, effect: true},
}

const cmPreamble = `/-- the two fields of a ` + "`dt.Heap`" + ` (the receiver of the Heap methods is passed and handed back as a value) -/
structure HObj where
  LT : Option (Int → Int → Bool) := none
  list : Option Nat := none

/-! ### field reads (` + "`none`" + ` = nil dereference) -/

def ldE {α : Type} (μ : Heap) (f : Node → α) (p : Option Nat) : Option α := do
  let a ← p
  pure (f (μ.node a))

def ldL {α : Type} (μ : Heap) (f : Hdr → α) (p : Option Nat) : Option α := do
  let a ← p
  pure (f (μ.hdr a))

def ldH {α : Type} (f : HObj → α) (p : Option HObj) : Option α := do
  let a ← p
  pure (f a)

/-! ### TRUSTED MAPPING: what a call from dt/cmp.go into dt/list.go means on the C16 model
    (` + "`FunModel/Dll.lean`" + `; the C16 theorems are about these operations, and ` + "`uncheckedAppend/Remove`" + ` below them
    are themselves regenerated, FunGen/Dll.lean). A nil receiver is a panic throughout, except ` + "`Ok`" + `. -/

/-- ` + "`l.Len()`" + ` -/
def List_Len (μ : Heap) (l : Option Nat) : Option Int := ldL μ Hdr.length l
/-- ` + "`l.lazySetup()`" + ` -/
def List_lazySetup (μ : Heap) (l : Option Nat) : Option Heap := do
  let a ← l
  pure (μ.lazySetup a)
/-- ` + "`l.Front()`" + ` = ` + "`l.lazySetup(); return l.root.next`" + ` -/
def List_Front (μ : Heap) (l : Option Nat) : Option (Heap × Option Nat) := do
  let a ← l
  let μ := μ.lazySetup a
  pure (μ, μ.front a)
/-- ` + "`l.Back()`" + ` = ` + "`l.lazySetup(); return l.root.prev`" + ` -/
def List_Back (μ : Heap) (l : Option Nat) : Option (Heap × Option Nat) := do
  let a ← l
  let μ := μ.lazySetup a
  pure (μ, μ.back a)
/-- ` + "`l.PopFront()`" + ` -/
def List_PopFront (μ : Heap) (l : Option Nat) : Option (Heap × Option Nat) := do
  let a ← l
  let (μ, e) ← μ.popFront a
  pure (μ, some e)
/-- ` + "`l.PopBack()`" + ` -/
def List_PopBack (μ : Heap) (l : Option Nat) : Option (Heap × Option Nat) := do
  let a ← l
  let (μ, e) ← μ.popBack a
  pure (μ, some e)
/-- ` + "`l.PushBack(v)`" + ` -/
def List_PushBack (μ : Heap) (l : Option Nat) (v : Int) : Option Heap := do
  let a ← l
  μ.pushBack a v
/-- ` + "`l.PushFront(v)`" + ` -/
def List_PushFront (μ : Heap) (l : Option Nat) (v : Int) : Option Heap := do
  let a ← l
  μ.pushFront a v
/-- ` + "`l.Extend(input)`" + ` -/
def List_Extend (μ : Heap) (l input : Option Nat) : Option Heap := do
  let a ← l
  let b ← input
  μ.extend a b
/-- ` + "`e.Ok()`" + ` (false on nil) -/
def Element_Ok (μ : Heap) (e : Option Nat) : Option Bool := some (μ.okOpt e)
/-- ` + "`e.Value()`" + ` -/
def Element_Value (μ : Heap) (e : Option Nat) : Option Int := ldE μ Node.item e
/-- ` + "`e.Next()`" + ` -/
def Element_Next (μ : Heap) (e : Option Nat) : Option (Option Nat) := ldE μ Node.next e
/-- ` + "`e.Previous()`" + ` -/
def Element_Previous (μ : Heap) (e : Option Nat) : Option (Option Nat) := ldE μ Node.prev e
/-- ` + "`e.Append(new)`" + ` -/
def Element_Append (μ : Heap) (e new : Option Nat) : Option (Heap × Option Nat) := do
  let a ← e
  let (μ, r) ← μ.elemAppend a new
  pure (μ, some r)
/-- ` + "`e.Remove()`" + ` -/
def Element_Remove (μ : Heap) (e : Option Nat) : Option (Heap × Bool) := do
  let a ← e
  μ.elemRemove a
/-- ` + "`NewElement(v)`" + ` -/
def NewElement (μ : Heap) (v : Int) : Option (Heap × Option Nat) :=
  pure ((μ.makeElem v).1, some (μ.makeElem v).2)
/-- ` + "`&List[T]{}`" + ` -/
def newList (μ : Heap) : Option (Heap × Option Nat) :=
  pure (μ.allocList.1, some μ.allocList.2)

/-! ### generated functions -/

`

type cmCtx struct {
	ret  func(vals []string) string
	fall func(ind string, b *strings.Builder)
	cont func(ind string, b *strings.Builder) // `continue` (nil outside a loop)
}

type cmTr struct {
	fset     *token.FileSet
	sigs     map[string]*cmSig
	self     *cmSig
	selfKey  string
	vars     map[string]string
	order    []string
	n        int
	nloop    int
	aux      []string
	effN     int             // number of heap-writing binds emitted so far
	loopVars map[string]bool // inside a loop: the variables declared in it (nil outside)
	recvVar  string          // name of the *Heap receiver ("" if none)
}

func (t *cmTr) src(n ast.Node) string {
	var b bytes.Buffer
	_ = printer.Fprint(&b, t.fset, n)
	return strings.Join(strings.Fields(b.String()), " ")
}

func (t *cmTr) fresh(p string) string { t.n++; return fmt.Sprintf("%s%d", p, t.n) }

var cmTmpName = regexp.MustCompile(`^[vcar][0-9]+$`)

func (t *cmTr) declare(name, kind string, at ast.Node) {
	if name == "μ" || name == "fuel" || name == "φ" || name == "_" || cmTmpName.MatchString(name) {
		die(t.fset, at, "variable name %s is reserved by the translation", name)
	}
	if _, dup := t.vars[name]; dup {
		die(t.fset, at, "redefinition (shadowing) of %s is outside the subset", name)
	}
	t.vars[name] = kind
	t.order = append(t.order, name)
	if t.loopVars != nil {
		t.loopVars[name] = true
	}
}

func cmKindOfType(e ast.Expr) string {
	switch x := e.(type) {
	case *ast.StarExpr:
		inner := x.X
		if ix, ok := inner.(*ast.IndexExpr); ok {
			inner = ix.X
		}
		if id, ok := inner.(*ast.Ident); ok {
			switch id.Name {
			case "List":
				return "lptr"
			case "Element":
				return "eptr"
			case "Heap":
				return "hptr"
			}
		}
	case *ast.Ident:
		switch x.Name {
		case "T", "int":
			return "int"
		case "bool":
			return "bool"
		}
	case *ast.IndexExpr:
		if s, ok := x.X.(*ast.SelectorExpr); ok && s.Sel.Name == "LessThan" {
			return "lt"
		}
	}
	return ""
}

func cmIsPtr(k string) bool { return k == "lptr" || k == "eptr" || k == "hptr" || k == "ltopt" }

func cmAssignable(from, to string) bool {
	return from == to || (from == "nil" && cmIsPtr(to))
}

// val: evaluates e (emitting the binds it needs) and returns an atom (a Lean term without effects) and its kind
func (t *cmTr) val(e ast.Expr, ind string, b *strings.Builder) (string, string) {
	switch x := e.(type) {
	case *ast.ParenExpr:
		return t.val(x.X, ind, b)
	case *ast.Ident:
		switch x.Name {
		case "nil":
			return "none", "nil"
		case "true", "false":
			return x.Name, "bool"
		}
		k, ok := t.vars[x.Name]
		if !ok {
			die(t.fset, e, "%s is not a variable of the translated function", x.Name)
		}
		return leanIdent(x.Name), k
	case *ast.BasicLit:
		if x.Kind == token.INT {
			return "(" + x.Value + " : Int)", "int"
		}
		die(t.fset, e, "unsupported literal %s", x.Value)
	case *ast.SelectorExpr:
		base, bk := t.val(x.X, ind, b)
		fk, ok := cmFields[bk][x.Sel.Name]
		if !ok {
			die(t.fset, e, "field read %s is outside the subset", t.src(e))
		}
		v := t.fresh("v")
		switch bk {
		case "eptr":
			fmt.Fprintf(b, "%slet %s ← ldE μ Node.%s %s\n", ind, v, x.Sel.Name, base)
		case "lptr":
			fmt.Fprintf(b, "%slet %s ← ldL μ Hdr.%s %s\n", ind, v, x.Sel.Name, base)
		case "hptr":
			fmt.Fprintf(b, "%slet %s ← ldH HObj.%s %s\n", ind, v, x.Sel.Name, base)
		}
		return v, fk
	case *ast.UnaryExpr:
		switch x.Op {
		case token.NOT:
			a, k := t.val(x.X, ind, b)
			if k != "bool" {
				die(t.fset, e, "! of a non-boolean")
			}
			return "(!" + a + ")", "bool"
		case token.AND:
			cl, ok := x.X.(*ast.CompositeLit)
			if ok && len(cl.Elts) == 0 && cmKindOfType(&ast.StarExpr{X: cl.Type}) == "lptr" {
				v := t.fresh("v")
				fmt.Fprintf(b, "%slet (μ, %s) ← newList μ\n", ind, v)
				t.effN++
				return v, "lptr"
			}
			die(t.fset, e, "allocation %s is outside the subset (only &List[T]{})", t.src(e))
		}
		die(t.fset, e, "unsupported unary operator %s", x.Op)
	case *ast.BinaryExpr:
		switch x.Op {
		case token.LAND, token.LOR:
			a, ka := t.val(x.X, ind, b)
			var sb strings.Builder
			n0 := t.effN
			r, kb := t.val(x.Y, ind+"    ", &sb)
			if t.effN != n0 {
				die(t.fset, x.Y, "the right operand of %s writes the heap (outside the subset)", x.Op)
			}
			if ka != "bool" || kb != "bool" {
				die(t.fset, e, "%s of non-booleans", x.Op)
			}
			if sb.Len() == 0 {
				if x.Op == token.LAND {
					return fmt.Sprintf("(%s && %s)", a, r), "bool"
				}
				return fmt.Sprintf("(%s || %s)", a, r), "bool"
			}
			v := t.fresh("c")
			if x.Op == token.LAND {
				fmt.Fprintf(b, "%slet %s ← (if %s then (do\n%s%s    pure %s) else pure false)\n", ind, v, a, sb.String(), ind, r)
			} else {
				fmt.Fprintf(b, "%slet %s ← (if %s then pure true else (do\n%s%s    pure %s))\n", ind, v, a, sb.String(), ind, r)
			}
			return v, "bool"
		}
		a, ka := t.val(x.X, ind, b)
		c, kc := t.val(x.Y, ind, b)
		switch x.Op {
		case token.EQL, token.NEQ:
			if ka == "nil" && kc == "nil" {
				die(t.fset, e, "nil compared with nil")
			}
			if ka == "nil" || kc == "nil" {
				o, ko := a, ka
				if ka == "nil" {
					o, ko = c, kc
				}
				if !cmIsPtr(ko) {
					die(t.fset, e, "comparison of a non-pointer with nil")
				}
				if x.Op == token.EQL {
					return "(Option.isNone " + o + ")", "bool"
				}
				return "(Option.isSome " + o + ")", "bool"
			}
			if ka != kc || ka == "lt" || ka == "ltopt" || ka == "hptr" {
				die(t.fset, e, "comparison %s of incompatible operands", t.src(e))
			}
			if x.Op == token.EQL {
				return fmt.Sprintf("(decide (%s = %s))", a, c), "bool"
			}
			return fmt.Sprintf("(decide (%s ≠ %s))", a, c), "bool"
		case token.LSS, token.LEQ, token.GTR, token.GEQ:
			if ka != "int" || kc != "int" {
				die(t.fset, e, "ordering comparison of non-integers")
			}
			op := map[token.Token]string{token.LSS: "<", token.LEQ: "≤", token.GTR: ">", token.GEQ: "≥"}[x.Op]
			return fmt.Sprintf("(decide (%s %s %s))", a, op, c), "bool"
		case token.ADD, token.SUB, token.MUL:
			if ka != "int" || kc != "int" {
				die(t.fset, e, "arithmetic on non-integers")
			}
			return fmt.Sprintf("(%s %s %s)", a, x.Op, c), "int"
		case token.QUO:
			if ka != "int" || kc != "int" {
				die(t.fset, e, "arithmetic on non-integers")
			}
			// Go's integer division truncates toward zero
			return fmt.Sprintf("(Int.tdiv %s %s)", a, c), "int"
		}
		die(t.fset, e, "unsupported operator %s", x.Op)
	case *ast.CallExpr:
		vals, kinds := t.call(x, ind, b)
		if len(vals) != 1 {
			die(t.fset, e, "call %s used as a value does not have exactly one result", t.src(e))
		}
		return vals[0], kinds[0]
	}
	die(t.fset, e, "unsupported expression %s", t.src(e))
	return "", ""
}

// call: evaluates a call; returns the atoms of its results
func (t *cmTr) call(c *ast.CallExpr, ind string, b *strings.Builder) ([]string, []string) {
	var sg *cmSig
	key := ""
	args := []string{}
	kinds := []string{}
	recvIdent := ""
	switch f := c.Fun.(type) {
	case *ast.Ident:
		if k, ok := t.vars[f.Name]; ok {
			if k != "lt" || len(c.Args) != 2 {
				die(t.fset, c, "call of the variable %s is outside the subset", f.Name)
			}
			x, kx := t.val(c.Args[0], ind, b)
			y, ky := t.val(c.Args[1], ind, b)
			if kx != "int" || ky != "int" {
				die(t.fset, c, "comparator applied to non-values")
			}
			return []string{fmt.Sprintf("(%s %s %s)", leanIdent(f.Name), x, y)}, []string{"bool"}
		}
		key = f.Name
	case *ast.SelectorExpr:
		// a comparator stored in a field: h.LT(x, y)
		if id, ok := f.X.(*ast.Ident); ok {
			if fk, ok := cmFields[t.vars[id.Name]][f.Sel.Name]; ok && fk == "ltopt" {
				fv, _ := t.val(f, ind, b)
				if len(c.Args) != 2 {
					die(t.fset, c, "comparator with %d arguments", len(c.Args))
				}
				x, kx := t.val(c.Args[0], ind, b)
				y, ky := t.val(c.Args[1], ind, b)
				if kx != "int" || ky != "int" {
					die(t.fset, c, "comparator applied to non-values")
				}
				g := t.fresh("a")
				fmt.Fprintf(b, "%slet %s ← %s\n", ind, g, fv) // a nil func value panics when called
				return []string{fmt.Sprintf("(%s %s %s)", g, x, y)}, []string{"bool"}
			}
			recvIdent = id.Name
		}
		r, rk := t.val(f.X, ind, b)
		rn, ok := cmRecvOfKind[rk]
		if !ok {
			die(t.fset, c, "method call %s on a receiver that is not a list/element/heap pointer", t.src(c))
		}
		key = rn + "." + f.Sel.Name
		args = append(args, r)
		kinds = append(kinds, rk)
	default:
		die(t.fset, c, "call %s is outside the subset", t.src(c))
	}
	sg = t.sigs[key]
	if key == t.selfKey {
		sg = t.self
	}
	if sg == nil {
		sg = cmBuiltins[key]
	}
	if sg == nil {
		die(t.fset, c, "call of %s is outside the subset (neither translated earlier nor in the mapping table)", key)
	}
	for _, a := range c.Args {
		v, k := t.val(a, ind, b)
		args = append(args, v)
		kinds = append(kinds, k)
	}
	if len(kinds) != len(sg.params) {
		die(t.fset, c, "call %s with %d operands, expected %d", t.src(c), len(kinds), len(sg.params))
	}
	ptrs := []string{}
	for i, k := range kinds {
		if !cmAssignable(k, sg.params[i]) {
			die(t.fset, c, "operand %d of %s has another type", i, t.src(c))
		}
		if sg.params[i] == "lptr" || sg.params[i] == "eptr" {
			ptrs = append(ptrs, args[i])
		}
	}
	pre := ""
	if sg.fuel {
		if sg == t.self {
			pre += "fuel "
		} else {
			pre += fmt.Sprintf("(φ %q μ [%s]) ", key, strings.Join(ptrs, ", "))
		}
	}
	if sg.phi {
		pre += "φ "
	}
	lhs := []string{}
	if sg.effect {
		lhs = append(lhs, "μ")
		t.effN++
	}
	if sg.inout {
		if recvIdent == "" || recvIdent != t.recvVar {
			die(t.fset, c, "a Heap method may only be called on the receiver variable")
		}
		if t.loopVars != nil {
			die(t.fset, c, "call of a Heap method inside a loop is outside the subset")
		}
		lhs = append(lhs, leanIdent(recvIdent))
	}
	res := []string{}
	for range sg.res {
		v := t.fresh("v")
		res = append(res, v)
		lhs = append(lhs, v)
	}
	pat := "_"
	switch len(lhs) {
	case 0:
	case 1:
		pat = lhs[0]
	default:
		pat = "(" + strings.Join(lhs, ", ") + ")"
	}
	fmt.Fprintf(b, "%slet %s ← %s %sμ %s\n", ind, pat, sg.lean, pre, strings.Join(args, " "))
	return res, sg.res
}

func cmTerminates(list []ast.Stmt) bool {
	if len(list) == 0 {
		return false
	}
	switch x := list[len(list)-1].(type) {
	case *ast.ReturnStmt:
		return true
	case *ast.BranchStmt:
		return x.Tok == token.CONTINUE && x.Label == nil
	case *ast.ExprStmt:
		if c, ok := x.X.(*ast.CallExpr); ok {
			if id, ok := c.Fun.(*ast.Ident); ok && id.Name == "panic" {
				return true
			}
		}
	}
	return false
}

func (t *cmTr) assignLocal(name string, rhs ast.Expr, define bool, at ast.Node, ind string, b *strings.Builder) {
	v, k := t.val(rhs, ind, b)
	if define {
		if k == "nil" {
			die(t.fset, at, "definition from untyped nil")
		}
		t.declare(name, k, at)
	} else {
		vk, ok := t.vars[name]
		if !ok {
			die(t.fset, at, "assignment to %s is outside the subset", name)
		}
		if !cmAssignable(k, vk) {
			die(t.fset, at, "assignment of another type to %s", name)
		}
		if t.loopVars != nil && !t.loopVars[name] {
			die(t.fset, at, "assignment inside a loop to %s, declared outside it, is outside the subset", name)
		}
		k = vk
	}
	fmt.Fprintf(b, "%slet %s : %s := %s\n", ind, leanIdent(name), cmLeanType[k], v)
}

func (t *cmTr) saveScope() (map[string]string, []string) {
	vs := map[string]string{}
	for k, v := range t.vars {
		vs[k] = v
	}
	return vs, append([]string{}, t.order...)
}

func cmConcat(a, b []ast.Stmt) []ast.Stmt {
	out := make([]ast.Stmt, 0, len(a)+len(b))
	out = append(out, a...)
	return append(out, b...)
}

func (t *cmTr) stmts(list []ast.Stmt, ind string, c cmCtx, b *strings.Builder) {
	for i, st := range list {
		rest := list[i+1:]
		switch x := st.(type) {
		case *ast.ReturnStmt:
			vals := []string{}
			if len(x.Results) != len(t.self.res) {
				die(t.fset, st, "unsupported result list")
			}
			for j, r := range x.Results {
				v, k := t.val(r, ind, b)
				if !cmAssignable(k, t.self.res[j]) {
					die(t.fset, st, "result of another type")
				}
				vals = append(vals, v)
			}
			fmt.Fprintf(b, "%s%s\n", ind, c.ret(vals))
			return // statements after a return are dead (they only occur through the duplicated continuation)
		case *ast.BranchStmt:
			if x.Tok != token.CONTINUE || x.Label != nil || c.cont == nil {
				die(t.fset, st, "statement %s is outside the subset", t.src(st))
			}
			c.cont(ind, b)
			return
		case *ast.AssignStmt:
			if len(x.Lhs) != 1 || len(x.Rhs) != 1 {
				die(t.fset, st, "only single assignments are supported")
			}
			switch l := x.Lhs[0].(type) {
			case *ast.Ident:
				if x.Tok != token.DEFINE && x.Tok != token.ASSIGN {
					die(t.fset, st, "unsupported assignment operator %s", x.Tok)
				}
				t.assignLocal(l.Name, x.Rhs[0], x.Tok == token.DEFINE, st, ind, b)
			case *ast.SelectorExpr:
				id, ok := l.X.(*ast.Ident)
				if x.Tok != token.ASSIGN || !ok || id.Name != t.recvVar || t.recvVar == "" {
					die(t.fset, st, "assignment to %s is outside the subset (only fields of the Heap receiver)", t.src(l))
				}
				fk, ok := cmFields["hptr"][l.Sel.Name]
				if !ok {
					die(t.fset, st, "assignment to field %s is outside the subset", l.Sel.Name)
				}
				if t.loopVars != nil {
					die(t.fset, st, "assignment to a field of the receiver inside a loop is outside the subset")
				}
				a := t.fresh("a")
				fmt.Fprintf(b, "%slet %s ← %s\n", ind, a, leanIdent(id.Name)) // Go evaluates the pointer operand first
				v, k := t.val(x.Rhs[0], ind, b)
				if !cmAssignable(k, fk) {
					die(t.fset, st, "assignment of another type to field %s", l.Sel.Name)
				}
				fmt.Fprintf(b, "%slet %s : Option HObj := some { %s with %s := %s }\n", ind, leanIdent(id.Name), a, l.Sel.Name, v)
			default:
				die(t.fset, st, "assignment to %s is outside the subset", t.src(x.Lhs[0]))
			}
		case *ast.ExprStmt:
			cl, ok := x.X.(*ast.CallExpr)
			if !ok {
				die(t.fset, st, "unsupported expression statement")
			}
			if id, ok := cl.Fun.(*ast.Ident); ok && id.Name == "panic" {
				fmt.Fprintf(b, "%snone\n", ind)
				return
			}
			t.call(cl, ind, b)
		case *ast.IfStmt:
			if x.Init != nil {
				as, ok := x.Init.(*ast.AssignStmt)
				if !ok {
					die(t.fset, st, "unsupported if-initialiser")
				}
				t.stmts([]ast.Stmt{as}, ind, cmCtx{fall: func(string, *strings.Builder) {}}, b)
			}
			cv, k := t.val(x.Cond, ind, b)
			if k != "bool" {
				die(t.fset, st, "non-boolean condition")
			}
			fmt.Fprintf(b, "%sif %s then\n", ind, cv)
			vs, ord := t.saveScope()
			lv := t.loopVars
			if lv != nil {
				cp := map[string]bool{}
				for k := range lv {
					cp[k] = true
				}
				t.loopVars = cp
			}
			t.stmts(cmConcat(x.Body.List, rest), ind+"  ", c, b)
			t.vars, t.order, t.loopVars = vs, ord, lv
			fmt.Fprintf(b, "%selse\n", ind)
			var els []ast.Stmt
			switch e := x.Else.(type) {
			case nil:
			case *ast.BlockStmt:
				els = e.List
			case *ast.IfStmt:
				els = []ast.Stmt{e}
			default:
				die(t.fset, st, "unsupported else")
			}
			t.stmts(cmConcat(els, rest), ind+"  ", c, b)
			return
		case *ast.ForStmt:
			t.loop(x, rest, ind, c, b)
			return
		default:
			die(t.fset, st, "statement %s is outside the subset", t.src(st))
		}
	}
	c.fall(ind, b)
}

func (t *cmTr) resType() string {
	if len(t.self.res) == 0 {
		return "Unit"
	}
	ts := []string{}
	for _, k := range t.self.res {
		ts = append(ts, cmLeanType[k])
	}
	if len(ts) == 1 {
		return "(" + ts[0] + ")"
	}
	return "(" + strings.Join(ts, " × ") + ")"
}

func cmTuple(vals []string) string {
	switch len(vals) {
	case 0:
		return "()"
	case 1:
		return vals[0]
	}
	return "(" + strings.Join(vals, ", ") + ")"
}

// loop: `for [x := e]; cond; [x = e'] { body }` followed by rest
func (t *cmTr) loop(x *ast.ForStmt, rest []ast.Stmt, ind string, c cmCtx, b *strings.Builder) {
	if t.loopVars != nil {
		die(t.fset, x, "nested loops are outside the subset")
	}
	if x.Cond == nil {
		die(t.fset, x, "a for-statement without condition is outside the subset")
	}
	none := cmCtx{fall: func(string, *strings.Builder) {}}
	t.loopVars = map[string]bool{}
	if x.Init != nil {
		init, ok := x.Init.(*ast.AssignStmt)
		if !ok || init.Tok != token.DEFINE || len(init.Lhs) != 1 {
			die(t.fset, x, "unsupported for-initialiser")
		}
		t.stmts([]ast.Stmt{init}, ind, none, b)
	}
	var post []ast.Stmt
	if x.Post != nil {
		p, ok := x.Post.(*ast.AssignStmt)
		if !ok || p.Tok != token.ASSIGN || len(p.Lhs) != 1 {
			die(t.fset, x, "unsupported for-post statement")
		}
		post = []ast.Stmt{p}
	}
	t.nloop++
	name := fmt.Sprintf("%s_loop%d", t.self.lean, t.nloop)
	params, args := []string{}, []string{}
	for _, v := range t.order {
		params = append(params, fmt.Sprintf("(%s : %s)", leanIdent(v), cmLeanType[t.vars[v]]))
		args = append(args, leanIdent(v))
	}
	phiP, phiA := "", ""
	if t.self.phi {
		phiP, phiA = "(φ : String → Heap → List (Option Nat) → Nat) ", "φ "
	}
	var a strings.Builder
	initS, postS := "", ""
	if x.Init != nil {
		initS = t.src(x.Init)
	}
	if x.Post != nil {
		postS = t.src(x.Post)
	}
	fmt.Fprintf(&a, "/-- the loop `for %s; %s; %s` of `%s`: `some r` = the body returned `r`, `none` = the loop was left -/\n",
		initS, t.src(x.Cond), postS, t.self.lean)
	fmt.Fprintf(&a, "def %s (fuel : Nat) %s(μ : Heap) %s : Option (Heap × Option %s) :=\n  match fuel with\n  | 0 => pure (μ, none)\n  | fuel + 1 => do\n",
		name, phiP, strings.Join(params, " "), t.resType())
	vs, ord := t.saveScope()
	n0 := t.effN
	cv, k := t.val(x.Cond, "    ", &a)
	if k != "bool" {
		die(t.fset, x, "non-boolean loop condition")
	}
	if t.effN != n0 {
		die(t.fset, x.Cond, "a loop condition that writes the heap is outside the subset")
	}
	fmt.Fprintf(&a, "    if %s then\n", cv)
	again := func(ind string, b *strings.Builder) {
		t.stmts(post, ind, none, b)
		fmt.Fprintf(b, "%s%s fuel %sμ %s\n", ind, name, phiA, strings.Join(args, " "))
	}
	inner := cmCtx{
		ret:  func(vals []string) string { return "pure (μ, some " + cmTuple(vals) + ")" },
		fall: again,
		cont: again,
	}
	t.stmts(x.Body.List, "      ", inner, &a)
	t.vars, t.order = vs, ord
	fmt.Fprintf(&a, "    else\n      pure (μ, none)\n")
	t.aux = append(t.aux, a.String())
	r := t.fresh("r")
	fmt.Fprintf(b, "%slet (μ, %s) ← %s fuel %sμ %s\n", ind, r, name, phiA, strings.Join(args, " "))
	t.effN++
	t.loopVars = nil
	// the loop variables go out of scope
	for v := range t.vars {
		if _, ok := vs[v]; !ok {
			delete(t.vars, v)
		}
	}
	// (the init variable was declared before saveScope: remove it by hand)
	if x.Init != nil {
		lv := x.Init.(*ast.AssignStmt).Lhs[0].(*ast.Ident).Name
		delete(t.vars, lv)
		o := []string{}
		for _, v := range t.order {
			if v != lv {
				o = append(o, v)
			}
		}
		t.order = o
	}
	rets := []string{}
	switch len(t.self.res) {
	case 0:
	case 1:
		rets = []string{"r"}
	default:
		for i := range t.self.res {
			rets = append(rets, fmt.Sprintf("r.%d", i+1))
		}
	}
	fmt.Fprintf(b, "%smatch %s with\n%s| some r => %s\n%s| none =>\n", ind, r, ind, c.ret(rets), ind)
	t.stmts(rest, ind+"  ", c, b)
}

func cmFindFunc(f *ast.File, tg cmTarget) *ast.FuncDecl {
	for _, d := range f.Decls {
		x, ok := d.(*ast.FuncDecl)
		if !ok || x.Name.Name != tg.fn {
			continue
		}
		r := ""
		if x.Recv != nil && len(x.Recv.List) == 1 {
			rt := x.Recv.List[0].Type
			if st, ok := rt.(*ast.StarExpr); ok {
				rt = st.X
			}
			if ix, ok := rt.(*ast.IndexExpr); ok {
				rt = ix.X
			}
			if id, ok := rt.(*ast.Ident); ok {
				r = id.Name
			}
		}
		if r == tg.recv {
			return x
		}
	}
	return nil
}

func genCmp(repo string) string {
	fset := token.NewFileSet()
	f, err := parser.ParseFile(fset, filepath.Join(repo, cmFile), nil, 0)
	if err != nil {
		panic(fail{err.Error()})
	}
	var out strings.Builder
	out.WriteString("import FunModel.Dll\n\n/-! GENERATED by tools/go2lean (cmp.go) from the working tree of tychoish/fun on every run of ./check — do not edit.\n")
	out.WriteString("    The pointer-level algorithms of dt/cmp.go over the heap of FunModel/Dll.lean. Every pointer is an `Option Nat`\n")
	out.WriteString("    (`none` = nil), `T` and `int` are `Int`, a comparator is a function `Int → Int → Bool`; the result is in `Option`:\n")
	out.WriteString("    `none` = panic. Calls into dt/list.go are mapped onto the C16 model (the TRUSTED MAPPING below). A `for` loop and a\n")
	out.WriteString("    self-recursive function are recursive over `fuel` (out of fuel = the loop is left / the argument is returned); the\n")
	out.WriteString("    fuel of a called function is `φ \"<callee>\" μ [pointer arguments]` for a parameter `φ` of the caller. -/\n\n")
	out.WriteString("set_option linter.unusedVariables false\n\nnamespace FunGen.Cmp\nopen FunModel.Dll\n\n")
	out.WriteString(cmPreamble)
	sigs := map[string]*cmSig{}
	for _, tg := range cmTargets {
		fd := cmFindFunc(f, tg)
		key, lean := tg.fn, tg.fn
		if tg.recv != "" {
			key, lean = tg.recv+"."+tg.fn, tg.recv+"_"+tg.fn
		}
		if fd == nil || fd.Body == nil {
			panic(fail{fmt.Sprintf("%s: function %s not found", cmFile, key)})
		}
		sg := &cmSig{lean: lean, effect: true}
		t := &cmTr{fset: fset, sigs: sigs, vars: map[string]string{}, self: sg, selfKey: key}
		params := []string{}
		addParam := func(n *ast.Ident, ty ast.Expr) {
			k := cmKindOfType(ty)
			if k == "" {
				die(fset, ty, "unsupported parameter type %s", t.src(ty))
			}
			t.declare(n.Name, k, n)
			sg.params = append(sg.params, k)
			params = append(params, fmt.Sprintf("(%s : %s)", leanIdent(n.Name), cmLeanType[k]))
		}
		if fd.Recv != nil {
			if len(fd.Recv.List[0].Names) != 1 {
				die(fset, fd, "unnamed receiver")
			}
			addParam(fd.Recv.List[0].Names[0], fd.Recv.List[0].Type)
			if sg.params[0] == "hptr" {
				sg.inout = true
				t.recvVar = fd.Recv.List[0].Names[0].Name
			}
		}
		for _, p := range fd.Type.Params.List {
			if len(p.Names) == 0 {
				die(fset, p, "unnamed parameter")
			}
			for _, n := range p.Names {
				addParam(n, p.Type)
			}
		}
		for i, k := range sg.params {
			if k == "hptr" && i != 0 {
				die(fset, fd, "a *Heap parameter that is not the receiver is outside the subset")
			}
		}
		if fd.Type.Results != nil {
			for _, r := range fd.Type.Results.List {
				if len(r.Names) != 0 {
					die(fset, fd, "named results are outside the subset")
				}
				k := cmKindOfType(r.Type)
				if k == "" || k == "hptr" || k == "lt" {
					die(fset, fd, "unsupported result type %s", t.src(r.Type))
				}
				sg.res = append(sg.res, k)
			}
		}
		// pre-scan: loops, self-recursion, calls of functions that take fuel
		hasLoop, selfRec := false, false
		ast.Inspect(fd.Body, func(n ast.Node) bool {
			switch x := n.(type) {
			case *ast.ForStmt:
				hasLoop = true
			case *ast.FuncLit, *ast.RangeStmt, *ast.DeferStmt, *ast.GoStmt, *ast.SwitchStmt:
				die(fset, n, "construct outside the subset")
			case *ast.CallExpr:
				name := ""
				switch g := x.Fun.(type) {
				case *ast.Ident:
					name = g.Name
					if name == key {
						selfRec = true
					}
				case *ast.SelectorExpr:
					name = g.Sel.Name
				}
				for k, s := range sigs {
					if (k == name || strings.HasSuffix(k, "."+name)) && (s.fuel || s.phi) {
						sg.phi = true
					}
				}
			}
			return true
		})
		if hasLoop && selfRec {
			die(fset, fd, "a recursive function with a loop is outside the subset")
		}
		sg.fuel = hasLoop || selfRec
		ret := func(vals []string) string {
			parts := []string{"μ"}
			if sg.inout {
				parts = append(parts, leanIdent(t.recvVar))
			}
			parts = append(parts, vals...)
			return "pure " + cmTuple(parts)
		}
		ctx := cmCtx{ret: ret}
		ctx.fall = func(ind string, b *strings.Builder) {
			if len(sg.res) != 0 {
				die(fset, fd, "control reaches the end of a function with a result")
			}
			fmt.Fprintf(b, "%s%s\n", ind, ret(nil))
		}
		var body strings.Builder
		ind := "  "
		if selfRec {
			ind = "    "
		}
		t.stmts(fd.Body.List, ind, ctx, &body)
		for _, a := range t.aux {
			out.WriteString(a + "\n")
		}
		rts := []string{"Heap"}
		if sg.inout {
			rts = append(rts, "Option HObj")
		}
		for _, k := range sg.res {
			rts = append(rts, cmLeanType[k])
		}
		resT := "Option Heap"
		if len(rts) > 1 {
			resT = "Option (" + strings.Join(rts, " × ") + ")"
		}
		pre := ""
		if sg.fuel {
			pre += "(fuel : Nat) "
		}
		if sg.phi {
			pre += "(φ : String → Heap → List (Option Nat) → Nat) "
		}
		fmt.Fprintf(&out, "/-- generated from %s `%s` -/\ndef %s %s(μ : Heap) %s : %s :=", cmFile, key, lean, pre, strings.Join(params, " "), resT)
		if selfRec {
			// out of fuel: the first parameter of the result type is returned
			def := ""
			if len(sg.res) == 1 {
				for i, k := range sg.params {
					if k == sg.res[0] {
						def = leanIdent(t.order[i])
						break
					}
				}
			}
			if def == "" {
				die(fset, fd, "no default result for a recursive function")
			}
			fmt.Fprintf(&out, "\n  match fuel with\n  | 0 => %s\n  | fuel + 1 => do\n%s\n", ret([]string{def}), body.String())
		} else {
			fmt.Fprintf(&out, " do\n%s\n", body.String())
		}
		sigs[key] = sg
	}
	out.WriteString("end FunGen.Cmp\n")
	return out.String()
}

func init() {
	register("Cmp", func(repo string) (text string, err error) {
		defer func() {
			if r := recover(); r != nil {
				f, ok := r.(fail)
				if !ok {
					panic(r)
				}
				err = fmt.Errorf("%s", f.msg)
			}
		}()
		return genCmp(repo), nil
	})
}
