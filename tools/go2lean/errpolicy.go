package main

// Target ErrPolicy: WorkerGroupConf.CanContinueOnError (opts.go) as a decision function
//   FunGen.canContinueOnError : Conf → ErrClass → Decision
// over the abstract error class (which errors.Is / ers.Is… tests hold of the error) and the
// three flags. `Decision.reports` counts the calls of o.ErrorHandler(err) on the path taken,
// `Decision.cont` is the returned bool.
//
// Supported subset (anything else aborts the run):
//   statements   if c {..} [else {..}|else if ..] ; switch { case c: .. default: .. } (no
//                fallthrough, no init, no tag) ; x := <bool expr> ; o.ErrorHandler(err) ; return e
//   expressions  err == nil, err != nil, errors.Is(err, S), ers.Is(err, S...), ers.Is(err,
//                o.ExcludedErrors...), ers.IsExpiredContext(err), ers.IsTerminating(err),
//                o.ContinueOnPanic / o.ContinueOnError / o.IncludeContextExpirationErrors,
//                !, &&, ||, ( ), true, false, locals
//   sentinels S  ErrRecoveredPanic, ErrIteratorSkip, ers.ErrCurrentOpSkip, io.EOF,
//                ers.ErrCurrentOpAbort  (context.Canceled/DeadlineExceeded only through
//                ers.IsExpiredContext / ers.IsTerminating: the class has one bit for both)
//
// Statement lists are translated in continuation style: `if c {A}; rest` becomes
// `if c then ⟦A; rest⟧ else ⟦rest⟧`, a list ends at its first `return`, and a path that can fall
// off the end of the function is an error.

import (
	"fmt"
	"go/ast"
	"go/parser"
	"go/token"
	"path/filepath"
	"strings"
)

func init() { register("ErrPolicy", genErrPolicy) }

type epCtx struct {
	fset   *token.FileSet
	recv   string          // receiver name (o)
	errv   string          // parameter name (err)
	locals map[string]bool // bool locals introduced by :=
	skel   []string        // normalised skeleton, one line per statement
}

func (c *epCtx) fail(n ast.Node, format string, args ...any) error {
	return fmt.Errorf("%s: unsupported construct: %s", c.fset.Position(n.Pos()), fmt.Sprintf(format, args...))
}

var epFlags = map[string]string{
	"ContinueOnPanic":                "o.continueOnPanic",
	"ContinueOnError":                "o.continueOnError",
	"IncludeContextExpirationErrors": "o.includeCtx",
}

// sentinel expression -> class bit
func (c *epCtx) sentinel(e ast.Expr) (string, error) {
	switch x := e.(type) {
	case *ast.Ident:
		switch x.Name {
		case "ErrRecoveredPanic":
			return "c.hadPanic", nil
		case "ErrIteratorSkip":
			return "c.isSkip", nil
		}
	case *ast.SelectorExpr:
		if p, ok := x.X.(*ast.Ident); ok {
			switch p.Name + "." + x.Sel.Name {
			case "ers.ErrRecoveredPanic":
				return "c.hadPanic", nil
			case "ers.ErrCurrentOpSkip":
				return "c.isSkip", nil
			case "io.EOF":
				return "c.isEOF", nil
			case "ers.ErrCurrentOpAbort":
				return "c.isAbort", nil
			}
		}
	}
	return "", c.fail(e, "errors.Is target %s", exprString(e))
}

func exprString(e ast.Expr) string {
	switch x := e.(type) {
	case *ast.Ident:
		return x.Name
	case *ast.SelectorExpr:
		return exprString(x.X) + "." + x.Sel.Name
	case *ast.CallExpr:
		return exprString(x.Fun) + "(…)"
	}
	return fmt.Sprintf("%T", e)
}

func (c *epCtx) isErrVar(e ast.Expr) bool {
	id, ok := e.(*ast.Ident)
	return ok && id.Name == c.errv
}

func isNilIdent(e ast.Expr) bool {
	id, ok := e.(*ast.Ident)
	return ok && id.Name == "nil"
}

func (c *epCtx) expr(e ast.Expr) (string, error) {
	switch x := e.(type) {
	case *ast.ParenExpr:
		s, err := c.expr(x.X)
		return "(" + s + ")", err
	case *ast.Ident:
		switch {
		case x.Name == "true" || x.Name == "false":
			return x.Name, nil
		case c.locals[x.Name]:
			return "v_" + x.Name, nil
		}
		return "", c.fail(e, "identifier %s", x.Name)
	case *ast.UnaryExpr:
		if x.Op != token.NOT {
			return "", c.fail(e, "unary %s", x.Op)
		}
		s, err := c.expr(x.X)
		return "(!" + s + ")", err
	case *ast.BinaryExpr:
		switch x.Op {
		case token.LAND, token.LOR:
			l, err := c.expr(x.X)
			if err != nil {
				return "", err
			}
			r, err := c.expr(x.Y)
			if err != nil {
				return "", err
			}
			op := "&&"
			if x.Op == token.LOR {
				op = "||"
			}
			return "(" + l + " " + op + " " + r + ")", nil
		case token.EQL, token.NEQ:
			if (c.isErrVar(x.X) && isNilIdent(x.Y)) || (isNilIdent(x.X) && c.isErrVar(x.Y)) {
				if x.Op == token.EQL {
					return "c.isNil", nil
				}
				return "(!c.isNil)", nil
			}
		}
		return "", c.fail(e, "binary %s", x.Op)
	case *ast.SelectorExpr:
		if p, ok := x.X.(*ast.Ident); ok && p.Name == c.recv {
			if f, ok := epFlags[x.Sel.Name]; ok {
				return f, nil
			}
		}
		return "", c.fail(e, "selector %s", exprString(e))
	case *ast.CallExpr:
		fn := exprString(x.Fun)
		switch fn {
		case "errors.Is":
			if len(x.Args) != 2 || !c.isErrVar(x.Args[0]) || x.Ellipsis != token.NoPos {
				return "", c.fail(e, "errors.Is with these arguments")
			}
			return c.sentinel(x.Args[1])
		case "ers.Is":
			if len(x.Args) < 2 || !c.isErrVar(x.Args[0]) {
				return "", c.fail(e, "ers.Is with these arguments")
			}
			if x.Ellipsis != token.NoPos {
				if len(x.Args) == 2 && exprString(x.Args[1]) == c.recv+".ExcludedErrors" {
					return "c.isExcluded", nil
				}
				return "", c.fail(e, "ers.Is(err, xs...) over %s", exprString(x.Args[len(x.Args)-1]))
			}
			parts := []string{}
			for _, a := range x.Args[1:] {
				s, err := c.sentinel(a)
				if err != nil {
					return "", err
				}
				parts = append(parts, s)
			}
			return "(" + strings.Join(parts, " || ") + ")", nil
		case "ers.IsExpiredContext":
			if len(x.Args) != 1 || !c.isErrVar(x.Args[0]) {
				return "", c.fail(e, "ers.IsExpiredContext with these arguments")
			}
			return "c.isCtx", nil
		case "ers.IsTerminating":
			if len(x.Args) != 1 || !c.isErrVar(x.Args[0]) {
				return "", c.fail(e, "ers.IsTerminating with these arguments")
			}
			return "(c.isEOF || c.isAbort || c.isCtx)", nil
		}
		return "", c.fail(e, "call of %s", fn)
	}
	return "", c.fail(e, "expression %T", e)
}

func ind(n int) string { return strings.Repeat("  ", n) }

// stmts translates the statement list `list` followed by the continuation `rest` (a list of
// statement lists, innermost first), with `reports` handler calls already made on this path.
func (c *epCtx) stmts(list []ast.Stmt, rest [][]ast.Stmt, reports int, depth int, at ast.Node) (string, error) {
	if len(list) == 0 {
		if len(rest) == 0 {
			return "", c.fail(at, "a path falls off the end of the function without return")
		}
		return c.stmts(rest[0], rest[1:], reports, depth, at)
	}
	s, tail := list[0], list[1:]
	cont := func() [][]ast.Stmt { return append([][]ast.Stmt{tail}, rest...) }
	switch x := s.(type) {
	case *ast.EmptyStmt:
		return c.stmts(tail, rest, reports, depth, at)
	case *ast.ReturnStmt:
		if len(x.Results) != 1 {
			return "", c.fail(s, "return with %d results", len(x.Results))
		}
		e, err := c.expr(x.Results[0])
		if err != nil {
			return "", err
		}
		return fmt.Sprintf("%s⟨%d, %s⟩", ind(depth), reports, e), nil
	case *ast.ExprStmt:
		call, ok := x.X.(*ast.CallExpr)
		if ok && exprString(call.Fun) == c.recv+".ErrorHandler" && len(call.Args) == 1 && c.isErrVar(call.Args[0]) {
			return c.stmts(tail, rest, reports+1, depth, at)
		}
		return "", c.fail(s, "expression statement %s", exprString(x.X))
	case *ast.AssignStmt:
		if x.Tok != token.DEFINE || len(x.Lhs) != 1 || len(x.Rhs) != 1 {
			return "", c.fail(s, "assignment (only `x := boolexpr` is supported)")
		}
		id, ok := x.Lhs[0].(*ast.Ident)
		if !ok || id.Name == c.errv || id.Name == c.recv {
			return "", c.fail(s, "assignment target")
		}
		e, err := c.expr(x.Rhs[0])
		if err != nil {
			return "", err
		}
		c.locals[id.Name] = true
		body, err := c.stmts(tail, rest, reports, depth, s)
		if err != nil {
			return "", err
		}
		return fmt.Sprintf("%slet v_%s : Bool := %s\n%s", ind(depth), id.Name, e, body), nil
	case *ast.BlockStmt:
		return c.stmts(x.List, cont(), reports, depth, s)
	case *ast.IfStmt:
		if x.Init != nil {
			return "", c.fail(s, "if with init statement")
		}
		cond, err := c.expr(x.Cond)
		if err != nil {
			return "", err
		}
		thenS, err := c.stmts(x.Body.List, cont(), reports, depth+1, s)
		if err != nil {
			return "", err
		}
		var elseList []ast.Stmt
		if x.Else != nil {
			elseList = []ast.Stmt{x.Else} // a block or another if
		}
		elseS, err := c.stmts(elseList, cont(), reports, depth+1, s)
		if err != nil {
			return "", err
		}
		return fmt.Sprintf("%sif %s then\n%s\n%selse\n%s", ind(depth), cond, thenS, ind(depth), elseS), nil
	case *ast.SwitchStmt:
		if x.Init != nil || x.Tag != nil {
			return "", c.fail(s, "switch with init or tag")
		}
		var cases []*ast.CaseClause
		var def *ast.CaseClause
		for _, cl := range x.Body.List {
			cc := cl.(*ast.CaseClause)
			for _, b := range cc.Body {
				if br, ok := b.(*ast.BranchStmt); ok {
					return "", c.fail(br, "%s inside switch", br.Tok)
				}
			}
			if cc.List == nil {
				def = cc
			} else {
				cases = append(cases, cc)
			}
		}
		// Go evaluates the case expressions top to bottom wherever `default` is written
		var build func(i int, d int) (string, error)
		build = func(i int, d int) (string, error) {
			if i == len(cases) {
				var body []ast.Stmt
				if def != nil {
					body = def.Body
				}
				return c.stmts(body, cont(), reports, d, s)
			}
			conds := []string{}
			for _, e := range cases[i].List {
				ce, err := c.expr(e)
				if err != nil {
					return "", err
				}
				conds = append(conds, ce)
			}
			cond := strings.Join(conds, " || ")
			thenS, err := c.stmts(cases[i].Body, cont(), reports, d+1, s)
			if err != nil {
				return "", err
			}
			elseS, err := build(i+1, d)
			if err != nil {
				return "", err
			}
			return fmt.Sprintf("%sif %s then\n%s\n%selse\n%s", ind(d), cond, thenS, ind(d), elseS), nil
		}
		return build(0, depth)
	}
	return "", c.fail(s, "statement %T", s)
}

func genErrPolicy(repo string) (string, error) {
	fset := token.NewFileSet()
	path := filepath.Join(repo, "opts.go")
	f, err := parser.ParseFile(fset, path, nil, 0)
	if err != nil {
		return "", err
	}
	var fd *ast.FuncDecl
	for _, d := range f.Decls {
		if x, ok := d.(*ast.FuncDecl); ok && x.Name.Name == "CanContinueOnError" && x.Recv != nil {
			fd = x
		}
	}
	if fd == nil {
		return "", fmt.Errorf("%s: method CanContinueOnError not found", path)
	}
	c := &epCtx{fset: fset, locals: map[string]bool{}}
	if len(fd.Recv.List) != 1 || len(fd.Recv.List[0].Names) != 1 || exprString(fd.Recv.List[0].Type) != "WorkerGroupConf" {
		return "", c.fail(fd, "receiver (want a WorkerGroupConf value receiver)")
	}
	c.recv = fd.Recv.List[0].Names[0].Name
	ps := fd.Type.Params.List
	if len(ps) != 1 || len(ps[0].Names) != 1 || exprString(ps[0].Type) != "error" {
		return "", c.fail(fd, "parameters (want one error)")
	}
	c.errv = ps[0].Names[0].Name
	if fd.Type.Results == nil || len(fd.Type.Results.List) != 1 || exprString(fd.Type.Results.List[0].Type) != "bool" {
		return "", c.fail(fd, "results (want one bool)")
	}
	body, err := c.stmts(fd.Body.List, nil, 0, 1, fd)
	if err != nil {
		return "", err
	}
	var sb strings.Builder
	sb.WriteString("import FunModel.ErrPolicy\n\n")
	sb.WriteString("/-! GENERATED by tools/go2lean (target ErrPolicy) from opts.go, method\n")
	sb.WriteString("    `WorkerGroupConf.CanContinueOnError` — do not edit; every `./check` run rewrites this file from\n")
	sb.WriteString("    the working tree of the repository. `reports` = number of `o.ErrorHandler(err)` calls on the\n")
	sb.WriteString("    path taken, `cont` = the returned bool. -/\n\n")
	sb.WriteString("namespace FunGen\nopen FunModel\n\n")
	sb.WriteString("def canContinueOnError (o : Conf) (c : ErrClass) : Decision :=\n")
	sb.WriteString(body)
	sb.WriteString("\n\nend FunGen\n")
	return sb.String(), nil
}
