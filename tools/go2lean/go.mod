module go2lean

go 1.20
