package main

// Targets DequePtr and QueuePtr: the link updates of the two pubsub containers,
//   pubsub/deque.go  Deque.addAfter, Deque.pop        -> lean/FunGen/DequePtr.lean (heap of FunModel/Dll.lean)
//   pubsub/queue.go  Queue.doAdd, Queue.popFront      -> lean/FunGen/QueuePtr.lean (heap of FunModel/QueuePtr.lean)
// translated statement by statement into heap transformers in the `Option` monad (`none` = nil
// dereference). The result of a generated function is `(heap, k, item)`: `k` = index (source order)
// of the `return` statement that was reached, `item` = the value of the `x.item` expression among
// the returned values, if any.
//
// Every statement of a targeted function falls in exactly one class; anything else is a loud failure:
//   structural (translated)
//     x := &T{item: v, list: recv}        allocation of an element (only these two fields)
//     x := <ptr>                          local pointer variable (may be nil: an Option)
//     <ptr>.f = <ptr>                     write of a link field (deque: next, prev; queue: link)
//     recv.f = <ptr>                      write of a header pointer (queue: front, back)
//     if <ptr> == <ptr> { structural… }   (also !=; no else, no return inside)
//     return e…                           last statement of its block
//   guard (the condition becomes a Bool parameter c1, c2, … of the generated function; its text is
//   emitted in `<fn>_guards`, which the tie theorems pin)
//     if [x := <call>;] <opaque cond> { non-structural…; return e… }
//   non-structural (dropped, listed in a comment): calls — also deferred, also under an
//   `if <opaque cond>` without else — of recv.tracker.*, recv.<cond>.Signal/Broadcast, verifSig, verifAt
//   <ptr>     ::= nil | local | parameter | recv.front | recv.back | <ptr>.next | <ptr>.prev | <ptr>.link
//   <opaque>  ::= identifiers, literals, field reads, ! && || == != < <= > >=, x.isRoot(), recv.tracker.*()
// The limit tracker is left abstract here (it is translated by the Tracker target, C05Gen).

import (
	"bytes"
	"fmt"
	"go/ast"
	"go/parser"
	"go/printer"
	"go/token"
	"path/filepath"
	"strings"
)

type psShape struct {
	name, imp, open string
	file, recvType  string
	elemType        string
	fns             []string
	linkFields      map[string]string // node pointer field -> setter
	hdrFields       map[string]string // pointer field of the receiver -> setter
	listField       string            // composite-literal field that must be the receiver ("" = none)
	get             func(addr, field string) string
	item            func(addr string) string
	alloc           func(item, list string) string
	doc             string
}

var psShapes = []psShape{
	{
		name: "DequePtr", imp: "FunModel.Dll", open: "FunModel.Dll",
		file: "pubsub/deque.go", recvType: "Deque", elemType: "element",
		fns:        []string{"addAfter", "pop"},
		linkFields: map[string]string{"next": "setNext", "prev": "setPrev"},
		hdrFields:  map[string]string{},
		listField:  "list",
		get:        func(a, f string) string { return fmt.Sprintf("(h.node %s).%s", a, f) },
		item:       func(a string) string { return fmt.Sprintf("(h.node %s).item", a) },
		alloc: func(item, list string) string {
			return fmt.Sprintf("h.alloc { item := %s, list := %s }", item, list)
		},
		doc: "Link updates of pubsub/deque.go over the element heap of FunModel/Dll.lean (`element` = `Node`: next, prev, list,\n    item; the receiver is the address of its header).",
	},
	{
		name: "QueuePtr", imp: "FunModel.QueuePtr", open: "FunModel.QueuePtr",
		file: "pubsub/queue.go", recvType: "Queue", elemType: "entry",
		fns:        []string{"doAdd", "popFront"},
		linkFields: map[string]string{"link": "setLink"},
		hdrFields:  map[string]string{"front": "setFront", "back": "setBack"},
		get:        func(a, f string) string { return fmt.Sprintf("h.%s %s", f, a) },
		item:       func(a string) string { return fmt.Sprintf("h.item %s", a) },
		alloc:      func(item, list string) string { return fmt.Sprintf("h.alloc %s", item) },
		doc:        "Link updates of pubsub/queue.go over the entry heap of FunModel/QueuePtr.lean (`entry` = link, item; the header\n    pointers `front`, `back` of the receiver are fields of the heap).",
	},
}

func init() {
	for _, s := range psShapes {
		s := s
		register(s.name, func(repo string) (text string, err error) {
			defer func() {
				if r := recover(); r != nil {
					f, ok := r.(fail)
					if !ok {
						panic(r)
					}
					err = fmt.Errorf("%s", f.msg)
				}
			}()
			return genPtrSplice(repo, s), nil
		})
	}
}

type psTr struct {
	s      psShape
	fset   *token.FileSet
	recv   string
	locals map[string]string // name -> "addr" (non-nil address) | "opt" (Option Nat) | "int"
	n      int               // fresh address variables
	nret   int
	guards []string
	drops  []string
}

func (t *psTr) src(n ast.Node) string {
	var b bytes.Buffer
	_ = printer.Fprint(&b, t.fset, n)
	return strings.Join(strings.Fields(b.String()), " ")
}

func (t *psTr) fresh() string { t.n++; return fmt.Sprintf("a%d", t.n) }

func (t *psTr) isRecv(e ast.Expr) bool {
	id, ok := e.(*ast.Ident)
	return ok && id.Name == t.recv
}

// addr: the (non-nil) address denoted by a pointer expression; emits the binds for every dereference
func (t *psTr) addr(e ast.Expr, ind string, b *strings.Builder) string {
	switch x := e.(type) {
	case *ast.ParenExpr:
		return t.addr(x.X, ind, b)
	case *ast.Ident:
		switch t.locals[x.Name] {
		case "addr":
			return leanIdent(x.Name)
		case "opt":
			v := t.fresh()
			fmt.Fprintf(b, "%slet %s ← %s\n", ind, v, leanIdent(x.Name))
			return v
		}
		die(t.fset, e, "%s is not a pointer variable of the translated function", x.Name)
	case *ast.SelectorExpr:
		v := t.fresh()
		fmt.Fprintf(b, "%slet %s ← %s\n", ind, v, t.value(e, ind, b))
		return v
	}
	die(t.fset, e, "unsupported pointer path %s", t.src(e))
	return ""
}

// value: the Option-valued content of a pointer expression
func (t *psTr) value(e ast.Expr, ind string, b *strings.Builder) string {
	switch x := e.(type) {
	case *ast.ParenExpr:
		return t.value(x.X, ind, b)
	case *ast.Ident:
		if x.Name == "nil" {
			return "none"
		}
		switch t.locals[x.Name] {
		case "addr":
			return "(some " + leanIdent(x.Name) + ")"
		case "opt":
			return leanIdent(x.Name)
		}
		die(t.fset, e, "%s is not a pointer variable of the translated function", x.Name)
	case *ast.SelectorExpr:
		if t.isRecv(x.X) {
			if _, ok := t.s.hdrFields[x.Sel.Name]; ok {
				return "h." + x.Sel.Name
			}
			die(t.fset, e, "unsupported field %s of the receiver", x.Sel.Name)
		}
		if _, ok := t.s.linkFields[x.Sel.Name]; ok {
			a := t.addr(x.X, ind, b)
			return "(" + t.s.get(a, x.Sel.Name) + ")"
		}
		die(t.fset, e, "unsupported pointer field %s", x.Sel.Name)
	}
	die(t.fset, e, "unsupported pointer value %s", t.src(e))
	return ""
}

// whitelisted: calls that do not touch the linked structure
func (t *psTr) whitelisted(c *ast.CallExpr) bool {
	switch f := c.Fun.(type) {
	case *ast.Ident:
		if f.Name == "verifSig" || f.Name == "verifAt" {
			for _, a := range c.Args {
				t.opaque(a)
			}
			return true
		}
	case *ast.SelectorExpr:
		if f.Sel.Name == "isRoot" && len(c.Args) == 0 {
			t.opaque(f.X)
			return true
		}
		if in, ok := f.X.(*ast.SelectorExpr); ok && t.isRecv(in.X) {
			if in.Sel.Name == "tracker" && len(c.Args) == 0 {
				return true
			}
			_, lk := t.s.linkFields[in.Sel.Name]
			_, hd := t.s.hdrFields[in.Sel.Name]
			if (f.Sel.Name == "Signal" || f.Sel.Name == "Broadcast") && len(c.Args) == 0 && !lk && !hd {
				return true
			}
		}
	}
	return false
}

// opaque: an expression without effect on the linked structure (dies otherwise)
func (t *psTr) opaque(e ast.Expr) {
	switch x := e.(type) {
	case *ast.Ident, *ast.BasicLit:
	case *ast.ParenExpr:
		t.opaque(x.X)
	case *ast.UnaryExpr:
		if x.Op != token.NOT && x.Op != token.SUB {
			die(t.fset, e, "unsupported operator %s in a condition", x.Op)
		}
		t.opaque(x.X)
	case *ast.BinaryExpr:
		t.opaque(x.X)
		t.opaque(x.Y)
	case *ast.SelectorExpr:
		t.opaque(x.X)
	case *ast.CallExpr:
		if !t.whitelisted(x) {
			die(t.fset, e, "call %s is outside the subset (it could change the links)", t.src(e))
		}
	default:
		die(t.fset, e, "unsupported expression %s", t.src(e))
	}
}

// nonStructural: true when the statement is a whitelisted call (plain, deferred or under an opaque `if`)
func (t *psTr) nonStructural(s ast.Stmt) bool {
	switch x := s.(type) {
	case *ast.ExprStmt:
		c, ok := x.X.(*ast.CallExpr)
		return ok && t.whitelisted(c)
	case *ast.DeferStmt:
		return t.whitelisted(x.Call)
	case *ast.IfStmt:
		if x.Init != nil || x.Else != nil {
			return false
		}
		for _, y := range x.Body.List {
			if !t.nonStructural(y) {
				return false
			}
		}
		t.opaque(x.Cond)
		return true
	}
	return false
}

func endsInReturn(b *ast.BlockStmt) bool {
	if len(b.List) == 0 {
		return false
	}
	_, ok := b.List[len(b.List)-1].(*ast.ReturnStmt)
	return ok
}

func (t *psTr) ret(x *ast.ReturnStmt, ind string, b *strings.Builder) {
	item := "none"
	for _, r := range x.Results {
		if sel, ok := r.(*ast.SelectorExpr); ok && sel.Sel.Name == "item" {
			if item != "none" {
				die(t.fset, x, "two item results")
			}
			a := t.addr(sel.X, ind, b)
			item = "(some (" + t.s.item(a) + "))"
			continue
		}
		t.opaque(r)
	}
	fmt.Fprintf(b, "%spure (h, %d, %s)\n", ind, t.nret, item)
	t.nret++
}

func (t *psTr) stmts(list []ast.Stmt, ind string, b *strings.Builder, top bool) {
	for i, st := range list {
		if t.nonStructural(st) {
			t.drops = append(t.drops, t.src(st))
			continue
		}
		switch x := st.(type) {
		case *ast.ReturnStmt:
			if i != len(list)-1 || !top {
				die(t.fset, st, "return in an unsupported position")
			}
			t.ret(x, ind, b)
			return
		case *ast.AssignStmt:
			if len(x.Lhs) != 1 || len(x.Rhs) != 1 {
				die(t.fset, st, "only single assignments are supported")
			}
			switch x.Tok {
			case token.DEFINE:
				id, ok := x.Lhs[0].(*ast.Ident)
				if !ok || id.Name == "_" {
					die(t.fset, st, "unsupported definition")
				}
				if _, dup := t.locals[id.Name]; dup {
					die(t.fset, st, "redefinition of %s", id.Name)
				}
				if u, ok := x.Rhs[0].(*ast.UnaryExpr); ok && u.Op == token.AND {
					fmt.Fprintf(b, "%slet (h, %s) := %s\n", ind, leanIdent(id.Name), t.allocLit(u.X))
					t.locals[id.Name] = "addr"
					continue
				}
				v := t.value(x.Rhs[0], ind, b)
				fmt.Fprintf(b, "%slet %s : Option Nat := %s\n", ind, leanIdent(id.Name), v)
				t.locals[id.Name] = "opt"
			case token.ASSIGN:
				sel, ok := x.Lhs[0].(*ast.SelectorExpr)
				if !ok {
					die(t.fset, st, "assignment to %s is outside the subset", t.src(x.Lhs[0]))
				}
				if t.isRecv(sel.X) {
					set, ok := t.s.hdrFields[sel.Sel.Name]
					if !ok {
						die(t.fset, st, "assignment to the receiver's field %s is outside the subset", sel.Sel.Name)
					}
					v := t.value(x.Rhs[0], ind, b)
					fmt.Fprintf(b, "%slet h := h.%s %s\n", ind, set, v)
					continue
				}
				set, ok := t.s.linkFields[sel.Sel.Name]
				if !ok {
					die(t.fset, st, "assignment to field %s is outside the subset", sel.Sel.Name)
				}
				a := t.addr(sel.X, ind, b)
				v := t.value(x.Rhs[0], ind, b)
				fmt.Fprintf(b, "%slet h := h.%s %s %s\n", ind, set, a, v)
			default:
				die(t.fset, st, "unsupported assignment operator %s", x.Tok)
			}
		case *ast.IfStmt:
			if x.Else != nil {
				die(t.fset, st, "if/else is outside the subset")
			}
			if endsInReturn(x.Body) {
				// guard: opaque condition, non-structural body, return
				if !top {
					die(t.fset, st, "nested guard")
				}
				if x.Init != nil {
					as, ok := x.Init.(*ast.AssignStmt)
					if !ok || as.Tok != token.DEFINE || len(as.Rhs) != 1 {
						die(t.fset, st, "unsupported if-initialiser")
					}
					t.opaque(as.Rhs[0])
				}
				t.opaque(x.Cond)
				body := x.Body.List
				for _, y := range body[:len(body)-1] {
					if !t.nonStructural(y) {
						die(t.fset, y, "statement %s in a guard is outside the subset", t.src(y))
					}
					t.drops = append(t.drops, t.src(y))
				}
				g := t.src(x.Cond)
				if x.Init != nil {
					g = t.src(x.Init) + "; " + g
				}
				t.guards = append(t.guards, g)
				fmt.Fprintf(b, "%sif c%d then\n", ind, len(t.guards))
				t.ret(body[len(body)-1].(*ast.ReturnStmt), ind+"  ", b)
				fmt.Fprintf(b, "%selse\n", ind)
				t.stmts(list[i+1:], ind+"  ", b, top)
				return
			}
			// structural conditional on a pointer comparison
			be, ok := x.Cond.(*ast.BinaryExpr)
			if x.Init != nil || !ok || (be.Op != token.EQL && be.Op != token.NEQ) {
				die(t.fset, st, "conditional %s around link updates is outside the subset (need `if p == q {…}`)", t.src(x.Cond))
			}
			l := t.value(be.X, ind, b)
			r := t.value(be.Y, ind, b)
			op := "="
			if be.Op == token.NEQ {
				op = "≠"
			}
			fmt.Fprintf(b, "%slet h ← (if %s %s %s then (do\n", ind, l, op, r)
			saved := map[string]string{}
			for k, v := range t.locals {
				saved[k] = v
			}
			t.stmts(x.Body.List, ind+"    ", b, false)
			t.locals = saved
			fmt.Fprintf(b, "%s    pure h) else pure h)\n", ind)
		default:
			die(t.fset, st, "statement %s is outside the subset", t.src(st))
		}
	}
	if top {
		fmt.Fprintf(b, "%spure (h, %d, none)\n", ind, t.nret)
		t.nret++
	}
}

func (t *psTr) allocLit(e ast.Expr) string {
	cl, ok := e.(*ast.CompositeLit)
	if !ok {
		die(t.fset, e, "unsupported allocation")
	}
	name := ""
	switch ty := cl.Type.(type) {
	case *ast.Ident:
		name = ty.Name
	case *ast.IndexExpr:
		if id, ok := ty.X.(*ast.Ident); ok {
			name = id.Name
		}
	}
	if name != t.s.elemType {
		die(t.fset, e, "allocation of %s (expected %s)", t.src(cl.Type), t.s.elemType)
	}
	item, list := "0", "none"
	for _, el := range cl.Elts {
		kv, ok := el.(*ast.KeyValueExpr)
		if !ok {
			die(t.fset, el, "unkeyed composite literal")
		}
		k := kv.Key.(*ast.Ident).Name
		switch {
		case k == "item":
			id, ok := kv.Value.(*ast.Ident)
			if !ok || t.locals[id.Name] != "int" {
				die(t.fset, el, "item must be initialised from a parameter")
			}
			item = leanIdent(id.Name)
		case k == t.s.listField && t.s.listField != "":
			if !t.isRecv(kv.Value) {
				die(t.fset, el, "%s must be initialised with the receiver", k)
			}
			list = "(some " + leanIdent(t.recv) + ")"
		default:
			die(t.fset, el, "field %s in an element literal is outside the subset", k)
		}
	}
	return t.s.alloc(item, list)
}

func genPtrSplice(repo string, s psShape) string {
	fset := token.NewFileSet()
	f, err := parser.ParseFile(fset, filepath.Join(repo, s.file), nil, 0)
	if err != nil {
		panic(fail{err.Error()})
	}
	var out strings.Builder
	fmt.Fprintf(&out, "import %s\n\n/-! GENERATED by tools/go2lean (ptrsplice.go) from the working tree of tychoish/fun on every run of ./check — do not edit.\n    %s\n", s.imp, s.doc)
	out.WriteString("    A field write `p.f = q` is a functional heap update, every dereference a bind in `Option` (`none` = nil-pointer\n")
	out.WriteString("    panic); guards that do not concern the links are Bool parameters (their source text is in `<fn>_guards`); the\n")
	out.WriteString("    result is (heap, index of the `return` reached, the returned `.item` if any). -/\n\n")
	out.WriteString("set_option linter.unusedVariables false\n\n")
	fmt.Fprintf(&out, "namespace FunGen.%s\nopen %s\n\n", s.name, s.open)
	for _, fn := range s.fns {
		var fd *ast.FuncDecl
		for _, d := range f.Decls {
			x, ok := d.(*ast.FuncDecl)
			if !ok || x.Name.Name != fn || x.Recv == nil || len(x.Recv.List) != 1 {
				continue
			}
			rt := x.Recv.List[0].Type
			if st, ok := rt.(*ast.StarExpr); ok {
				rt = st.X
			}
			if ix, ok := rt.(*ast.IndexExpr); ok {
				rt = ix.X
			}
			if id, ok := rt.(*ast.Ident); ok && id.Name == s.recvType {
				fd = x
			}
		}
		if fd == nil {
			panic(fail{fmt.Sprintf("%s: method %s.%s not found", s.file, s.recvType, fn)})
		}
		if len(fd.Recv.List[0].Names) != 1 {
			die(fset, fd, "unnamed receiver")
		}
		t := &psTr{s: s, fset: fset, recv: fd.Recv.List[0].Names[0].Name, locals: map[string]string{}}
		params := []string{}
		if s.listField != "" {
			// the receiver is an address (of the header) only where elements point back at it
			params = append(params, fmt.Sprintf("(%s : Nat)", leanIdent(t.recv)))
		}
		for _, p := range fd.Type.Params.List {
			kind, lt := "", ""
			switch ty := p.Type.(type) {
			case *ast.StarExpr:
				kind, lt = "addr", "Nat"
			case *ast.Ident:
				if ty.Name == "T" {
					kind, lt = "int", "Int"
				}
			}
			if kind == "" {
				die(fset, p, "unsupported parameter type %s", t.src(p.Type))
			}
			for _, n := range p.Names {
				t.locals[n.Name] = kind
				params = append(params, fmt.Sprintf("(%s : %s)", leanIdent(n.Name), lt))
			}
		}
		if fd.Type.Results != nil {
			for _, r := range fd.Type.Results.List {
				for _, n := range r.Names {
					if n.Name != "_" {
						t.locals[n.Name] = "result"
					}
				}
			}
		}
		var body strings.Builder
		t.stmts(fd.Body.List, "  ", &body, true)
		gp := ""
		for i := range t.guards {
			gp += fmt.Sprintf(" c%d", i+1)
		}
		if gp != "" {
			gp = " (" + strings.TrimSpace(gp) + " : Bool)"
		}
		fmt.Fprintf(&out, "/-- source text of the guards `c1 …` of `%s` (conditions that do not concern the links) -/\n", fn)
		qs := []string{}
		for _, g := range t.guards {
			qs = append(qs, fmt.Sprintf("%q", g))
		}
		fmt.Fprintf(&out, "def %s_guards : List String := [%s]\n\n", fn, strings.Join(qs, ", "))
		for _, d := range t.drops {
			fmt.Fprintf(&out, "-- %s: not part of the linked structure, dropped: %s\n", fn, d)
		}
		fmt.Fprintf(&out, "/-- generated from %s `%s.%s` -/\ndef %s (h : Heap)%s %s : Option (Heap × Nat × Option Int) := do\n%s\n",
			s.file, s.recvType, fn, fn, gp, strings.Join(params, " "), body.String())
	}
	fmt.Fprintf(&out, "end FunGen.%s\n", s.name)
	return out.String()
}
