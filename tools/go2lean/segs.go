package main

// Targets SegsWaitGroup (sync.go `fun.WaitGroup`) and SegsQueue (pubsub/queue.go `pubsub.Queue`):
// the *control structure* of the blocking methods of a mutex+condition-variable type, re-read from the
// source and emitted in the segment vocabulary of lean/FunModel/Conc.lean:
//
//	<M>_start  s args cancelled : SegOut St   what a call of M does from taking the mutex until it returns or
//	                                          parks in cond.Wait (cancelled = "the caller's context is done")
//	<M>_resume s args cancelled : SegOut St   what a woken waiter does from re-acquiring the mutex inside
//	                                          cond.Wait until it returns or parks again
//	start / resume                            the dispatch over the model's `Op` (table below, trusted)
//
// Translation scheme: symbolic execution of the method body. A segment is a loop-free decision tree
// whose tests are the conditions of the source (in source order, `||`/`&&` kept), whose inner nodes are
// the field assignments (`let sN : St := { s with f := e }`) and whose leaves are
// `{ st, sigs, fin := .ret r }` (a `return`, the end of the body, or a failed `Invariant.IsTrue`) or
// `{ st, sigs, fin := .park c }` (a `cond.Wait()`); `sigs` are the Broadcast/Signal calls and helper
// goroutines met on the path, in order. `<M>_start` is the tree from the first statement after
// `mu.Lock(); defer mu.Unlock()`; `<M>_resume` is the tree from the statement after the (single)
// `cond.Wait()` — i.e. the rest of the enclosing block, then back to the head of the enclosing `for`,
// the loop condition, the body again ... until a return or the Wait. A path that reaches the same loop
// head twice without parking or returning is not a segment: the target fails.
//
// Recognised shapes (anything else in a targeted method makes the target fail loudly; the Lean file then
// does not compile and only the properties importing it alarm):
//
//	mu.Lock(); defer mu.Unlock()                    first two statements of every targeted method (segment boundary)
//	recv.f = e | recv.f += e | recv.f -= e | recv.f++ | recv.f--       f a modelled field
//	if c { … } [else { … }]   if x := call; c { … }   return [e, …]
//	cond.Broadcast() / cond.Signal()                cond = recv.<condfield> or a local alias `c := recv.<condfield>`
//	cond.Wait()                                     at most one per method (after inlining)
//	[var cancel context.CancelFunc;] ctx, cancel :=|= context.WithCancel(ctx)   defer cancel()
//	go func(){ <-ctx.Done(); mu.Lock(); defer mu.Unlock() | defer with(lock(&mu)); cond.Broadcast() }()   → .spawn c
//	for [COND] { … }                                no init/post; every path through the body parks or returns
//	select { case <-ctx.Done(): …; default: … }     → if cancelled then … else …
//	Invariant.IsTrue(c, …)                          → if ¬c then return "panic" (state and signals so far are kept)
//	verifAt(…) / verifSig(…)                        build-tag hooks: ignored
//	recv.<ignored>()                                e.g. wg.init() (lazily allocates the sync.Cond; no model state)
//	x := recv.<inlined>(ctx)                        a lock-held helper method is executed in place
//	recv.<mapped>(args)                             a helper that has its own model function (trusted call mapping)
//	expressions: integer literals, parameters, recv.f, + - *, == != < <= > >=, ! && ||, ctx.Err() ==/!= nil,
//	             err ==/!= nil for a local bound by an inlined call, mapped getters (q.tracker.len(), q.tracker.cap())
//
// Trusted (documented in design-notes/sections/seggen.md): this recogniser; the tables below (Go field → model
// field, Go method → `Op` constructor, Go result → observation string, helper call → model function); `int` is `Int`.

import (
	"bytes"
	"fmt"
	"go/ast"
	"go/parser"
	"go/printer"
	"go/token"
	"path/filepath"
	"strings"
)

type sgField struct{ lean, kind string } // kind: int | nat | cap | bool

type sgCall struct {
	fn  string // model function: `fn s args : St × R × List Sig`
	res string // "err" (R is the observation string of an error result) | "val" (R is an Int item)
}

type sgMethod struct {
	name string   // Go method
	pat  string   // pattern over the model's Op, e.g. ".add n"
	args []string // the pattern's variables, in the order of the Go parameters (context.Context dropped)
}

type sgSpec struct {
	target   string
	file     string
	recv     string
	mu       string
	imports  []string
	opens    []string
	conds    map[string]int
	fields   map[string]sgField
	getters  map[string]sgField // "tracker.len" -> model expression on the state
	ignore   map[string]bool
	inline   map[string]bool
	calls    map[string]sgCall
	errs     map[string]string // error constant -> observation string
	methods  []sgMethod
	extra    []string // extra dispatch lines for `start`/`resume` (ops that are not regenerated), informational
	preamble string
	doc      string
}

// ---- decision tree -------------------------------------------------------------------------------

type sgNode interface {
	render(ind string, b *strings.Builder)
}
type sgIf struct {
	cond string
	a, b sgNode
}
type sgLet struct {
	pat, val string
	body     sgNode
}
type sgLeaf struct{ st, sigs, fin string }

func (n *sgIf) render(ind string, b *strings.Builder) {
	fmt.Fprintf(b, "%sif %s then\n", ind, n.cond)
	n.a.render(ind+"  ", b)
	fmt.Fprintf(b, "%selse\n", ind)
	n.b.render(ind+"  ", b)
}
func (n *sgLet) render(ind string, b *strings.Builder) {
	fmt.Fprintf(b, "%slet %s := %s\n", ind, n.pat, n.val)
	n.body.render(ind, b)
}
func (n *sgLeaf) render(ind string, b *strings.Builder) {
	fmt.Fprintf(b, "%s{ st := %s, sigs := %s, fin := %s }\n", ind, n.st, n.sigs, n.fin)
}

// ---- symbolic environment ------------------------------------------------------------------------

type sgSig struct {
	lit  bool // a single signal (else: a list-valued variable)
	text string
}

type sgVal struct {
	kind    string // int | nat | cap | lit | bool | err | item | zero
	lean    string // for err: the observation string (Lean term); for bool: a Prop
	nilness int    // err: 0 unknown (ctx.Err()), 1 nil, 2 non-nil
}

type sgEnv struct {
	st       string
	sigs     []sgSig
	visits   map[*ast.ForStmt]int
	alias    map[string]string
	vals     map[string]sgVal
	derived  bool // ctx was rebound by context.WithCancel(ctx)
	deferred bool // defer cancel()
	spawned  bool
	canc     int // what the path knows about `cancelled` (constant within a segment): 0 nothing, 1 true (went through `case <-ctx.Done()`), 2 false (went through `default`)
}

func (e sgEnv) clone() sgEnv {
	n := e
	n.sigs = append([]sgSig(nil), e.sigs...)
	n.visits = map[*ast.ForStmt]int{}
	for k, v := range e.visits {
		n.visits[k] = v
	}
	n.alias = map[string]string{}
	for k, v := range e.alias {
		n.alias[k] = v
	}
	n.vals = map[string]sgVal{}
	for k, v := range e.vals {
		n.vals[k] = v
	}
	return n
}

type sgCont func(env sgEnv) sgNode
type sgRet func(env sgEnv, at ast.Node, results []ast.Expr) sgNode

type sgGen struct {
	spec  *sgSpec
	fset  *token.FileSet
	file  *ast.File
	recv  string            // receiver variable of the method being translated
	parms map[string]string // Go parameter -> kind
	ctx   string            // name of the context parameter ("" if none)
	named map[string]bool   // named results (zero values)
	res   []string          // kinds of the results: int | bool | error | item
	n     int
	waitK sgCont
	waitE sgEnv
	waitN ast.Node
}

func (g *sgGen) src(n ast.Node) string {
	var b bytes.Buffer
	printer.Fprint(&b, g.fset, n)
	return strings.Join(strings.Fields(b.String()), " ")
}

func (g *sgGen) die(n ast.Node, f string, a ...any) { die(g.fset, n, f, a...) }

func (g *sgGen) fresh(p string) string { g.n++; return fmt.Sprintf("%s%d", p, g.n) }

// recv.f  (f a plain identifier)
func (g *sgGen) recvField(e ast.Expr) (string, bool) {
	sel, ok := e.(*ast.SelectorExpr)
	if !ok {
		return "", false
	}
	id, ok := sel.X.(*ast.Ident)
	if !ok || id.Name != g.recv {
		return "", false
	}
	return sel.Sel.Name, true
}

// the condition variable an expression denotes: recv.<condfield> or a local alias of one
func (g *sgGen) condOf(e ast.Expr, env sgEnv) (int, bool) {
	if f, ok := g.recvField(e); ok {
		c, ok := g.spec.conds[f]
		return c, ok
	}
	if id, ok := e.(*ast.Ident); ok {
		if f, ok := env.alias[id.Name]; ok {
			return g.spec.conds[f], true
		}
	}
	return 0, false
}

// X.m(args) with X an arbitrary expression
func methodCall(e ast.Expr) (x ast.Expr, m string, args []ast.Expr, ok bool) {
	c, ok := e.(*ast.CallExpr)
	if !ok {
		return nil, "", nil, false
	}
	sel, ok := c.Fun.(*ast.SelectorExpr)
	if !ok {
		return nil, "", nil, false
	}
	return sel.X, sel.Sel.Name, c.Args, true
}

func (g *sgGen) isMuCall(e ast.Expr, m string) bool {
	x, name, args, ok := methodCall(e)
	if !ok || name != m || len(args) != 0 {
		return false
	}
	f, ok := g.recvField(x)
	return ok && f == g.spec.mu
}

func (g *sgGen) isCtx(e ast.Expr) bool {
	id, ok := e.(*ast.Ident)
	return ok && g.ctx != "" && id.Name == g.ctx
}

// ctx.Err() / ctx.Done()
func (g *sgGen) isCtxCall(e ast.Expr, m string) bool {
	x, name, args, ok := methodCall(e)
	return ok && name == m && len(args) == 0 && g.isCtx(x)
}

// ---- expressions ---------------------------------------------------------------------------------

func (g *sgGen) val(e ast.Expr, env sgEnv) sgVal {
	switch x := e.(type) {
	case *ast.ParenExpr:
		return g.val(x.X, env)
	case *ast.BasicLit:
		if x.Kind == token.INT {
			return sgVal{kind: "lit", lean: x.Value}
		}
	case *ast.Ident:
		switch x.Name {
		case "nil":
			return sgVal{kind: "err", lean: `"ok"`, nilness: 1}
		case "true":
			return sgVal{kind: "bool", lean: "True"}
		case "false":
			return sgVal{kind: "bool", lean: "False"}
		}
		if v, ok := env.vals[x.Name]; ok {
			return v
		}
		if k, ok := g.parms[x.Name]; ok {
			return sgVal{kind: k, lean: leanIdent(x.Name)}
		}
		if g.named[x.Name] {
			return sgVal{kind: "zero"}
		}
		if s, ok := g.spec.errs[x.Name]; ok {
			return sgVal{kind: "err", lean: fmt.Sprintf("%q", s), nilness: 2}
		}
	case *ast.SelectorExpr:
		if f, ok := g.recvField(x); ok {
			if fd, ok := g.spec.fields[f]; ok {
				if fd.kind == "bool" {
					return sgVal{kind: "bool", lean: fmt.Sprintf("%s.%s = true", env.st, fd.lean)}
				}
				return sgVal{kind: fd.kind, lean: fmt.Sprintf("%s.%s", env.st, fd.lean)}
			}
		}
	case *ast.UnaryExpr:
		switch x.Op {
		case token.SUB:
			v := g.val(x.X, env)
			if v.kind == "lit" || v.kind == "int" {
				return sgVal{kind: v.kind, lean: "(-" + v.lean + ")"}
			}
		case token.NOT:
			return sgVal{kind: "bool", lean: sgNot(g.cond(x.X, env))}
		}
	case *ast.CallExpr:
		if g.isCtxCall(x, "Err") {
			// inside `case <-ctx.Done():` the error is known to be non-nil
			return sgVal{kind: "err", lean: `"ctx"`, nilness: map[int]int{0: 0, 1: 2, 2: 1}[env.canc]}
		}
		// recv.a.b()  — a mapped getter
		if sel, ok := x.Fun.(*ast.SelectorExpr); ok && len(x.Args) == 0 {
			if f, ok := g.recvField(sel.X); ok {
				if gt, ok := g.spec.getters[f+"."+sel.Sel.Name]; ok {
					return sgVal{kind: gt.kind, lean: fmt.Sprintf("%s.%s", env.st, gt.lean)}
				}
			}
		}
	case *ast.BinaryExpr:
		switch x.Op {
		case token.ADD, token.SUB, token.MUL:
			a, b := g.val(x.X, env), g.val(x.Y, env)
			k := sgJoin(a.kind, b.kind)
			if k == "" || k == "cap" {
				g.die(e, "unsupported arithmetic %s", g.src(e))
			}
			if k == "nat" && x.Op == token.SUB {
				g.die(e, "subtraction on a natural-number getter: %s", g.src(e))
			}
			return sgVal{kind: k, lean: fmt.Sprintf("(%s %s %s)", a.lean, x.Op.String(), b.lean)}
		case token.EQL, token.NEQ, token.LSS, token.LEQ, token.GTR, token.GEQ, token.LAND, token.LOR:
			return sgVal{kind: "bool", lean: g.cond(e, env)}
		}
	}
	g.die(e, "unsupported expression %s", g.src(e))
	return sgVal{}
}

func sgJoin(a, b string) string {
	switch {
	case a == b:
		return a
	case a == "lit":
		return b
	case b == "lit":
		return a
	}
	return ""
}

func sgNot(p string) string {
	switch p {
	case "True":
		return "False"
	case "False":
		return "True"
	}
	return "¬(" + p + ")"
}

var sgCmp = map[token.Token]string{token.EQL: "=", token.NEQ: "≠", token.LSS: "<", token.LEQ: "≤", token.GTR: ">", token.GEQ: "≥"}

// a condition as a decidable Prop; "True"/"False" when it is known statically
func (g *sgGen) cond(e ast.Expr, env sgEnv) string {
	switch x := e.(type) {
	case *ast.ParenExpr:
		return g.cond(x.X, env)
	case *ast.BinaryExpr:
		switch x.Op {
		case token.LOR, token.LAND:
			a, b := g.cond(x.X, env), g.cond(x.Y, env)
			or := x.Op == token.LOR
			switch {
			case a == "True" && or, a == "False" && !or:
				return a
			case a == "False" && or, a == "True" && !or:
				return b
			case b == "False" && or, b == "True" && !or:
				return a
			}
			// (a static right operand that decides the result is kept: Go still evaluates the left one first,
			// and the translated conditions have no effects)
			if or {
				return fmt.Sprintf("(%s ∨ %s)", a, b)
			}
			return fmt.Sprintf("(%s ∧ %s)", a, b)
		case token.EQL, token.NEQ, token.LSS, token.LEQ, token.GTR, token.GEQ:
			a, b := g.val(x.X, env), g.val(x.Y, env)
			if a.kind == "err" || b.kind == "err" {
				if x.Op != token.EQL && x.Op != token.NEQ {
					g.die(e, "ordering comparison of errors")
				}
				if b.nilness != 1 {
					a, b = b, a
				}
				if b.kind != "err" || b.nilness != 1 || a.kind != "err" {
					g.die(e, "an error can only be compared with nil: %s", g.src(e))
				}
				isNil := ""
				switch a.nilness {
				case 0:
					isNil = "cancelled = false"
				case 1:
					isNil = "True"
				case 2:
					isNil = "False"
				}
				if x.Op == token.NEQ {
					if a.nilness == 0 {
						return "cancelled = true"
					}
					return sgNot(isNil)
				}
				return isNil
			}
			if a.kind == "cap" && (b.kind == "nat" || b.kind == "lit") {
				switch x.Op {
				case token.GTR:
					return fmt.Sprintf("capGt %s %s = true", a.lean, b.lean)
				case token.LEQ:
					return fmt.Sprintf("capGt %s %s = false", a.lean, b.lean)
				}
				g.die(e, "only `cap() > n` and `cap() <= n` are modelled (cap() may be math.MaxInt): %s", g.src(e))
			}
			if k := sgJoin(a.kind, b.kind); k == "int" || k == "nat" || k == "lit" {
				return fmt.Sprintf("%s %s %s", a.lean, sgCmp[x.Op], b.lean)
			}
			g.die(e, "unsupported comparison %s", g.src(e))
		}
	case *ast.UnaryExpr:
		if x.Op == token.NOT {
			return sgNot(g.cond(x.X, env))
		}
	}
	v := g.val(e, env)
	if v.kind != "bool" {
		g.die(e, "not a condition: %s", g.src(e))
	}
	return v.lean
}

// ---- leaves --------------------------------------------------------------------------------------

func sgSigs(sigs []sgSig) string {
	var parts []string
	var lits []string
	flush := func() {
		if len(lits) > 0 {
			parts = append(parts, "["+strings.Join(lits, ", ")+"]")
			lits = nil
		}
	}
	for _, s := range sigs {
		if s.lit {
			lits = append(lits, s.text)
		} else {
			flush()
			parts = append(parts, s.text)
		}
	}
	flush()
	if len(parts) == 0 {
		return "[]"
	}
	return strings.Join(parts, " ++ ")
}

func (g *sgGen) leaf(env sgEnv, at ast.Node, fin string) sgNode {
	if env.spawned && !env.deferred {
		g.die(at, "a helper goroutine was started but `defer cancel()` was not reached: its context would never end")
	}
	return &sgLeaf{st: env.st, sigs: sgSigs(env.sigs), fin: fin}
}

// a mapped helper call recv.m(args): binds (state, result, signals) and continues
func (g *sgGen) mapped(e ast.Expr, env sgEnv) (sgCall, []string, bool) {
	x, m, args, ok := methodCall(e)
	if !ok {
		return sgCall{}, nil, false
	}
	id, ok := x.(*ast.Ident)
	if !ok || id.Name != g.recv {
		return sgCall{}, nil, false
	}
	c, ok := g.spec.calls[m]
	if !ok {
		return sgCall{}, nil, false
	}
	var as []string
	for _, a := range args {
		v := g.val(a, env)
		if v.kind != "int" && v.kind != "lit" {
			g.die(a, "unsupported argument %s", g.src(a))
		}
		as = append(as, v.lean)
	}
	return c, as, true
}

func (g *sgGen) callLet(c sgCall, args []string, env sgEnv, body func(env sgEnv, r string) sgNode) sgNode {
	s, r, sg := g.fresh("s"), g.fresh("r"), g.fresh("sg")
	val := strings.TrimSpace(fmt.Sprintf("%s %s %s", c.fn, env.st, strings.Join(args, " ")))
	env = env.clone()
	env.st = s
	env.sigs = append(env.sigs, sgSig{false, sg})
	return &sgLet{pat: fmt.Sprintf("(%s, %s, %s)", s, r, sg), val: val, body: body(env, r)}
}

// the observation string of a `return` (trusted result mapping, by the method's result kinds)
func (g *sgGen) topRet(env sgEnv, at ast.Node, results []ast.Expr) sgNode {
	if len(results) != len(g.res) && !(len(results) == 0 && len(g.named) == len(g.res)) {
		g.die(at, "return with %d values in a method with %d results", len(results), len(g.res))
	}
	if len(results) == 0 && len(g.res) > 0 {
		g.die(at, "bare return with named results")
	}
	sig := strings.Join(g.res, ",")
	switch sig {
	case "":
		return g.leaf(env, at, `.ret "ok"`)
	case "int":
		v := g.val(results[0], env)
		if v.kind != "int" && v.kind != "nat" && v.kind != "lit" {
			g.die(results[0], "unsupported result %s", g.src(results[0]))
		}
		return g.leaf(env, at, fmt.Sprintf(".ret (toString %s)", v.lean))
	case "bool":
		return g.leaf(env, at, fmt.Sprintf(`.ret (if %s then "1" else "0")`, g.cond(results[0], env)))
	case "error":
		if c, as, ok := g.mapped(results[0], env); ok && c.res == "err" {
			return g.callLet(c, as, env, func(env sgEnv, r string) sgNode { return g.leaf(env, at, ".ret "+r) })
		}
		v := g.val(results[0], env)
		if v.kind != "err" {
			g.die(results[0], "unsupported error result %s", g.src(results[0]))
		}
		return g.leaf(env, at, ".ret "+v.lean)
	case "item,bool", "item,error":
		second := g.val(results[1], env)
		ok := false
		switch {
		case sig == "item,bool" && second.kind == "bool" && second.lean == "True":
			ok = true
		case sig == "item,bool" && second.kind == "bool" && second.lean == "False":
		case sig == "item,error" && second.kind == "err" && second.nilness == 1:
			ok = true
		case sig == "item,error" && second.kind == "err":
		default:
			g.die(results[1], "unsupported second result %s", g.src(results[1]))
		}
		if ok {
			c, as, isCall := g.mapped(results[0], env)
			if !isCall || c.res != "val" {
				g.die(results[0], "unsupported item result %s", g.src(results[0]))
			}
			return g.callLet(c, as, env, func(env sgEnv, r string) sgNode { return g.leaf(env, at, fmt.Sprintf(".ret (toString %s)", r)) })
		}
		if first := g.val(results[0], env); first.kind != "zero" {
			g.die(results[0], "a failing return must return the zero item: %s", g.src(results[0]))
		}
		if sig == "item,bool" {
			return g.leaf(env, at, `.ret "none"`)
		}
		return g.leaf(env, at, ".ret "+second.lean)
	}
	g.die(at, "unsupported result list (%s)", sig)
	return nil
}

// ---- statements ----------------------------------------------------------------------------------

func (g *sgGen) block(list []ast.Stmt, env sgEnv, k sgCont, ret sgRet) sgNode {
	if len(list) == 0 {
		return k(env)
	}
	rest := func(env sgEnv) sgNode { return g.block(list[1:], env, k, ret) }
	return g.stmt(list[0], env, rest, ret)
}

func isHook(e ast.Expr) bool {
	c, ok := e.(*ast.CallExpr)
	if !ok {
		return false
	}
	id, ok := c.Fun.(*ast.Ident)
	return ok && (id.Name == "verifAt" || id.Name == "verifSig")
}

func (g *sgGen) mkIf(c string, a, b func() sgNode) sgNode {
	switch c {
	case "True":
		return a()
	case "False":
		return b()
	}
	return &sgIf{cond: c, a: a(), b: b()}
}

// ctx, cancel :=|= context.WithCancel(ctx)
func (g *sgGen) isWithCancel(x *ast.AssignStmt) bool {
	if len(x.Lhs) != 2 || len(x.Rhs) != 1 || !g.isCtx(x.Lhs[0]) {
		return false
	}
	if id, ok := x.Lhs[1].(*ast.Ident); !ok || id.Name != "cancel" {
		return false
	}
	fx, m, args, ok := methodCall(x.Rhs[0])
	if !ok || m != "WithCancel" || len(args) != 1 || !g.isCtx(args[0]) {
		return false
	}
	id, ok := fx.(*ast.Ident)
	return ok && id.Name == "context"
}

// go func(){ <-ctx.Done(); [hooks]; mu.Lock(); defer mu.Unlock() | defer with(lock(&mu)); cond.Broadcast(); [hooks] }()
func (g *sgGen) helper(x *ast.GoStmt, env sgEnv) int {
	fl, ok := x.Call.Fun.(*ast.FuncLit)
	if !ok || len(x.Call.Args) != 0 || len(fl.Type.Params.List) != 0 {
		g.die(x, "unsupported go statement (not the context-watcher shape)")
	}
	var body []ast.Stmt
	for _, s := range fl.Body.List {
		if es, ok := s.(*ast.ExprStmt); ok && isHook(es.X) {
			continue
		}
		body = append(body, s)
	}
	bad := func(why string) { g.die(x, "unsupported go statement (not the context-watcher shape): %s", why) }
	if len(body) < 3 {
		bad("too short")
	}
	// <-ctx.Done()
	es, ok := body[0].(*ast.ExprStmt)
	if !ok {
		bad("first statement is not `<-ctx.Done()`")
	}
	un, ok := es.X.(*ast.UnaryExpr)
	if !ok || un.Op != token.ARROW || !g.isCtxCall(un.X, "Done") {
		bad("first statement is not `<-ctx.Done()`")
	}
	i := 1
	if es, ok := body[i].(*ast.ExprStmt); ok && g.isMuCall(es.X, "Lock") {
		ds, ok := body[i+1].(*ast.DeferStmt)
		if !ok || !g.isMuCall(ds.Call, "Unlock") {
			bad("mu.Lock() without defer mu.Unlock()")
		}
		i += 2
	} else if ds, ok := body[i].(*ast.DeferStmt); ok && g.src(ds.Call) == fmt.Sprintf("with(lock(&%s.%s))", g.recv, g.spec.mu) {
		i++
	} else {
		bad("the helper does not take the mutex")
	}
	if i != len(body)-1 {
		bad("extra statements")
	}
	es, ok = body[i].(*ast.ExprStmt)
	if !ok {
		bad("last statement is not cond.Broadcast()")
	}
	cx, m, args, ok := methodCall(es.X)
	if !ok || m != "Broadcast" || len(args) != 0 {
		bad("last statement is not cond.Broadcast()")
	}
	c, ok := g.condOf(cx, env)
	if !ok {
		bad("Broadcast on something that is not a condition variable of the receiver")
	}
	if !env.derived {
		bad("the watched context is not derived by context.WithCancel(ctx) in this call")
	}
	return c
}

func (g *sgGen) assignField(x ast.Stmt, lhs ast.Expr, op token.Token, rhs ast.Expr, env sgEnv, k sgCont) sgNode {
	f, ok := g.recvField(lhs)
	if !ok {
		g.die(x, "unsupported assignment %s", g.src(x))
	}
	fd, ok := g.spec.fields[f]
	if !ok {
		g.die(x, "assignment to a field that is not modelled: %s", g.src(x))
	}
	var e string
	switch fd.kind {
	case "bool":
		if op != token.ASSIGN {
			g.die(x, "unsupported assignment %s", g.src(x))
		}
		c := g.cond(rhs, env)
		switch c {
		case "True":
			e = "true"
		case "False":
			e = "false"
		default:
			e = "decide (" + c + ")"
		}
	case "int":
		var v sgVal
		if rhs == nil {
			v = sgVal{kind: "lit", lean: "1"}
		} else {
			v = g.val(rhs, env)
		}
		if v.kind != "int" && v.kind != "lit" {
			g.die(x, "unsupported right-hand side %s", g.src(x))
		}
		cur := fmt.Sprintf("%s.%s", env.st, fd.lean)
		switch op {
		case token.ASSIGN:
			e = v.lean
			// normal form: `f = f + e` and `f += e` are the same assignment
			if strings.HasPrefix(e, "(") && strings.HasSuffix(e, ")") {
				e = e[1 : len(e)-1]
			}
		case token.ADD_ASSIGN, token.INC:
			e = cur + " + " + v.lean
		case token.SUB_ASSIGN, token.DEC:
			e = cur + " - " + v.lean
		default:
			g.die(x, "unsupported assignment %s", g.src(x))
		}
	default:
		g.die(x, "assignment to a field of kind %s is not modelled: %s", fd.kind, g.src(x))
	}
	env = env.clone()
	s := g.fresh("s")
	val := fmt.Sprintf("{ %s with %s := %s }", env.st, fd.lean, e)
	env.st = s
	return &sgLet{pat: s + " : St", val: val, body: k(env)}
}

// run an inlined lock-held method in place: its returns bind `name` and continue with k
func (g *sgGen) inlineCall(at ast.Node, name string, call ast.Expr, env sgEnv, k sgCont) sgNode {
	x, m, args, ok := methodCall(call)
	if !ok {
		g.die(at, "unsupported statement %s", g.src(at))
	}
	id, ok := x.(*ast.Ident)
	if !ok || id.Name != g.recv || !g.spec.inline[m] {
		g.die(at, "unsupported call %s", g.src(call))
	}
	fd := g.findMethod(m)
	if fd == nil {
		g.die(at, "inlined method %s not found", m)
	}
	// the callee must have the shape m(ctx context.Context) error with the same receiver/context names
	if len(args) != 1 || !g.isCtx(args[0]) || fd.Type.Params.NumFields() != 1 || fd.Type.Params.List[0].Names[0].Name != g.ctx ||
		fd.Recv.List[0].Names[0].Name != g.recv || fd.Type.Results.NumFields() != 1 || g.src(fd.Type.Results.List[0].Type) != "error" {
		g.die(at, "inlined method %s must be `func (%s …) %s(%s context.Context) error`", m, g.recv, m, g.ctx)
	}
	outer := env
	inner := env.clone()
	inner.derived, inner.deferred = false, false
	ret := func(env sgEnv, rat ast.Node, results []ast.Expr) sgNode {
		if len(results) != 1 {
			g.die(rat, "return of an inlined method must have one value")
		}
		v := g.val(results[0], env)
		if v.kind != "err" {
			g.die(rat, "unsupported result of an inlined method: %s", g.src(results[0]))
		}
		if env.spawned && !env.deferred {
			g.die(rat, "a helper goroutine was started but `defer cancel()` was not reached")
		}
		env = env.clone()
		env.vals[name] = v
		env.derived, env.deferred = outer.derived, outer.deferred || env.spawned
		return k(env)
	}
	return g.block(fd.Body.List, inner, func(env sgEnv) sgNode {
		g.die(fd, "control reaches the end of %s", m)
		return nil
	}, ret)
}

func (g *sgGen) stmt(s ast.Stmt, env sgEnv, k sgCont, ret sgRet) sgNode {
	switch x := s.(type) {
	case *ast.EmptyStmt:
		return k(env)
	case *ast.BlockStmt:
		return g.block(x.List, env, k, ret)
	case *ast.ReturnStmt:
		return ret(env, x, x.Results)
	case *ast.DeclStmt:
		if g.src(x) == "var cancel context.CancelFunc" {
			return k(env)
		}
	case *ast.DeferStmt:
		if g.src(x.Call) == "cancel()" && env.derived {
			env = env.clone()
			env.deferred = true
			return k(env)
		}
	case *ast.GoStmt:
		c := g.helper(x, env)
		env = env.clone()
		env.spawned = true
		env.sigs = append(env.sigs, sgSig{true, fmt.Sprintf(".spawn %d", c)})
		return k(env)
	case *ast.IncDecStmt:
		return g.assignField(x, x.X, x.Tok, nil, env, k)
	case *ast.AssignStmt:
		if g.isWithCancel(x) {
			if env.derived {
				g.die(x, "context.WithCancel twice in one call")
			}
			env = env.clone()
			env.derived = true
			return k(env)
		}
		if len(x.Lhs) == 1 && len(x.Rhs) == 1 {
			if id, ok := x.Lhs[0].(*ast.Ident); ok && x.Tok == token.DEFINE {
				// c := recv.<condfield>
				if f, ok := g.recvField(x.Rhs[0]); ok {
					if _, ok := g.spec.conds[f]; ok {
						env = env.clone()
						env.alias[id.Name] = f
						return k(env)
					}
				}
				// err := recv.<inlined>(ctx)
				return g.inlineCall(x, id.Name, x.Rhs[0], env, k)
			}
			return g.assignField(x, x.Lhs[0], x.Tok, x.Rhs[0], env, k)
		}
	case *ast.ExprStmt:
		if isHook(x.X) {
			return k(env)
		}
		cx, m, args, ok := methodCall(x.X)
		if !ok {
			break
		}
		// Invariant.IsTrue(c, …)
		if id, ok := cx.(*ast.Ident); ok && id.Name == "Invariant" && m == "IsTrue" && len(args) >= 1 {
			c := g.cond(args[0], env)
			return g.mkIf(sgNot(c), func() sgNode { return g.leaf(env, x, `.ret "panic"`) }, func() sgNode { return k(env) })
		}
		if id, ok := cx.(*ast.Ident); ok && id.Name == g.recv && g.spec.ignore[m] && len(args) == 0 {
			return k(env)
		}
		if c, ok := g.condOf(cx, env); ok && len(args) == 0 {
			switch m {
			case "Broadcast", "Signal":
				env = env.clone()
				env.sigs = append(env.sigs, sgSig{true, fmt.Sprintf(".%s %d", strings.ToLower(m), c)})
				return k(env)
			case "Wait":
				if g.waitN != nil && g.waitN != ast.Node(x) {
					g.die(x, "more than one cond.Wait() in a method")
				}
				if g.waitN == nil {
					g.waitN, g.waitK, g.waitE = x, k, env.clone()
				}
				return g.leaf(env, x, fmt.Sprintf(".park %d", c))
			}
		}
	case *ast.IfStmt:
		if x.Init != nil {
			as, ok := x.Init.(*ast.AssignStmt)
			if !ok || as.Tok != token.DEFINE || len(as.Lhs) != 1 || len(as.Rhs) != 1 {
				g.die(x, "unsupported if-initialiser %s", g.src(x.Init))
			}
			id, ok := as.Lhs[0].(*ast.Ident)
			if !ok {
				g.die(x, "unsupported if-initialiser %s", g.src(x.Init))
			}
			noInit := *x
			noInit.Init = nil
			return g.inlineCall(x, id.Name, as.Rhs[0], env, func(env sgEnv) sgNode { return g.stmt(&noInit, env, k, ret) })
		}
		c := g.cond(x.Cond, env)
		return g.mkIf(c,
			func() sgNode { return g.block(x.Body.List, env, k, ret) },
			func() sgNode {
				if x.Else == nil {
					return k(env)
				}
				return g.stmt(x.Else, env, k, ret)
			})
	case *ast.SelectStmt:
		var done, dflt *ast.CommClause
		for _, cl := range x.Body.List {
			cc := cl.(*ast.CommClause)
			if cc.Comm == nil {
				dflt = cc
				continue
			}
			es, ok := cc.Comm.(*ast.ExprStmt)
			if ok {
				if un, ok := es.X.(*ast.UnaryExpr); ok && un.Op == token.ARROW && g.isCtxCall(un.X, "Done") {
					done = cc
					continue
				}
			}
			g.die(cc, "unsupported select case %s", g.src(cc.Comm))
		}
		if done == nil || dflt == nil || len(x.Body.List) != 2 {
			g.die(x, "select must be `case <-ctx.Done(): …; default: …`")
		}
		c := map[int]string{0: "cancelled = true", 1: "True", 2: "False"}[env.canc]
		return g.mkIf(c,
			func() sgNode { e := env.clone(); e.canc = 1; return g.block(done.Body, e, k, ret) },
			func() sgNode { e := env.clone(); e.canc = 2; return g.block(dflt.Body, e, k, ret) })
	case *ast.ForStmt:
		if x.Init != nil || x.Post != nil {
			g.die(x, "unsupported for statement (init/post)")
		}
		var head sgCont
		head = func(env sgEnv) sgNode {
			if env.visits[x] >= 1 {
				g.die(x, "a path goes round this loop without parking or returning (not a segment)")
			}
			env = env.clone()
			env.visits[x]++
			c := "True"
			if x.Cond != nil {
				c = g.cond(x.Cond, env)
			}
			return g.mkIf(c,
				func() sgNode { return g.block(x.Body.List, env, head, ret) },
				func() sgNode { return k(env) })
		}
		return head(env)
	}
	g.die(s, "unsupported statement %s", g.src(s))
	return nil
}

// ---- methods -------------------------------------------------------------------------------------

func (g *sgGen) findMethod(name string) *ast.FuncDecl {
	for _, d := range g.file.Decls {
		fd, ok := d.(*ast.FuncDecl)
		if !ok || fd.Name.Name != name || fd.Recv == nil || len(fd.Recv.List) != 1 || fd.Body == nil {
			continue
		}
		rt := fd.Recv.List[0].Type
		if st, ok := rt.(*ast.StarExpr); ok {
			rt = st.X
		}
		if ix, ok := rt.(*ast.IndexExpr); ok {
			rt = ix.X
		}
		if id, ok := rt.(*ast.Ident); ok && id.Name == g.spec.recv && len(fd.Recv.List[0].Names) == 1 {
			return fd
		}
	}
	return nil
}

func (g *sgGen) kindOfType(e ast.Expr) string {
	switch g.src(e) {
	case "int":
		return "int"
	case "bool":
		return "bool"
	case "error":
		return "error"
	case "T":
		return "item"
	}
	return ""
}

func sgGenerate(repo string, spec *sgSpec) string {
	fset := token.NewFileSet()
	f, err := parser.ParseFile(fset, filepath.Join(repo, spec.file), nil, 0)
	if err != nil {
		panic(fail{err.Error()})
	}
	var out strings.Builder
	for _, im := range spec.imports {
		fmt.Fprintf(&out, "import %s\n", im)
	}
	fmt.Fprintf(&out, "\n/-! GENERATED by tools/go2lean (segs.go) from the working tree of tychoish/fun on every run of ./check — do not edit.\n%s -/\n\n", spec.doc)
	fmt.Fprintf(&out, "set_option linter.unusedVariables false\n\nnamespace FunGen.%s\nopen %s\n\n%s", spec.target, strings.Join(spec.opens, " "), spec.preamble)
	var startLines, resumeLines []string
	for _, m := range spec.methods {
		g := &sgGen{spec: spec, fset: fset, file: f, parms: map[string]string{}, named: map[string]bool{}}
		fd := g.findMethod(m.name)
		if fd == nil {
			panic(fail{fmt.Sprintf("%s: method %s.%s not found", spec.file, spec.recv, m.name)})
		}
		g.recv = fd.Recv.List[0].Names[0].Name
		var params []string
		for _, p := range fd.Type.Params.List {
			if len(p.Names) == 0 {
				g.die(p, "unnamed parameter")
			}
			for _, n := range p.Names {
				if g.src(p.Type) == "context.Context" {
					if g.ctx != "" {
						g.die(p, "two context parameters")
					}
					g.ctx = n.Name
					continue
				}
				k := g.kindOfType(p.Type)
				if k != "int" && k != "item" {
					g.die(p, "unsupported parameter type %s", g.src(p.Type))
				}
				g.parms[n.Name] = "int"
				params = append(params, fmt.Sprintf("(%s : Int)", leanIdent(n.Name)))
			}
		}
		if len(params) != len(m.args) {
			g.die(fd, "%s has %d modelled parameters, the Op constructor `%s` has %d", m.name, len(params), m.pat, len(m.args))
		}
		if fd.Type.Results != nil {
			for _, r := range fd.Type.Results.List {
				k := g.kindOfType(r.Type)
				if k == "" {
					g.die(r, "unsupported result type %s", g.src(r.Type))
				}
				cnt := len(r.Names)
				if cnt == 0 {
					cnt = 1
				}
				for i := 0; i < cnt; i++ {
					g.res = append(g.res, k)
				}
				for _, n := range r.Names {
					if n.Name != "_" {
						g.named[n.Name] = true
					}
				}
			}
		}
		body := fd.Body.List
		if len(body) < 2 {
			g.die(fd, "%s does not start with %s.%s.Lock(); defer %s.%s.Unlock()", m.name, g.recv, spec.mu, g.recv, spec.mu)
		}
		es, ok1 := body[0].(*ast.ExprStmt)
		ds, ok2 := body[1].(*ast.DeferStmt)
		if !ok1 || !ok2 || !g.isMuCall(es.X, "Lock") || !g.isMuCall(ds.Call, "Unlock") {
			g.die(fd, "%s does not start with %s.%s.Lock(); defer %s.%s.Unlock()", m.name, g.recv, spec.mu, g.recv, spec.mu)
		}
		env := sgEnv{st: "s", visits: map[*ast.ForStmt]int{}, alias: map[string]string{}, vals: map[string]sgVal{}}
		end := func(env sgEnv) sgNode {
			if len(g.res) != 0 {
				g.die(fd, "control reaches the end of a method with results")
			}
			return g.topRet(env, fd, nil)
		}
		start := g.block(body[2:], env, end, g.topRet)
		ps := strings.Join(params, " ")
		if ps != "" {
			ps += " "
		}
		as := strings.Join(m.args, " ")
		if as != "" {
			as += " "
		}
		var b strings.Builder
		fmt.Fprintf(&b, "/-- generated from %s `%s.%s`: from `%s.%s.Lock()` to the first return / `cond.Wait()` -/\n", spec.file, spec.recv, m.name, g.recv, spec.mu)
		fmt.Fprintf(&b, "def %s_start (s : St) %s(cancelled : Bool) : SegOut St :=\n", m.name, ps)
		start.render("  ", &b)
		out.WriteString(b.String() + "\n")
		startLines = append(startLines, fmt.Sprintf("  | %s => %s_start s %scancelled", m.pat, m.name, as))
		if g.waitK != nil {
			renv := g.waitE.clone()
			renv.st, renv.sigs, renv.visits, renv.canc = "s", nil, map[*ast.ForStmt]int{}, 0
			resume := g.waitK(renv)
			b.Reset()
			fmt.Fprintf(&b, "/-- generated from %s `%s.%s`: from the return of `%s` (mutex re-acquired) to the next return / `cond.Wait()` -/\n",
				spec.file, spec.recv, m.name, g.src(g.waitN))
			fmt.Fprintf(&b, "def %s_resume (s : St) %s(cancelled : Bool) : SegOut St :=\n", m.name, ps)
			resume.render("  ", &b)
			out.WriteString(b.String() + "\n")
			resumeLines = append(resumeLines, fmt.Sprintf("  | %s => %s_resume s %scancelled", m.pat, m.name, as))
		}
	}
	out.WriteString("/-- dispatch over the model's operations (the table method ↔ `Op` constructor is part of the trusted mapping) -/\n")
	out.WriteString("def start (s : St) (t : Nat) (op : Op) (cancelled : Bool) : Option (SegOut St) :=\n  match op with\n")
	for _, l := range startLines {
		out.WriteString(strings.Replace(l, "=> ", "=> some (", 1) + ")\n")
	}
	if len(spec.extra) > 0 {
		out.WriteString("  | _ => none   -- " + strings.Join(spec.extra, ", ") + ": not regenerated\n")
	}
	out.WriteString("\n/-- `none`: the method has no `cond.Wait()`, it is never resumed -/\n")
	out.WriteString("def resume (s : St) (t : Nat) (op : Op) (cancelled : Bool) : Option (SegOut St) :=\n  match op with\n")
	for _, l := range resumeLines {
		out.WriteString(strings.Replace(l, "=> ", "=> some (", 1) + ")\n")
	}
	out.WriteString("  | _ => none\n")
	fmt.Fprintf(&out, "\nend FunGen.%s\n", spec.target)
	return out.String()
}

var sgWaitGroup = &sgSpec{
	target:  "SegsWaitGroup",
	file:    "sync.go",
	recv:    "WaitGroup",
	mu:      "mu",
	imports: []string{"FunModel.WaitGroup"},
	opens:   []string{"FunModel.Conc", "FunModel.WaitGroup"},
	conds:   map[string]int{"cond": 0},
	fields:  map[string]sgField{"counter": {"counter", "int"}},
	ignore:  map[string]bool{"init": true},
	methods: []sgMethod{
		{"Add", ".add num", []string{"num"}},
		{"Num", ".num", nil},
		{"IsDone", ".isDone", nil},
		{"Wait", ".wait", nil},
	},
	doc: "    Segments of `fun.WaitGroup` (sync.go): `Add`, `Num`, `IsDone`, `Wait` over the state record `St` (`counter`) of\n" +
		"    FunModel/WaitGroup.lean, in the vocabulary of FunModel/Conc.lean. Condition 0 is `wg.cond`. `cancelled` = the\n" +
		"    caller's context is done (`ctx.Err() != nil`, `<-ctx.Done()` ready). `wg.init()` (lazy allocation of the sync.Cond)\n" +
		"    and the `verifAt` hooks are skipped. Results: no result → \"ok\", int → decimal, bool → \"1\"/\"0\", failed\n" +
		"    `Invariant.IsTrue` → \"panic\".",
}

var sgQueue = &sgSpec{
	target:  "SegsQueue",
	file:    "pubsub/queue.go",
	recv:    "Queue",
	mu:      "mu",
	imports: []string{"FunModel.Queue"},
	opens:   []string{"FunModel.Conc", "FunModel.Queue"},
	conds:   map[string]int{"nempty": 0, "nupdates": 1},
	fields:  map[string]sgField{"closed": {"closed", "bool"}},
	getters: map[string]sgField{"tracker.len": {"tracker.len", "nat"}, "tracker.cap": {"tracker.cap", "cap"}},
	inline:  map[string]bool{"unsafeWaitWhileEmpty": true},
	calls:   map[string]sgCall{"doAdd": {"doAdd", "err"}, "popFront": {"popFront", "val"}},
	errs:    map[string]string{"ErrQueueClosed": "closed"},
	methods: []sgMethod{
		{"Add", ".add item", []string{"item"}},
		{"BlockingAdd", ".badd item", []string{"item"}},
		{"Remove", ".remove", nil},
		{"Wait", ".wait", nil},
		{"Len", ".len", nil},
		{"Close", ".close", nil},
	},
	extra: []string{"recv (Distributor.Receive = Remove, else Wait)", "next (the iterator's producer)"},
	preamble: "/-- `cap() > n`; `none` = math.MaxInt (the unlimited tracker) -/\n" +
		"def capGt (c : Option Nat) (n : Nat) : Bool :=\n  match c with\n  | none => true\n  | some c => decide (c > n)\n\n",
	doc: "    Segments of `pubsub.Queue` (pubsub/queue.go): `Add`, `BlockingAdd`, `Remove`, `Wait` (with `unsafeWaitWhileEmpty`\n" +
		"    executed in place), `Len`, `Close` over the state record `St` of FunModel/Queue.lean. Conditions: 0 = `nempty`,\n" +
		"    1 = `nupdates`. Trusted call mapping: `q.doAdd(item)` ↦ `doAdd`, `q.popFront()` ↦ `popFront` (their list/tracker\n" +
		"    effects are tied by the targets Tracker and QueuePtr), `q.tracker.len()` ↦ `s.tracker.len`, `q.tracker.cap()` ↦\n" +
		"    `s.tracker.cap` (`none` = math.MaxInt). Results: nil → \"ok\", ErrQueueClosed → \"closed\", ctx.Err() → \"ctx\",\n" +
		"    (zero, false) → \"none\", an item → its decimal; `T` is `Int`.",
}

func init() {
	for _, sp := range []*sgSpec{sgWaitGroup, sgQueue} {
		sp := sp
		register(sp.target, func(repo string) (text string, err error) {
			defer func() {
				if r := recover(); r != nil {
					f, ok := r.(fail)
					if !ok {
						panic(r)
					}
					err = fmt.Errorf("%s", f.msg)
				}
			}()
			return sgGenerate(repo, sp), nil
		})
	}
}
