package main

// Target Sll: the pointer/field code of dt/stack.go over the heap of FunModel/Sll.lean
//   makeItem, Item.Ok, Stack.lazyInit, Item.Set, Item.Append, Item.Remove, Stack.Pop, Stack.Push, Stack.Head
//                                                                                   -> lean/FunGen/Sll.lean
// translated statement by statement into the `Option` monad (`none` = panic: nil dereference or an
// explicit `panic(...)`). Every pointer (receiver, parameter, local, field) is an `Option Nat`
// (`none` = nil), so the nil tests of the source are translated and not assumed; `T` is `Int`.
// A function that writes the heap becomes `Heap → … → Option (Heap × result)` (`Option Heap` without a
// result), a read-only one `Heap → … → Option result`. Conditions are evaluated with Go's
// short-circuit order by the combinators of the preamble (`orP`, `andP`, `notP`, `eqP`, `neP`), a
// field read `p.f` by `ldI`/`ldS` (item/stack-header field; `none` when `p` is nil).
//
// Supported subset (anything else in a targeted function is a loud failure of this target only):
//   statements   p.f = e | p.f = g(args) (args may be calls/allocations too) | x := e | x = e (local, not inside a join-`if`) | var x T |
//                p.f++ | p.f-- | p.m(args) / g(args) (m, g translated earlier, heap-writing) | panic(...) |
//                return [e | &Item[T]{f: e, …}] |
//                if cond { …; return/panic }   (early exit: the rest of the function is the else-branch) |
//                if cond { … }                 (no return inside, no else: only the heap is joined) |
//                for x := e; cond; x = e' { … } (the body may return; translated to a recursive function over
//                                               `fuel`; out of fuel = the loop is left, as in arith.go)
//   expressions  nil, true, false, integer literals, variables, p.f (f one of next, stack, ok, value, head,
//                length), ! && || == !=, p.m() for a read-only m translated earlier
// `if … else`, `switch`, `range`, `defer`, `go`, closures, multiple assignment, calls of anything not
// translated earlier, and fields other than the six above are outside the subset.

import (
	"bytes"
	"fmt"
	"go/ast"
	"go/parser"
	"go/printer"
	"go/token"
	"path/filepath"
	"strings"
)

type skTarget struct{ recv, fn string }

// callees first
var skTargets = []skTarget{
	{"", "makeItem"},
	{"Item", "Ok"},
	{"Stack", "lazyInit"},
	{"Item", "Set"},
	{"Item", "Append"},
	{"Item", "Remove"},
	{"Stack", "Pop"},
	{"Stack", "Push"},
	{"Stack", "Head"},
}

const skFile = "dt/stack.go"

// field -> owner ("item" | "hdr"), kind of the value
var skFields = map[string][2]string{
	"next":   {"item", "iptr"},
	"stack":  {"item", "sptr"},
	"ok":     {"item", "bool"},
	"value":  {"item", "int"},
	"head":   {"hdr", "iptr"},
	"length": {"hdr", "int"},
}

var skLeanType = map[string]string{"iptr": "Option Nat", "sptr": "Option Nat", "int": "Int", "bool": "Bool", "": "Unit"}

type skSig struct {
	lean    string
	params  []string // kinds, receiver first
	res     string   // kind or ""
	effect  bool
	hasFuel bool
}

type skCtx struct {
	ret    func(v string) string                // text of `return v` (v = "" without a result)
	fall   func(ind string, b *strings.Builder) // control falls off the end of the statement list
	nested bool                                 // inside a join-`if`: locals of the enclosing scope cannot be assigned
}

type skTr struct {
	fset   *token.FileSet
	sigs   map[string]*skSig // "Recv.fn" or "fn"
	vars   map[string]string // name -> kind
	order  []string          // declaration order of vars
	n      int
	nloop  int
	aux    []string
	lean   string // Lean name of the function being translated
	res    string
	effect bool
	fuel   bool
}

func (t *skTr) src(n ast.Node) string {
	var b bytes.Buffer
	_ = printer.Fprint(&b, t.fset, n)
	return strings.Join(strings.Fields(b.String()), " ")
}

func (t *skTr) fresh(p string) string { t.n++; return fmt.Sprintf("%s%d", p, t.n) }

func (t *skTr) declare(name, kind string, at ast.Node) {
	if name == "h" || name == "fuel" || name == "_" {
		die(t.fset, at, "variable name %s is reserved by the translation", name)
	}
	if _, dup := t.vars[name]; dup {
		die(t.fset, at, "redefinition of %s", name)
	}
	t.vars[name] = kind
	t.order = append(t.order, name)
}

func skKindOfType(e ast.Expr) string {
	switch x := e.(type) {
	case *ast.StarExpr:
		inner := x.X
		if ix, ok := inner.(*ast.IndexExpr); ok {
			inner = ix.X
		}
		if id, ok := inner.(*ast.Ident); ok {
			switch id.Name {
			case "Item":
				return "iptr"
			case "Stack":
				return "sptr"
			}
		}
	case *ast.Ident:
		switch x.Name {
		case "T":
			return "int"
		case "bool":
			return "bool"
		}
	}
	return ""
}

func skCompatible(a, b string) bool {
	if a == b {
		return a != "nil"
	}
	isPtr := func(k string) bool { return k == "iptr" || k == "sptr" }
	return (a == "nil" && isPtr(b)) || (b == "nil" && isPtr(a))
}

// plain: the value of an expression that cannot panic (nil, literals, variables), or ""
func (t *skTr) plain(e ast.Expr) (string, string) {
	switch x := e.(type) {
	case *ast.ParenExpr:
		return t.plain(x.X)
	case *ast.Ident:
		switch x.Name {
		case "nil":
			return "none", "nil"
		case "true", "false":
			return x.Name, "bool"
		}
		k, ok := t.vars[x.Name]
		if !ok {
			die(t.fset, e, "%s is not a variable of the translated function", x.Name)
		}
		return leanIdent(x.Name), k
	case *ast.BasicLit:
		if x.Kind == token.INT {
			return "(" + x.Value + " : Int)", "int"
		}
		die(t.fset, e, "unsupported literal %s", x.Value)
	}
	return "", ""
}

// expr: (Lean term of type `Option τ`, kind); `none` = evaluating the expression panics
func (t *skTr) expr(e ast.Expr) (string, string) {
	if v, k := t.plain(e); v != "" {
		return "(some " + v + ")", k
	}
	switch x := e.(type) {
	case *ast.ParenExpr:
		return t.expr(x.X)
	case *ast.SelectorExpr:
		f, ok := skFields[x.Sel.Name]
		if !ok {
			die(t.fset, e, "field %s is outside the subset", x.Sel.Name)
		}
		base, bk := t.expr(x.X)
		if (f[0] == "item" && bk != "iptr") || (f[0] == "hdr" && bk != "sptr") {
			die(t.fset, e, "field %s read through %s", x.Sel.Name, t.src(x.X))
		}
		if f[0] == "item" {
			return fmt.Sprintf("(ldI h Item.%s %s)", x.Sel.Name, base), f[1]
		}
		return fmt.Sprintf("(ldS h SHdr.%s %s)", x.Sel.Name, base), f[1]
	case *ast.UnaryExpr:
		if x.Op == token.NOT {
			a, k := t.expr(x.X)
			if k != "bool" {
				die(t.fset, e, "! of a non-boolean")
			}
			return "(notP " + a + ")", "bool"
		}
		die(t.fset, e, "unsupported unary operator %s", x.Op)
	case *ast.BinaryExpr:
		a, ka := t.expr(x.X)
		b, kb := t.expr(x.Y)
		switch x.Op {
		case token.LOR, token.LAND:
			if ka != "bool" || kb != "bool" {
				die(t.fset, e, "%s of non-booleans", x.Op)
			}
			op := "orP"
			if x.Op == token.LAND {
				op = "andP"
			}
			return fmt.Sprintf("(%s %s %s)", op, a, b), "bool"
		case token.EQL, token.NEQ:
			if !skCompatible(ka, kb) {
				die(t.fset, e, "comparison %s of incompatible operands", t.src(e))
			}
			op := "eqP"
			if x.Op == token.NEQ {
				op = "neP"
			}
			return fmt.Sprintf("(%s %s %s)", op, a, b), "bool"
		}
		die(t.fset, e, "unsupported operator %s", x.Op)
	case *ast.CallExpr:
		sel, ok := x.Fun.(*ast.SelectorExpr)
		if ok && len(x.Args) == 0 {
			recv, rk := t.expr(sel.X)
			key := map[string]string{"iptr": "Item.", "sptr": "Stack."}[rk] + sel.Sel.Name
			if sg, ok := t.sigs[key]; ok && !sg.effect && !sg.hasFuel {
				return fmt.Sprintf("(Option.bind %s (%s h))", recv, sg.lean), sg.res
			}
		}
		die(t.fset, e, "call %s is outside the subset (not a read-only method translated earlier)", t.src(e))
	}
	die(t.fset, e, "unsupported expression %s", t.src(e))
	return "", ""
}

// val: the value of an expression as a Lean term of type τ, binding it first when it may panic
func (t *skTr) val(e ast.Expr, ind string, b *strings.Builder) (string, string) {
	if v, k := t.plain(e); v != "" {
		return v, k
	}
	term, k := t.expr(e)
	v := t.fresh("v")
	fmt.Fprintf(b, "%slet %s ← %s\n", ind, v, term)
	return v, k
}

// addr: the non-nil address a pointer expression denotes (a bind: nil = panic)
func (t *skTr) addr(e ast.Expr, want string, ind string, b *strings.Builder) string {
	p, k := t.val(e, ind, b)
	if k != want {
		die(t.fset, e, "%s is not a pointer of the expected type", t.src(e))
	}
	a := t.fresh("a")
	fmt.Fprintf(b, "%slet %s ← %s\n", ind, a, p)
	return a
}

func skTerminates(list []ast.Stmt) bool {
	if len(list) == 0 {
		return false
	}
	switch x := list[len(list)-1].(type) {
	case *ast.ReturnStmt:
		return true
	case *ast.ExprStmt:
		if c, ok := x.X.(*ast.CallExpr); ok {
			if id, ok := c.Fun.(*ast.Ident); ok && id.Name == "panic" {
				return true
			}
		}
	}
	return false
}

// alloc: &Item[T]{f: e, …}
func (t *skTr) alloc(e ast.Expr, ind string, b *strings.Builder) (string, bool) {
	u, ok := e.(*ast.UnaryExpr)
	if !ok || u.Op != token.AND {
		return "", false
	}
	cl, ok := u.X.(*ast.CompositeLit)
	if !ok {
		die(t.fset, e, "unsupported address-of")
	}
	ty := cl.Type
	if ix, ok := ty.(*ast.IndexExpr); ok {
		ty = ix.X
	}
	if id, ok := ty.(*ast.Ident); !ok || id.Name != "Item" {
		die(t.fset, e, "allocation of %s is outside the subset (only Item)", t.src(cl.Type))
	}
	fields := []string{}
	for _, el := range cl.Elts {
		kv, ok := el.(*ast.KeyValueExpr)
		if !ok {
			die(t.fset, el, "unkeyed composite literal")
		}
		name := kv.Key.(*ast.Ident).Name
		f, ok := skFields[name]
		if !ok || f[0] != "item" {
			die(t.fset, el, "field %s in an Item literal is outside the subset", name)
		}
		v, k := t.val(kv.Value, ind, b)
		if !skCompatible(k, f[1]) && k != f[1] {
			die(t.fset, el, "field %s initialised with a value of another type", name)
		}
		fields = append(fields, fmt.Sprintf("%s := %s", name, v))
	}
	a := t.fresh("a")
	fmt.Fprintf(b, "%slet (h, %s) := h.alloc { %s }\n", ind, a, strings.Join(fields, ", "))
	t.effect = true
	return "(some " + a + ")", true
}

// call: a heap-writing call (statement, or right-hand side of an assignment); returns the result variable
func (t *skTr) call(c *ast.CallExpr, ind string, b *strings.Builder) (string, string, bool) {
	var sg *skSig
	args := []string{}
	switch f := c.Fun.(type) {
	case *ast.Ident:
		sg = t.sigs[f.Name]
		if sg == nil || len(sg.params) != len(c.Args) {
			return "", "", false
		}
	case *ast.SelectorExpr:
		_, rk := t.expr(f.X)
		sg = t.sigs[map[string]string{"iptr": "Item.", "sptr": "Stack."}[rk]+f.Sel.Name]
		if sg == nil || len(sg.params) != len(c.Args)+1 {
			return "", "", false
		}
		r, _ := t.val(f.X, ind, b)
		args = append(args, r)
	default:
		return "", "", false
	}
	if !sg.effect || sg.hasFuel {
		return "", "", false
	}
	for i, a := range c.Args {
		v, k := t.rhs(a, ind, b) // an argument may itself allocate (`makeItem(it)`)
		want := sg.params[len(sg.params)-len(c.Args)+i]
		if k != want && !skCompatible(k, want) {
			die(t.fset, a, "argument of another type")
		}
		args = append(args, v)
	}
	t.effect = true
	if sg.res == "" {
		fmt.Fprintf(b, "%slet h ← %s h %s\n", ind, sg.lean, strings.Join(args, " "))
		return "", "", true
	}
	v := t.fresh("v")
	fmt.Fprintf(b, "%slet (h, %s) ← %s h %s\n", ind, v, sg.lean, strings.Join(args, " "))
	return v, sg.res, true
}

// rhs: value of the right-hand side of an assignment/definition (expression, allocation or heap-writing call)
func (t *skTr) rhs(e ast.Expr, ind string, b *strings.Builder) (string, string) {
	if v, ok := t.alloc(e, ind, b); ok {
		return v, "iptr"
	}
	if c, ok := e.(*ast.CallExpr); ok {
		if v, k, ok := t.call(c, ind, b); ok {
			if k == "" {
				die(t.fset, e, "call without a result used as a value")
			}
			return v, k
		}
	}
	return t.val(e, ind, b)
}

// addrOf: the address of the object whose field `sel` names (Go evaluates it before the right-hand side)
func (t *skTr) addrOf(sel *ast.SelectorExpr, ind string, b *strings.Builder) string {
	if skFields[sel.Sel.Name][0] == "item" {
		return t.addr(sel.X, "iptr", ind, b)
	}
	return t.addr(sel.X, "sptr", ind, b)
}

// store: the field write itself
func (t *skTr) store(sel *ast.SelectorExpr, a string, mk func(cur string) string, ind string, b *strings.Builder) {
	t.effect = true
	get, set := "hdr", "setHdr"
	if skFields[sel.Sel.Name][0] == "item" {
		get, set = "item", "setItem"
	}
	fmt.Fprintf(b, "%slet h := h.%s %s { h.%s %s with %s := %s }\n", ind, set, a, get, a, sel.Sel.Name,
		mk(fmt.Sprintf("(h.%s %s).%s", get, a, sel.Sel.Name)))
}

func (t *skTr) stmts(list []ast.Stmt, ind string, c skCtx, b *strings.Builder) {
	for i, st := range list {
		rest := list[i+1:]
		switch x := st.(type) {
		case *ast.ReturnStmt:
			if len(rest) != 0 {
				die(t.fset, st, "statements after return")
			}
			if c.nested {
				die(t.fset, st, "return in an unsupported position")
			}
			switch {
			case len(x.Results) == 0 && t.res == "":
				fmt.Fprintf(b, "%s%s\n", ind, c.ret(""))
			case len(x.Results) == 1 && t.res != "":
				v, k := t.rhs(x.Results[0], ind, b)
				if k != t.res && !skCompatible(k, t.res) {
					die(t.fset, st, "result of another type")
				}
				fmt.Fprintf(b, "%s%s\n", ind, c.ret(v))
			default:
				die(t.fset, st, "unsupported result list")
			}
			return
		case *ast.DeclStmt:
			gd, ok := x.Decl.(*ast.GenDecl)
			if !ok || gd.Tok != token.VAR || len(gd.Specs) != 1 {
				die(t.fset, st, "unsupported declaration")
			}
			vs := gd.Specs[0].(*ast.ValueSpec)
			if len(vs.Names) != 1 || len(vs.Values) != 0 || vs.Type == nil {
				die(t.fset, st, "unsupported declaration")
			}
			k := skKindOfType(vs.Type)
			zero := map[string]string{"int": "0", "bool": "false", "iptr": "none", "sptr": "none"}[k]
			if zero == "" {
				die(t.fset, st, "unsupported type %s", t.src(vs.Type))
			}
			t.declare(vs.Names[0].Name, k, st)
			fmt.Fprintf(b, "%slet %s : %s := %s\n", ind, leanIdent(vs.Names[0].Name), skLeanType[k], zero)
		case *ast.AssignStmt:
			if len(x.Lhs) != 1 || len(x.Rhs) != 1 {
				die(t.fset, st, "only single assignments are supported")
			}
			switch x.Tok {
			case token.DEFINE:
				id, ok := x.Lhs[0].(*ast.Ident)
				if !ok {
					die(t.fset, st, "unsupported definition")
				}
				v, k := t.rhs(x.Rhs[0], ind, b)
				if k == "nil" {
					die(t.fset, st, "definition from untyped nil")
				}
				t.declare(id.Name, k, st)
				fmt.Fprintf(b, "%slet %s : %s := %s\n", ind, leanIdent(id.Name), skLeanType[k], v)
			case token.ASSIGN:
				switch l := x.Lhs[0].(type) {
				case *ast.Ident:
					k, ok := t.vars[l.Name]
					if !ok {
						die(t.fset, st, "assignment to %s is outside the subset", l.Name)
					}
					if c.nested {
						die(t.fset, st, "assignment to the local %s inside a conditional block is outside the subset", l.Name)
					}
					v, kv := t.rhs(x.Rhs[0], ind, b)
					if kv != k && !skCompatible(kv, k) {
						die(t.fset, st, "assignment of another type")
					}
					fmt.Fprintf(b, "%slet %s : %s := %s\n", ind, leanIdent(l.Name), skLeanType[k], v)
				case *ast.SelectorExpr:
					f, ok := skFields[l.Sel.Name]
					if !ok {
						die(t.fset, st, "assignment to field %s is outside the subset", l.Sel.Name)
					}
					// Go evaluates the pointer operand on the left, then the right-hand side, then stores
					a := t.addrOf(l, ind, b)
					v, kv := t.rhs(x.Rhs[0], ind, b)
					if kv != f[1] && !skCompatible(kv, f[1]) {
						die(t.fset, st, "assignment of another type to field %s", l.Sel.Name)
					}
					t.store(l, a, func(string) string { return v }, ind, b)
				default:
					die(t.fset, st, "assignment to %s is outside the subset", t.src(x.Lhs[0]))
				}
			default:
				die(t.fset, st, "unsupported assignment operator %s", x.Tok)
			}
		case *ast.IncDecStmt:
			sel, ok := x.X.(*ast.SelectorExpr)
			if !ok || skFields[sel.Sel.Name][1] != "int" {
				die(t.fset, st, "unsupported ++/--")
			}
			op := "+"
			if x.Tok == token.DEC {
				op = "-"
			}
			a := t.addrOf(sel, ind, b)
			t.store(sel, a, func(cur string) string { return cur + " " + op + " 1" }, ind, b)
		case *ast.ExprStmt:
			cl, ok := x.X.(*ast.CallExpr)
			if !ok {
				die(t.fset, st, "unsupported expression statement")
			}
			if id, ok := cl.Fun.(*ast.Ident); ok && id.Name == "panic" {
				if len(rest) != 0 {
					die(t.fset, st, "statements after panic")
				}
				fmt.Fprintf(b, "%snone\n", ind)
				return
			}
			if _, _, ok := t.call(cl, ind, b); !ok {
				die(t.fset, st, "call %s is outside the subset (not a heap-writing function translated earlier)", t.src(cl))
			}
		case *ast.IfStmt:
			if x.Init != nil || x.Else != nil {
				die(t.fset, st, "if with initialiser or else is outside the subset")
			}
			cond, k := t.expr(x.Cond)
			if k != "bool" {
				die(t.fset, st, "non-boolean condition")
			}
			cv := t.fresh("c")
			fmt.Fprintf(b, "%slet %s ← %s\n", ind, cv, cond)
			saved, savedOrder := t.vars, t.order
			scope := func() {
				t.vars = map[string]string{}
				for k, v := range saved {
					t.vars[k] = v
				}
				t.order = append([]string{}, savedOrder...)
			}
			if skTerminates(x.Body.List) {
				if c.nested {
					die(t.fset, st, "early exit inside a conditional block is outside the subset")
				}
				fmt.Fprintf(b, "%sif %s then\n", ind, cv)
				scope()
				t.stmts(x.Body.List, ind+"  ", c, b)
				t.vars, t.order = saved, savedOrder
				fmt.Fprintf(b, "%selse\n", ind)
				t.stmts(rest, ind+"  ", c, b)
				return
			}
			if hasReturn(x.Body.List) {
				die(t.fset, st, "return inside a conditional block that does not end in return is outside the subset")
			}
			fmt.Fprintf(b, "%slet h ← (if %s then (do\n", ind, cv)
			scope()
			t.stmts(x.Body.List, ind+"    ", skCtx{nested: true, fall: func(ind string, b *strings.Builder) { fmt.Fprintf(b, "%spure h", ind) }}, b)
			t.vars, t.order = saved, savedOrder
			fmt.Fprintf(b, ") else pure h)\n")
		case *ast.ForStmt:
			t.loop(x, rest, ind, c, b)
			return
		default:
			die(t.fset, st, "statement %s is outside the subset", t.src(st))
		}
	}
	c.fall(ind, b)
}

// loop: `for x := e; cond; x = e' { body }` followed by rest
func (t *skTr) loop(x *ast.ForStmt, rest []ast.Stmt, ind string, c skCtx, b *strings.Builder) {
	if c.nested {
		die(t.fset, x, "loop inside a conditional block is outside the subset")
	}
	init, ok := x.Init.(*ast.AssignStmt)
	if !ok || init.Tok != token.DEFINE || len(init.Lhs) != 1 || x.Cond == nil {
		die(t.fset, x, "unsupported for-statement (need `for x := e; cond; x = e' {…}`)")
	}
	post, ok := x.Post.(*ast.AssignStmt)
	if !ok || post.Tok != token.ASSIGN || len(post.Lhs) != 1 {
		die(t.fset, x, "unsupported for-statement (need `for x := e; cond; x = e' {…}`)")
	}
	lv, ok := init.Lhs[0].(*ast.Ident)
	if pl, ok2 := post.Lhs[0].(*ast.Ident); !ok || !ok2 || pl.Name != lv.Name {
		die(t.fset, x, "the post statement must assign the loop variable")
	}
	none := skCtx{fall: func(string, *strings.Builder) {}}
	saved, savedOrder := t.vars, t.order
	copyScope := func() {
		vs := map[string]string{}
		for k, v := range t.vars {
			vs[k] = v
		}
		t.vars, t.order = vs, append([]string{}, t.order...)
	}
	copyScope()
	t.stmts([]ast.Stmt{init}, ind, none, b) // x := e
	t.nloop++
	t.fuel, t.effect = true, true
	name := fmt.Sprintf("%s_loop%d", t.lean, t.nloop)
	params, args := []string{}, []string{}
	for _, v := range t.order {
		params = append(params, fmt.Sprintf("(%s : %s)", leanIdent(v), skLeanType[t.vars[v]]))
		args = append(args, leanIdent(v))
	}
	var a strings.Builder
	fmt.Fprintf(&a, "/-- the loop `for %s; %s; %s` of `%s`: `some r` = the body returned `r`, `none` = the loop was left -/\n",
		t.src(x.Init), t.src(x.Cond), t.src(x.Post), t.lean)
	fmt.Fprintf(&a, "def %s (fuel : Nat) (h : Heap) %s : Option (Heap × Option %s) :=\n  match fuel with\n  | 0 => pure (h, none)\n  | fuel + 1 => do\n",
		name, strings.Join(params, " "), skLeanType[t.res])
	cond, k := t.expr(x.Cond)
	if k != "bool" {
		die(t.fset, x, "non-boolean loop condition")
	}
	cv := t.fresh("c")
	fmt.Fprintf(&a, "    let %s ← %s\n    if %s then\n", cv, cond, cv)
	inner := skCtx{
		ret: func(v string) string {
			if v == "" {
				v = "()"
			}
			return "pure (h, some " + v + ")"
		},
		fall: func(ind string, b *strings.Builder) {
			t.stmts([]ast.Stmt{post}, ind, none, b) // x = e'
			fmt.Fprintf(b, "%s%s fuel h %s\n", ind, name, strings.Join(args, " "))
		},
	}
	loopVars, loopOrder := t.vars, t.order
	copyScope()
	t.stmts(x.Body.List, "      ", inner, &a)
	t.vars, t.order = loopVars, loopOrder
	fmt.Fprintf(&a, "    else\n      pure (h, none)\n")
	t.aux = append(t.aux, a.String())
	r := t.fresh("r")
	fmt.Fprintf(b, "%slet (h, %s) ← %s fuel h %s\n", ind, r, name, strings.Join(args, " "))
	rv := ""
	if t.res != "" {
		rv = "r"
	}
	fmt.Fprintf(b, "%smatch %s with\n%s| some r => %s\n%s| none =>\n", ind, r, ind, c.ret(rv), ind)
	t.vars, t.order = saved, savedOrder
	t.stmts(rest, ind+"  ", c, b)
}

func skEffectful(fd *ast.FuncDecl, sigs map[string]*skSig) bool {
	eff := false
	ast.Inspect(fd.Body, func(n ast.Node) bool {
		switch x := n.(type) {
		case *ast.AssignStmt:
			for _, l := range x.Lhs {
				if _, ok := l.(*ast.SelectorExpr); ok {
					eff = true
				}
			}
		case *ast.IncDecStmt, *ast.CompositeLit, *ast.ForStmt:
			eff = true
		case *ast.CallExpr:
			name := ""
			switch f := x.Fun.(type) {
			case *ast.Ident:
				name = f.Name
			case *ast.SelectorExpr:
				name = f.Sel.Name
			}
			for k, sg := range sigs {
				if (k == name || strings.HasSuffix(k, "."+name)) && sg.effect {
					eff = true
				}
			}
		}
		return !eff
	})
	return eff
}

const skPreamble = `/-- field read ` + "`p.f`" + ` through an item pointer (` + "`none`" + ` = nil dereference, or a panic while computing ` + "`p`" + `) -/
def ldI {α : Type} (h : Heap) (f : Item → α) (p : Option (Option Nat)) : Option α := do
  let q ← p
  let a ← q
  pure (f (h.item a))

/-- field read ` + "`p.f`" + ` through a stack pointer -/
def ldS {α : Type} (h : Heap) (f : SHdr → α) (p : Option (Option Nat)) : Option α := do
  let q ← p
  let a ← q
  pure (f (h.hdr a))

/-- ` + "`a || b`" + `: ` + "`b`" + ` is evaluated (and may panic) only when ` + "`a`" + ` is false -/
def orP (a b : Option Bool) : Option Bool := do
  let x ← a
  if x then pure true else b

/-- ` + "`a && b`" + `: ` + "`b`" + ` is evaluated only when ` + "`a`" + ` is true -/
def andP (a b : Option Bool) : Option Bool := do
  let x ← a
  if x then b else pure false

def notP (a : Option Bool) : Option Bool := do
  let x ← a
  pure (!x)

def eqP {α : Type} [DecidableEq α] (a b : Option α) : Option Bool := do
  let x ← a
  let y ← b
  pure (decide (x = y))

def neP {α : Type} [DecidableEq α] (a b : Option α) : Option Bool := do
  let x ← a
  let y ← b
  pure (decide (x ≠ y))

`

func genStack(repo string) string {
	fset := token.NewFileSet()
	f, err := parser.ParseFile(fset, filepath.Join(repo, skFile), nil, 0)
	if err != nil {
		panic(fail{err.Error()})
	}
	var out strings.Builder
	out.WriteString("import FunModel.Sll\n\n/-! GENERATED by tools/go2lean (stack.go) from the working tree of tychoish/fun on every run of ./check — do not edit.\n")
	out.WriteString("    Pointer/field code of dt/stack.go over the heap of FunModel/Sll.lean. Every pointer is an `Option Nat` (`none` = nil),\n")
	out.WriteString("    `T` is `Int`; a field write `p.f = e` is a functional heap update; the result is in `Option`: `none` = panic (nil\n")
	out.WriteString("    dereference or explicit `panic`). Conditions keep Go's short-circuit evaluation (`orP`, `andP`); a `for` loop is a\n")
	out.WriteString("    recursive function over `fuel` (out of fuel = the loop is left). -/\n\n")
	out.WriteString("set_option linter.unusedVariables false\n\nnamespace FunGen.Sll\nopen FunModel.Sll\n\n")
	out.WriteString(skPreamble)
	sigs := map[string]*skSig{}
	for _, tg := range skTargets {
		var fd *ast.FuncDecl
		for _, d := range f.Decls {
			x, ok := d.(*ast.FuncDecl)
			if !ok || x.Name.Name != tg.fn {
				continue
			}
			r := ""
			if x.Recv != nil && len(x.Recv.List) == 1 {
				rt := x.Recv.List[0].Type
				if st, ok := rt.(*ast.StarExpr); ok {
					rt = st.X
				}
				if ix, ok := rt.(*ast.IndexExpr); ok {
					rt = ix.X
				}
				if id, ok := rt.(*ast.Ident); ok {
					r = id.Name
				}
			}
			if r == tg.recv {
				fd = x
			}
		}
		key, lean := tg.fn, tg.fn
		if tg.recv != "" {
			key, lean = tg.recv+"."+tg.fn, tg.recv+"_"+tg.fn
		}
		if fd == nil || fd.Body == nil {
			panic(fail{fmt.Sprintf("%s: function %s not found", skFile, key)})
		}
		t := &skTr{fset: fset, sigs: sigs, vars: map[string]string{}, lean: lean}
		sg := &skSig{lean: lean}
		params := []string{}
		addParam := func(n *ast.Ident, ty ast.Expr) {
			k := skKindOfType(ty)
			if k == "" {
				die(fset, ty, "unsupported parameter type %s", t.src(ty))
			}
			t.declare(n.Name, k, n)
			sg.params = append(sg.params, k)
			params = append(params, fmt.Sprintf("(%s : %s)", leanIdent(n.Name), skLeanType[k]))
		}
		if fd.Recv != nil {
			if len(fd.Recv.List[0].Names) != 1 {
				die(fset, fd, "unnamed receiver")
			}
			addParam(fd.Recv.List[0].Names[0], fd.Recv.List[0].Type)
		}
		for _, p := range fd.Type.Params.List {
			if len(p.Names) == 0 {
				die(fset, p, "unnamed parameter")
			}
			for _, n := range p.Names {
				addParam(n, p.Type)
			}
		}
		if fd.Type.Results != nil {
			if len(fd.Type.Results.List) != 1 || len(fd.Type.Results.List[0].Names) != 0 {
				die(fset, fd, "unsupported result list")
			}
			sg.res = skKindOfType(fd.Type.Results.List[0].Type)
			if sg.res == "" {
				die(fset, fd, "unsupported result type %s", t.src(fd.Type.Results.List[0].Type))
			}
		}
		t.res = sg.res
		sg.effect = skEffectful(fd, sigs)
		ctx := skCtx{
			ret: func(v string) string {
				switch {
				case sg.effect && v == "":
					return "pure h"
				case sg.effect:
					return "pure (h, " + v + ")"
				case v == "":
					return "pure ()"
				}
				return "pure " + v
			},
		}
		ctx.fall = func(ind string, b *strings.Builder) {
			if sg.res != "" {
				die(fset, fd, "control reaches the end of a function with a result")
			}
			fmt.Fprintf(b, "%s%s\n", ind, ctx.ret(""))
		}
		var body strings.Builder
		t.stmts(fd.Body.List, "  ", ctx, &body)
		if t.effect && !sg.effect {
			die(fset, fd, "internal: effect analysis of %s is inconsistent", key)
		}
		sg.hasFuel = t.fuel
		resT := skLeanType[sg.res]
		switch {
		case sg.effect && sg.res == "":
			resT = "Option Heap"
		case sg.effect:
			resT = "Option (Heap × " + resT + ")"
		default:
			resT = "Option " + map[bool]string{true: "(" + resT + ")", false: resT}[strings.Contains(resT, " ")]
		}
		for _, a := range t.aux {
			out.WriteString(a + "\n")
		}
		fuel := ""
		if t.fuel {
			fuel = "(fuel : Nat) "
		}
		fmt.Fprintf(&out, "/-- generated from %s `%s` -/\ndef %s %s(h : Heap) %s : %s := do\n%s\n", skFile, key, lean, fuel,
			strings.Join(params, " "), resT, body.String())
		sigs[key] = sg
	}
	out.WriteString("end FunGen.Sll\n")
	return out.String()
}

func init() {
	register("Sll", func(repo string) (text string, err error) {
		defer func() {
			if r := recover(); r != nil {
				f, ok := r.(fail)
				if !ok {
					panic(r)
				}
				err = fmt.Errorf("%s", f.msg)
			}
		}()
		return genStack(repo), nil
	})
}
