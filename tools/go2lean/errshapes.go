package main

// Target ErrShapes (C12): the error-aggregation code of `ers` and `internal` as Lean definitions over the
// vocabulary of lean/FunModel/ErrShapes.lean.
//
// What is read, and what it becomes (everything else aborts the target, see `die`):
//
//   ers (*Stack).Push           the type switch  -> `pushSwitch : Switch PushArm` (clauses in source order,
//                               each with its type patterns and what its body does) ; the body of the
//                               `default` clause (field updates of the receiver) -> `stackLink`, statement by
//                               statement over the cell chain
//   ers (*Stack).Add            `for _, x := range errs { e.Push(x) }` -> `addBody`
//   ers Join                    `st := Stack{}; st.Add(errs...); return st.Resolve()` -> `joinBody`
//   ers (*Stack).Resolve/Len/Ok/Unwrap/Is/As
//                               if / tagless switch / return over `e`, `e.count`, `e.err`, `e.next`, `e.next.err`,
//                               nil tests, integer comparisons, `||`, `&&`, `!`, `errors.Is/As(e.err, param)`
//                               -> `stackResolve`, `stackLen`, `stackOk`, `stackUnwrap`, `stackIs`, `stackAs`
//                               (results in `Option`: `none` = nil dereference; Go's short-circuit is kept)
//   ers method set of *Stack    -> `stackMethods`
//   internal Unwind             `var (…); for { switch wi := any(in).(type) {…} }` -> `unwindSwitch`
//   ers ParsePanic              `if r != nil { switch … }; return nil` (or a `case nil` clause) -> `parsePanicSwitch`
//   ers Ok                      the type switch -> `okSwitch`
//   ers Wrap                    if / return over `Ok(err)`, `err == nil`, `Join(err, errors.New(fmt.Sprint(annotation...)))`
//                               -> `wrap`
//   internal sparse/buffer/grow, (*Stack).Unwind, ers.Unwind, (*Stack).Future/Handler
//                               recognised as a whole by their normalised syntax tree (locals renamed in order of
//                               appearance, comments and layout ignored) -> `helpers`
//
// Type patterns of a `case`: nil, *Stack, interface{ Unwind() []error }, interface{ Unwrap() error },
// interface{ Unwrap() []error }, interface{ Ok() bool }, error, string, []error (in package internal the type
// parameter T stands for error). A clause body may only use a method of the bound variable that one of the
// clause's types provides.

import (
	"fmt"
	"go/ast"
	"go/parser"
	"go/token"
	"os"
	"path/filepath"
	"reflect"
	"sort"
	"strings"
)

func init() {
	register("ErrShapes", func(repo string) (text string, err error) {
		defer func() {
			if r := recover(); r != nil {
				if f, ok := r.(fail); ok {
					err = fmt.Errorf("%s", f.msg)
				} else {
					err = fmt.Errorf("unexpected syntax: %v", r)
				}
			}
		}()
		return genErrShapes(repo), nil
	})
}

type esTr struct {
	fset  *token.FileSet
	repo  string
	files map[string][]*ast.File
}

func (t *esTr) die(n ast.Node, f string, a ...any) {
	pos := ""
	if n != nil {
		pos = t.pos(n) + ": "
	}
	panic(fail{pos + "unsupported construct: " + fmt.Sprintf(f, a...)})
}

// position relative to the repository root (the generated file must not depend on where the tree is)
func (t *esTr) pos(n ast.Node) string {
	p := t.fset.Position(n.Pos())
	rel, err := filepath.Rel(t.repo, p.Filename)
	if err != nil {
		rel = p.Filename
	}
	return fmt.Sprintf("%s:%d", filepath.ToSlash(rel), p.Line)
}

func (t *esTr) pkg(dir string) []*ast.File {
	if fs, ok := t.files[dir]; ok {
		return fs
	}
	names, err := filepath.Glob(filepath.Join(t.repo, dir, "*.go"))
	if err != nil || len(names) == 0 {
		panic(fail{fmt.Sprintf("no Go files in %s", filepath.Join(t.repo, dir))})
	}
	sort.Strings(names)
	var out []*ast.File
	for _, n := range names {
		if strings.HasSuffix(n, "_test.go") {
			continue
		}
		f, err := parser.ParseFile(t.fset, n, nil, 0)
		if err != nil {
			panic(fail{err.Error()})
		}
		// build-tag guarded hook files never hold the functions read here; a duplicate declaration is an error below
		out = append(out, f)
	}
	t.files[dir] = out
	return out
}

func esRecvName(fd *ast.FuncDecl) string {
	if fd.Recv == nil || len(fd.Recv.List) != 1 {
		return ""
	}
	return recvTypeName(fd.Recv.List[0].Type)
}

// fn finds the one declaration of recv.name ("" = plain function) in the package directory
func (t *esTr) fn(dir, recv, name string) *ast.FuncDecl {
	var found *ast.FuncDecl
	for _, f := range t.pkg(dir) {
		for _, d := range f.Decls {
			fd, ok := d.(*ast.FuncDecl)
			if !ok || fd.Name.Name != name || esRecvName(fd) != recv {
				continue
			}
			if found != nil {
				t.die(fd, "second declaration of %s.%s", recv, name)
			}
			found = fd
		}
	}
	if found == nil || found.Body == nil {
		panic(fail{fmt.Sprintf("%s: function %s.%s not found", dir, recv, name)})
	}
	return found
}

func esIdent(e ast.Expr) string {
	if id, ok := e.(*ast.Ident); ok {
		return id.Name
	}
	return ""
}

func esStrip(list []ast.Stmt) []ast.Stmt {
	var out []ast.Stmt
	for _, s := range list {
		if _, ok := s.(*ast.EmptyStmt); ok {
			continue
		}
		out = append(out, s)
	}
	return out
}

// ---- type patterns ------------------------------------------------------------------------------------------

var esPatMethod = map[string]string{".unwindMany": "Unwind", ".unwrapOne": "Unwrap", ".unwrapMany": "Unwrap", ".okBool": "Ok"}

// methods a *Stack offers to a clause body, by name -> the pattern that describes it
var esStackOffers = map[string]string{"Unwind": ".unwindMany", "Unwrap": ".unwrapOne", "Ok": ".okBool"}

var esPatOrder = []string{".nil", ".stackPtr", ".unwindMany", ".unwrapOne", ".unwrapMany", ".okBool", ".error", ".string", ".errorSlice"}

// resKind: "one" (error / T), "many" ([]error / []T), "bool", "string", ""
func (t *esTr) resKind(e ast.Expr, tparam string) string {
	switch x := e.(type) {
	case *ast.Ident:
		switch {
		case x.Name == "error" || (tparam != "" && x.Name == tparam):
			return "one"
		case x.Name == "bool":
			return "bool"
		case x.Name == "string":
			return "string"
		}
	case *ast.ArrayType:
		if x.Len == nil && t.resKind(x.Elt, tparam) == "one" {
			return "many"
		}
	}
	return ""
}

func (t *esTr) methodPat(name string, ft *ast.FuncType, tparam string) string {
	if ft.Params != nil && len(ft.Params.List) != 0 {
		return ""
	}
	if ft.Results == nil || len(ft.Results.List) != 1 || len(ft.Results.List[0].Names) > 1 {
		return ""
	}
	k := t.resKind(ft.Results.List[0].Type, tparam)
	switch name + "/" + k {
	case "Unwind/many":
		return ".unwindMany"
	case "Unwrap/one":
		return ".unwrapOne"
	case "Unwrap/many":
		return ".unwrapMany"
	case "Ok/bool":
		return ".okBool"
	case "Error/string":
		return ".error"
	}
	return ""
}

func (t *esTr) pat(e ast.Expr, pkg, tparam string) string {
	switch x := e.(type) {
	case *ast.Ident:
		switch x.Name {
		case "nil":
			return ".nil"
		case "error":
			return ".error"
		case "string":
			return ".string"
		}
	case *ast.StarExpr:
		if esIdent(x.X) == "Stack" && pkg == "ers" {
			return ".stackPtr"
		}
	case *ast.ArrayType:
		if x.Len == nil && esIdent(x.Elt) == "error" {
			return ".errorSlice"
		}
	case *ast.InterfaceType:
		if x.Methods != nil && len(x.Methods.List) == 1 && len(x.Methods.List[0].Names) == 1 {
			if ft, ok := x.Methods.List[0].Type.(*ast.FuncType); ok {
				if p := t.methodPat(x.Methods.List[0].Names[0].Name, ft, tparam); p != "" && p != ".error" {
					return p
				}
			}
		}
	}
	t.die(e, "type in a case clause (want nil, *Stack, error, string, []error or a one-method interface Unwind() []error / Unwrap() error / Unwrap() []error / Ok() bool)")
	return ""
}

type esClause struct {
	pats []string
	body []ast.Stmt
	node *ast.CaseClause
}

type esSwitch struct {
	subject ast.Expr
	bound   string
	clauses []esClause // without default
	dflt    *esClause
	node    *ast.TypeSwitchStmt
}

func (t *esTr) typeSwitch(s *ast.TypeSwitchStmt, pkg, tparam string) *esSwitch {
	if s.Init != nil {
		t.die(s, "type switch with an init statement")
	}
	sw := &esSwitch{node: s}
	var ta *ast.TypeAssertExpr
	switch a := s.Assign.(type) {
	case *ast.AssignStmt:
		if len(a.Lhs) != 1 || len(a.Rhs) != 1 || a.Tok != token.DEFINE {
			t.die(s, "type switch header")
		}
		sw.bound = esIdent(a.Lhs[0])
		ta, _ = a.Rhs[0].(*ast.TypeAssertExpr)
	case *ast.ExprStmt:
		ta, _ = a.X.(*ast.TypeAssertExpr)
	}
	if ta == nil || ta.Type != nil {
		t.die(s, "type switch header")
	}
	sw.subject = ta.X
	for _, c := range s.Body.List {
		cc := c.(*ast.CaseClause)
		cl := esClause{node: cc, body: esStrip(cc.Body)}
		for _, b := range cl.body {
			if br, ok := b.(*ast.BranchStmt); ok && br.Tok == token.FALLTHROUGH {
				t.die(br, "fallthrough")
			}
		}
		if cc.List == nil {
			if sw.dflt != nil {
				t.die(cc, "second default clause")
			}
			d := cl
			sw.dflt = &d
			continue
		}
		for _, ty := range cc.List {
			cl.pats = append(cl.pats, t.pat(ty, pkg, tparam))
		}
		sw.clauses = append(sw.clauses, cl)
	}
	if sw.dflt == nil {
		t.die(s, "type switch without a default clause")
	}
	return sw
}

// offered: the pattern describing method `m` of the variable bound in clause `cl` ("" = not provided)
func (t *esTr) offered(cl *esClause, m string) string {
	if len(cl.pats) != 1 {
		return "" // several types (or default): the bound variable keeps the subject's static type
	}
	p := cl.pats[0]
	if p == ".stackPtr" {
		return esStackOffers[m]
	}
	if esPatMethod[p] == m {
		return p
	}
	return ""
}

// emit a Switch literal; arm(cl) translates a clause body
func (t *esTr) emitSwitch(name, armType, doc string, sw *esSwitch, arm func(cl *esClause) string, pre []string) string {
	var b strings.Builder
	fmt.Fprintf(&b, "/-- %s -/\ndef %s : Switch %s :=\n  { cases := [", doc, name, armType)
	rows := append([]string{}, pre...)
	for i := range sw.clauses {
		cl := &sw.clauses[i]
		rows = append(rows, fmt.Sprintf("([%s], %s)", strings.Join(cl.pats, ", "), arm(cl)))
	}
	for i, r := range rows {
		if i > 0 {
			b.WriteString(",")
		}
		b.WriteString("\n      " + r)
	}
	fmt.Fprintf(&b, "],\n    dflt := %s }\n\n", arm(sw.dflt))
	return b.String()
}

// ---- expressions over the receiver's cell chain ------------------------------------------------------------

// a translated function over `e : Ptr`
type esFn struct {
	t      *esTr
	recv   string            // receiver name
	params map[string]string // Go parameter -> kind ("errv" = an error value, "target" = the errors.Is/As target)
	n      int
	cond   func(e ast.Expr) string
	ret    func(x *ast.ReturnStmt) string
}

func (f *esFn) fresh(p string) string { f.n++; return fmt.Sprintf("%s%d", p, f.n) }

var esFieldKind = map[string]string{"count": "int", "err": "errv", "next": "ptr"}
var esFieldLd = map[string]string{"count": "ldCount", "err": "ldErr", "next": "ldNext"}

// ex translates an expression to a Lean term of type `Option τ`; kind is ptr / errv / int / bool / isres / asres
func (f *esFn) ex(e ast.Expr) (string, string) {
	t := f.t
	switch x := e.(type) {
	case *ast.ParenExpr:
		return f.ex(x.X)
	case *ast.Ident:
		switch {
		case x.Name == f.recv:
			return "(some e)", "ptr"
		case f.params[x.Name] == "errv":
			return "(some err)", "errv"
		case x.Name == "true" || x.Name == "false":
			return "(some " + x.Name + ")", "bool"
		}
		t.die(e, "identifier %s", x.Name)
	case *ast.BasicLit:
		if x.Kind == token.INT {
			return "(some (" + x.Value + " : Int))", "int"
		}
		t.die(e, "literal %s", x.Value)
	case *ast.SelectorExpr:
		base, k := f.ex(x.X)
		if k != "ptr" {
			t.die(e, "field selection on a value that is not a *Stack")
		}
		fk, ok := esFieldKind[x.Sel.Name]
		if !ok {
			t.die(e, "field %s", x.Sel.Name)
		}
		return "(" + esFieldLd[x.Sel.Name] + " " + base + ")", fk
	case *ast.UnaryExpr:
		switch x.Op {
		case token.NOT:
			s, k := f.ex(x.X)
			if k != "bool" {
				t.die(e, "! of a non-boolean")
			}
			return "(notP " + s + ")", "bool"
		case token.AND:
			return f.lit(x.X), "ptr"
		}
		t.die(e, "unary %s", x.Op)
	case *ast.BinaryExpr:
		switch x.Op {
		case token.LOR, token.LAND:
			l, lk := f.ex(x.X)
			r, rk := f.ex(x.Y)
			if lk != "bool" || rk != "bool" {
				t.die(e, "%s of non-booleans", x.Op)
			}
			op := "orP"
			if x.Op == token.LAND {
				op = "andP"
			}
			return "(" + op + " " + l + " " + r + ")", "bool"
		case token.EQL, token.NEQ, token.LSS, token.LEQ, token.GTR, token.GEQ:
			a, b := x.X, x.Y
			if isNilIdent(a) {
				a, b = b, a
			}
			var s string
			if isNilIdent(b) {
				if x.Op != token.EQL && x.Op != token.NEQ {
					t.die(e, "ordering against nil")
				}
				v, k := f.ex(a)
				switch k {
				case "ptr":
					s = "(ptrIsNil " + v + ")"
				case "errv":
					s = "(errIsNil " + v + ")"
				default:
					t.die(e, "nil test of a value that is neither a *Stack nor an error")
				}
				if x.Op == token.NEQ {
					s = "(notP " + s + ")"
				}
				return s, "bool"
			}
			l, lk := f.ex(x.X)
			r, rk := f.ex(x.Y)
			if lk != "int" || rk != "int" {
				t.die(e, "comparison %s of values that are not integers", x.Op)
			}
			ops := map[token.Token]string{token.EQL: "==", token.NEQ: "!=", token.LSS: "<", token.LEQ: "<=", token.GTR: ">", token.GEQ: ">="}
			return fmt.Sprintf("(cmpP (fun a b => decide (a %s b)) %s %s)", map[string]string{"==": "=", "!=": "≠", "<": "<", "<=": "≤", ">": ">", ">=": "≥"}[ops[x.Op]], l, r), "bool"
		case token.ADD, token.SUB:
			l, lk := f.ex(x.X)
			r, rk := f.ex(x.Y)
			if lk != "int" || rk != "int" {
				t.die(e, "arithmetic on values that are not integers")
			}
			return fmt.Sprintf("(do pure ((← %s) %s (← %s)))", l, x.Op, r), "int"
		}
		t.die(e, "binary %s", x.Op)
	case *ast.CompositeLit:
		t.die(e, "a Stack value (only &Stack{…} is supported)")
	case *ast.CallExpr:
		fn := exprString(x.Fun)
		if (fn == "errors.Is" || fn == "errors.As") && len(x.Args) == 2 && x.Ellipsis == token.NoPos {
			v, k := f.ex(x.Args[0])
			if k != "errv" || f.params[esIdent(x.Args[1])] != "target" {
				t.die(e, "%s with these arguments (want an error field of the receiver and the method's parameter)", fn)
			}
			if fn == "errors.Is" {
				return "(do pure (isOpt (← " + v + ") t))", "isres"
			}
			return "(do pure (asOpt (← " + v + ") t))", "asres"
		}
		t.die(e, "call of %s", fn)
	}
	t.die(e, "expression %T", e)
	return "", ""
}

// lit translates the composite literal of `&Stack{…}`
func (f *esFn) lit(e ast.Expr) string {
	t := f.t
	cl, ok := e.(*ast.CompositeLit)
	if !ok || esIdent(cl.Type) != "Stack" {
		t.die(e, "address of something that is not a Stack literal")
	}
	vals := map[string]string{"count": "(some (0 : Int))", "err": "(some none)", "next": "(some [])"}
	seen := map[string]bool{}
	for _, el := range cl.Elts {
		kv, ok := el.(*ast.KeyValueExpr)
		if !ok {
			t.die(el, "positional field in a Stack literal")
		}
		name := esIdent(kv.Key)
		want, ok := esFieldKind[name]
		if !ok || seen[name] {
			t.die(kv, "field %s in a Stack literal", name)
		}
		seen[name] = true
		if isNilIdent(kv.Value) {
			continue
		}
		v, k := f.ex(kv.Value)
		if k != want {
			t.die(kv, "field %s given a value of the wrong kind", name)
		}
		vals[name] = v
	}
	return fmt.Sprintf("(do pure (mkNode (← %s) (← %s) (← %s)))", vals["count"], vals["err"], vals["next"])
}

func (f *esFn) boolCond(e ast.Expr) string {
	s, k := f.ex(e)
	if k != "bool" {
		f.t.die(e, "condition that is not a boolean over the receiver's fields")
	}
	return s
}

// stmts: `if` / tagless `switch` / `return` / blocks, in continuation style (as in errpolicy.go): a list ends
// at its first return; a path that falls off the end of the function is an error.
func (f *esFn) stmts(list []ast.Stmt, rest [][]ast.Stmt, depth int, at ast.Node) string {
	t := f.t
	list = esStrip(list)
	if len(list) == 0 {
		if len(rest) == 0 {
			t.die(at, "a path falls off the end of the function without return")
		}
		return f.stmts(rest[0], rest[1:], depth, at)
	}
	s, tail := list[0], list[1:]
	cont := func() [][]ast.Stmt { return append([][]ast.Stmt{tail}, rest...) }
	branch := func(cond string, thenL []ast.Stmt, elseS func(d int) string) string {
		c := f.fresh("c")
		return fmt.Sprintf("%slet %s ← %s\n%sif %s then\n%s\n%selse\n%s", ind(depth), c, cond, ind(depth), c,
			f.stmts(thenL, cont(), depth+1, s), ind(depth), elseS(depth+1))
	}
	switch x := s.(type) {
	case *ast.ReturnStmt:
		return ind(depth) + f.ret(x)
	case *ast.BlockStmt:
		return f.stmts(x.List, cont(), depth, s)
	case *ast.IfStmt:
		if x.Init != nil {
			t.die(s, "if with an init statement")
		}
		var elseList []ast.Stmt
		if x.Else != nil {
			elseList = []ast.Stmt{x.Else}
		}
		return branch(f.cond(x.Cond), x.Body.List, func(d int) string { return f.stmts(elseList, cont(), d, s) })
	case *ast.SwitchStmt:
		if x.Init != nil || x.Tag != nil {
			t.die(s, "switch with an init statement or a tag")
		}
		var cases []*ast.CaseClause
		var def *ast.CaseClause
		for _, cl := range x.Body.List {
			cc := cl.(*ast.CaseClause)
			for _, b := range cc.Body {
				if br, ok := b.(*ast.BranchStmt); ok {
					t.die(br, "%s inside a switch", br.Tok)
				}
			}
			if cc.List == nil {
				def = cc
			} else {
				cases = append(cases, cc)
			}
		}
		var build func(i, d int) string
		build = func(i, d int) string {
			if i == len(cases) {
				var body []ast.Stmt
				if def != nil {
					body = def.Body
				}
				return f.stmts(body, cont(), d, s)
			}
			var cond string
			for j, e := range cases[i].List {
				c := f.cond(e)
				if j == 0 {
					cond = c
				} else {
					cond = "(orP " + cond + " " + c + ")"
				}
			}
			c := f.fresh("c")
			return fmt.Sprintf("%slet %s ← %s\n%sif %s then\n%s\n%selse\n%s", ind(d), c, cond, ind(d), c,
				f.stmts(cases[i].Body, cont(), d+1, s), ind(d), build(i+1, d+1))
		}
		return build(0, depth)
	}
	t.die(s, "statement %T", s)
	return ""
}

// ---- the methods of *Stack -----------------------------------------------------------------------------------

func (t *esTr) checkRecv(fd *ast.FuncDecl) string {
	if fd.Recv == nil || len(fd.Recv.List) != 1 || len(fd.Recv.List[0].Names) != 1 {
		t.die(fd, "receiver of %s", fd.Name.Name)
	}
	st, ok := fd.Recv.List[0].Type.(*ast.StarExpr)
	if !ok || esIdent(st.X) != "Stack" {
		t.die(fd, "receiver of %s (want *Stack)", fd.Name.Name)
	}
	return fd.Recv.List[0].Names[0].Name
}

func (t *esTr) params(fd *ast.FuncDecl) (names, types []string, variadic bool) {
	if fd.Type.Params == nil {
		return
	}
	for _, p := range fd.Type.Params.List {
		ty := ""
		switch x := p.Type.(type) {
		case *ast.Ident:
			ty = x.Name
		case *ast.Ellipsis:
			ty = "..." + esIdent(x.Elt)
			variadic = true
		default:
			ty = fmt.Sprintf("%T", p.Type)
		}
		if len(p.Names) == 0 {
			names, types = append(names, "_"), append(types, ty)
		}
		for _, n := range p.Names {
			names, types = append(names, n.Name), append(types, ty)
		}
	}
	return
}

func (t *esTr) results(fd *ast.FuncDecl) []string {
	var out []string
	if fd.Type.Results == nil {
		return out
	}
	for _, r := range fd.Type.Results.List {
		k := len(r.Names)
		if k == 0 {
			k = 1
		} else {
			t.die(fd, "named results")
		}
		for i := 0; i < k; i++ {
			switch x := r.Type.(type) {
			case *ast.Ident:
				out = append(out, x.Name)
			default:
				out = append(out, fmt.Sprintf("%T", r.Type))
			}
		}
	}
	return out
}

// stackMethod translates one of Resolve / Len / Ok / Unwrap / Is / As
func (t *esTr) stackMethod(name, lean string) string {
	fd := t.fn("ers", "Stack", name)
	f := &esFn{t: t, recv: t.checkRecv(fd), params: map[string]string{}}
	pn, pt, _ := t.params(fd)
	res := t.results(fd)
	if len(res) != 1 {
		t.die(fd, "%s must have one result", name)
	}
	var sig, want, retTy string
	switch name {
	case "Resolve", "Unwrap":
		if len(pn) != 0 || res[0] != "error" {
			t.die(fd, "signature of %s (want func() error)", name)
		}
		sig, want, retTy = "(e : Ptr)", "stackret", "StackRet"
	case "Len":
		if len(pn) != 0 || res[0] != "int" {
			t.die(fd, "signature of Len (want func() int)")
		}
		sig, want, retTy = "(e : Ptr)", "int", "Int"
	case "Ok":
		if len(pn) != 0 || res[0] != "bool" {
			t.die(fd, "signature of Ok (want func() bool)")
		}
		sig, want, retTy = "(e : Ptr)", "bool", "Bool"
	case "Is":
		if len(pn) != 1 || pt[0] != "error" || res[0] != "bool" {
			t.die(fd, "signature of Is (want func(error) bool)")
		}
		f.params[pn[0]] = "target"
		sig, want, retTy = "(e : Ptr) (t : Nat)", "isres", "Bool"
	case "As":
		if len(pn) != 1 || pt[0] != "any" || res[0] != "bool" {
			t.die(fd, "signature of As (want func(any) bool)")
		}
		f.params[pn[0]] = "target"
		sig, want, retTy = "(e : Ptr) (t : Nat)", "asres", "(Option Nat)"
	}
	f.cond = f.boolCond
	f.ret = func(x *ast.ReturnStmt) string {
		if len(x.Results) != 1 {
			t.die(x, "return with %d results", len(x.Results))
		}
		r := x.Results[0]
		if want == "stackret" {
			if isNilIdent(r) {
				return "pure StackRet.nil"
			}
			v, k := f.ex(r)
			switch k {
			case "errv":
				return "Option.map StackRet.err " + v
			case "ptr":
				return "Option.map StackRet.node " + v
			}
			t.die(x, "returned value is neither nil, an error field nor a *Stack")
		}
		v, k := f.ex(r)
		if k != want {
			t.die(x, "returned value of the wrong kind (%s, want %s)", k, want)
		}
		return v
	}
	body := f.stmts(fd.Body.List, nil, 1, fd)
	return fmt.Sprintf("/-- %s `(*Stack).%s` -/\ndef %s %s : Option %s := do\n%s\n\n", t.pos(fd), name, lean, sig, retTy, body)
}

// stackLink: the default clause of Push — assignments to the receiver's fields and count++ — as a function
// of the chain and the pushed error
func (t *esTr) stackLink(recv string, errNames map[string]bool, cl *esClause) string {
	f := &esFn{t: t, recv: recv, params: map[string]string{}}
	for n := range errNames {
		f.params[n] = "errv"
	}
	var b strings.Builder
	fmt.Fprintf(&b, "/-- %s the `default` clause of `(*Stack).Push`, statement by statement -/\n", t.pos(cl.node))
	b.WriteString("def stackLink (e : Ptr) (err : Option Err) : Option Ptr := do\n")
	if len(cl.body) == 0 {
		t.die(cl.node, "empty default clause in Push")
	}
	store := map[string]string{"count": "stCount", "err": "stErr", "next": "stNext"}
	for _, s := range cl.body {
		switch x := s.(type) {
		case *ast.AssignStmt:
			if len(x.Lhs) != 1 || len(x.Rhs) != 1 {
				t.die(s, "parallel assignment")
			}
			sel, ok := x.Lhs[0].(*ast.SelectorExpr)
			if !ok || esIdent(sel.X) != recv || esFieldKind[sel.Sel.Name] == "" {
				t.die(s, "assignment to something that is not a field of the receiver")
			}
			fk := esFieldKind[sel.Sel.Name]
			var v string
			switch x.Tok {
			case token.ASSIGN:
				if isNilIdent(x.Rhs[0]) {
					v = map[string]string{"errv": "(some none)", "ptr": "(some [])"}[fk]
					if v == "" {
						t.die(s, "nil assigned to an integer field")
					}
				} else {
					var k string
					v, k = f.ex(x.Rhs[0])
					if k != fk {
						t.die(s, "assignment of a value of the wrong kind to %s", sel.Sel.Name)
					}
				}
			case token.ADD_ASSIGN, token.SUB_ASSIGN:
				r, k := f.ex(x.Rhs[0])
				if fk != "int" || k != "int" {
					t.die(s, "%s on a field that is not an integer", x.Tok)
				}
				v = fmt.Sprintf("(do pure ((← (ldCount (some e))) %s (← %s)))", strings.TrimSuffix(x.Tok.String(), "="), r)
			default:
				t.die(s, "assignment operator %s", x.Tok)
			}
			tmp := f.fresh("v")
			fmt.Fprintf(&b, "  let %s ← %s\n  let e ← %s e %s\n", tmp, v, store[sel.Sel.Name], tmp)
		case *ast.IncDecStmt:
			sel, ok := x.X.(*ast.SelectorExpr)
			if !ok || esIdent(sel.X) != recv || sel.Sel.Name != "count" {
				t.die(s, "%s of something that is not the receiver's count", x.Tok)
			}
			op := "+"
			if x.Tok == token.DEC {
				op = "-"
			}
			tmp := f.fresh("v")
			fmt.Fprintf(&b, "  let %s ← (ldCount (some e))\n  let e ← stCount e (%s %s 1)\n", tmp, tmp, op)
		default:
			t.die(s, "statement %T in the default clause of Push", s)
		}
	}
	b.WriteString("  pure e\n\n")
	return b.String()
}

// ---- Push ------------------------------------------------------------------------------------------------------

func (t *esTr) isCall(e ast.Expr, recv, method string, nargs int) *ast.CallExpr {
	c, ok := e.(*ast.CallExpr)
	if !ok || len(c.Args) != nargs {
		return nil
	}
	sel, ok := c.Fun.(*ast.SelectorExpr)
	if !ok || esIdent(sel.X) != recv || sel.Sel.Name != method {
		return nil
	}
	return c
}

// rangePush recognises `for _, v := range X { recv.Push(v) }` and returns X
func (t *esTr) rangePush(s ast.Stmt, recv string) ast.Expr {
	r, ok := s.(*ast.RangeStmt)
	if !ok || r.Tok != token.DEFINE || esIdent(r.Key) != "_" || esIdent(r.Value) == "" || esIdent(r.Value) == "_" {
		return nil
	}
	body := esStrip(r.Body.List)
	if len(body) != 1 {
		return nil
	}
	es, ok := body[0].(*ast.ExprStmt)
	if !ok {
		return nil
	}
	c := t.isCall(es.X, recv, "Push", 1)
	if c == nil || c.Ellipsis != token.NoPos || esIdent(c.Args[0]) != esIdent(r.Value) {
		return nil
	}
	return r.X
}

func (t *esTr) genPush(b *strings.Builder) {
	fd := t.fn("ers", "Stack", "Push")
	recv := t.checkRecv(fd)
	pn, pt, _ := t.params(fd)
	if len(pn) != 1 || pt[0] != "error" || len(t.results(fd)) != 0 {
		t.die(fd, "signature of Push (want func(error))")
	}
	body := esStrip(fd.Body.List)
	if len(body) != 1 {
		t.die(fd, "body of Push (want exactly one type switch)")
	}
	ts, ok := body[0].(*ast.TypeSwitchStmt)
	if !ok {
		t.die(body[0], "body of Push (want exactly one type switch)")
	}
	sw := t.typeSwitch(ts, "ers", "")
	if esIdent(sw.subject) != pn[0] {
		t.die(ts, "the type switch of Push is not over its parameter")
	}
	link := ""
	arm := func(cl *esClause) string {
		st := cl.body
		// `return` / nothing
		if len(st) == 0 {
			return ".ret"
		}
		if r, ok := st[0].(*ast.ReturnStmt); ok && len(st) == 1 && len(r.Results) == 0 {
			return ".ret"
		}
		if br, ok := st[0].(*ast.BranchStmt); ok && len(st) == 1 && br.Tok == token.BREAK && br.Label == nil {
			return ".ret"
		}
		// for werr != nil { e.Push(werr.err); werr = werr.next }
		if fs, ok := st[0].(*ast.ForStmt); ok && len(st) == 1 && sw.bound != "" {
			if len(cl.pats) != 1 || cl.pats[0] != ".stackPtr" {
				t.die(fs, "a for loop in a clause that is not `case *Stack`")
			}
			lb := esStrip(fs.Body.List)
			post := fs.Post
			if post == nil && len(lb) == 2 {
				post, lb = lb[1], lb[:1]
			}
			okc := false
			if be, ok := fs.Cond.(*ast.BinaryExpr); ok && be.Op == token.NEQ && fs.Init == nil {
				okc = (esIdent(be.X) == sw.bound && isNilIdent(be.Y)) || (isNilIdent(be.X) && esIdent(be.Y) == sw.bound)
			}
			okb := false
			if len(lb) == 1 {
				if es, ok := lb[0].(*ast.ExprStmt); ok {
					if c := t.isCall(es.X, recv, "Push", 1); c != nil && exprString(c.Args[0]) == sw.bound+".err" {
						okb = true
					}
				}
			}
			okp := false
			if as, ok := post.(*ast.AssignStmt); ok && as.Tok == token.ASSIGN && len(as.Lhs) == 1 && len(as.Rhs) == 1 {
				okp = esIdent(as.Lhs[0]) == sw.bound && exprString(as.Rhs[0]) == sw.bound+".next"
			}
			if okc && okb && okp {
				return ".walkChain"
			}
			t.die(fs, "loop in `case *Stack` (want `for w != nil { e.Push(w.err); w = w.next }`)")
		}
		// for _, x := range werr.M() { e.Push(x) }
		if len(st) == 1 {
			if x := t.rangePush(st[0], recv); x != nil {
				if c, ok := x.(*ast.CallExpr); ok && len(c.Args) == 0 {
					if sel, ok := c.Fun.(*ast.SelectorExpr); ok && sw.bound != "" && esIdent(sel.X) == sw.bound {
						via := t.offered(cl, sel.Sel.Name)
						if via == ".unwindMany" || via == ".unwrapMany" {
							return ".pushEach " + via
						}
						t.die(c, "range over %s.%s(), which the clause's type does not provide as a []error method", sw.bound, sel.Sel.Name)
					}
				}
				t.die(st[0], "range over something that is not a method of the bound variable")
			}
		}
		// field updates of the receiver
		if cl.node.List != nil {
			t.die(cl.node, "clause body (want return, the *Stack loop, a range-and-Push loop; field updates only in default)")
		}
		names := map[string]bool{pn[0]: true}
		if sw.bound != "" {
			names[sw.bound] = true // in the default clause the bound variable is the parameter itself
		}
		link = t.stackLink(recv, names, cl)
		return ".link"
	}
	doc := fmt.Sprintf("%s `(*Stack).Push`: `switch %s := %s.(type)`", t.pos(ts), sw.bound, pn[0])
	b.WriteString(t.emitSwitch("pushSwitch", "PushArm", doc, sw, arm, nil))
	if link == "" {
		t.die(ts, "the default clause of Push does not update the receiver")
	}
	b.WriteString(link)
}

func (t *esTr) genAdd(b *strings.Builder) {
	fd := t.fn("ers", "Stack", "Add")
	recv := t.checkRecv(fd)
	pn, pt, _ := t.params(fd)
	if len(pn) != 1 || pt[0] != "...error" || len(t.results(fd)) != 0 {
		t.die(fd, "signature of Add (want func(...error))")
	}
	body := esStrip(fd.Body.List)
	if len(body) != 1 || esIdent(t.rangePush(body[0], recv)) != pn[0] {
		t.die(fd, "body of Add (want `for _, x := range errs { e.Push(x) }`)")
	}
	fmt.Fprintf(b, "/-- %s `(*Stack).Add` -/\ndef addBody : AddBody := .rangePush\n\n", t.pos(fd))
}

func (t *esTr) genJoin(b *strings.Builder) {
	fd := t.fn("ers", "", "Join")
	pn, pt, _ := t.params(fd)
	res := t.results(fd)
	if len(pn) != 1 || pt[0] != "...error" || len(res) != 1 || res[0] != "error" {
		t.die(fd, "signature of Join (want func(...error) error)")
	}
	var stmts []string
	st := ""
	for _, s := range esStrip(fd.Body.List) {
		switch x := s.(type) {
		case *ast.AssignStmt:
			if x.Tok == token.DEFINE && len(x.Lhs) == 1 && len(x.Rhs) == 1 && st == "" {
				r := x.Rhs[0]
				if u, ok := r.(*ast.UnaryExpr); ok && u.Op == token.AND {
					r = u.X
				}
				if cl, ok := r.(*ast.CompositeLit); ok && esIdent(cl.Type) == "Stack" && len(cl.Elts) == 0 {
					st = esIdent(x.Lhs[0])
					stmts = append(stmts, ".zeroStack")
					continue
				}
			}
			t.die(s, "statement in Join (want `st := Stack{}`)")
		case *ast.DeclStmt:
			if gd, ok := x.Decl.(*ast.GenDecl); ok && gd.Tok == token.VAR && len(gd.Specs) == 1 && st == "" {
				vs := gd.Specs[0].(*ast.ValueSpec)
				if len(vs.Names) == 1 && len(vs.Values) == 0 && esIdent(vs.Type) == "Stack" {
					st = vs.Names[0].Name
					stmts = append(stmts, ".zeroStack")
					continue
				}
			}
			t.die(s, "declaration in Join (want `var st Stack`)")
		case *ast.ExprStmt:
			if c := t.isCall(x.X, st, "Add", 1); c != nil && st != "" && c.Ellipsis != token.NoPos && esIdent(c.Args[0]) == pn[0] {
				stmts = append(stmts, ".addSpread")
				continue
			}
			t.die(s, "statement in Join (want `st.Add(errs...)`)")
		case *ast.ReturnStmt:
			if len(x.Results) == 1 && st != "" && t.isCall(x.Results[0], st, "Resolve", 0) != nil {
				stmts = append(stmts, ".retResolve")
				continue
			}
			t.die(s, "return in Join (want `return st.Resolve()`)")
		default:
			t.die(s, "statement %T in Join", s)
		}
	}
	fmt.Fprintf(b, "/-- %s `ers.Join` -/\ndef joinBody : List JoinStmt := [%s]\n\n", t.pos(fd), strings.Join(stmts, ", "))
}

// the method set of *Stack, as far as a type switch can ask for it
func (t *esTr) genStackMethods(b *strings.Builder) {
	have := map[string]bool{}
	for _, f := range t.pkg("ers") {
		for _, d := range f.Decls {
			switch x := d.(type) {
			case *ast.FuncDecl:
				if esRecvName(x) == "Stack" {
					if p := t.methodPat(x.Name.Name, x.Type, ""); p != "" {
						have[p] = true
					}
				}
			case *ast.GenDecl:
				for _, sp := range x.Specs {
					ts, ok := sp.(*ast.TypeSpec)
					if !ok || ts.Name.Name != "Stack" {
						continue
					}
					st, ok := ts.Type.(*ast.StructType)
					if !ok {
						t.die(ts, "Stack is not a struct")
					}
					got := []string{}
					for _, fl := range st.Fields.List {
						ty := exprString(fl.Type)
						if s, ok := fl.Type.(*ast.StarExpr); ok {
							ty = "*" + esIdent(s.X)
						}
						for _, n := range fl.Names {
							got = append(got, n.Name+" "+ty)
						}
						if len(fl.Names) == 0 {
							got = append(got, "embedded "+ty)
						}
					}
					sort.Strings(got)
					if strings.Join(got, "; ") != "count int; err error; next *Stack" {
						t.die(ts, "fields of Stack are {%s} (want count int; err error; next *Stack)", strings.Join(got, "; "))
					}
				}
			}
		}
	}
	var ps []string
	for _, p := range esPatOrder {
		if have[p] {
			ps = append(ps, p)
		}
	}
	fmt.Fprintf(b, "/-- the methods of `*Stack` a type switch can ask for (ers, all files) -/\ndef stackMethods : List Pat := [%s]\n\n", strings.Join(ps, ", "))
}

// ---- internal.Unwind -------------------------------------------------------------------------------------------

func (t *esTr) genUnwind(b *strings.Builder) {
	fd := t.fn("internal", "", "Unwind")
	tparam := ""
	if fd.Type.TypeParams != nil && len(fd.Type.TypeParams.List) == 1 && len(fd.Type.TypeParams.List[0].Names) == 1 {
		tparam = fd.Type.TypeParams.List[0].Names[0].Name
	}
	pn, pt, _ := t.params(fd)
	if tparam == "" || len(pn) != 1 || pt[0] != tparam {
		t.die(fd, "signature of internal.Unwind (want func[T any](in T) []T)")
	}
	in := pn[0]
	body := esStrip(fd.Body.List)
	vars := map[string]bool{}
	for _, s := range body[:len(body)-1] {
		ds, ok := s.(*ast.DeclStmt)
		if !ok {
			t.die(s, "statement before the loop of internal.Unwind (want var declarations)")
		}
		gd := ds.Decl.(*ast.GenDecl)
		if gd.Tok != token.VAR {
			t.die(s, "declaration before the loop of internal.Unwind")
		}
		for _, sp := range gd.Specs {
			vs := sp.(*ast.ValueSpec)
			if len(vs.Values) != 0 || t.resKind(vs.Type, tparam) != "many" {
				t.die(vs, "variable of internal.Unwind (want a zero []T)")
			}
			for _, n := range vs.Names {
				vars[n.Name] = true
			}
		}
	}
	loop, ok := body[len(body)-1].(*ast.ForStmt)
	if !ok || loop.Init != nil || loop.Cond != nil || loop.Post != nil {
		t.die(body[len(body)-1], "last statement of internal.Unwind (want `for { switch … }`)")
	}
	lb := esStrip(loop.Body.List)
	if len(lb) != 1 {
		t.die(loop, "body of the loop of internal.Unwind (want exactly one type switch)")
	}
	ts, ok := lb[0].(*ast.TypeSwitchStmt)
	if !ok {
		t.die(lb[0], "body of the loop of internal.Unwind (want exactly one type switch)")
	}
	sw := t.typeSwitch(ts, "internal", tparam)
	subj := sw.subject
	if c, ok := subj.(*ast.CallExpr); ok && esIdent(c.Fun) == "any" && len(c.Args) == 1 {
		subj = c.Args[0]
	}
	if esIdent(subj) != in {
		t.die(ts, "the type switch of internal.Unwind is not over any(%s)", in)
	}
	acc := ""
	useAcc := func(n ast.Node, name string) {
		if !vars[name] || (acc != "" && acc != name) {
			t.die(n, "accumulator %q (the clauses must all append to the same declared slice)", name)
		}
		acc = name
	}
	// `append(acc, X)` / `append(acc, X...)`
	appendOf := func(e ast.Expr) (ast.Expr, bool) {
		c, ok := e.(*ast.CallExpr)
		if !ok || esIdent(c.Fun) != "append" || len(c.Args) != 2 {
			return nil, false
		}
		useAcc(c, esIdent(c.Args[0]))
		return c.Args[1], c.Ellipsis != token.NoPos
	}
	arm := func(cl *esClause) string {
		st := cl.body
		if len(st) == 1 {
			r, ok := st[0].(*ast.ReturnStmt)
			if !ok || len(r.Results) != 1 {
				t.die(st[0], "clause of internal.Unwind")
			}
			if name := esIdent(r.Results[0]); name != "" {
				useAcc(r, name)
				return ".retOut"
			}
			x, spread := appendOf(r.Results[0])
			if x == nil {
				t.die(r, "return in internal.Unwind (want `return out`, `return append(out, in)` or `return append(out, sparse(buffer(buf, wi.M()))...)`)")
			}
			if !spread {
				if esIdent(x) != in {
					t.die(r, "return append(out, X) with X not the input")
				}
				return ".retAppendIn"
			}
			// sparse(buffer(buf, wi.M()))
			c1, ok := x.(*ast.CallExpr)
			if !ok || esIdent(c1.Fun) != "sparse" || len(c1.Args) != 1 || c1.Ellipsis != token.NoPos {
				t.die(r, "spread argument of append (want sparse(buffer(buf, wi.M())))")
			}
			c2, ok := c1.Args[0].(*ast.CallExpr)
			if !ok || esIdent(c2.Fun) != "buffer" || len(c2.Args) != 2 || !vars[esIdent(c2.Args[0])] || esIdent(c2.Args[0]) == acc {
				t.die(r, "argument of sparse (want buffer(buf, wi.M()) with buf a declared slice other than the accumulator)")
			}
			c3, ok := c2.Args[1].(*ast.CallExpr)
			if ok && len(c3.Args) == 0 {
				if sel, ok := c3.Fun.(*ast.SelectorExpr); ok && sw.bound != "" && esIdent(sel.X) == sw.bound {
					via := t.offered(cl, sel.Sel.Name)
					if via == ".unwindMany" || via == ".unwrapMany" {
						return ".retSparse " + via
					}
				}
			}
			t.die(r, "second argument of buffer (want a []T method of the bound variable that the clause's type provides)")
		}
		if len(st) == 2 {
			a1, ok1 := st[0].(*ast.AssignStmt)
			a2, ok2 := st[1].(*ast.AssignStmt)
			if ok1 && ok2 && a1.Tok == token.ASSIGN && a2.Tok == token.ASSIGN && len(a1.Lhs) == 1 && len(a2.Lhs) == 1 &&
				len(a1.Rhs) == 1 && len(a2.Rhs) == 1 {
				x, spread := appendOf(a1.Rhs[0])
				if x != nil && !spread && esIdent(x) == in && esIdent(a1.Lhs[0]) == acc && esIdent(a2.Lhs[0]) == in {
					if c := t.isCall(a2.Rhs[0], sw.bound, "Unwrap", 0); c != nil && sw.bound != "" && t.offered(cl, "Unwrap") == ".unwrapOne" {
						return ".step"
					}
				}
			}
		}
		t.die(cl.node, "clause of internal.Unwind (want a return, or `out = append(out, in); in = wi.Unwrap()` under `case interface{ Unwrap() T }`)")
		return ""
	}
	doc := fmt.Sprintf("%s `internal.Unwind`: `for { switch %s := any(%s).(type) … }`", t.pos(ts), sw.bound, in)
	b.WriteString(t.emitSwitch("unwindSwitch", "UnwindArm", doc, sw, arm, nil))
}

// ---- ParsePanic / Ok / Wrap -----------------------------------------------------------------------------------

func (t *esTr) joinArm(e ast.Expr, subject, bound string, cl *esClause) string {
	if isNilIdent(e) {
		return ".retNil"
	}
	c, ok := e.(*ast.CallExpr)
	if !ok || esIdent(c.Fun) != "Join" {
		t.die(e, "returned value (want nil or Join(…))")
	}
	is := func(e ast.Expr) bool { n := esIdent(e); return n != "" && (n == bound || n == subject) }
	only := func(p string) bool { return cl != nil && len(cl.pats) == 1 && cl.pats[0] == p }
	if c.Ellipsis != token.NoPos {
		if len(c.Args) == 1 && is(c.Args[0]) && only(".errorSlice") {
			return ".joinSpread"
		}
		t.die(e, "Join(x...) outside `case []error`")
	}
	var args []string
	for _, a := range c.Args {
		switch {
		case is(a) && (cl == nil || only(".error")):
			args = append(args, ".subject")
		case esIdent(a) == "ErrRecoveredPanic":
			args = append(args, ".recoveredPanic")
		default:
			ac, ok := a.(*ast.CallExpr)
			if !ok {
				t.die(a, "argument of Join")
			}
			fn := exprString(ac.Fun)
			switch {
			case (fn == "New" || fn == "errors.New") && len(ac.Args) == 1 && is(ac.Args[0]) && only(".string"):
				args = append(args, ".newOfSubject")
			case fn == "errors.New" && len(ac.Args) == 1 && cl == nil:
				// errors.New(fmt.Sprint(annotation...)): a fresh error that wraps nothing
				in, ok := ac.Args[0].(*ast.CallExpr)
				if !ok || exprString(in.Fun) != "fmt.Sprint" {
					t.die(a, "argument of errors.New (want fmt.Sprint(…))")
				}
				for _, x := range in.Args {
					if is(x) {
						t.die(a, "the annotation mentions the error itself")
					}
				}
				args = append(args, ".freshNew")
			case fn == "fmt.Errorf" && len(ac.Args) >= 1 && cl != nil && cl.node.List == nil:
				lit, ok := ac.Args[0].(*ast.BasicLit)
				if !ok || lit.Kind != token.STRING || strings.Contains(lit.Value, "%w") {
					t.die(a, "fmt.Errorf whose format is not a literal without %%w")
				}
				args = append(args, ".fmtOfSubject")
			default:
				t.die(a, "argument of Join")
			}
		}
	}
	return ".join [" + strings.Join(args, ", ") + "]"
}

func (t *esTr) genParsePanic(b *strings.Builder) {
	fd := t.fn("ers", "", "ParsePanic")
	pn, pt, _ := t.params(fd)
	res := t.results(fd)
	if len(pn) != 1 || pt[0] != "any" || len(res) != 1 || res[0] != "error" {
		t.die(fd, "signature of ParsePanic (want func(any) error)")
	}
	r := pn[0]
	body := esStrip(fd.Body.List)
	var ts *ast.TypeSwitchStmt
	var pre []string
	switch {
	case len(body) == 1:
		ts, _ = body[0].(*ast.TypeSwitchStmt)
	case len(body) == 2:
		// if r != nil { switch … }; return nil   — the guard is the clause `case nil: return nil` written first
		ifs, ok1 := body[0].(*ast.IfStmt)
		ret, ok2 := body[1].(*ast.ReturnStmt)
		if ok1 && ok2 && ifs.Init == nil && ifs.Else == nil && len(ret.Results) == 1 && isNilIdent(ret.Results[0]) {
			if be, ok := ifs.Cond.(*ast.BinaryExpr); ok && be.Op == token.NEQ &&
				((esIdent(be.X) == r && isNilIdent(be.Y)) || (isNilIdent(be.X) && esIdent(be.Y) == r)) {
				if in := esStrip(ifs.Body.List); len(in) == 1 {
					ts, _ = in[0].(*ast.TypeSwitchStmt)
					pre = []string{"([.nil], .retNil)"}
				}
			}
		}
	}
	if ts == nil {
		t.die(fd, "body of ParsePanic (want a type switch, or `if r != nil { switch … }; return nil`)")
	}
	sw := t.typeSwitch(ts, "ers", "")
	if esIdent(sw.subject) != r {
		t.die(ts, "the type switch of ParsePanic is not over its parameter")
	}
	arm := func(cl *esClause) string {
		if len(cl.body) != 1 {
			t.die(cl.node, "clause of ParsePanic (want a single return)")
		}
		ret, ok := cl.body[0].(*ast.ReturnStmt)
		if !ok || len(ret.Results) != 1 {
			t.die(cl.node, "clause of ParsePanic (want a single return)")
		}
		return t.joinArm(ret.Results[0], "", sw.bound, cl)
	}
	doc := fmt.Sprintf("%s `ers.ParsePanic`: `switch %s := %s.(type)`", t.pos(ts), sw.bound, r)
	if pre != nil {
		doc += "; the first row is the guard `if " + r + " != nil { … }; return nil` around the switch"
	}
	b.WriteString(t.emitSwitch("parsePanicSwitch", "RetArm", doc, sw, arm, pre))
}

func (t *esTr) genOk(b *strings.Builder) {
	fd := t.fn("ers", "", "Ok")
	pn, pt, _ := t.params(fd)
	res := t.results(fd)
	if len(pn) != 1 || pt[0] != "error" || len(res) != 1 || res[0] != "bool" {
		t.die(fd, "signature of Ok (want func(error) bool)")
	}
	body := esStrip(fd.Body.List)
	if len(body) != 1 {
		t.die(fd, "body of Ok (want exactly one type switch)")
	}
	ts, ok := body[0].(*ast.TypeSwitchStmt)
	if !ok {
		t.die(fd, "body of Ok (want exactly one type switch)")
	}
	sw := t.typeSwitch(ts, "ers", "")
	if esIdent(sw.subject) != pn[0] {
		t.die(ts, "the type switch of Ok is not over its parameter")
	}
	arm := func(cl *esClause) string {
		if len(cl.body) == 1 {
			if ret, ok := cl.body[0].(*ast.ReturnStmt); ok && len(ret.Results) == 1 {
				switch n := esIdent(ret.Results[0]); n {
				case "true", "false":
					return "(.retBool " + n + ")"
				}
				if c := t.isCall(ret.Results[0], sw.bound, "Ok", 0); c != nil && sw.bound != "" && t.offered(cl, "Ok") == ".okBool" {
					return ".callOk"
				}
			}
		}
		t.die(cl.node, "clause of Ok (want `return true`, `return false` or `return e.Ok()`)")
		return ""
	}
	doc := fmt.Sprintf("%s `ers.Ok`: `switch %s := %s.(type)`", t.pos(ts), sw.bound, pn[0])
	b.WriteString(t.emitSwitch("okSwitch", "OkArm", doc, sw, arm, nil))
}

func (t *esTr) genWrap(b *strings.Builder) {
	fd := t.fn("ers", "", "Wrap")
	pn, pt, _ := t.params(fd)
	res := t.results(fd)
	if len(pn) != 2 || pt[0] != "error" || pt[1] != "...any" || len(res) != 1 || res[0] != "error" {
		t.die(fd, "signature of Wrap (want func(error, ...any) error)")
	}
	errv := pn[0]
	f := &esFn{t: t}
	var cond func(e ast.Expr) string
	cond = func(e ast.Expr) string {
		switch x := e.(type) {
		case *ast.ParenExpr:
			return cond(x.X)
		case *ast.UnaryExpr:
			if x.Op == token.NOT {
				return "(notP " + cond(x.X) + ")"
			}
		case *ast.CallExpr:
			if fn := esIdent(x.Fun); (fn == "Ok" || fn == "IsError") && len(x.Args) == 1 && esIdent(x.Args[0]) == errv {
				if fn == "IsError" {
					t.fnIsNotOk()
					return "(notP (ok err))"
				}
				return "(ok err)"
			}
		case *ast.BinaryExpr:
			if (x.Op == token.EQL || x.Op == token.NEQ) && ((esIdent(x.X) == errv && isNilIdent(x.Y)) || (isNilIdent(x.X) && esIdent(x.Y) == errv)) {
				if x.Op == token.EQL {
					return "(some err.isNone)"
				}
				return "(some err.isSome)"
			}
			if x.Op == token.LOR || x.Op == token.LAND {
				op := "orP"
				if x.Op == token.LAND {
					op = "andP"
				}
				return "(" + op + " " + cond(x.X) + " " + cond(x.Y) + ")"
			}
		}
		t.die(e, "condition in Wrap (want Ok(err), IsError(err), err == nil, !, ||, &&)")
		return ""
	}
	f.cond = cond
	f.ret = func(x *ast.ReturnStmt) string {
		if len(x.Results) != 1 {
			t.die(x, "return with %d results", len(x.Results))
		}
		if esIdent(x.Results[0]) == errv {
			return "runRet join err annot .retSubject"
		}
		a := t.joinArm(x.Results[0], errv, "", nil)
		if strings.Contains(a, " ") {
			a = "(" + a + ")"
		}
		return "runRet join err annot " + a
	}
	body := f.stmts(fd.Body.List, nil, 1, fd)
	fmt.Fprintf(b, "/-- %s `ers.Wrap(err, annotation...)`; `annot` is the id of the fresh `errors.New` value -/\n"+
		"def wrap (err : Option Err) (annot : Nat) : Option (Option Err) := do\n%s\n\n", t.pos(fd), body)
}

// IsError must be `return !Ok(err)` for the translation of `IsError(err)` above to be right
func (t *esTr) fnIsNotOk() {
	fd := t.fn("ers", "", "IsError")
	if got := t.skel(fd); got != esGolden["ers.IsError"] {
		t.die(fd, "body of IsError (want `return !Ok(err)`)")
	}
}

// ---- helpers recognised as a whole --------------------------------------------------------------------------

// skel prints the declaration's syntax tree without positions and comments, with the receiver, parameters and
// locals renamed in order of first appearance
func (t *esTr) skel(fd *ast.FuncDecl) string {
	names := map[*ast.Object]string{}
	var b strings.Builder
	posType := reflect.TypeOf(token.NoPos)
	var walk func(v reflect.Value)
	walk = func(v reflect.Value) {
		switch v.Kind() {
		case reflect.Interface, reflect.Ptr:
			if v.IsNil() {
				b.WriteString("_")
				return
			}
			if id, ok := v.Interface().(*ast.Ident); ok {
				if id.Obj != nil && (id.Obj.Kind == ast.Var || id.Obj.Kind == ast.Typ && id.Obj.Decl != nil && isTypeParam(fd, id.Obj)) {
					if _, ok := names[id.Obj]; !ok {
						names[id.Obj] = fmt.Sprintf("v%d", len(names))
					}
					b.WriteString(names[id.Obj])
				} else {
					b.WriteString(id.Name)
				}
				return
			}
			if _, ok := v.Interface().(*ast.Object); ok {
				return
			}
			if _, ok := v.Interface().(*ast.CommentGroup); ok {
				b.WriteString("_")
				return
			}
			walk(v.Elem())
		case reflect.Struct:
			b.WriteString("(" + v.Type().Name())
			for i := 0; i < v.NumField(); i++ {
				fl := v.Field(i)
				if fl.Type() == posType {
					if v.Type().Field(i).Name == "Ellipsis" && fl.Interface().(token.Pos) != token.NoPos {
						b.WriteString(" ...")
					}
					continue
				}
				b.WriteString(" ")
				walk(fl)
			}
			b.WriteString(")")
		case reflect.Slice:
			b.WriteString("[")
			for i := 0; i < v.Len(); i++ {
				if i > 0 {
					b.WriteString(" ")
				}
				if _, ok := v.Index(i).Interface().(*ast.EmptyStmt); ok {
					continue
				}
				walk(v.Index(i))
			}
			b.WriteString("]")
		case reflect.String:
			b.WriteString(fmt.Sprintf("%q", v.String()))
		case reflect.Int:
			if tk, ok := v.Interface().(token.Token); ok {
				b.WriteString(tk.String())
			} else {
				b.WriteString(fmt.Sprint(v.Int()))
			}
		case reflect.Bool:
			b.WriteString(fmt.Sprint(v.Bool()))
		default:
			b.WriteString("?" + v.Kind().String())
		}
	}
	if fd.Recv != nil {
		walk(reflect.ValueOf(fd.Recv))
	}
	walk(reflect.ValueOf(fd.Type))
	walk(reflect.ValueOf(fd.Body))
	return b.String()
}

func isTypeParam(fd *ast.FuncDecl, o *ast.Object) bool {
	if fd.Type.TypeParams == nil {
		return false
	}
	for _, f := range fd.Type.TypeParams.List {
		for _, n := range f.Names {
			if n.Obj == o {
				return true
			}
		}
	}
	return false
}

type esHelper struct{ dir, recv, name, key, lean string }

var esHelpers = []esHelper{
	{"internal", "", "sparse", "internal.sparse", ".sparseDropsNil"},
	{"internal", "", "buffer", "internal.buffer", ".bufferEmptiesBuf"},
	{"internal", "", "grow", "internal.grow", ".growToSize"},
	{"ers", "Stack", "Unwind", "ers.Stack.Unwind", ".stackUnwindWalk"},
	{"ers", "", "Unwind", "ers.Unwind", ".ersUnwindDelegates"},
	{"ers", "Stack", "Future", "ers.Stack.Future", ".futureIsResolve"},
	{"ers", "Stack", "Handler", "ers.Stack.Handler", ".handlerIsPush"},
}

func (t *esTr) genHelpers(b *strings.Builder) {
	dump := os.Getenv("GO2LEAN_ERRSHAPES_SKEL") != ""
	var got []string
	for _, h := range esHelpers {
		fd := t.fn(h.dir, h.recv, h.name)
		s := t.skel(fd)
		if dump {
			fmt.Fprintf(os.Stderr, "\t%q: %q,\n", h.key, s)
			continue
		}
		if s != esGolden[h.key] {
			t.die(fd, "%s is not the function the model assumes (its syntax tree, with locals renamed, differs from the recorded one)", h.key)
		}
		got = append(got, h.lean)
	}
	if dump {
		fmt.Fprintf(os.Stderr, "\t%q: %q,\n", "ers.IsError", t.skel(t.fn("ers", "", "IsError")))
	}
	fmt.Fprintf(b, "/-- helpers recognised as a whole (normalised syntax tree equal to the recorded one) -/\n"+
		"def helpers : List Helper := [%s]\n\n", strings.Join(got, ", "))
}

// ---- the file ------------------------------------------------------------------------------------------------

func genErrShapes(repo string) string {
	t := &esTr{fset: token.NewFileSet(), repo: repo, files: map[string][]*ast.File{}}
	var b strings.Builder
	b.WriteString("import FunModel.ErrShapes\n\n")
	b.WriteString("/-! GENERATED by tools/go2lean (errshapes.go) from the working tree of tychoish/fun on every run of ./check — do not\n")
	b.WriteString("    edit. The type switches of `ers.(*Stack).Push`, `internal.Unwind`, `ers.ParsePanic`, `ers.Ok` as ordered tables,\n")
	b.WriteString("    the pointer/field code of `(*Stack).Resolve/Len/Ok/Unwrap/Is/As` and of the `default` clause of `Push` statement\n")
	b.WriteString("    by statement over the cell chain of FunModel/ErrShapes.lean (results in `Option`: `none` = nil dereference),\n")
	b.WriteString("    the glue `Add`/`Join`/`Wrap`, and the functions these denote on the error trees of FunModel/Err.lean. -/\n\n")
	b.WriteString("set_option linter.unusedVariables false\n\n")
	b.WriteString("namespace FunGen.ErrShapes\nopen FunModel FunModel.ErrShapes\n\n")
	t.genStackMethods(&b)
	t.genPush(&b)
	t.genAdd(&b)
	for _, m := range [][2]string{{"Resolve", "stackResolve"}, {"Len", "stackLen"}, {"Ok", "stackOk"}, {"Unwrap", "stackUnwrap"},
		{"Is", "stackIs"}, {"As", "stackAs"}} {
		b.WriteString(t.stackMethod(m[0], m[1]))
	}
	t.genJoin(&b)
	t.genUnwind(&b)
	t.genParsePanic(&b)
	t.genOk(&b)
	b.WriteString("/-! the functions the tables denote -/\n\n")
	b.WriteString("def push (acc : List Err) (e : Err) : List Err := runPush pushSwitch.select acc e\n")
	b.WriteString("def pushAll (acc : List Err) (es : ErrList) : List Err := runPushAll pushSwitch.select acc es\n")
	b.WriteString("def add (acc : List Err) (es : ErrList) : List Err := runAdd addBody pushSwitch.select acc es\n")
	b.WriteString("def join (es : ErrList) : Option (Option Err) := runJoin joinBody add stackResolve es\n")
	b.WriteString("def unwind (e : Err) : List Err := runUnwind unwindSwitch.select [] e\n")
	b.WriteString("def ok (e : Option Err) : Option Bool := runOk okSwitch.select stackOk e\n")
	b.WriteString("def parsePanic (r : Option Err) : Option (Option Err) := runPanic parsePanicSwitch.select join r\n\n")
	t.genWrap(&b)
	t.genHelpers(&b)
	b.WriteString("end FunGen.ErrShapes\n")
	return b.String()
}

// normalised syntax trees of the helpers, recorded from tychoish/fun at the pinned commit
// (GO2LEAN_ERRSHAPES_SKEL=1 go run . -repo /repo -out /tmp/x prints the current ones)
var esGolden = map[string]string{
	"internal.sparse":   "(FuncType (FieldList [(Field _ [v0] any _ _)]) (FieldList [(Field _ [v1] (ArrayType _ v0) _ _) (Field _ [v2] (ArrayType _ v0) _ _)]) (FieldList [(Field _ [] (ArrayType _ v0) _ _)]))(BlockStmt [(RangeStmt v3 _ := v2 (BlockStmt [(IfStmt _ (BinaryExpr (CallExpr any [(IndexExpr v2 v3)]) == nil) (BlockStmt [(BranchStmt continue _)]) _) (AssignStmt [v1] = [(CallExpr append [v1 (IndexExpr v2 v3)])])])) (AssignStmt [v4] := [(CallExpr make [(ArrayType _ v0) (CallExpr len [v1])])]) (ExprStmt (CallExpr copy [v4 v1])) (ReturnStmt [v4])])",
	"internal.buffer":   "(FuncType (FieldList [(Field _ [v0] any _ _)]) (FieldList [(Field _ [v1] (ArrayType _ v0) _ _) (Field _ [v2] (ArrayType _ v0) _ _)]) (FieldList [(Field _ [] (ArrayType _ v0) _ _) (Field _ [] (ArrayType _ v0) _ _)]))(BlockStmt [(AssignStmt [v1] = [(CallExpr grow [v1 (CallExpr len [v2])])]) (AssignStmt [v1] = [(SliceExpr v1 _ (BasicLit INT \"0\") _ false)]) (ReturnStmt [v1 v2])])",
	"internal.grow":     "(FuncType (FieldList [(Field _ [v0] any _ _)]) (FieldList [(Field _ [v1] (ArrayType _ v0) _ _) (Field _ [v2] int _ _)]) (FieldList [(Field _ [] (ArrayType _ v0) _ _)]))(BlockStmt [(DeclStmt (GenDecl _ var [(ValueSpec _ [v3] v0 [] _)])) (IfStmt _ (BinaryExpr v2 < (CallExpr cap [v1])) (BlockStmt [(AssignStmt [v1] = [(SliceExpr v1 _ v2 _ false)])]) (IfStmt _ (BinaryExpr (CallExpr cap [v1]) > (CallExpr len [v1])) (BlockStmt [(AssignStmt [v1] = [(SliceExpr v1 _ (CallExpr cap [v1]) _ false)])]) _)) (ForStmt _ (BinaryExpr (CallExpr len [v1]) < v2) _ (BlockStmt [(AssignStmt [v1] = [(CallExpr append [v1 v3])])])) (ReturnStmt [v1])])",
	"ers.Stack.Unwind":  "(FieldList [(Field _ [v0] (StarExpr Stack) _ _)])(FuncType _ (FieldList []) (FieldList [(Field _ [] (ArrayType _ error) _ _)]))(BlockStmt [(AssignStmt [v1] := [(CallExpr make [(ArrayType _ error) (BasicLit INT \"0\") (SelectorExpr v0 count)])]) (AssignStmt [v2] := [(UnaryExpr & (CompositeLit Stack [(KeyValueExpr next v0)] false))]) (ForStmt _ _ _ (BlockStmt [(IfStmt _ (BinaryExpr (BinaryExpr (SelectorExpr v2 next) == nil) || (BinaryExpr (SelectorExpr (SelectorExpr v2 next) err) == nil)) (BlockStmt [(BranchStmt break _)]) _) (AssignStmt [v2] = [(SelectorExpr v2 next)]) (AssignStmt [v1] = [(CallExpr append [v1 (SelectorExpr v2 err)])])])) (ReturnStmt [v1])])",
	"ers.Unwind":        "(FuncType _ (FieldList [(Field _ [v0] error _ _)]) (FieldList [(Field _ [] (ArrayType _ error) _ _)]))(BlockStmt [(ReturnStmt [(CallExpr (SelectorExpr internal Unwind) [v0])])])",
	"ers.Stack.Future":  "(FieldList [(Field _ [v0] (StarExpr Stack) _ _)])(FuncType _ (FieldList []) (FieldList [(Field _ [] (FuncType _ (FieldList []) (FieldList [(Field _ [] error _ _)])) _ _)]))(BlockStmt [(ReturnStmt [(SelectorExpr v0 Resolve)])])",
	"ers.Stack.Handler": "(FieldList [(Field _ [v0] (StarExpr Stack) _ _)])(FuncType _ (FieldList []) (FieldList [(Field _ [] (FuncType _ (FieldList [(Field _ [v1] error _ _)]) _) _ _)]))(BlockStmt [(ReturnStmt [(SelectorExpr v0 Push)])])",
	"ers.IsError":       "(FuncType _ (FieldList [(Field _ [v0] error _ _)]) (FieldList [(Field _ [] bool _ _)]))(BlockStmt [(ReturnStmt [(UnaryExpr ! (CallExpr Ok [v0]))])])",
}
