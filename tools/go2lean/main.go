// Command go2lean is the T-gen translator: it re-reads the pinned repository on every run and
// rewrites lean/FunGen/*.lean from the Go source (stdlib go/parser + go/ast only). A targeted
// function that uses a construct outside the supported subset makes the run fail loudly
// (non-zero exit, message naming file:line and the construct); nothing is ever skipped silently.
//
// Targets register themselves in `targets` (one file per target next to this one).
// Output files are rewritten only when their content changes, so `lake build` stays incremental.
package main

import (
	"flag"
	"fmt"
	"os"
	"path/filepath"
	"sort"
)

// a target reads files under repo and returns the Lean source of lean/FunGen/<name>.lean
type target struct {
	name string
	gen  func(repo string) (string, error)
}

var targets []target

func register(name string, gen func(repo string) (string, error)) {
	targets = append(targets, target{name, gen})
}

func writeIfChanged(path, content string) (bool, error) {
	if old, err := os.ReadFile(path); err == nil && string(old) == content {
		return false, nil
	}
	if err := os.MkdirAll(filepath.Dir(path), 0o755); err != nil {
		return false, err
	}
	return true, os.WriteFile(path, []byte(content), 0o644)
}

func main() {
	repo := flag.String("repo", "/repo", "root of the tychoish/fun working tree")
	out := flag.String("out", "", "directory of the generated Lean files (lean/FunGen)")
	flag.Parse()
	if *out == "" {
		fmt.Fprintln(os.Stderr, "go2lean: -out is required")
		os.Exit(2)
	}
	sort.Slice(targets, func(i, j int) bool { return targets[i].name < targets[j].name })
	failed := false
	for _, t := range targets {
		src, err := t.gen(*repo)
		if err != nil {
			fmt.Fprintf(os.Stderr, "go2lean: target %s: %v\n", t.name, err)
			failed = true
			continue
		}
		changed, err := writeIfChanged(filepath.Join(*out, t.name+".lean"), src)
		if err != nil {
			fmt.Fprintf(os.Stderr, "go2lean: target %s: %v\n", t.name, err)
			failed = true
			continue
		}
		if changed {
			fmt.Printf("go2lean: %s.lean rewritten\n", t.name)
		}
	}
	if failed {
		os.Exit(1)
	}
}
