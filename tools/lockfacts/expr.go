package main

import (
	"fmt"
	"go/ast"
	"go/token"
	"go/types"
	"sort"
	"strings"
)

func unparen(e ast.Expr) ast.Expr {
	for {
		p, ok := e.(*ast.ParenExpr)
		if !ok {
			return e
		}
		e = p.X
	}
}

func (w *walker) expr(e ast.Expr, mode string) *aval { return w.exprNamed(e, mode, "") }

// exprNamed evaluates an expression: records the access sites in it and returns its abstract
// value (a lock, a once, function values, a pointer into guarded state). `hint` names fresh
// mutexes / onces after the variable they are assigned to.
func (w *walker) exprNamed(e ast.Expr, mode, hint string) *aval {
	switch x := e.(type) {
	case nil:
		return nil
	case *ast.ParenExpr:
		return w.exprNamed(x.X, mode, hint)
	case *ast.Ident:
		obj := w.info.Uses[x]
		if obj == nil {
			obj = w.info.Defs[x]
		}
		switch o := obj.(type) {
		case *types.Var:
			w.varUse(x, o, mode)
			return w.n.env.get(o)
		case *types.Func:
			return &aval{funcs: []*funcVal{{fn: o.Origin()}}}
		case *types.Nil:
			return &aval{isNil: true}
		}
		return nil
	case *ast.BasicLit:
		return nil
	case *ast.SelectorExpr:
		return w.selector(x, mode)
	case *ast.CallExpr:
		p := w.prepCall(x, false)
		return w.runCall(p)
	case *ast.FuncLit:
		n := w.d.litNode(w.n, x)
		w.noteCaptures(x)
		w.d.analyze(n)
		return &aval{funcs: []*funcVal{{lit: n}}}
	case *ast.UnaryExpr:
		if x.Op == token.AND {
			return w.addrOf(x.X, hint)
		}
		return w.expr(x.X, "rd")
	case *ast.StarExpr:
		return w.expr(x.X, "rd")
	case *ast.BinaryExpr:
		vx := w.expr(x.X, "rd")
		vy := w.expr(x.Y, "rd")
		if k := w.nilCompare(x.Op, x.Pos(), vx, vy); k != 0 {
			return &aval{known: k}
		}
		return nil
	case *ast.IndexExpr:
		if tv, ok := w.info.Types[x.X]; ok && (tv.IsType() || isGenericFunc(tv.Type)) {
			return w.exprNamed(x.X, mode, hint)
		}
		w.expr(x.X, "rd")
		w.expr(x.Index, "rd")
		w.contents(x.X, mode, x.Pos())
		return nil
	case *ast.IndexListExpr:
		return w.exprNamed(x.X, mode, hint)
	case *ast.SliceExpr:
		w.expr(x.X, "rd")
		w.expr(x.Low, "rd")
		w.expr(x.High, "rd")
		w.expr(x.Max, "rd")
		w.contents(x.X, "rd", x.Pos())
		return nil
	case *ast.TypeAssertExpr:
		return w.expr(x.X, "rd")
	case *ast.KeyValueExpr:
		w.expr(x.Key, "rd")
		return w.expr(x.Value, "rd")
	case *ast.CompositeLit:
		return w.composite(x, hint)
	case *ast.FuncType, *ast.ArrayType, *ast.MapType, *ast.ChanType, *ast.StructType, *ast.InterfaceType, *ast.Ellipsis:
		return nil
	}
	w.d.unknown(w.n, e.Pos(), fmt.Sprintf("expression %T not understood", e))
	return nil
}

func isGenericFunc(t types.Type) bool {
	s, ok := t.(*types.Signature)
	return ok && s.TypeParams() != nil && s.TypeParams().Len() > 0
}

func (w *walker) composite(x *ast.CompositeLit, hint string) *aval {
	tv := w.info.Types[x]
	t := tv.Type
	switch syncKind(derefType(t)) {
	case "mutex":
		return &aval{lock: &lockRef{name: w.freshName(hint, x.Pos()), param: -1}}
	case "once":
		return &aval{once: w.freshName(hint, x.Pos())}
	}
	var h *holder
	if nt := derefNamed(t); nt != nil && inModule(nt.Obj().Pkg()) {
		if _, isStruct := nt.Underlying().(*types.Struct); isStruct {
			h = &holder{typ: typeKey(nt), fields: map[string]*aval{}, where: map[string]string{}}
		}
	}
	for _, el := range x.Elts {
		val := el
		key := ""
		if kv, ok := el.(*ast.KeyValueExpr); ok {
			val = kv.Value
			if id, ok := kv.Key.(*ast.Ident); ok {
				key = id.Name
			}
		}
		v := w.expr(val, "rd")
		if v != nil && (len(v.funcs) > 0 || v.ptrTo != "" || v.holder != nil) {
			if h != nil && key != "" {
				h.fields[key] = merge(h.fields[key], v)
				h.where[key] = w.where(val.Pos())
				continue
			}
			w.escape(&aval{funcs: v.funcs, ptrTo: v.ptrTo, ptrTy: v.ptrTy, holder: v.holder, hprefix: v.hprefix}, "stored in a composite literal at "+w.where(val.Pos()), val.Pos())
		}
	}
	if h != nil && len(h.fields) > 0 {
		return &aval{holder: h}
	}
	return nil
}

// holderOf resolves an expression to a tracked struct value (no sites are recorded)
func (w *walker) holderOf(e ast.Expr) (*holder, string) {
	switch x := unparen(e).(type) {
	case *ast.Ident:
		if obj := w.info.Uses[x]; obj != nil {
			if v := w.n.env.get(obj); v != nil && v.holder != nil {
				return v.holder, v.hprefix
			}
		}
	case *ast.SelectorExpr:
		if h, pre := w.holderOf(x.X); h != nil {
			return h, pre + x.Sel.Name + "."
		}
	case *ast.StarExpr:
		return w.holderOf(x.X)
	case *ast.UnaryExpr:
		if x.Op == token.AND {
			return w.holderOf(x.X)
		}
	}
	return nil, ""
}

func (w *walker) freshName(hint string, pos token.Pos) string {
	root := baseKey(w.n.declRoot().Key)
	if hint != "" {
		return root + "$" + hint
	}
	return root + "$fresh"
}

func (w *walker) addrOf(e ast.Expr, hint string) *aval {
	e = unparen(e)
	switch x := e.(type) {
	case *ast.CompositeLit:
		return w.composite(x, hint)
	case *ast.SelectorExpr:
		if sel, ok := w.info.Selections[x]; ok && sel.Kind() == types.FieldVal {
			v := w.selector(x, "addr")
			if v != nil && (v.lock != nil || v.once != "") {
				return v
			}
			fld := sel.Obj().(*types.Var)
			if owner := derefNamed(sel.Recv()); owner != nil && inModule(owner.Obj().Pkg()) {
				if nt := derefNamed(fld.Type()); nt != nil && inModule(nt.Obj().Pkg()) {
					if _, isStruct := nt.Underlying().(*types.Struct); isStruct {
						if _, isPtr := types.Unalias(fld.Type()).(*types.Pointer); !isPtr {
							return &aval{ptrTo: typeKey(owner) + "." + fld.Name(), ptrTy: nt}
						}
					}
				}
			}
			return v
		}
		return w.expr(x, "rd")
	case *ast.Ident:
		obj := w.info.Uses[x]
		if v, ok := obj.(*types.Var); ok {
			w.varUse(x, v, "rd")
			return w.n.env.get(v)
		}
		return nil
	case *ast.IndexExpr:
		w.expr(x.X, "rd")
		w.expr(x.Index, "rd")
		w.contents(x.X, "wr", x.Pos())
		return nil
	}
	return w.expr(e, "rd")
}

// isForeignBase: the base of an access / call is a *parameter* (not the receiver) whose type is the
// receiver's own type: a second instance, whose mutex is not the one this method holds.
func (w *walker) isForeignBase(e ast.Expr) bool {
	id, ok := unparen(e).(*ast.Ident)
	if !ok {
		return false
	}
	v, ok := w.info.Uses[id].(*types.Var)
	if !ok {
		return false
	}
	root := w.n.declRoot()
	if root.recvVar == nil || v == root.recvVar {
		return false
	}
	isParam := false
	for _, p := range root.params {
		if p == v {
			isParam = true
		}
	}
	if !isParam {
		return false
	}
	rt, vt := derefNamed(root.recvVar.Type()), derefNamed(v.Type())
	if rt == nil || vt == nil {
		return false
	}
	return rt.Origin() == vt.Origin() && w.d.rootTypes[typeKey(rt)]
}

// isLocalCopy: base is a local variable / parameter / value receiver holding a struct by value
func (w *walker) isLocalCopy(e ast.Expr) bool {
	id, ok := unparen(e).(*ast.Ident)
	if !ok {
		return false
	}
	v, ok := w.info.Uses[id].(*types.Var)
	if !ok || v.IsField() {
		return false
	}
	t := types.Unalias(v.Type())
	if _, isPtr := t.(*types.Pointer); isPtr {
		return false
	}
	if _, isStruct := t.Underlying().(*types.Struct); !isStruct {
		return false
	}
	return v.Parent() != nil && v.Parent() != v.Pkg().Scope()
}

func (w *walker) selector(x *ast.SelectorExpr, mode string) *aval {
	sel, ok := w.info.Selections[x]
	if !ok {
		// qualified identifier pkg.Name
		switch o := w.info.Uses[x.Sel].(type) {
		case *types.Func:
			return &aval{funcs: []*funcVal{{fn: o.Origin()}}}
		}
		return nil
	}
	switch sel.Kind() {
	case types.MethodVal:
		fn := sel.Obj().(*types.Func).Origin()
		recvMode := "rd"
		if sig, ok := fn.Type().(*types.Signature); ok && sig.Recv() != nil {
			if _, isPtr := types.Unalias(sig.Recv().Type()).(*types.Pointer); isPtr {
				recvMode = "recvptr"
			}
		}
		rv := w.expr(x.X, recvMode)
		fv := &funcVal{fn: fn, foreign: w.isForeignBase(x.X), recv: rv}
		out := &aval{funcs: []*funcVal{fv}}
		// method values of sync primitives keep the lock identity (m.Lock passed to a helper)
		if rv != nil && rv.lock != nil && (fn.Name() == "Lock" || fn.Name() == "Unlock") && fn.Pkg() != nil && fn.Pkg().Path() == "sync" {
			out.lock = rv.lock
		}
		if rv != nil && len(rv.funcs) > 0 && isFuncType(w.info.Types[x.X].Type) {
			// method value on a function-typed value (wf.Background): the receiver function escapes
			w.escape(&aval{funcs: rv.funcs}, "receiver of method value "+fn.Name()+" at "+w.where(x.Pos()), x.Pos())
		}
		return out
	case types.FieldVal:
		w.expr(x.X, "rd")
		if h, pre := w.holderOf(x.X); h != nil {
			k := pre + x.Sel.Name
			if fv, ok := h.fields[k]; ok {
				return fv
			}
			for fk := range h.fields {
				if strings.HasPrefix(fk, k+".") {
					return &aval{holder: h, hprefix: k + "."}
				}
			}
		}
		fld := sel.Obj().(*types.Var).Origin()
		owner := derefNamed(sel.Recv())
		if len(sel.Index()) > 1 {
			// promoted field through embedding: find the declaring struct
			owner = nil
			t := sel.Recv()
			for _, i := range sel.Index()[:len(sel.Index())-1] {
				st, ok := derefType(t).Underlying().(*types.Struct)
				if !ok {
					break
				}
				t = st.Field(i).Type()
			}
			owner = derefNamed(t)
		}
		ftype := fld.Type()
		_, isPtr := types.Unalias(ftype).(*types.Pointer)
		sk := syncKind(derefType(ftype))
		var val *aval
		loc := ""
		if owner != nil && inModule(owner.Obj().Pkg()) {
			loc = typeKey(owner) + "." + fld.Name()
		} else if owner == nil {
			// field of an anonymous struct type: name it by the path of the base expression
			if bs, ok := unparen(x.X).(*ast.SelectorExpr); ok {
				if bsel, ok := w.info.Selections[bs]; ok && bsel.Kind() == types.FieldVal {
					if bo := derefNamed(bsel.Recv()); bo != nil && inModule(bo.Obj().Pkg()) {
						loc = typeKey(bo) + "." + bs.Sel.Name + "." + fld.Name()
					}
				}
			}
		}
		switch sk {
		case "mutex":
			if loc != "" {
				val = &aval{lock: &lockRef{name: loc, param: -1}}
			}
		case "once":
			if loc != "" {
				val = &aval{once: loc}
			}
		}
		if loc == "" {
			return val
		}
		if w.isLocalCopy(x.X) {
			return val
		}
		foreign := w.isForeignBase(x.X)
		switch {
		case (sk == "mutex" || sk == "once") && !isPtr:
			// the primitive itself: operations on it are the synchronisation, not data accesses
			return val
		case sk == "sync" && !isPtr:
			w.addSite(x.Sel.Pos(), loc, "atomic", foreign, "operation on an embedded "+types.TypeString(ftype, shortQual))
			return val
		}
		if nt := derefNamed(ftype); nt != nil && !isPtr && inModule(nt.Obj().Pkg()) && (mode == "recvptr" || mode == "addr") {
			if _, isStruct := nt.Underlying().(*types.Struct); isStruct {
				if dn := w.d.a.allRoots[typeKey(nt)]; dn != "" && dn != w.d.cfg.Name {
					w.addSite(x.Sel.Pos(), loc, "atomic", foreign, "method call on an embedded "+typeKey(nt)+" (concurrency-safe type of its own)")
				}
				// otherwise: the callee's accesses to the embedded struct's fields are the sites
				return val
			}
		}
		kind := "rd"
		if mode == "wr" {
			kind = "wr"
		}
		w.addSite(x.Sel.Pos(), loc, kind, foreign, "")
		return val
	}
	return nil
}

func shortQual(p *types.Package) string { return p.Name() }

// contents: access to the elements of a map / slice held in a tracked place
func (w *walker) contents(base ast.Expr, mode string, pos token.Pos) {
	base = unparen(base)
	tv, ok := w.info.Types[base]
	if !ok {
		return
	}
	switch tv.Type.Underlying().(type) {
	case *types.Map, *types.Slice:
	default:
		return
	}
	kind := "rd"
	if mode == "wr" {
		kind = "wr"
	}
	if nt, ok := types.Unalias(tv.Type).(*types.Named); ok && inModule(nt.Obj().Pkg()) {
		// a named map/slice type of the module (dt.Map, dt.Slice): type-based location
		if id, ok := base.(*ast.Ident); ok {
			if v, ok := w.info.Uses[id].(*types.Var); ok && !v.IsField() && !w.isRecvOrParam(v) {
				w.varContents(id, v, kind, pos)
				return
			}
		}
		w.addSite(pos, typeKey(nt)+"[]", kind, w.isForeignBase(base), "")
		return
	}
	switch b := base.(type) {
	case *ast.SelectorExpr:
		if sel, ok := w.info.Selections[b]; ok && sel.Kind() == types.FieldVal {
			if owner := derefNamed(sel.Recv()); owner != nil && inModule(owner.Obj().Pkg()) && !w.isLocalCopy(b.X) {
				w.addSite(pos, typeKey(owner)+"."+b.Sel.Name+"[]", kind, w.isForeignBase(b.X), "")
			}
		}
	case *ast.Ident:
		if v, ok := w.info.Uses[b].(*types.Var); ok && !v.IsField() {
			w.varContents(b, v, kind, pos)
		}
	}
}

func (w *walker) isRecvOrParam(v *types.Var) bool {
	for x := w.n; x != nil; x = x.parent {
		if x.recvVar == v {
			return true
		}
		for _, p := range x.params {
			if p == v {
				return true
			}
		}
	}
	return false
}

// ---- captured variables -------------------------------------------------------------------------

func (w *walker) declaringNode(v types.Object) *fnNode {
	for x := w.n; x != nil; x = x.parent {
		if x.declared[v] {
			return x
		}
	}
	return nil
}

func (w *walker) varUse(id *ast.Ident, v *types.Var, mode string) {
	if v.IsField() || v.Pkg() == nil || v.Parent() == v.Pkg().Scope() {
		return
	}
	dn := w.declaringNode(v)
	if dn == nil {
		return
	}
	kind := "rd"
	if mode == "wr" {
		kind = "wr"
	}
	w.n.Sites = append(w.n.Sites, site{Where: w.where(id.Pos()), Loc: baseKey(dn.Key) + "$" + v.Name(), Kind: kind,
		Held: toks(w.held), Lost: w.lostNow(), pos: id.Pos(), varObj: v})
}

func (w *walker) varContents(id *ast.Ident, v *types.Var, kind string, pos token.Pos) {
	dn := w.declaringNode(v)
	if dn == nil {
		return
	}
	w.n.Sites = append(w.n.Sites, site{Where: w.where(pos), Loc: baseKey(dn.Key) + "$" + v.Name() + "[]", Kind: kind,
		Held: toks(w.held), Lost: w.lostNow(), pos: pos, varObj: v})
}

// noteCaptures records, for every variable of an enclosing function that the literal mentions,
// the position of the first literal capturing it (accesses before that are not shared yet).
func (w *walker) noteCaptures(lit *ast.FuncLit) {
	ast.Inspect(lit.Body, func(m ast.Node) bool {
		id, ok := m.(*ast.Ident)
		if !ok {
			return true
		}
		v, ok := w.info.Uses[id].(*types.Var)
		if !ok || v.IsField() {
			return true
		}
		if dn := w.declaringNode(v); dn != nil {
			if p, ok := dn.firstCapture[v]; !ok || lit.Pos() < p {
				dn.firstCapture[v] = lit.Pos()
			}
		}
		return true
	})
}

// ---- calls ----------------------------------------------------------------------------------------

type prepared struct {
	ce          *ast.CallExpr
	kind        string // builtin | conv | func | method | value | unknown
	builtin     string
	fn          *types.Func
	recvExpr    ast.Expr
	recv        *aval
	recvForeign bool
	args        []*aval
	calleeFuncs []*funcVal
	pos         token.Pos
	deferred    bool
}

func (w *walker) prepCall(ce *ast.CallExpr, deferredCall bool) *prepared {
	p := &prepared{ce: ce, pos: ce.Pos(), kind: "unknown", deferred: deferredCall}
	fun := unparen(ce.Fun)
	for {
		if ix, ok := fun.(*ast.IndexExpr); ok {
			if tv, ok := w.info.Types[ix.X]; ok && (tv.IsType() || isGenericFunc(tv.Type)) {
				fun = unparen(ix.X)
				if tv.IsType() {
					fun = ix
					break
				}
				continue
			}
		}
		if ix, ok := fun.(*ast.IndexListExpr); ok {
			fun = unparen(ix.X)
			continue
		}
		break
	}
	if tv, ok := w.info.Types[fun]; ok && tv.IsType() {
		p.kind = "conv"
	} else {
		switch f := fun.(type) {
		case *ast.Ident:
			switch o := w.info.Uses[f].(type) {
			case *types.Builtin:
				p.kind, p.builtin = "builtin", o.Name()
			case *types.Func:
				p.kind, p.fn = "func", o.Origin()
			case *types.Var:
				p.kind = "value"
				w.varUse(f, o, "rd")
				if v := w.n.env.get(o); v != nil {
					p.calleeFuncs = v.funcs
				}
			}
		case *ast.SelectorExpr:
			if sel, ok := w.info.Selections[f]; ok {
				switch sel.Kind() {
				case types.MethodVal:
					p.kind, p.fn, p.recvExpr = "method", sel.Obj().(*types.Func).Origin(), f.X
					recvMode := "rd"
					if sig, ok := p.fn.Type().(*types.Signature); ok && sig.Recv() != nil {
						if _, isPtr := types.Unalias(sig.Recv().Type()).(*types.Pointer); isPtr {
							recvMode = "recvptr"
						}
					}
					p.recv = w.expr(f.X, recvMode)
					p.recvForeign = w.isForeignBase(f.X)
				case types.FieldVal:
					p.kind = "value"
					if v := w.selector(f, "rd"); v != nil {
						p.calleeFuncs = v.funcs
					}
				}
			} else {
				switch o := w.info.Uses[f.Sel].(type) {
				case *types.Func:
					p.kind, p.fn = "func", o.Origin()
				case *types.Var:
					p.kind = "value"
				}
			}
		case *ast.FuncLit:
			p.kind = "value"
			n := w.d.litNode(w.n, f)
			w.noteCaptures(f)
			if !deferredCall {
				w.d.analyze(n)
			}
			p.calleeFuncs = []*funcVal{{lit: n}}
		default:
			p.kind = "value"
			if v := w.expr(fun, "rd"); v != nil {
				p.calleeFuncs = v.funcs
			}
		}
	}
	for _, a := range ce.Args {
		p.args = append(p.args, w.expr(a, "rd"))
	}
	return p
}

// releasesOf: the lock tokens a (deferred) call will release when it runs
func (w *walker) releasesOf(p *prepared) []tok {
	if p.fn == nil {
		return nil
	}
	if p.fn.Pkg() != nil && p.fn.Pkg().Path() == "sync" && (p.fn.Name() == "Unlock" || p.fn.Name() == "RUnlock") {
		if p.recv != nil && p.recv.lock != nil {
			return []tok{tok("mu:" + p.recv.lock.name)}
		}
		return nil
	}
	if !inModule(p.fn.Pkg()) {
		return nil
	}
	var out []tok
	for _, t := range w.targets(p.fn, p) {
		n := w.d.declNode(t, "")
		if n == nil {
			continue
		}
		w.d.analyze(n)
		for _, r := range n.netRel {
			if t2, _, _, ok := w.instantiate(r, p, n); ok {
				out = append(out, t2)
			}
		}
	}
	return out
}

// instantiate: a token of the callee's summary, seen from the call site. Tokens relative to a
// parameter of the callee are replaced by the argument's lock; tokens relative to a parameter of
// some outer node (a clone chain passing a lock through) stay as they are.
func (w *walker) instantiate(h heldTok, p *prepared, callee *fnNode) (tok, int, *fnNode, bool) {
	if h.param == -1 || h.of != callee {
		return h.t, h.param, h.of, true
	}
	var v *aval
	if h.param == -2 {
		v = p.recv
	} else if h.param >= 0 && h.param < len(p.args) {
		v = p.args[h.param]
	}
	if v == nil || v.lock == nil {
		return "", -1, nil, false
	}
	return tok("mu:" + v.lock.name), v.lock.param, v.lock.of, true
}

func (w *walker) instLock(l *lockRef, p *prepared, callee *fnNode) *lockRef {
	if l == nil || l.param == -1 || l.of != callee {
		return l
	}
	var v *aval
	if l.param == -2 {
		v = p.recv
	} else if l.param >= 0 && l.param < len(p.args) {
		v = p.args[l.param]
	}
	if v == nil {
		return nil
	}
	return v.lock
}

// targets: the declared functions a static callee may denote (interface method: every
// implementation declared in the module's loaded packages)
func (w *walker) targets(fn *types.Func, p *prepared) []*types.Func {
	sig := fn.Type().(*types.Signature)
	if sig.Recv() != nil {
		if it, ok := sig.Recv().Type().Underlying().(*types.Interface); ok && inModule(fn.Pkg()) {
			var out []*types.Func
			for _, pk := range w.d.a.l.pkgs {
				if pk == nil {
					continue
				}
				sc := pk.pkg.Scope()
				for _, nm := range sc.Names() {
					tn, ok := sc.Lookup(nm).(*types.TypeName)
					if !ok {
						continue
					}
					nt, ok := tn.Type().(*types.Named)
					if !ok || nt.TypeParams().Len() > 0 {
						continue
					}
					if _, isIface := nt.Underlying().(*types.Interface); isIface {
						continue
					}
					if types.Implements(types.NewPointer(nt), it) || types.Implements(nt, it) {
						if o, _, _ := types.LookupFieldOrMethod(types.NewPointer(nt), true, fn.Pkg(), fn.Name()); o != nil {
							if mf, ok := o.(*types.Func); ok {
								out = append(out, mf.Origin())
							}
						}
					}
				}
			}
			return out
		}
	}
	return []*types.Func{fn}
}

func (w *walker) runCall(p *prepared) *aval {
	switch p.kind {
	case "builtin":
		switch p.builtin {
		case "len", "cap":
			if len(p.ce.Args) > 0 {
				w.contents(p.ce.Args[0], "rd", p.pos)
			}
		case "delete", "clear":
			if len(p.ce.Args) > 0 {
				w.contents(p.ce.Args[0], "wr", p.pos)
			}
		case "append":
			if len(p.ce.Args) > 0 {
				w.contents(p.ce.Args[0], "rd", p.pos)
			}
		case "copy":
			if len(p.ce.Args) > 1 {
				w.contents(p.ce.Args[0], "wr", p.pos)
				w.contents(p.ce.Args[1], "rd", p.pos)
			}
		}
		return nil
	case "conv":
		if len(p.args) == 1 {
			return p.args[0]
		}
		return nil
	case "value":
		var out *aval
		for _, fv := range p.calleeFuncs {
			out = merge(out, w.invoke(fv, p, nil))
		}
		if len(p.calleeFuncs) == 0 {
			// call of an unknown function value: its function-typed arguments are out of our hands
			for _, a := range p.args {
				w.escape(a, "argument of a call through an unknown function value at "+w.where(p.pos), p.pos)
			}
		}
		return out
	case "func", "method":
		out := w.callFn(p.fn, p, nil)
		// a method of a field that returns a mutex (s.mtx.Get() on an atomic holder of *sync.Mutex):
		// the mutex is named after the field that holds it
		if (out == nil || out.lock == nil) && p.recvExpr != nil {
			if tv, ok := w.info.Types[p.ce]; ok && syncKind(derefType(tv.Type)) == "mutex" {
				if sx, ok := unparen(p.recvExpr).(*ast.SelectorExpr); ok {
					if sel, ok := w.info.Selections[sx]; ok && sel.Kind() == types.FieldVal {
						if owner := derefNamed(sel.Recv()); owner != nil && inModule(owner.Obj().Pkg()) {
							out = merge(out, &aval{lock: &lockRef{name: typeKey(owner) + "." + sx.Sel.Name, param: -1}})
						}
					}
				}
			}
		}
		return out
	}
	for _, a := range p.args {
		w.escape(a, "argument of an unresolved call at "+w.where(p.pos), p.pos)
	}
	w.escape(p.recv, "receiver of an unresolved call at "+w.where(p.pos), p.pos)
	return nil
}

// invoke: call of a function *value* in place, with `extra` tokens held around the invocation
func (w *walker) invoke(fv *funcVal, p *prepared, extra []tok) *aval {
	at := w.where(p.pos)
	switch {
	case fv.lit != nil:
		n := fv.lit
		w.d.analyze(n)
		w.n.Calls = append(w.n.Calls, edge{Where: at, Callee: n, Held: append(toks(w.held), extra...), Lost: w.lostNow()})
		for _, h := range n.netAcq {
			w.acquire(h.t, h.param, h.of)
		}
		for _, r := range n.netRel {
			w.release(r.t, p.pos, r.param, r.of)
		}
		// function-typed arguments bound to parameters the closure invokes in place
		w.bindParamCalls(n, p, extra)
		var out *aval
		if len(n.results) > 0 {
			out = n.results[0]
		}
		return out
	case fv.fn != nil:
		q := *p
		q.recvForeign = fv.foreign
		q.recv = fv.recv
		q.recvExpr = nil
		return w.callFn(fv.fn, &q, extra)
	case fv.opaque != nil:
		// a function supplied by the client
		if w.d.cfg.WrappedCalls {
			loc := baseKey(fv.opNode.Key) + "$" + fv.opaque.Name() + "()"
			w.n.Sites = append(w.n.Sites, site{Where: at, Loc: loc, Kind: "wr", Held: append(toks(w.held), extra...), Lost: w.lostNow(), pos: p.pos,
				Note: "call of the wrapped (client supplied) function"})
		}
		if fv.opNode == w.n {
			w.n.paramCalls = append(w.n.paramCalls, paramCall{v: fv.opaque, held: append(toks(w.held), extra...)})
		} else if len(p.args) > 0 {
			for _, a := range p.args {
				w.escape(a, "argument of a client supplied function at "+at, p.pos)
			}
		}
		return nil
	}
	return nil
}

type paramCall struct {
	v    *types.Var
	held []tok
}

// bindParamCalls: closure n was invoked with arguments p.args; where n calls one of its own
// function-typed parameters in place, the argument bound to it runs there.
func (w *walker) bindParamCalls(n *fnNode, p *prepared, extra []tok) {
	for i, a := range p.args {
		if a == nil || len(a.funcs) == 0 {
			continue
		}
		var pv *types.Var
		if i < len(n.params) {
			pv = n.params[i]
		}
		bound := false
		for _, pc := range n.paramCalls {
			if pc.v == pv && pv != nil {
				bound = true
				for _, fv := range a.funcs {
					q := &prepared{ce: p.ce, pos: p.pos, kind: "value"}
					saved := w.held
					w.invokeWith(fv, q, append(append([]tok{}, extra...), pc.held...))
					w.held = saved
				}
			}
		}
		if !bound {
			w.escape(a, "argument of a closure call at "+w.where(p.pos), p.pos)
		}
	}
}

func (w *walker) invokeWith(fv *funcVal, q *prepared, extra []tok) { w.invoke(fv, q, extra) }

func hasVal(v *aval) bool { return !v.empty() }

// callFn: static call of a declared function / method
func (w *walker) callFn(fn *types.Func, p *prepared, extra []tok) *aval {
	at := w.where(p.pos)
	pkgPath := ""
	if fn.Pkg() != nil {
		pkgPath = fn.Pkg().Path()
	}
	// ---- synchronisation primitives
	if pkgPath == "sync/atomic" && p.recvExpr != nil {
		if ln := w.latchName(p.recvExpr); ln != "" {
			kind := "atomic"
			if fn.Name() == "Store" || fn.Name() == "Swap" || fn.Name() == "Add" {
				kind = "latchset"
			}
			if fn.Name() == "CompareAndSwap" && len(p.ce.Args) == 2 && types.ExprString(p.ce.Args[0]) != types.ExprString(p.ce.Args[1]) {
				kind = "latchset"
			}
			w.n.Sites = append(w.n.Sites, site{Where: at, Loc: ln, Kind: kind, Held: append(toks(w.held), extra...), Lost: w.lostNow(), pos: p.pos,
				Note: "operation on the publication flag " + ln})
		}
	}
	if pkgPath == "sync" || pkgPath == "sync/atomic" {
		recvName := ""
		if sig := fn.Type().(*types.Signature); sig.Recv() != nil {
			if nt := derefNamed(sig.Recv().Type()); nt != nil {
				recvName = nt.Obj().Name()
			}
		}
		switch {
		case (recvName == "Mutex" || recvName == "RWMutex" || recvName == "Locker") && (fn.Name() == "Lock" || fn.Name() == "Unlock"):
			if p.recv == nil || p.recv.lock == nil {
				w.d.unknown(w.n, p.pos, "lock expression not understood: "+exprString(p.recvExpr))
				return nil
			}
			t := tok("mu:" + p.recv.lock.name)
			if fn.Name() == "Lock" {
				w.acquire(t, p.recv.lock.param, p.recv.lock.of)
			} else {
				w.release(t, p.pos, p.recv.lock.param, p.recv.lock.of)
			}
			return nil
		case recvName == "RWMutex" || fn.Name() == "TryLock":
			w.d.unknown(w.n, p.pos, "RWMutex read locks / TryLock are not modelled")
			return nil
		case recvName == "Once" && fn.Name() == "Do":
			if p.recv == nil || p.recv.once == "" {
				w.d.unknown(w.n, p.pos, "sync.Once expression not understood: "+exprString(p.recvExpr))
				return nil
			}
			in := tok("in:" + p.recv.once)
			if len(p.args) == 1 && p.args[0] != nil {
				for _, fv := range p.args[0].funcs {
					saved := copyHeld(w.held)
					w.invoke(fv, &prepared{ce: p.ce, pos: p.pos, kind: "value"}, append(append([]tok{}, extra...), in))
					w.held = saved
				}
			}
			w.acquire(tok("after:"+p.recv.once), -1, nil)
			return nil
		case recvName == "Map" && fn.Name() == "Range":
			if len(p.args) == 1 && p.args[0] != nil {
				for _, fv := range p.args[0].funcs {
					w.invoke(fv, &prepared{ce: p.ce, pos: p.pos, kind: "value"}, extra)
				}
			}
			return nil
		}
		return nil
	}
	if !inModule(fn.Pkg()) {
		switch pkgPath {
		case "sort", "slices", "strings", "bytes", "maps":
			// these packages call their function arguments before returning and never retain them
			for _, a := range p.args {
				if a != nil {
					for _, fv := range a.funcs {
						saved := copyHeld(w.held)
						w.invoke(fv, &prepared{ce: p.ce, pos: p.pos, kind: "value"}, extra)
						w.held = saved
					}
				}
			}
			return nil
		}
		for _, a := range p.args {
			w.escape(a, "passed to "+funcKeySafe(fn)+" at "+at, p.pos)
		}
		return nil
	}
	var out *aval
	for _, t := range w.targets(fn, p) {
		out = merge(out, w.callTarget(t, p, extra))
	}
	return out
}

func funcKeySafe(fn *types.Func) string {
	defer func() { _ = recover() }()
	return funcKey(fn)
}

func exprString(e ast.Expr) string {
	if e == nil {
		return "<nil>"
	}
	return types.ExprString(e)
}

func (w *walker) callTarget(t *types.Func, p *prepared, extra []tok) *aval {
	d := w.d
	at := w.where(p.pos)
	key := funcKey(t)
	// another domain's public entry point: this domain is a client there
	if od := d.a.rootTypeDomainOf(t); od != "" && od != d.cfg.Name {
		for _, a := range p.args {
			w.escape(a, "passed to "+key+" at "+at, p.pos)
		}
		if p.recv != nil && (len(p.recv.funcs) > 0 || p.recv.holder != nil) {
			w.escape(&aval{funcs: p.recv.funcs, holder: p.recv.holder}, "receiver of "+key+" at "+at, p.pos)
		}
		return nil
	}
	anyVal, anyFunc := hasVal(p.recv), p.recv != nil && (len(p.recv.funcs) > 0 || p.recv.holder != nil)
	for _, a := range p.args {
		if hasVal(a) {
			anyVal = true
		}
		if a != nil && (len(a.funcs) > 0 || a.holder != nil) {
			anyFunc = true
		}
	}
	pk := ""
	if t.Pkg() != nil {
		pk = t.Pkg().Name()
	}
	returnsInteresting := false
	if sig, ok := t.Type().(*types.Signature); ok {
		for i := 0; i < sig.Results().Len(); i++ {
			rt := sig.Results().At(i).Type()
			if isFuncType(rt) || syncKind(derefType(rt)) != "" {
				returnsInteresting = true
			}
		}
	}
	if !d.home[pk] && !anyVal {
		return nil // foreign code that receives nothing of ours
	}
	if d.ctors[key] && !w.n.isCtor && !w.n.ctorPhase {
		return nil // a constructor called from a method builds a fresh, unshared object
	}
	cloneAt := ""
	if anyFunc || (returnsInteresting && !d.home[pk]) {
		cloneAt = at
		// a clone called from a clone: keep the chain's first call site in the key, so that two
		// chains through the same generic helper do not share a node
		if root := w.n.declRoot(); root.chain != "" {
			cloneAt = at + "~" + root.chain
		}
	}
	if w.n.depth > 14 {
		d.unknown(w.n, p.pos, "call chain too deep while following "+key)
		return nil
	}
	n := d.declNode(t, cloneAt)
	if n == nil {
		// no body (interface, assembly): function-typed arguments are out of our hands
		for _, a := range p.args {
			w.escape(a, "passed to "+key+" (no body) at "+at, p.pos)
		}
		w.escape(p.recv, "receiver of "+key+" (no body) at "+at, p.pos)
		return nil
	}
	if cloneAt != "" && !n.analyzed && !n.analyzing {
		n.depth = w.n.depth + 1
		if root := w.n.declRoot(); root.chain != "" {
			n.chain = root.chain
		} else {
			n.chain = at
		}
		for i, a := range p.args {
			if i < len(n.params) && hasVal(a) {
				n.env.vars[n.params[i]] = a
			} else if i >= len(n.params) && len(n.params) > 0 && hasVal(a) {
				w.escape(a, "variadic argument of "+key+" at "+at, p.pos)
			}
		}
		if n.recvVar != nil && hasVal(p.recv) {
			n.env.vars[n.recvVar] = p.recv
		}
	} else if cloneAt == "" {
		for _, a := range p.args {
			if a != nil && (len(a.funcs) > 0 || a.holder != nil) {
				w.escape(a, "passed to "+key+" at "+at, p.pos)
			}
		}
	}
	d.analyze(n)
	w.n.Calls = append(w.n.Calls, edge{Where: at, Callee: n, Held: append(toks(w.held), extra...), Lost: w.lostNow(), Foreign: p.recvForeign})
	if n.analyzing {
		return nil // recursion: no summary yet (the repository's recursive helpers are lock-neutral)
	}
	for _, r := range n.netRel {
		if t2, par, of, ok := w.instantiate(r, p, n); ok {
			if !p.deferred {
				w.release(t2, p.pos, par, of)
			}
		} else {
			d.unknown(w.n, p.pos, "cannot tell which lock "+key+" releases here")
		}
	}
	for _, h := range n.netAcq {
		if t2, par, of, ok := w.instantiate(h, p, n); ok {
			w.acquire(t2, par, of)
		} else {
			d.unknown(w.n, p.pos, "cannot tell which lock "+key+" acquires here")
		}
	}
	var out *aval
	if len(n.results) > 0 && n.results[0] != nil {
		r := n.results[0]
		out = &aval{once: r.once, funcs: r.funcs, ptrTo: r.ptrTo, ptrTy: r.ptrTy, holder: r.holder, hprefix: r.hprefix, lock: w.instLock(r.lock, p, n), known: r.known, isNil: r.isNil}
	}
	return out
}

// ---- escapes / entries ----------------------------------------------------------------------------

func (w *walker) escape(v *aval, why string, pos token.Pos) {
	if v == nil {
		return
	}
	at := w.where(pos)
	for _, fv := range v.funcs {
		what := "closure-escaping"
		if fv.fn != nil {
			what = "method-value-escaping"
		}
		w.enter(fv, what+" ("+why+")", at, nil)
	}
	if v.ptrTo != "" && v.ptrTy != nil {
		w.pointerEscape(v, why, at)
	}
	if v.holder != nil && !v.holder.escaped {
		h := v.holder
		h.escaped = true
		var keys []string
		for k := range h.fields {
			keys = append(keys, k)
		}
		sort.Strings(keys)
		for _, k := range keys {
			w.escapeAt(h.fields[k], "stored in "+h.typ+"."+k+" at "+h.where[k]+", "+why, h.where[k])
		}
	}
}

// escapeAt: like escape, with an explicit location string for the entries
func (w *walker) escapeAt(v *aval, why, at string) {
	if v == nil {
		return
	}
	for _, fv := range v.funcs {
		what := "closure-escaping"
		if fv.fn != nil {
			what = "method-value-escaping"
		}
		w.enter(fv, what+" ("+why+")", at, nil)
	}
	if v.ptrTo != "" && v.ptrTy != nil {
		w.pointerEscape(v, why, at)
	}
	if v.holder != nil && !v.holder.escaped {
		w.escape(v, why, token.NoPos)
	}
}

func (w *walker) enter(fv *funcVal, what, at string, held []tok) {
	d := w.d
	if w.n.isCtor || w.n.ctorPhase {
		what += " [from constructor]"
	}
	switch {
	case fv.lit != nil:
		d.analyze(fv.lit)
		fv.lit.Entries = append(fv.lit.Entries, entry{What: what, Where: at, Held: held})
	case fv.fn != nil:
		for _, t := range w.targets(fv.fn, nil) {
			if od := d.a.rootTypeDomainOf(t); od != "" || (d.a.extraOf[funcKey(t)] == d.cfg.Name) {
				continue // a public entry point anyway (of this or another domain)
			}
			pk := ""
			if t.Pkg() != nil {
				pk = t.Pkg().Name()
			}
			if !d.home[pk] {
				continue
			}
			n := d.declNode(t, "")
			if n == nil {
				continue
			}
			d.analyze(n)
			n.Entries = append(n.Entries, entry{What: what, Where: at, Held: held})
		}
	}
}

// pointerEscape: a pointer to a struct embedded in guarded state leaves the package: every method
// of that struct type can now be called by the client with nothing held.
func (w *walker) pointerEscape(v *aval, why, at string) {
	d := w.d
	nt := v.ptrTy
	for _, recv := range []types.Type{nt, types.NewPointer(nt)} {
		ms := types.NewMethodSet(recv)
		for i := 0; i < ms.Len(); i++ {
			fn, ok := ms.At(i).Obj().(*types.Func)
			if !ok || !fn.Exported() {
				continue
			}
			n := d.declNode(fn.Origin(), "")
			if n == nil {
				continue
			}
			dup := false
			for _, e := range n.Entries {
				if e.Where == at && strings.HasPrefix(e.What, "method-via-escaped-pointer") {
					dup = true
				}
			}
			if dup {
				continue
			}
			d.analyze(n)
			n.Entries = append(n.Entries, entry{What: "method-via-escaped-pointer &" + v.ptrTo + " (" + why + ")", Where: at})
		}
	}
}
