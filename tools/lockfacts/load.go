package main

// Loader: type-checks the packages of the module under $VERIF_REPO from source (no export data, no
// network): the module's own packages through this importer, the standard library through the
// "source" importer of go/importer. Default build tags (so verif_off.go, not verif_on.go).

import (
	"fmt"
	"go/ast"
	"go/build"
	"go/importer"
	"go/parser"
	"go/token"
	"go/types"
	"path/filepath"
	"sort"
	"strings"
)

const modPath = "github.com/tychoish/fun"

type pkgInfo struct {
	path  string
	name  string
	dir   string
	pkg   *types.Package
	info  *types.Info
	files []*ast.File
}

type declInfo struct {
	decl *ast.FuncDecl
	pkg  *pkgInfo
}

type loader struct {
	fset  *token.FileSet
	root  string
	std   types.Importer
	pkgs  map[string]*pkgInfo
	decls map[*types.Func]*declInfo
}

func newLoader(root string) *loader {
	fset := token.NewFileSet()
	return &loader{fset: fset, root: root, std: importer.ForCompiler(fset, "source", nil),
		pkgs: map[string]*pkgInfo{}, decls: map[*types.Func]*declInfo{}}
}

func (l *loader) Import(path string) (*types.Package, error) {
	if path == modPath || strings.HasPrefix(path, modPath+"/") {
		p, err := l.load(path)
		if err != nil {
			return nil, err
		}
		return p.pkg, nil
	}
	return l.std.Import(path)
}

func (l *loader) load(path string) (*pkgInfo, error) {
	if p, ok := l.pkgs[path]; ok {
		if p == nil {
			return nil, fmt.Errorf("import cycle through %s", path)
		}
		return p, nil
	}
	l.pkgs[path] = nil
	dir := filepath.Join(l.root, strings.TrimPrefix(path, modPath))
	bp, err := build.Default.ImportDir(dir, 0)
	if err != nil {
		return nil, err
	}
	names := append([]string{}, bp.GoFiles...)
	sort.Strings(names)
	var files []*ast.File
	for _, f := range names {
		af, err := parser.ParseFile(l.fset, filepath.Join(dir, f), nil, parser.ParseComments)
		if err != nil {
			return nil, err
		}
		files = append(files, af)
	}
	info := &types.Info{
		Types:      map[ast.Expr]types.TypeAndValue{},
		Defs:       map[*ast.Ident]types.Object{},
		Uses:       map[*ast.Ident]types.Object{},
		Selections: map[*ast.SelectorExpr]*types.Selection{},
		Implicits:  map[ast.Node]types.Object{},
		Instances:  map[*ast.Ident]types.Instance{},
		Scopes:     map[ast.Node]*types.Scope{},
	}
	conf := types.Config{Importer: l}
	tp, err := conf.Check(path, l.fset, files, info)
	if err != nil {
		return nil, fmt.Errorf("type-check %s: %w", path, err)
	}
	p := &pkgInfo{path: path, name: tp.Name(), dir: dir, pkg: tp, info: info, files: files}
	l.pkgs[path] = p
	for _, f := range files {
		for _, d := range f.Decls {
			if fd, ok := d.(*ast.FuncDecl); ok {
				if obj, ok := info.Defs[fd.Name].(*types.Func); ok {
					l.decls[obj] = &declInfo{decl: fd, pkg: p}
				}
			}
		}
	}
	return p, nil
}

// relative file:line of a position
func (l *loader) where(pos token.Pos) string {
	p := l.fset.Position(pos)
	rel, err := filepath.Rel(l.root, p.Filename)
	if err != nil {
		rel = p.Filename
	}
	return fmt.Sprintf("%s:%d", rel, p.Line)
}

func (l *loader) byName(name string) *pkgInfo {
	for _, p := range l.pkgs {
		if p != nil && p.name == name {
			return p
		}
	}
	return nil
}

// ---- naming helpers -------------------------------------------------------------------------

func derefNamed(t types.Type) *types.Named {
	for {
		switch x := t.(type) {
		case *types.Pointer:
			t = x.Elem()
			continue
		case *types.Named:
			return x
		case *types.Alias:
			t = types.Unalias(x)
			continue
		}
		return nil
	}
}

func inModule(p *types.Package) bool {
	return p != nil && (p.Path() == modPath || strings.HasPrefix(p.Path(), modPath+"/"))
}

func typeKey(n *types.Named) string {
	o := n.Origin().Obj()
	if o.Pkg() == nil {
		return o.Name()
	}
	return o.Pkg().Name() + "." + o.Name()
}

func funcKey(f *types.Func) string {
	f = f.Origin()
	sig := f.Type().(*types.Signature)
	pk := ""
	if f.Pkg() != nil {
		pk = f.Pkg().Name() + "."
	}
	if r := sig.Recv(); r != nil {
		if n := derefNamed(r.Type()); n != nil {
			return pk + n.Origin().Obj().Name() + "." + f.Name()
		}
		return pk + "?." + f.Name()
	}
	return pk + f.Name()
}

// isSyncType reports the kind of a standard-library synchronisation type ("" if none)
func syncKind(t types.Type) string {
	n, ok := types.Unalias(t).(*types.Named)
	if !ok {
		return ""
	}
	o := n.Origin().Obj()
	if o.Pkg() == nil {
		return ""
	}
	switch o.Pkg().Path() {
	case "sync":
		switch o.Name() {
		case "Mutex", "RWMutex":
			return "mutex"
		case "Locker":
			return "mutex"
		case "Once":
			return "once"
		case "Cond", "Map", "Pool", "WaitGroup":
			return "sync"
		}
	case "sync/atomic":
		return "sync"
	}
	return ""
}

func isFuncType(t types.Type) bool {
	if t == nil {
		return false
	}
	_, ok := t.Underlying().(*types.Signature)
	return ok
}
