package main

// The lock-fact analysis. For every "domain" (one concurrency-safe type, or the family of function
// wrappers) it explores the code reachable from the domain's public entry points and records
//   * access sites  (file:line, location = Type.field | Func$var, rd/wr/atomic, locks held locally)
//   * in-place calls between nodes (with the locks held locally at the call)
//   * entries: how client code (any goroutine, nothing held) can get into a node: public method,
//     escaping closure, spawned closure, escaping method value, pointer into guarded state
// The analysis is syntactic + types (no alias analysis): locks and locations are named by the
// declaring type and field. Anything it does not understand becomes an `unknown` site.

import (
	"fmt"
	"go/ast"
	"go/token"
	"go/types"
	"sort"
	"strings"
)

type tok string // "mu:<lock>", "in:<once>", "after:<once>"

type heldTok struct {
	t      tok
	relIdx int     // index of the deferred call that releases it (-1: none registered)
	param  int     // >=0 (or -2 = receiver): the lock is a parameter of node `of` (summaries)
	of     *fnNode // the node whose parameter it is
}

type lockRef struct {
	name  string
	param int // -1 if absolute
	of    *fnNode
}

type funcVal struct {
	lit     *fnNode     // a closure literal (already a node)
	fn      *types.Func // a declared function / method value
	recv    *aval       // abstract value of a method value's receiver (m.Lock keeps the lock)
	foreign bool        // method value on another instance
	opaque  *types.Var  // parameter of func type (client supplied function)
	opNode  *fnNode     // node that declares the opaque parameter
}

type aval struct {
	lock  *lockRef
	once  string
	funcs []*funcVal
	ptrTo string // address of a guarded struct field (location name), for pointer escapes
	ptrTy *types.Named
	known int  // +1: a boolean known to be true, -1: known to be false (domain assumptions)
	isNil bool // the literal nil
	// a struct value built by a composite literal that carries function values in its fields
	// (fun.Iterator, pubsub.Distributor): the functions escape when the struct does, and run in
	// place when a method of the struct calls them
	holder  *holder
	hprefix string
}

type holder struct {
	typ     string
	fields  map[string]*aval
	where   map[string]string
	escaped bool
}

func (a *aval) empty() bool {
	return a == nil || (a.lock == nil && a.once == "" && len(a.funcs) == 0 && a.ptrTo == "" && a.known == 0 && !a.isNil && a.holder == nil)
}

func merge(a, b *aval) *aval {
	if a.empty() {
		return b
	}
	if b.empty() {
		return a
	}
	out := &aval{lock: a.lock, once: a.once, ptrTo: a.ptrTo, ptrTy: a.ptrTy}
	if a.known == b.known {
		out.known = a.known
	}
	out.isNil = a.isNil && b.isNil
	out.holder, out.hprefix = a.holder, a.hprefix
	if out.holder == nil {
		out.holder, out.hprefix = b.holder, b.hprefix
	}
	if out.lock == nil {
		out.lock = b.lock
	}
	if out.once == "" {
		out.once = b.once
	}
	if out.ptrTo == "" {
		out.ptrTo, out.ptrTy = b.ptrTo, b.ptrTy
	}
	out.funcs = append(append([]*funcVal{}, a.funcs...), b.funcs...)
	return out
}

type site struct {
	Where   string
	Loc     string
	Kind    string // rd | wr | atomic | unknown
	Held    []tok
	Lost    []tok // tokens of the caller this node has released (and not re-acquired) at this point
	Foreign bool
	Note    string
	pos     token.Pos
	varObj  types.Object // for captured-variable candidates
}

type edge struct {
	Where   string
	Callee  *fnNode
	Held    []tok
	Lost    []tok
	Foreign bool
	Note    string
}

type entry struct {
	What   string
	Where  string
	Held   []tok
	Exempt bool
}

type env struct {
	vars   map[types.Object]*aval
	parent *env
}

func (e *env) get(o types.Object) *aval {
	for x := e; x != nil; x = x.parent {
		if v, ok := x.vars[o]; ok {
			return v
		}
	}
	return nil
}
func (e *env) set(o types.Object, v *aval) {
	// assignment to a captured variable updates the binding where it lives
	for x := e; x != nil; x = x.parent {
		if _, ok := x.vars[o]; ok {
			x.vars[o] = v
			return
		}
	}
	e.vars[o] = v
}

type fnNode struct {
	Key     string
	dom     *domain
	fn      *types.Func
	lit     *ast.FuncLit
	parent  *fnNode
	pkg     *pkgInfo
	Where   string
	Sites   []site
	Calls   []edge
	Entries []entry
	isRoot  bool
	isCtor  bool
	env     *env
	nlits   int
	depth   int

	analyzed, analyzing bool
	netAcq              []heldTok
	netRel              []heldTok // releases of locks not acquired locally (param-relative or absolute)
	results             []*aval
	recvVar             *types.Var
	params              []*types.Var
	declared            map[types.Object]bool
	body                *ast.BlockStmt
	ftype               *ast.FuncType
	firstCapture        map[types.Object]token.Pos
	Assumes             []tok
	StrictAssumes       []tok
	ctorPhase           bool
	reach               bool
	reachStrict         bool
	resultsEscaped      bool
	paramCalls          []paramCall
	chain               string
	Ctx                 string
}

func (n *fnNode) declRoot() *fnNode {
	x := n
	for x.parent != nil {
		x = x.parent
	}
	return x
}

type domain struct {
	cfg          *DomainCfg
	a            *analysis
	nodes        map[string]*fnNode
	order        []*fnNode
	rootTypes    map[string]bool
	home         map[string]bool
	ctors        map[string]bool
	excluded     map[string]string
	optional     map[string]bool
	shared       map[string]bool
	unknowns     []string
	notes        []string
	usedLocs     map[string]bool
	optionalUsed map[string]bool
	ignoredUsed  map[string]int
}

type analysis struct {
	l        *loader
	cfg      *Config
	doms     []*domain
	allRoots map[string]string // type key -> domain
	extraOf  map[string]string // func key -> domain (extra roots)
	exempt   map[string]bool
}

func (d *domain) unknown(n *fnNode, pos token.Pos, msg string) {
	w := d.a.l.where(pos)
	n.Sites = append(n.Sites, site{Where: w, Loc: "?", Kind: "unknown", Note: msg, pos: pos})
	d.unknowns = append(d.unknowns, w+": "+msg)
}

// ---- walker -----------------------------------------------------------------------------------

type deferred struct {
	isRelease bool
	call      *ast.CallExpr
	prep      *prepared
	snapshot  []heldTok
	idx       int
}

type walker struct {
	lost       []tok
	branchLost []tok
	d          *domain
	n          *fnNode
	info       *types.Info
	held       []heldTok
	defers     []*deferred
	exits      [][]heldTok
	dead       bool
	loops      []token.Pos
	retVals    [][]*aval
}

func toks(h []heldTok) []tok {
	out := make([]tok, 0, len(h))
	seen := map[tok]bool{}
	for _, x := range h {
		if !seen[x.t] {
			seen[x.t] = true
			out = append(out, x.t)
		}
	}
	sort.Slice(out, func(i, j int) bool { return out[i] < out[j] })
	return out
}

func (w *walker) has(t tok) bool {
	for _, x := range w.held {
		if x.t == t {
			return true
		}
	}
	return false
}

func (w *walker) acquire(t tok, param int, of *fnNode) {
	if !w.has(t) {
		w.held = append(w.held, heldTok{t: t, relIdx: -1, param: param, of: of})
	}
	for i, l := range w.lost {
		if l == t {
			w.lost = append(append([]tok{}, w.lost[:i]...), w.lost[i+1:]...)
			break
		}
	}
}

func (w *walker) release(t tok, pos token.Pos, param int, of *fnNode) {
	for i, x := range w.held {
		if x.t == t {
			w.held = append(append([]heldTok{}, w.held[:i]...), w.held[i+1:]...)
			return
		}
	}
	// releasing something not acquired here: part of the function's net effect (a `with` helper);
	// from here on the node no longer has what its caller held
	w.n.netRel = append(w.n.netRel, heldTok{t: t, param: param, of: of})
	w.lost = append(w.lost, t)
}

func copyHeld(h []heldTok) []heldTok { return append([]heldTok{}, h...) }

func (w *walker) lostNow() []tok { return append([]tok{}, w.lost...) }

func intersect(a, b []heldTok) []heldTok {
	var out []heldTok
	for _, x := range a {
		for _, y := range b {
			if x.t == y.t {
				out = append(out, x)
				break
			}
		}
	}
	return out
}

func (w *walker) where(pos token.Pos) string { return w.d.a.l.where(pos) }

func (w *walker) addSite(pos token.Pos, loc, kind string, foreign bool, note string) {
	w.n.Sites = append(w.n.Sites, site{Where: w.where(pos), Loc: loc, Kind: kind, Held: toks(w.held), Lost: w.lostNow(), Foreign: foreign, Note: note, pos: pos})
}

// ---- node creation ----------------------------------------------------------------------------

func (d *domain) declNode(fn *types.Func, cloneAt string) *fnNode {
	fn = fn.Origin()
	key := funcKey(fn)
	if cloneAt != "" {
		key += "@" + cloneAt
	}
	if n, ok := d.nodes[key]; ok {
		return n
	}
	di := d.a.l.decls[fn]
	if di == nil || di.decl.Body == nil {
		return nil
	}
	n := &fnNode{Key: key, dom: d, fn: fn, pkg: di.pkg, Where: d.a.l.where(di.decl.Pos()), body: di.decl.Body,
		ftype: di.decl.Type, env: &env{vars: map[types.Object]*aval{}}, declared: map[types.Object]bool{},
		firstCapture: map[types.Object]token.Pos{}}
	sig := fn.Type().(*types.Signature)
	n.recvVar = sig.Recv()
	if di.decl.Recv != nil && len(di.decl.Recv.List) > 0 && len(di.decl.Recv.List[0].Names) > 0 {
		if v, ok := di.pkg.info.Defs[di.decl.Recv.List[0].Names[0]].(*types.Var); ok {
			n.recvVar = v
		}
	}
	d.bindParams(n, di.pkg.info)
	d.nodes[key] = n
	d.order = append(d.order, n)
	return n
}

func (d *domain) bindParams(n *fnNode, info *types.Info) {
	idx := 0
	bind := func(fl *ast.FieldList, isRecv bool) {
		if fl == nil {
			return
		}
		for _, f := range fl.List {
			for _, nm := range f.Names {
				v, _ := info.Defs[nm].(*types.Var)
				if v == nil {
					if !isRecv {
						idx++
					}
					continue
				}
				n.declared[v] = true
				if !isRecv {
					n.params = append(n.params, v)
				}
				k := idx
				if isRecv {
					k = -2
				}
				switch {
				case syncKind(derefType(v.Type())) == "mutex":
					n.env.vars[v] = &aval{lock: &lockRef{name: baseKey(n.Key) + "$" + v.Name(), param: k, of: n}}
				case syncKind(derefType(v.Type())) == "once":
					n.env.vars[v] = &aval{once: baseKey(n.Key) + "$" + v.Name()}
				case isFuncType(v.Type()):
					n.env.vars[v] = &aval{funcs: []*funcVal{{opaque: v, opNode: n}}}
				}
				if !isRecv {
					idx++
				}
			}
			if len(f.Names) == 0 && !isRecv {
				idx++
			}
		}
	}
	if n.lit == nil {
		if di := d.a.l.decls[n.fn]; di != nil {
			bind(di.decl.Recv, true)
		}
	}
	bind(n.ftype.Params, false)
	if n.ftype.Results != nil {
		for _, f := range n.ftype.Results.List {
			for _, nm := range f.Names {
				if v, _ := info.Defs[nm].(*types.Var); v != nil {
					n.declared[v] = true
				}
			}
		}
	}
}

func derefType(t types.Type) types.Type {
	if p, ok := types.Unalias(t).(*types.Pointer); ok {
		return p.Elem()
	}
	return t
}

func baseKey(k string) string {
	// strip clone suffixes "@file:line" from every path element
	parts := strings.Split(k, "$")
	for i, p := range parts {
		if j := strings.Index(p, "@"); j >= 0 {
			parts[i] = p[:j]
		}
	}
	return strings.Join(parts, "$")
}

func (d *domain) litNode(parent *fnNode, lit *ast.FuncLit) *fnNode {
	parent.nlits++
	key := fmt.Sprintf("%s$%d", parent.Key, parent.nlits)
	n := &fnNode{Key: key, dom: d, lit: lit, parent: parent, pkg: parent.pkg, Where: d.a.l.where(lit.Pos()), body: lit.Body,
		ftype: lit.Type, env: &env{vars: map[types.Object]*aval{}, parent: parent.env}, declared: map[types.Object]bool{},
		firstCapture: map[types.Object]token.Pos{}, depth: parent.depth}
	d.bindParams(n, parent.pkg.info)
	d.nodes[key] = n
	d.order = append(d.order, n)
	return n
}

// ---- analysis of one node ---------------------------------------------------------------------

func (d *domain) analyze(n *fnNode) {
	if n.analyzed || n.analyzing {
		return
	}
	n.analyzing = true
	w := &walker{d: d, n: n, info: n.pkg.info}
	w.valueReceiverCopy()
	w.block(n.body.List)
	if !w.dead {
		w.exits = append(w.exits, copyHeld(w.held))
	}
	// named results: value at exit is whatever the variable holds after the deferred calls ran
	w.runDefers()
	// net effect: tokens held at every exit that are not released by a deferred call
	var exit []heldTok
	for i, h := range w.exits {
		var live []heldTok
		for _, x := range h {
			if x.relIdx < 0 {
				live = append(live, x)
			}
		}
		if i == 0 {
			exit = live
		} else {
			exit = intersect(exit, live)
		}
	}
	n.netAcq = exit
	n.results = w.finalResults()
	n.analyzing = false
	n.analyzed = true
}

// valueReceiverCopy: a method declared on T (not *T) of one of the domain's own struct types is called
// on a copy of the whole struct: the call reads every field, the guarded ones included, with whatever
// the caller holds (nothing, for a public method). One read site per mutex-guarded field, at the receiver.
func (w *walker) valueReceiverCopy() {
	n := w.n
	if n.fn == nil || n.recvVar == nil {
		return
	}
	sig, ok := n.fn.Type().(*types.Signature)
	if !ok || sig.Recv() == nil {
		return
	}
	rt := types.Unalias(sig.Recv().Type())
	if _, isPtr := rt.(*types.Pointer); isPtr {
		return
	}
	nt, ok := rt.(*types.Named)
	if !ok {
		return
	}
	st, ok := nt.Underlying().(*types.Struct)
	if !ok {
		return
	}
	for i := 0; i < st.NumFields(); i++ {
		loc := typeKey(nt) + "." + st.Field(i).Name()
		if w.d.classOf(loc).Class == "mutex" {
			w.addSite(n.recvVar.Pos(), loc, "rd", false, "value receiver: the call copies the struct, this guarded field included")
		}
	}
}

func (w *walker) finalResults() []*aval {
	var out []*aval
	nres := 0
	if w.n.ftype.Results != nil {
		for _, f := range w.n.ftype.Results.List {
			if len(f.Names) == 0 {
				nres++
			} else {
				nres += len(f.Names)
			}
		}
	}
	out = make([]*aval, nres)
	named := false
	if w.n.ftype.Results != nil {
		i := 0
		for _, f := range w.n.ftype.Results.List {
			for _, nm := range f.Names {
				named = true
				if v := w.info.Defs[nm]; v != nil {
					out[i] = w.n.env.get(v)
				}
				i++
			}
			if len(f.Names) == 0 {
				i++
			}
		}
	}
	if !named {
		for _, rv := range w.retVals {
			for i := range rv {
				if i < nres {
					out[i] = merge(out[i], rv[i])
				}
			}
		}
	}
	return out
}

func (w *walker) runDefers() {
	for i := len(w.defers) - 1; i >= 0; i-- {
		df := w.defers[i]
		if df.isRelease {
			continue // an unlock: its effect (the token is held until here) was registered with the defer
		}
		var h []heldTok
		for _, x := range df.snapshot {
			if strings.HasPrefix(string(x.t), "after:") || (x.relIdx >= 0 && x.relIdx < df.idx) {
				h = append(h, x)
			}
		}
		// current state of tokens whose release was registered later than the snapshot but before df
		for _, x := range w.held {
			if x.relIdx >= 0 && x.relIdx < df.idx {
				dup := false
				for _, y := range h {
					if y.t == x.t {
						dup = true
					}
				}
				if !dup {
					h = append(h, x)
				}
			}
		}
		saved := w.held
		w.held = h
		w.dead = false
		w.runCall(df.prep)
		w.held = saved
	}
}

// ---- statements -------------------------------------------------------------------------------

func (w *walker) block(list []ast.Stmt) {
	for _, s := range list {
		if w.dead {
			// unreachable code after return/break: still walk it for sites? Go vet would flag it; skip.
			return
		}
		w.stmt(s)
	}
}

func (w *walker) branch(f func()) (held []heldTok, dead bool) {
	saved, sdead, slost := copyHeld(w.held), w.dead, w.lostNow()
	f()
	held, dead = w.held, w.dead
	// what a branch gave up stays given up afterwards (union over the branches); what it got back
	// only counts if every branch got it back, which the held-set intersection takes care of
	merged := slost
	for _, t := range w.lost {
		dup := false
		for _, u := range merged {
			if u == t {
				dup = true
			}
		}
		if !dup {
			merged = append(merged, t)
		}
	}
	w.branchLost = append(w.branchLost, merged...)
	w.held, w.dead, w.lost = saved, sdead, slost
	return
}

func (w *walker) join(pos token.Pos, outs [][]heldTok, deads []bool) {
	var live [][]heldTok
	for i := range outs {
		if !deads[i] {
			live = append(live, outs[i])
		}
	}
	if len(live) == 0 {
		w.dead = true
		return
	}
	h := live[0]
	for _, o := range live[1:] {
		h = intersect(h, o)
	}
	w.held = h
	w.mergeBranchLost()
}

func (w *walker) mergeBranchLost() {
	for _, t := range w.branchLost {
		dup := false
		for _, u := range w.lost {
			if u == t {
				dup = true
			}
		}
		if !dup {
			w.lost = append(w.lost, t)
		}
	}
	w.branchLost = nil
}

func (w *walker) stmt(s ast.Stmt) {
	switch x := s.(type) {
	case nil:
	case *ast.ExprStmt:
		w.expr(x.X, "rd")
	case *ast.AssignStmt:
		w.assign(x)
	case *ast.IncDecStmt:
		w.expr(x.X, "wr")
	case *ast.DeclStmt:
		if gd, ok := x.Decl.(*ast.GenDecl); ok {
			for _, sp := range gd.Specs {
				if vs, ok := sp.(*ast.ValueSpec); ok {
					for i, nm := range vs.Names {
						obj := w.info.Defs[nm]
						if obj != nil {
							w.n.declared[obj] = true
						}
						if i < len(vs.Values) {
							v := w.exprNamed(vs.Values[i], "rd", nm.Name)
							if obj != nil && !v.empty() {
								w.n.env.vars[obj] = v
							}
						} else if obj != nil {
							w.n.env.vars[obj] = w.zeroValue(obj.Type(), nm.Name)
						}
					}
				}
			}
		}
	case *ast.GoStmt:
		w.goStmt(x)
	case *ast.DeferStmt:
		p := w.prepCall(x.Call, true)
		df := &deferred{call: x.Call, prep: p, idx: len(w.defers)}
		// which tokens does the deferred call release?
		rels := w.releasesOf(p)
		df.isRelease = len(rels) > 0
		for _, t := range rels {
			for i := range w.held {
				if w.held[i].t == t && w.held[i].relIdx < 0 {
					w.held[i].relIdx = df.idx
				}
			}
		}
		df.snapshot = copyHeld(w.held)
		w.defers = append(w.defers, df)
	case *ast.ReturnStmt:
		var vals []*aval
		if len(x.Results) == 1 && w.n.ftype.Results != nil && countResults(w.n.ftype) > 1 {
			// return f() with a multi-value call
			v := w.expr(x.Results[0], "rd")
			vals = append(vals, v)
		} else {
			for _, r := range x.Results {
				vals = append(vals, w.expr(r, "rd"))
			}
		}
		if len(x.Results) > 0 {
			w.retVals = append(w.retVals, vals)
			// bind named results
			if w.n.ftype.Results != nil {
				i := 0
				for _, f := range w.n.ftype.Results.List {
					for _, nm := range f.Names {
						if obj := w.info.Defs[nm]; obj != nil && i < len(vals) && !vals[i].empty() {
							w.n.env.vars[obj] = merge(w.n.env.vars[obj], vals[i])
						}
						i++
					}
					if len(f.Names) == 0 {
						i++
					}
				}
			}
		}
		w.exits = append(w.exits, copyHeld(w.held))
		w.dead = true
	case *ast.BlockStmt:
		w.block(x.List)
	case *ast.IfStmt:
		w.stmt(x.Init)
		cv := w.expr(x.Cond, "rd")
		always, never := cv != nil && cv.known > 0, cv != nil && cv.known < 0
		latch := w.latchObserved(x.Cond)
		var outs [][]heldTok
		var deads []bool
		if !never {
			h, dd := w.branch(func() {
				if latch != "" {
					w.acquire(tok("latch:"+latch), -1, nil)
				}
				w.block(x.Body.List)
			})
			outs, deads = append(outs, h), append(deads, dd)
		}
		if !always {
			h, dd := w.branch(func() {
				if x.Else != nil {
					w.stmt(x.Else)
				}
			})
			outs, deads = append(outs, h), append(deads, dd)
		}
		w.join(x.Pos(), outs, deads)
	case *ast.ForStmt:
		w.stmt(x.Init)
		w.loops = append(w.loops, x.Pos())
		entry := copyHeld(w.held)
		if x.Cond != nil {
			w.expr(x.Cond, "rd")
		}
		h, dd := w.branch(func() { w.block(x.Body.List); w.stmt(x.Post) })
		if !dd && !sameToks(h, entry) {
			w.d.unknown(w.n, x.Pos(), "loop body changes the set of held locks")
		}
		w.loops = w.loops[:len(w.loops)-1]
		w.held = entry
		w.mergeBranchLost()
		if x.Cond == nil && !hasBreak(x.Body) {
			w.dead = true // for { ... } without break: only leaves through return
		}
	case *ast.RangeStmt:
		v := w.expr(x.X, "rd")
		_ = v
		w.contents(x.X, "rd", x.X.Pos())
		for _, kv := range []ast.Expr{x.Key, x.Value} {
			if id, ok := kv.(*ast.Ident); ok && id.Name != "_" {
				if obj := w.info.Defs[id]; obj != nil {
					w.n.declared[obj] = true
				} else {
					w.expr(kv, "wr")
				}
			} else if kv != nil && !ok {
				w.expr(kv, "wr")
			}
		}
		w.loops = append(w.loops, x.Pos())
		entry := copyHeld(w.held)
		h, dd := w.branch(func() { w.block(x.Body.List) })
		if !dd && !sameToks(h, entry) {
			w.d.unknown(w.n, x.Pos(), "loop body changes the set of held locks")
		}
		w.loops = w.loops[:len(w.loops)-1]
		w.held = entry
		w.mergeBranchLost()
	case *ast.SwitchStmt:
		w.stmt(x.Init)
		if x.Tag != nil {
			w.expr(x.Tag, "rd")
		}
		w.clauses(x.Body, x.Pos(), false)
	case *ast.TypeSwitchStmt:
		w.stmt(x.Init)
		switch a := x.Assign.(type) {
		case *ast.ExprStmt:
			w.expr(a.X, "rd")
		case *ast.AssignStmt:
			for _, r := range a.Rhs {
				w.expr(r, "rd")
			}
		}
		w.clauses(x.Body, x.Pos(), false)
	case *ast.SelectStmt:
		w.clauses(x.Body, x.Pos(), true)
	case *ast.SendStmt:
		w.expr(x.Chan, "rd")
		w.expr(x.Value, "rd")
	case *ast.LabeledStmt:
		w.stmt(x.Stmt)
	case *ast.BranchStmt:
		if x.Tok == token.GOTO {
			w.d.unknown(w.n, x.Pos(), "goto")
		}
		w.dead = true
	case *ast.EmptyStmt:
	default:
		w.d.unknown(w.n, s.Pos(), fmt.Sprintf("statement %T not understood", s))
	}
}

func countResults(ft *ast.FuncType) int {
	n := 0
	if ft.Results == nil {
		return 0
	}
	for _, f := range ft.Results.List {
		if len(f.Names) == 0 {
			n++
		} else {
			n += len(f.Names)
		}
	}
	return n
}

func hasBreak(b *ast.BlockStmt) bool {
	found := false
	var visit func(n ast.Node, depth int)
	visit = func(n ast.Node, depth int) {
		ast.Inspect(n, func(m ast.Node) bool {
			if m == nil || found {
				return false
			}
			switch y := m.(type) {
			case *ast.FuncLit:
				return false
			case *ast.ForStmt, *ast.RangeStmt, *ast.SwitchStmt, *ast.TypeSwitchStmt, *ast.SelectStmt:
				if m != n {
					// an unlabeled break inside binds to the inner statement; labeled ones are rare here
					ast.Inspect(y, func(k ast.Node) bool {
						if bs, ok := k.(*ast.BranchStmt); ok && bs.Tok == token.BREAK && bs.Label != nil {
							found = true
						}
						return !found
					})
					return false
				}
			case *ast.BranchStmt:
				if y.Tok == token.BREAK {
					found = true
				}
			}
			return true
		})
	}
	visit(b, 0)
	return found
}

func sameToks(a, b []heldTok) bool {
	x, y := toks(a), toks(b)
	if len(x) != len(y) {
		return false
	}
	for i := range x {
		if x[i] != y[i] {
			return false
		}
	}
	return true
}

func (w *walker) clauses(body *ast.BlockStmt, pos token.Pos, isSelect bool) {
	var outs [][]heldTok
	var deads []bool
	hasDefault := false
	for _, c := range body.List {
		switch cc := c.(type) {
		case *ast.CaseClause:
			if cc.List == nil {
				hasDefault = true
			}
			for _, e := range cc.List {
				if _, isType := w.info.Types[e]; isType && w.info.Types[e].IsType() {
					continue
				}
				w.expr(e, "rd")
			}
			if obj := w.info.Implicits[cc]; obj != nil {
				w.n.declared[obj] = true
			}
			h, dd := w.branch(func() { w.block(cc.Body) })
			// a `break` inside a switch clause only leaves the switch
			if dd && endsWithBreak(cc.Body) {
				dd = false
			}
			outs, deads = append(outs, h), append(deads, dd)
		case *ast.CommClause:
			if cc.Comm == nil {
				hasDefault = true
			}
			h, dd := w.branch(func() { w.stmt(cc.Comm); w.block(cc.Body) })
			if dd && endsWithBreak(cc.Body) {
				dd = false
			}
			outs, deads = append(outs, h), append(deads, dd)
		}
	}
	if !isSelect && !hasDefault {
		// a switch without default may execute no clause at all (a select blocks instead)
		outs, deads = append(outs, copyHeld(w.held)), append(deads, false)
	}
	w.join(pos, outs, deads)
}

func endsWithBreak(list []ast.Stmt) bool {
	if len(list) == 0 {
		return false
	}
	var last ast.Stmt = list[len(list)-1]
	for {
		switch x := last.(type) {
		case *ast.BranchStmt:
			return x.Tok == token.BREAK && x.Label == nil
		case *ast.BlockStmt:
			if len(x.List) == 0 {
				return false
			}
			last = x.List[len(x.List)-1]
			continue
		}
		return false
	}
}

// nilCompare: `x == nil` / `x != nil` decided by what is known about x — a mutex of a domain with an
// optional mutex is non-nil (the domain is the *synchronised* variant), a known function value is
// non-nil, the literal nil is nil.
func (w *walker) nilCompare(op token.Token, pos token.Pos, vx, vy *aval) int {
	if op != token.NEQ && op != token.EQL {
		return 0
	}
	var v *aval
	switch {
	case vy != nil && vy.isNil && (vx == nil || !vx.isNil):
		v = vx
	case vx != nil && vx.isNil:
		v = vy
	default:
		return 0
	}
	if v == nil {
		return 0
	}
	nonNil, isNil := false, v.isNil
	if v.lock != nil && len(w.d.optional) > 0 {
		nonNil = true
		w.d.optionalUsed[w.where(pos)] = true
	}
	if len(v.funcs) > 0 {
		nonNil = true
		for _, fv := range v.funcs {
			if fv.opaque != nil {
				nonNil = false
			}
		}
	}
	if !nonNil && !isNil {
		return 0
	}
	truth := nonNil
	if op == token.EQL {
		truth = isNil
	}
	if truth {
		return 1
	}
	return -1
}

// latchName: the configured latch an identifier denotes ("" if none)
func (w *walker) latchName(e ast.Expr) string {
	id, ok := unparen(e).(*ast.Ident)
	if !ok {
		return ""
	}
	v, ok := w.info.Uses[id].(*types.Var)
	if !ok {
		return ""
	}
	dn := w.declaringNode(v)
	if dn == nil {
		return ""
	}
	name := baseKey(dn.Key) + "$" + v.Name()
	if _, ok := w.d.cfg.Latches[name]; ok {
		return name
	}
	return ""
}

// latchObserved: `X.CompareAndSwap(a, a)` on a configured latch X — true means "the final value a
// has been stored": the then-branch runs after the latch was set
func (w *walker) latchObserved(c ast.Expr) string {
	ce, ok := unparen(c).(*ast.CallExpr)
	if !ok || len(ce.Args) != 2 {
		return ""
	}
	sx, ok := unparen(ce.Fun).(*ast.SelectorExpr)
	if !ok || sx.Sel.Name != "CompareAndSwap" || types.ExprString(ce.Args[0]) != types.ExprString(ce.Args[1]) {
		return ""
	}
	return w.latchName(sx.X)
}

func (w *walker) zeroValue(t types.Type, name string) *aval {
	switch syncKind(derefType(t)) {
	case "mutex":
		if _, isPtr := types.Unalias(t).(*types.Pointer); !isPtr {
			return &aval{lock: &lockRef{name: baseKey(w.n.declRoot().Key) + "$" + name, param: -1}}
		}
	case "once":
		if _, isPtr := types.Unalias(t).(*types.Pointer); !isPtr {
			return &aval{once: baseKey(w.n.declRoot().Key) + "$" + name}
		}
	}
	return nil
}

func (w *walker) assign(x *ast.AssignStmt) {
	var vals []*aval
	for i, r := range x.Rhs {
		name := ""
		if len(x.Lhs) == len(x.Rhs) {
			if id, ok := x.Lhs[i].(*ast.Ident); ok {
				name = id.Name
			}
		}
		vals = append(vals, w.exprNamed(r, "rd", name))
	}
	for i, l := range x.Lhs {
		var v *aval
		if len(x.Lhs) == len(x.Rhs) {
			v = vals[i]
		} else if i == 0 && len(vals) == 1 {
			v = vals[0] // multi-value call: first result carries the abstract value
		}
		if id, ok := l.(*ast.Ident); ok {
			if id.Name == "_" {
				// a discarded function value does not escape
				continue
			}
			var obj types.Object
			if x.Tok == token.DEFINE {
				obj = w.info.Defs[id]
				if obj != nil {
					w.n.declared[obj] = true
				}
			}
			if obj == nil {
				obj = w.info.Uses[id]
			}
			if obj == nil {
				continue
			}
			if vv, ok := obj.(*types.Var); ok {
				w.varUse(id, vv, "wr")
			}
			if x.Tok == token.DEFINE && w.info.Defs[id] != nil {
				if !v.empty() {
					w.n.env.vars[obj] = v
				}
			} else if !v.empty() {
				w.n.env.set(obj, v)
			} else if old := w.n.env.get(obj); old != nil && len(old.funcs) > 0 && x.Tok == token.ASSIGN {
				// function-typed variable overwritten by something unknown: forget
				w.n.env.set(obj, nil)
			}
			continue
		}
		w.expr(l, "wr")
		// storing a function value / guarded pointer into memory: it escapes, unless the memory is
		// a struct value we are still tracking (a holder)
		if !v.empty() {
			if sx, ok := unparen(l).(*ast.SelectorExpr); ok {
				if h, pre := w.holderOf(sx.X); h != nil && !h.escaped {
					k := pre + sx.Sel.Name
					h.fields[k] = merge(h.fields[k], v)
					h.where[k] = w.where(l.Pos())
					continue
				}
			}
			w.escape(v, "stored at "+w.where(l.Pos()), l.Pos())
		}
	}
}

func (w *walker) goStmt(g *ast.GoStmt) {
	p := w.prepCall(g.Call, false)
	at := w.where(g.Pos())
	for _, fv := range p.calleeFuncs {
		w.enter(fv, "closure-spawned (go statement)", at, nil)
	}
	if p.fn != nil && inModule(p.fn.Pkg()) {
		w.enter(&funcVal{fn: p.fn}, "spawned (go statement)", at, nil)
	}
	for _, a := range p.args {
		w.escape(a, "argument of go statement at "+at, g.Pos())
	}
}
