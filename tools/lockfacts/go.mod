module lockfacts

go 1.23
