// lockfacts: T-gen fact extractor for property C13. Re-reads the tychoish/fun source tree on every
// run and emits (a) lean/FunGen/LockFacts.lean — Lean *data*: every access site of every
// concurrency-safe type with the locks held there, the in-place call graph with the lock-set
// certificate, and how client code can enter each node; (b) a JSON rendering of the same facts for
// the check script and the race drivers. Standard library only (go/parser, go/ast, go/types with
// the source importer).
package main

import (
	"bufio"
	"encoding/json"
	"flag"
	"fmt"
	"os"
	"path/filepath"
	"sort"
	"strings"
)

type jSite struct {
	Key      string   `json:"key"`
	Where    string   `json:"where"`
	Loc      string   `json:"loc"`
	Kind     string   `json:"kind"`
	Held     []string `json:"held"`
	Lost     []string `json:"lost,omitempty"`
	Foreign  bool     `json:"foreign,omitempty"`
	Class    string   `json:"class"`
	OK       bool     `json:"ok"`
	OKStrict bool     `json:"ok_strict"`
	Exempt   bool     `json:"exempt,omitempty"`
	Note     string   `json:"note,omitempty"`
}
type jEntry struct {
	Key    string   `json:"key"`
	What   string   `json:"what"`
	Where  string   `json:"where"`
	Held   []string `json:"held"`
	Exempt bool     `json:"exempt,omitempty"`
}
type jCall struct {
	Where   string   `json:"where"`
	Callee  string   `json:"callee"`
	Held    []string `json:"held"`
	Foreign bool     `json:"foreign,omitempty"`
}
type jNode struct {
	Key           string   `json:"key"`
	Ctx           string   `json:"ctx"`
	Where         string   `json:"where"`
	EndLine       int      `json:"end_line"`
	Reach         bool     `json:"reach"` // reachable without the exempted entries
	Assumes       []string `json:"assumes"`
	StrictAssumes []string `json:"strict_assumes"`
	Entries       []jEntry `json:"entries"`
	Sites         []jSite  `json:"sites"`
	Calls         []jCall  `json:"calls"`
}
type jDomain struct {
	Name      string       `json:"name"`
	Note      string       `json:"note,omitempty"`
	Methods   []MethodInfo `json:"methods"`
	Nodes     []jNode      `json:"nodes"`
	Unknowns  []string     `json:"unknowns"`
	Notes     []string     `json:"notes"`
	UnusedLoc []string     `json:"unused_locations"`
	NSites    int          `json:"n_sites"`
	NCalls    int          `json:"n_calls"`
	NEntries  int          `json:"n_entries"`
}
type jOut struct {
	Repo          string    `json:"repo"`
	Domains       []jDomain `json:"domains"`
	Failing       []jSite   `json:"failing"`        // with the exemptions applied (must be empty for `decide` to pass)
	FailingStrict []jSite   `json:"failing_strict"` // every entry counted: the sites a race is expected at
	ExemptUnused  []string  `json:"exempt_unused"`
}

func strs(ts []tok) []string {
	out := make([]string, len(ts))
	for i, t := range ts {
		out[i] = string(t)
	}
	return out
}

func readExempt(path string) (map[string]bool, error) {
	out := map[string]bool{}
	if path == "" {
		return out, nil
	}
	f, err := os.Open(path)
	if err != nil {
		if os.IsNotExist(err) {
			return out, nil
		}
		return nil, err
	}
	defer f.Close()
	sc := bufio.NewScanner(f)
	sc.Buffer(make([]byte, 1<<20), 1<<20)
	for sc.Scan() {
		line := strings.TrimSpace(sc.Text())
		if line == "" {
			continue
		}
		var d struct {
			Status   string   `json:"status"`
			Property string   `json:"property"`
			Key      string   `json:"key"`
			Sites    []string `json:"sites"`
		}
		if err := json.Unmarshal([]byte(line), &d); err != nil {
			return nil, fmt.Errorf("%s: %w", path, err)
		}
		if d.Property == "C13" && d.Status == "open" {
			out[d.Key] = true
			for _, s := range d.Sites {
				out[s] = true
			}
		}
	}
	return out, sc.Err()
}

func main() {
	repo := flag.String("repo", "/repo", "tychoish/fun source tree")
	classes := flag.String("classes", "classes.json", "protection classes (hand-written, reviewed)")
	outLean := flag.String("lean", "", "write FunGen/LockFacts.lean here")
	outJSON := flag.String("json", "", "write the facts as JSON here")
	known := flag.String("known", "", "known-findings.jsonl (open C13 entries are exempted by key)")
	extraExempt := flag.String("exempt", "", "extra exemption keys, comma separated (proposed findings)")
	flag.Parse()

	cfg, err := loadConfig(*classes)
	if err != nil {
		fmt.Fprintln(os.Stderr, "lockfacts:", err)
		os.Exit(2)
	}
	exempt, err := readExempt(*known)
	if err != nil {
		fmt.Fprintln(os.Stderr, "lockfacts:", err)
		os.Exit(2)
	}
	for _, k := range strings.Split(*extraExempt, ",") {
		if k = strings.TrimSpace(k); k != "" {
			exempt[k] = true
		}
	}
	abs, _ := filepath.Abs(*repo)
	l := newLoader(abs)
	for _, p := range []string{"", "/pubsub", "/erc", "/ers", "/adt", "/dt", "/ft"} {
		if _, err := l.load(modPath + p); err != nil {
			fmt.Fprintln(os.Stderr, "lockfacts: cannot load", modPath+p+":", err)
			os.Exit(2)
		}
	}
	a := newAnalysis(l, cfg, exempt)
	if err := a.run(); err != nil {
		fmt.Fprintln(os.Stderr, "lockfacts:", err)
		os.Exit(2)
	}
	out := a.render()
	if *outJSON != "" {
		b, _ := json.MarshalIndent(out, "", " ")
		if err := writeIfChanged(*outJSON, append(b, '\n')); err != nil {
			fmt.Fprintln(os.Stderr, "lockfacts:", err)
			os.Exit(2)
		}
	}
	if *outLean != "" {
		if err := writeIfChanged(*outLean, []byte(a.lean())); err != nil {
			fmt.Fprintln(os.Stderr, "lockfacts:", err)
			os.Exit(2)
		}
	}
	ns, nu := 0, 0
	for _, d := range out.Domains {
		ns += d.NSites
		nu += len(d.Unknowns)
		fmt.Printf("%-22s nodes=%-3d sites=%-4d calls=%-3d entries=%-3d unknown=%d\n", d.Name, len(d.Nodes), d.NSites, d.NCalls, d.NEntries, len(d.Unknowns))
	}
	fmt.Printf("total sites=%d unguarded(with exemptions)=%d unguarded(strict)=%d unknown=%d\n", ns, len(out.Failing), len(out.FailingStrict), nu)
	for _, s := range out.Failing {
		fmt.Printf("UNGUARDED %s\n", s.Key)
	}
}

func writeIfChanged(path string, content []byte) error {
	if old, err := os.ReadFile(path); err == nil && string(old) == string(content) {
		return nil
	}
	if err := os.MkdirAll(filepath.Dir(path), 0o755); err != nil {
		return err
	}
	return os.WriteFile(path, content, 0o644)
}

func (a *analysis) render() *jOut {
	out := &jOut{Repo: a.l.root, Failing: []jSite{}, FailingStrict: []jSite{}, ExemptUnused: []string{}}
	usedExempt := map[string]bool{}
	for _, d := range a.doms {
		jd := jDomain{Name: d.cfg.Name, Note: d.cfg.Note, Methods: d.methods(), Unknowns: d.unknowns, Notes: d.notes, Nodes: []jNode{}}
		if jd.Unknowns == nil {
			jd.Unknowns = []string{}
		}
		if jd.Notes == nil {
			jd.Notes = []string{}
		}
		for _, n := range d.order {
			jn := jNode{Key: n.Key, Ctx: n.Ctx, Where: n.Where, EndLine: a.l.fset.Position(n.body.Rbrace).Line, Reach: n.reach, Assumes: strs(n.Assumes), StrictAssumes: strs(n.StrictAssumes),
				Entries: []jEntry{}, Sites: []jSite{}, Calls: []jCall{}}
			for i := range n.Entries {
				e := &n.Entries[i]
				k := d.entryKey(n, e)
				if e.Exempt {
					usedExempt[k] = true
				}
				jn.Entries = append(jn.Entries, jEntry{Key: k, What: e.What, Where: e.Where, Held: strs(e.Held), Exempt: e.Exempt})
			}
			for i := range n.Sites {
				s := &n.Sites[i]
				d.usedLocs[s.Loc] = true
				k := d.siteKey(n, s)
				js := jSite{Key: k, Where: s.Where, Loc: s.Loc, Kind: s.Kind, Held: strs(s.Held), Lost: strs(s.Lost), Foreign: s.Foreign,
					Class: d.classOf(s.Loc).Class, OK: d.siteOK(n, s, false), OKStrict: d.siteOK(n, s, true), Note: s.Note,
					Exempt: a.exempt[k]}
				if js.Exempt {
					usedExempt[k] = true
				}
				if !n.reach {
					js.OK = true // only reachable through exempted entries
				}
				jn.Sites = append(jn.Sites, js)
				if !js.OK && !js.Exempt {
					out.Failing = append(out.Failing, js)
				}
				if !js.OKStrict {
					out.FailingStrict = append(out.FailingStrict, js)
				}
			}
			for _, c := range n.Calls {
				jn.Calls = append(jn.Calls, jCall{Where: c.Where, Callee: c.Callee.Key, Held: strs(c.Held), Foreign: c.Foreign})
			}
			jd.NSites += len(jn.Sites)
			jd.NCalls += len(jn.Calls)
			jd.NEntries += len(jn.Entries)
			jd.Nodes = append(jd.Nodes, jn)
		}
		for loc := range d.cfg.Locations {
			if !d.usedLocs[loc] {
				jd.UnusedLoc = append(jd.UnusedLoc, loc)
			}
		}
		sort.Strings(jd.UnusedLoc)
		out.Domains = append(out.Domains, jd)
	}
	for k := range a.exempt {
		if !usedExempt[k] {
			out.ExemptUnused = append(out.ExemptUnused, k)
		}
	}
	sort.Strings(out.ExemptUnused)
	return out
}
