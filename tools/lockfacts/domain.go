package main

import (
	"encoding/json"
	"fmt"
	"go/ast"
	"go/types"
	"os"
	"sort"
	"strings"
)

// ---- configuration: tools/lockfacts/classes.json (hand-written, reviewed) ---------------------------

type LocCfg struct {
	Class  string `json:"class"` // mutex | once | atomic | published | confined | latched
	Lock   string `json:"lock,omitempty"`
	Once   string `json:"once,omitempty"`
	Latch  string `json:"latch,omitempty"`
	Reason string `json:"reason"`
}

type EntryHeld struct {
	Node   string   `json:"node"`
	Held   []string `json:"held"`
	Reason string   `json:"reason"`
}

type DomainCfg struct {
	Name          string            `json:"name"`
	RootTypes     []string          `json:"root_types"`
	Home          []string          `json:"home"`
	Constructors  []string          `json:"constructors"`
	ExtraRoots    []string          `json:"extra_roots"`
	Excluded      map[string]string `json:"excluded_methods"` // method key -> reason (documented as not concurrency-safe)
	WrappedCalls  bool              `json:"wrapped_calls"`
	OptionalMutex []string          `json:"optional_mutex"`
	EntryHeld     []EntryHeld       `json:"entry_held"`
	Ignored       map[string]string `json:"ignored_locations"` // pseudo-locations that carry no claim (with reason)
	Latches       map[string]string `json:"latches"`           // atomic variables used as one-way publication flags (with reason)
	Locations     map[string]LocCfg `json:"locations"`
	Note          string            `json:"note"`
}

type Config struct {
	Domains []*DomainCfg `json:"domains"`
}

func loadConfig(path string) (*Config, error) {
	b, err := os.ReadFile(path)
	if err != nil {
		return nil, err
	}
	c := &Config{}
	dec := json.NewDecoder(strings.NewReader(string(b)))
	dec.DisallowUnknownFields()
	if err := dec.Decode(c); err != nil {
		return nil, fmt.Errorf("%s: %w", path, err)
	}
	return c, nil
}

// ---- analysis driver ----------------------------------------------------------------------------------

// rootTypeDomainOf: the domain whose concurrency-safe *type* this exported method belongs to
func (a *analysis) rootTypeDomainOf(fn *types.Func) string {
	fn = fn.Origin()
	sig := fn.Type().(*types.Signature)
	if sig.Recv() == nil || !fn.Exported() {
		return ""
	}
	nt := derefNamed(sig.Recv().Type())
	if nt == nil {
		return ""
	}
	return a.allRoots[typeKey(nt)]
}

func (a *analysis) rootDomainOf(fn *types.Func) string {
	fn = fn.Origin()
	if dn, ok := a.extraOf[funcKey(fn)]; ok {
		return dn
	}
	sig := fn.Type().(*types.Signature)
	if sig.Recv() == nil || !fn.Exported() {
		return ""
	}
	nt := derefNamed(sig.Recv().Type())
	if nt == nil {
		return ""
	}
	return a.allRoots[typeKey(nt)]
}

func newAnalysis(l *loader, cfg *Config, exempt map[string]bool) *analysis {
	a := &analysis{l: l, cfg: cfg, allRoots: map[string]string{}, extraOf: map[string]string{}, exempt: exempt}
	for _, dc := range cfg.Domains {
		for _, rt := range dc.RootTypes {
			a.allRoots[rt] = dc.Name
		}
		for _, er := range dc.ExtraRoots {
			a.extraOf[er] = dc.Name
		}
	}
	return a
}

func (a *analysis) run() error {
	for _, dc := range a.cfg.Domains {
		d := &domain{cfg: dc, a: a, nodes: map[string]*fnNode{}, rootTypes: map[string]bool{}, home: map[string]bool{},
			ctors: map[string]bool{}, excluded: dc.Excluded, optional: map[string]bool{}, usedLocs: map[string]bool{}, optionalUsed: map[string]bool{}, ignoredUsed: map[string]int{}}
		for _, x := range dc.RootTypes {
			d.rootTypes[x] = true
		}
		for _, x := range dc.Home {
			d.home[x] = true
		}
		for _, x := range dc.Constructors {
			d.ctors[x] = true
		}
		for _, x := range dc.OptionalMutex {
			d.optional[x] = true
		}
		if err := d.run(); err != nil {
			return err
		}
		a.doms = append(a.doms, d)
	}
	return nil
}

type MethodInfo struct {
	Key      string   `json:"key"`
	Recv     string   `json:"recv"`
	Name     string   `json:"name"`
	Params   []string `json:"params"`
	Results  []string `json:"results"`
	Where    string   `json:"where"`
	Excluded string   `json:"excluded,omitempty"`
}

func (d *domain) rootFuncs() (roots []*types.Func, ctors []*types.Func, err error) {
	var all []*types.Func
	for fn := range d.a.l.decls {
		all = append(all, fn)
	}
	sort.Slice(all, func(i, j int) bool { return funcKey(all[i]) < funcKey(all[j]) })
	seenCtor, seenExtra := map[string]bool{}, map[string]bool{}
	for _, fn := range all {
		key := funcKey(fn)
		if d.ctors[key] {
			ctors = append(ctors, fn)
			seenCtor[key] = true
			continue
		}
		for _, er := range d.cfg.ExtraRoots {
			if er == key {
				roots = append(roots, fn)
				seenExtra[key] = true
			}
		}
		sig := fn.Type().(*types.Signature)
		if sig.Recv() == nil || !fn.Exported() {
			continue
		}
		nt := derefNamed(sig.Recv().Type())
		if nt == nil || !d.rootTypes[typeKey(nt)] {
			continue
		}
		if _, ex := d.excluded[key]; ex {
			continue
		}
		roots = append(roots, fn)
	}
	for k := range d.ctors {
		if !seenCtor[k] {
			return nil, nil, fmt.Errorf("domain %s: constructor %s not found in the source", d.cfg.Name, k)
		}
	}
	for _, k := range d.cfg.ExtraRoots {
		if !seenExtra[k] {
			return nil, nil, fmt.Errorf("domain %s: extra root %s not found in the source", d.cfg.Name, k)
		}
	}
	for k := range d.excluded {
		found := false
		for _, fn := range all {
			if funcKey(fn) == k {
				found = true
			}
		}
		if !found {
			return nil, nil, fmt.Errorf("domain %s: excluded method %s not found in the source", d.cfg.Name, k)
		}
	}
	return
}

func (d *domain) run() error {
	for _, h := range d.cfg.Home {
		if d.a.l.byName(h) == nil {
			return fmt.Errorf("domain %s: home package %s not loaded", d.cfg.Name, h)
		}
	}
	roots, ctors, err := d.rootFuncs()
	if err != nil {
		return err
	}
	if len(roots) == 0 {
		return fmt.Errorf("domain %s: no public entry points found", d.cfg.Name)
	}
	for _, fn := range ctors {
		n := d.declNode(fn, "")
		if n == nil {
			continue
		}
		n.isCtor = true
		d.analyze(n)
		d.escapeResults(n)
	}
	for _, fn := range roots {
		n := d.declNode(fn, "")
		if n == nil {
			continue
		}
		n.isRoot = true
		n.Entries = append(n.Entries, entry{What: "public method", Where: n.Where})
		d.analyze(n)
		d.escapeResults(n)
	}
	d.finish()
	return nil
}

// escapeResults: whatever a public entry point (or an escaping closure) returns is in the client's hands
func (d *domain) escapeResults(n *fnNode) {
	w := &walker{d: d, n: n, info: n.pkg.info}
	for _, r := range n.results {
		if r != nil {
			w.escape(&aval{funcs: r.funcs, ptrTo: r.ptrTo, ptrTy: r.ptrTy, holder: r.holder, hprefix: r.hprefix}, "returned by "+baseKey(n.Key), n.body.Rbrace)
		}
	}
}

func (d *domain) finish() {
	// results of closures that escaped are themselves handed out
	for i := 0; i < len(d.order); i++ {
		n := d.order[i]
		if n.lit != nil && len(n.Entries) > 0 && !n.resultsEscaped {
			n.resultsEscaped = true
			d.escapeResults(n)
		}
	}
	d.entryOverrides()
	d.ctorPhases()
	d.dropForeignSites()
	d.capturedVars()
	d.computeAssumes()
	d.prune()
	d.labelContexts()
	if len(d.optionalUsed) > 0 {
		var ws []string
		for w := range d.optionalUsed {
			ws = append(ws, w)
		}
		sort.Strings(ws)
		d.notes = append(d.notes, fmt.Sprintf("domain assumption 'the optional mutex is set' decided %d nil tests: %s", len(ws), strings.Join(ws, " ")))
	}
	if len(d.ignoredUsed) > 0 {
		var ws []string
		for w, n := range d.ignoredUsed {
			ws = append(ws, fmt.Sprintf("%s x%d", w, n))
		}
		sort.Strings(ws)
		d.notes = append(d.notes, "pseudo-locations without a claim (classes.json ignored_locations): "+strings.Join(ws, ", "))
	}
}

func (d *domain) entryOverrides() {
	used := map[int]bool{}
	for _, n := range d.order {
		for i, eh := range d.cfg.EntryHeld {
			if baseKey(n.Key) == eh.Node {
				used[i] = true
				for j := range n.Entries {
					var h []tok
					for _, s := range eh.Held {
						h = append(h, tok(s))
					}
					n.Entries[j].Held = h
					n.Entries[j].What += " [assumed held " + strings.Join(eh.Held, ",") + ": " + eh.Reason + "]"
				}
			}
		}
	}
	for i, eh := range d.cfg.EntryHeld {
		if !used[i] {
			d.unknowns = append(d.unknowns, "classes.json entry_held names node "+eh.Node+" which no longer exists")
		}
	}
}

// dropForeignSites: a domain is about the state declared in its home packages. Code of other
// packages is followed (it may call our closures back, with or without locks), but the state of
// those packages (e.g. the fields of fun.Iterator) is not this domain's to classify.
func (d *domain) dropForeignSites() {
	dropped := 0
	for _, n := range d.order {
		var out []site
		for _, s := range n.Sites {
			pk := s.Loc
			if i := strings.Index(pk, "."); i >= 0 {
				pk = pk[:i]
			}
			if _, ign := d.cfg.Ignored[s.Loc]; ign {
				d.ignoredUsed[s.Loc]++
				continue
			}
			if s.Kind == "unknown" || d.home[pk] {
				out = append(out, s)
				continue
			}
			if _, listed := d.cfg.Locations[s.Loc]; listed {
				out = append(out, s)
				continue
			}
			dropped++
		}
		n.Sites = out
	}
	if dropped > 0 {
		d.notes = append(d.notes, fmt.Sprintf("%d accesses to state of packages outside the domain's home packages were not recorded", dropped))
	}
}

func (d *domain) ctorPhases() {
	callers := map[*fnNode][]*fnNode{}
	for _, n := range d.order {
		for _, c := range n.Calls {
			callers[c.Callee] = append(callers[c.Callee], n)
		}
	}
	for _, n := range d.order {
		n.ctorPhase = n.isCtor || (len(n.Entries) == 0 && len(callers[n]) > 0)
	}
	for changed := true; changed; {
		changed = false
		for _, n := range d.order {
			if !n.ctorPhase || n.isCtor {
				continue
			}
			for _, c := range callers[n] {
				if !c.ctorPhase {
					n.ctorPhase = false
					changed = true
					break
				}
			}
		}
	}
	for _, n := range d.order {
		if n.ctorPhase {
			n.Sites = nil
		}
	}
}

func (d *domain) capturedVars() {
	type vk struct {
		decl *fnNode
		v    types.Object
	}
	declOf := func(n *fnNode, v types.Object) *fnNode {
		for x := n; x != nil; x = x.parent {
			if x.declared[v] {
				return x
			}
		}
		return nil
	}
	// a closure is shared between goroutines when client code can enter it (escaping / spawned), or
	// when a closure that client code can enter calls it without going through the function that
	// declares the variable (it was captured by / bound into that closure).
	succ := map[*fnNode][]*fnNode{}
	for _, n := range d.order {
		for _, c := range n.Calls {
			succ[n] = append(succ[n], c.Callee)
		}
	}
	reachCache := map[*fnNode]map[*fnNode]bool{}
	reachAvoiding := func(dn *fnNode) map[*fnNode]bool {
		if r, ok := reachCache[dn]; ok {
			return r
		}
		seen := map[*fnNode]bool{}
		var stack []*fnNode
		for _, n := range d.order {
			if n.lit != nil && len(n.Entries) > 0 && n != dn {
				seen[n] = true
				stack = append(stack, n)
			}
		}
		for len(stack) > 0 {
			x := stack[len(stack)-1]
			stack = stack[:len(stack)-1]
			for _, y := range succ[x] {
				if y != dn && !seen[y] {
					seen[y] = true
					stack = append(stack, y)
				}
			}
		}
		reachCache[dn] = seen
		return seen
	}
	shared := map[vk]bool{}
	for _, n := range d.order {
		for _, s := range n.Sites {
			if s.varObj == nil {
				continue
			}
			dn := declOf(n, s.varObj)
			if dn == nil || dn == n {
				continue
			}
			r := reachAvoiding(dn)
			for x := n; x != nil && x != dn; x = x.parent {
				if len(x.Entries) > 0 || r[x] {
					shared[vk{dn, s.varObj}] = true
				}
			}
		}
	}
	writes := map[vk]bool{}
	keep := func(n *fnNode, s site) (vk, bool) {
		dn := declOf(n, s.varObj)
		k := vk{dn, s.varObj}
		if dn == nil || !shared[k] {
			return k, false
		}
		if dn == n {
			if p, ok := dn.firstCapture[s.varObj]; ok && s.pos < p {
				return k, false // before the first capturing literal exists
			}
		}
		return k, true
	}
	for _, n := range d.order {
		for _, s := range n.Sites {
			if s.varObj != nil {
				if k, ok := keep(n, s); ok && s.Kind == "wr" {
					writes[k] = true
				}
			}
		}
	}
	ro := map[string]bool{}
	for _, n := range d.order {
		var out []site
		for _, s := range n.Sites {
			if s.varObj == nil {
				out = append(out, s)
				continue
			}
			k, ok := keep(n, s)
			if !ok {
				continue
			}
			if !writes[k] {
				ro[s.Loc] = true
				continue // shared but never written after capture: nothing to check
			}
			out = append(out, s)
		}
		n.Sites = out
	}
	if len(ro) > 0 {
		d.notes = append(d.notes, fmt.Sprintf("%d captured variables are shared with spawned/escaping closures but never written after capture (omitted)", len(ro)))
	}
}

func tokSet(ts []tok) map[tok]bool {
	m := map[tok]bool{}
	for _, t := range ts {
		m[t] = true
	}
	return m
}

func sortedToks(m map[tok]bool) []tok {
	var out []tok
	for t := range m {
		out = append(out, t)
	}
	sort.Slice(out, func(i, j int) bool { return out[i] < out[j] })
	return out
}

// computeAssumes: the largest token sets A(n) with A(n) ⊆ held(e) for every entry e of n and
// A(callee) ⊆ A(caller) ∪ held(call) for every in-place call. This is the certificate Lean re-checks.
func (d *domain) computeAssumes() {
	for _, strict := range []bool{true, false} {
		var top map[tok]bool
		A := map[*fnNode]map[tok]bool{} // nil = ⊤ (not reached yet)
		meet := func(n *fnNode, s map[tok]bool) bool {
			if A[n] == nil {
				c := map[tok]bool{}
				for t := range s {
					c[t] = true
				}
				A[n] = c
				return true
			}
			ch := false
			for t := range A[n] {
				if !s[t] {
					delete(A[n], t)
					ch = true
				}
			}
			return ch
		}
		_ = top
		for _, n := range d.order {
			for i := range n.Entries {
				e := &n.Entries[i]
				e.Exempt = d.a.exempt[d.entryKey(n, e)]
				if e.Exempt && !strict {
					continue
				}
				meet(n, tokSet(e.Held))
			}
		}
		for changed := true; changed; {
			changed = false
			for _, n := range d.order {
				if A[n] == nil || n.ctorPhase {
					continue
				}
				for _, c := range n.Calls {
					s := tokSet(c.Held)
					if !c.Foreign {
						lost := tokSet(c.Lost)
						for t := range A[n] {
							if !lost[t] {
								s[t] = true
							}
						}
					} else {
						s = map[tok]bool{}
					}
					if meet(c.Callee, s) {
						changed = true
					}
				}
			}
		}
		for _, n := range d.order {
			if strict {
				n.reachStrict = A[n] != nil
				n.StrictAssumes = sortedToks(A[n])
			} else {
				n.reach = A[n] != nil
				n.Assumes = sortedToks(A[n])
			}
		}
	}
}

func (d *domain) entryKey(n *fnNode, e *entry) string {
	what := e.What
	if i := strings.Index(what, " ("); i >= 0 {
		what = what[:i]
	}
	if i := strings.Index(what, " ["); i >= 0 {
		what = what[:i]
	}
	return fmt.Sprintf("%s|%s|%s@%s", d.cfg.Name, n.Key, strings.Fields(what)[0], e.Where)
}

func (d *domain) siteKey(n *fnNode, s *site) string {
	return fmt.Sprintf("%s|%s|%s|%s|%s", d.cfg.Name, n.Key, s.Where, s.Loc, s.Kind)
}

func (d *domain) prune() {
	useful := map[*fnNode]bool{}
	for _, n := range d.order {
		if (n.reach || n.reachStrict) && !n.ctorPhase && len(n.Sites) > 0 {
			useful[n] = true
		}
	}
	for changed := true; changed; {
		changed = false
		for _, n := range d.order {
			if useful[n] || !(n.reach || n.reachStrict) || n.ctorPhase {
				continue
			}
			for _, c := range n.Calls {
				if useful[c.Callee] {
					useful[n] = true
					changed = true
					break
				}
			}
		}
	}
	var out []*fnNode
	for _, n := range d.order {
		if !useful[n] {
			continue
		}
		var calls []edge
		seen := map[string]bool{}
		for _, c := range n.Calls {
			k := c.Where + "|" + c.Callee.Key + "|" + fmt.Sprint(c.Held, c.Lost, c.Foreign)
			if useful[c.Callee] && !seen[k] {
				seen[k] = true
				calls = append(calls, c)
			}
		}
		n.Calls = calls
		out = append(out, n)
	}
	d.order = out
}

func (d *domain) labelContexts() {
	for _, n := range d.order {
		switch {
		case n.isRoot:
			n.Ctx = "method"
		case n.lit == nil && len(n.Entries) > 0:
			n.Ctx = "method-value-escaping"
		case n.lit == nil:
			n.Ctx = "helper (reached only through calls)"
		default:
			n.Ctx = "closure-run-in-place"
			for _, e := range n.Entries {
				if strings.HasPrefix(e.What, "closure-spawned") {
					n.Ctx = "closure-spawned"
				}
			}
			for _, e := range n.Entries {
				if strings.HasPrefix(e.What, "closure-escaping") {
					n.Ctx = "closure-escaping"
				}
			}
		}
	}
	// a closure whose only callers are the closures built by a WithLock wrapper
	callers := map[*fnNode][]*fnNode{}
	for _, n := range d.order {
		for _, c := range n.Calls {
			callers[c.Callee] = append(callers[c.Callee], n)
		}
	}
	for _, n := range d.order {
		if n.lit == nil || len(n.Entries) > 0 || len(callers[n]) == 0 {
			continue
		}
		all := true
		for _, c := range callers[n] {
			if !strings.Contains(baseKey(c.Key), ".WithLock$") {
				all = false
			}
		}
		if all {
			var locks []string
			for _, t := range n.Assumes {
				if strings.HasPrefix(string(t), "mu:") {
					locks = append(locks, strings.TrimPrefix(string(t), "mu:"))
				}
			}
			n.Ctx = "closure-escaping(wrapped-by WithLock " + strings.Join(locks, ",") + ")"
		}
	}
}

// ---- guard evaluation (mirror of Lockset.guardOK, for reporting only; Lean decides) ---------------------

func (d *domain) classOf(loc string) LocCfg {
	if c, ok := d.cfg.Locations[loc]; ok {
		return c
	}
	return LocCfg{Class: "unknown"}
}

func guardOK(c LocCfg, kind string, held map[tok]bool) bool {
	switch c.Class {
	case "mutex":
		return held[tok("mu:"+c.Lock)]
	case "once":
		switch kind {
		case "wr":
			return held[tok("in:"+c.Once)]
		case "rd":
			return held[tok("in:"+c.Once)] || held[tok("after:"+c.Once)]
		}
		return false
	case "atomic":
		return kind == "atomic"
	case "published":
		return kind == "rd"
	case "confined":
		return kind != "unknown"
	case "latched":
		switch kind {
		case "wr":
			return held[tok("mu:"+c.Lock)]
		case "rd":
			return held[tok("mu:"+c.Lock)] || held[tok("latch:"+c.Latch)]
		}
		return false
	case "latch":
		switch kind {
		case "latchset":
			return held[tok("mu:"+c.Lock)]
		case "atomic":
			return true
		}
		return false
	}
	return false
}

func (d *domain) siteOK(n *fnNode, s *site, strict bool) bool {
	h := map[tok]bool{}
	if !s.Foreign {
		as := n.Assumes
		if strict {
			as = n.StrictAssumes
		}
		lost := tokSet(s.Lost)
		for _, t := range as {
			if !lost[t] {
				h[t] = true
			}
		}
		for _, t := range s.Held {
			h[t] = true
		}
	}
	return guardOK(d.classOf(s.Loc), s.Kind, h)
}

// public method list (for the race drivers)
func (d *domain) methods() []MethodInfo {
	roots, _, _ := d.rootFuncs()
	var out []MethodInfo
	q := func(p *types.Package) string { return p.Name() }
	add := func(fn *types.Func, excluded string) {
		sig := fn.Type().(*types.Signature)
		mi := MethodInfo{Key: funcKey(fn), Name: fn.Name(), Excluded: excluded}
		if sig.Recv() != nil {
			mi.Recv = types.TypeString(sig.Recv().Type(), q)
		}
		for i := 0; i < sig.Params().Len(); i++ {
			t := types.TypeString(sig.Params().At(i).Type(), q)
			if sig.Variadic() && i == sig.Params().Len()-1 {
				t = "..." + strings.TrimPrefix(t, "[]")
			}
			mi.Params = append(mi.Params, t)
		}
		for i := 0; i < sig.Results().Len(); i++ {
			mi.Results = append(mi.Results, types.TypeString(sig.Results().At(i).Type(), q))
		}
		if di := d.a.l.decls[fn]; di != nil {
			mi.Where = d.a.l.where(di.decl.Pos())
		}
		out = append(out, mi)
	}
	for _, fn := range roots {
		add(fn, "")
	}
	for fn := range d.a.l.decls {
		if r, ok := d.excluded[funcKey(fn)]; ok {
			add(fn, r)
		}
	}
	sort.Slice(out, func(i, j int) bool { return out[i].Key < out[j].Key })
	return out
}

var _ = ast.Inspect
