module shapehash

go 1.20
