// Command shapehash is the drift guard of the hand-written pipeline models (C01/C04, T-out tie).
// For each modelled function it prints a normalised hash of the function's syntax tree (comments,
// positions, the verif hook calls and bindings that only feed them removed) and its call-chain shape (the selector / function
// names called in the body, in source order).
//
//	shapehash -repo /repo -list spec.txt          prints JSON {"file:Recv.Func": {"hash":..,"shape":[..]}}
//
// spec.txt: one "path/file.go Recv.Func" (or "path/file.go Func") per line.
package main

import (
	"bufio"
	"bytes"
	"crypto/sha256"
	"encoding/hex"
	"encoding/json"
	"flag"
	"fmt"
	"go/ast"
	"go/parser"
	"go/printer"
	"go/token"
	"os"
	"path/filepath"
	"strings"
)

type entry struct {
	Hash  string   `json:"hash"`
	Shape []string `json:"shape"`
}

func recvName(fd *ast.FuncDecl) string {
	if fd.Recv == nil || len(fd.Recv.List) == 0 {
		return ""
	}
	t := fd.Recv.List[0].Type
	for {
		switch x := t.(type) {
		case *ast.StarExpr:
			t = x.X
		case *ast.IndexExpr:
			t = x.X
		case *ast.IndexListExpr:
			t = x.X
		case *ast.ParenExpr:
			t = x.X
		case *ast.Ident:
			return x.Name
		default:
			return "?"
		}
	}
}

// isHookCall: a call of a function or method whose name starts with "verif" (verifAt, verifSig,
// s.verifYield, ...): the build-tag guarded verification hooks. With the tag off they are empty
// functions; with the tag on they only observe/yield.
func isHookCall(e ast.Expr) bool {
	c, ok := e.(*ast.CallExpr)
	if !ok {
		return false
	}
	switch f := c.Fun.(type) {
	case *ast.Ident:
		return strings.HasPrefix(f.Name, "verif")
	case *ast.SelectorExpr:
		return strings.HasPrefix(f.Sel.Name, "verif")
	}
	return false
}

func isHookStmt(s ast.Stmt) bool {
	switch x := s.(type) {
	case *ast.ExprStmt:
		return isHookCall(x.X)
	case *ast.DeferStmt:
		return isHookCall(x.Call)
	}
	return false
}

// pureExpr: identifiers, field selections, dereferences, literals, parentheses - evaluating it
// has no effect (a nil dereference aside), so a binding of it that nobody reads can be dropped.
func pureExpr(e ast.Expr) bool {
	switch x := e.(type) {
	case *ast.Ident, *ast.BasicLit:
		return true
	case *ast.SelectorExpr:
		return pureExpr(x.X)
	case *ast.StarExpr:
		return pureExpr(x.X)
	case *ast.ParenExpr:
		return pureExpr(x.X)
	}
	return false
}

func filterStmts(n ast.Node, drop func(ast.Stmt) bool) bool {
	changed := false
	ast.Inspect(n, func(x ast.Node) bool {
		filter := func(list []ast.Stmt) []ast.Stmt {
			out := list[:0:0]
			for _, s := range list {
				if drop(s) {
					changed = true
					continue
				}
				out = append(out, s)
			}
			return out
		}
		switch b := x.(type) {
		case *ast.BlockStmt:
			b.List = filter(b.List)
		case *ast.CaseClause:
			b.Body = filter(b.Body)
		case *ast.CommClause:
			b.Body = filter(b.Body)
		}
		return true
	})
	return changed
}

// stripHooks removes the hook statements from every block and then, repeatedly, every
// `x := <pure expression>` whose variable is not referenced any more: such a binding can only have
// existed to feed a hook (Go rejects unused variables), e.g. `cond := wg.cond` captured under the
// mutex for a later verifAt. Nothing else is touched, so a change of anything the function does
// besides calling hooks still changes the hash.
func stripHooks(fd *ast.FuncDecl) {
	filterStmts(fd, isHookStmt)
	for {
		uses := map[string]int{}
		// occurrences of a name as an identifier; the field name of a selection (wg.cond) is not a
		// reference to a variable. Other over-counting only keeps a binding (conservative).
		var count func(x ast.Node) bool
		count = func(x ast.Node) bool {
			switch v := x.(type) {
			case *ast.SelectorExpr:
				ast.Inspect(v.X, count)
				return false
			case *ast.Ident:
				uses[v.Name]++
			}
			return true
		}
		ast.Inspect(fd, count)
		changed := filterStmts(fd, func(s ast.Stmt) bool {
			as, ok := s.(*ast.AssignStmt)
			if !ok || as.Tok != token.DEFINE || len(as.Lhs) != 1 || len(as.Rhs) != 1 {
				return false
			}
			id, ok := as.Lhs[0].(*ast.Ident)
			return ok && id.Name != "_" && uses[id.Name] == 1 && pureExpr(as.Rhs[0])
		})
		if !changed {
			return
		}
	}
}

func shapeOf(fd *ast.FuncDecl) []string {
	var out []string
	ast.Inspect(fd.Body, func(x ast.Node) bool {
		switch c := x.(type) {
		case *ast.GoStmt:
			out = append(out, "go")
		case *ast.DeferStmt:
			out = append(out, "defer")
		case *ast.SelectStmt:
			out = append(out, "select")
		case *ast.SendStmt:
			out = append(out, "chan<-")
		case *ast.UnaryExpr:
			if c.Op == token.ARROW {
				out = append(out, "<-chan")
			}
		case *ast.CallExpr:
			switch f := c.Fun.(type) {
			case *ast.Ident:
				out = append(out, f.Name)
			case *ast.SelectorExpr:
				out = append(out, "."+f.Sel.Name)
			case *ast.IndexExpr:
				if id, ok := f.X.(*ast.Ident); ok {
					out = append(out, id.Name)
				}
			}
		}
		return true
	})
	return out
}

func main() {
	repo := flag.String("repo", "/repo", "repository root")
	list := flag.String("list", "", "spec file")
	flag.Parse()
	f, err := os.Open(*list)
	if err != nil {
		fmt.Fprintln(os.Stderr, err)
		os.Exit(2)
	}
	defer f.Close()
	want := map[string][]string{} // file -> names
	var order []string
	sc := bufio.NewScanner(f)
	for sc.Scan() {
		ln := strings.TrimSpace(sc.Text())
		if ln == "" || strings.HasPrefix(ln, "#") {
			continue
		}
		parts := strings.Fields(ln)
		if len(parts) != 2 {
			fmt.Fprintln(os.Stderr, "bad spec line:", ln)
			os.Exit(2)
		}
		want[parts[0]] = append(want[parts[0]], parts[1])
		order = append(order, parts[0]+":"+parts[1])
	}
	res := map[string]entry{}
	for file, names := range want {
		fset := token.NewFileSet()
		af, err := parser.ParseFile(fset, filepath.Join(*repo, file), nil, 0)
		if err != nil {
			fmt.Fprintln(os.Stderr, err)
			os.Exit(2)
		}
		for _, d := range af.Decls {
			fd, ok := d.(*ast.FuncDecl)
			if !ok || fd.Body == nil {
				continue
			}
			name := fd.Name.Name
			if r := recvName(fd); r != "" {
				name = r + "." + name
			}
			for _, w := range names {
				if w == name {
					stripHooks(fd)
					fd.Doc = nil
					var buf bytes.Buffer
					_ = (&printer.Config{Mode: printer.RawFormat}).Fprint(&buf, token.NewFileSet(), fd)
					norm := strings.Join(strings.Fields(buf.String()), " ")
					h := sha256.Sum256([]byte(norm))
					res[file+":"+name] = entry{Hash: hex.EncodeToString(h[:8]), Shape: shapeOf(fd)}
				}
			}
		}
	}
	for _, k := range order {
		if _, ok := res[k]; !ok {
			res[k] = entry{Hash: "MISSING"}
		}
	}
	out, _ := json.MarshalIndent(res, "", " ")
	fmt.Println(string(out))
}
