#!/usr/bin/env python3-vt
import json,jsonschema,sys,glob
jsonschema.validate(json.load(open('/verif/MANIFEST.json')),json.load(open('/root/.vp/MANIFEST.schema.json')))
for f in glob.glob('/verif/evidence/*.json'):
    jsonschema.validate(json.load(open(f)),json.load(open('/root/.vp/EVIDENCE.schema.json')))
    print('ok',f)
print('manifest ok')
