#!/usr/bin/env python3
"""Validate a candidate breaking change and file it under seeded/<id>/.

  python3 tools_mutant.py <id> <property> <dir-with-patch.diff> <demo-file> <path-in-tree-for-demo> <go test args...> [--needs "..."]

In a scratch worktree of /repo's HEAD: (1) the demonstration passes on the unchanged tree; (2) with the
patch applied the tree builds, the tests of every package whose tests depend on a changed package pass
(`--full` runs the whole suite instead), and the demonstration fails; (3) the worktree is removed.
Only if all three hold is seeded/<id>/ written (patch.diff, the demonstration, meta.json)."""
import json, os, shutil, subprocess, sys, time

ENV = dict(os.environ, GOFLAGS="-mod=mod", GOPROXY="off", GOSUMDB="off", GOTOOLCHAIN="local")
VERIF = os.path.dirname(os.path.abspath(__file__))


def sh(cmd, cwd, timeout=3000):
    for attempt in range(4):
        p = subprocess.run(cmd, cwd=cwd, env=ENV, stdout=subprocess.PIPE, stderr=subprocess.STDOUT, text=True, timeout=timeout)
        # a build cache disturbed by a concurrent job is a toolchain hiccup, not a result: try again
        if p.returncode != 0 and ("could not import" in p.stdout or "cannot open file" in p.stdout or "go-build" in p.stdout and "no such file" in p.stdout):
            time.sleep(20)
            continue
        break
    return p.returncode, p.stdout


def main():
    args = sys.argv[1:]
    full = "--full" in args
    if full:
        args.remove("--full")
    needs = ""
    if "--needs" in args:
        i = args.index("--needs"); needs = args[i + 1]; del args[i:i + 2]
    sid, prop, src, demo, demo_dst = args[:5]
    test_args = args[5:]
    wt = f"/tmp/mutval-{sid}-{os.getpid()}"
    rc, out = sh(["git", "-C", "/repo", "worktree", "add", "--detach", wt, "HEAD"], "/")
    assert rc == 0, out
    log = {}
    ok = False
    rediff = None
    try:
        demos = demo.split(",")
        dsts = demo_dst.split(",")
        for d, t in zip(demos, dsts):
            os.makedirs(os.path.dirname(os.path.join(wt, t)), exist_ok=True)
            shutil.copy(os.path.join(src, d), os.path.join(wt, t))
        rc, out = sh(["go", "test", "-vet=off", "-count=1"] + test_args, wt)
        log["demo_on_pristine"] = "pass" if rc == 0 else "FAIL: " + out[-600:]
        if rc != 0:
            print("demo does not pass on the pristine tree:\n" + out[-1500:]); return 1
        for t in dsts:
            os.remove(os.path.join(wt, t))
        rc, out = sh(["git", "apply", os.path.join(os.path.abspath(src), "patch.diff")], wt)
        rediff = None
        if rc != 0:
            # the tree moved on since the change was written: try a three-way application and keep the re-made diff
            rc, out = sh(["git", "apply", "--3way", os.path.join(os.path.abspath(src), "patch.diff")], wt)
            if rc != 0:
                print("patch does not apply:", out); return 1
            sh(["git", "reset", "-q"], wt)
            rc, rediff = sh(["git", "diff"], wt)
            log["patch"] = "re-made against the current tree with git apply --3way"
        rc, out = sh(["git", "diff", "--name-only"], wt)
        changed = [l for l in out.split() if l.endswith(".go")]
        if any(c.endswith("_test.go") for c in changed):
            print("patch touches test files:", changed); return 1
        rc, out = sh(["go", "build", "./..."], wt)
        if rc != 0:
            print("does not build:\n" + out[-1500:]); return 1
        pkgs_changed = sorted({"github.com/tychoish/fun" + ("/" + os.path.dirname(c) if os.path.dirname(c) else "") for c in changed})
        if full:
            targets = ["./..."]
        else:
            rc, out = sh(["go", "list", "-test", "-deps", "-f", "{{.ImportPath}} {{.ForTest}}", "./..."], wt)
            rc2, allp = sh(["go", "list", "./..."], wt)
            targets = []
            for p in allp.split():
                rc3, deps = sh(["go", "list", "-test", "-deps", p], wt)
                depset = {d.split(" ")[0] for d in deps.splitlines()}
                if any(c in depset for c in pkgs_changed):
                    targets.append(p)
        t0 = time.time()
        attempts = 0
        while True:
            attempts += 1
            rc, out = sh(["go", "test", "-vet=off", "-count=1", "-timeout", "25m"] + targets, wt)
            fails = [l for l in out.splitlines() if l.startswith("--- FAIL") or l.startswith("FAIL")]
            real = [l for l in fails if "ForceSigKILL" not in l and "TestCmd" not in l and not l.startswith("FAIL\tgithub.com/tychoish/fun/srv") and l.strip() != "FAIL"]
            if not real or attempts >= 3:
                break
        log["suite_with_patch"] = {"packages": targets, "result": "pass" if not real else "FAIL", "attempts": attempts,
                                   "seconds": round(time.time() - t0), "ignored_flaky": [l for l in fails if l not in real][:4]}
        if real:
            print("existing tests fail with the patch:\n" + "\n".join(real[:20])); return 1
        for d, t in zip(demos, dsts):
            shutil.copy(os.path.join(src, d), os.path.join(wt, t))
        rc, out = sh(["go", "test", "-vet=off", "-count=1"] + test_args, wt)
        log["demo_with_patch"] = "fails (as required)" if rc != 0 else "PASSES"
        if rc == 0:
            print("demo passes with the patch applied (no violation demonstrated)"); return 1
        log["demo_failure_excerpt"] = "\n".join([l for l in out.splitlines() if "FAIL" in l or "Error" in l or "rror" in l or "panic" in l][:8])[:800]
        ok = True
    finally:
        sh(["git", "-C", "/repo", "worktree", "remove", "--force", wt], "/")
    if ok:
        dst = os.path.join(VERIF, "seeded", sid)
        os.makedirs(dst, exist_ok=True)
        if rediff:
            open(os.path.join(dst, "patch.diff"), "w").write(rediff)
        else:
            shutil.copy(os.path.join(src, "patch.diff"), os.path.join(dst, "patch.diff"))
        for d in demo.split(","):
            shutil.copy(os.path.join(src, d), os.path.join(dst, os.path.basename(d)))
        if os.path.exists(os.path.join(src, "notes.md")):
            shutil.copy(os.path.join(src, "notes.md"), os.path.join(dst, "notes.md"))
        meta = {"id": sid, "property": prop, "needs_to_manifest": needs, "demo_files": dict(zip(demo.split(","), demo_dst.split(","))),
                "demo_cmd": "go test -vet=off -count=1 " + " ".join(test_args), "validated": log,
                "base_commit": subprocess.run(["git", "-C", "/repo", "rev-parse", "--short", "HEAD"], capture_output=True, text=True).stdout.strip()}
        json.dump(meta, open(os.path.join(dst, "meta.json"), "w"), indent=1)
        print("kept:", dst, json.dumps(log)[:400])
        return 0
    return 1


sys.exit(main())
