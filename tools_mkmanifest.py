#!/usr/bin/env python3
"""Regenerates MANIFEST.json from the table below (one entry per claimed property)."""
import json, subprocess

CLAIMS = {
 "C12": dict(
   text="Lean theorems (structural induction over unbounded error trees) that Stack.Push/Join/Resolve/Unwind/ParsePanic/Wrap/Collector keep exactly the supplied constituents, each once, most recent first, and that errors.Is/As on the result agree with the constituents; the hand-written model is tied to ers/erc by a differential run on random error trees built from real Go error values, with an independent property oracle on every implementation observation",
   note="trusted: Lean kernel; hand-written model FunModel/Err.lean (validated against ers/erc every run, not generated); errors.Is/As of the Go stdlib modelled; Collector atomicity assumed from its mutex (C13)",
   ref="DESIGN.md §5 C12"),
 "C19": dict(
   text="Lean theorems for every (min,max,sigfigs) shape with max<2^62 and every multiset of in-range values: recording succeeds, counts conserved, equivalence ranges exact and within the promised precision, index monotone, ValueAtQuantile = highestEquivalent(order statistic), Min/Max bracket, Export/Import and Merge-into-empty are identities, iterator invariant holds, bitLen loop = floor(log2)+1; model tied to dt/hdrhist by a differential run over boundary-biased shapes and value multisets plus an independent oracle",
   note="trusted: Lean kernel; hand-written model FunModel/Hdr.lean (Nat arithmetic, overflow excluded by max<2^62); New's two float log2 computations modelled (5-row table, Nat.log2 for min<2^48); the float quantile->rank expression is evaluated by the generator in IEEE doubles",
   ref="DESIGN.md §5 C19"),
}
ALL = [f"C{i:02d}" for i in range(1, 21)]
PENDING = "not yet built in this revision (work in progress; see DESIGN.md §10 build order)"

hooks_commits = []
try:
    out = subprocess.run(["git", "-C", "/repo", "log", "--format=%h %s"], capture_output=True, text=True).stdout
    hooks_commits = [l.split()[0] for l in out.splitlines() if l.split(" ", 1)[1].startswith("verif:")]
except Exception:
    pass

m = {
 "version": 1,
 "setup_cmd": "./setup.sh",
 "hooks": {"guard": "verif", "enable": "go build -tags verif (the harness module replaces github.com/tychoish/fun with /repo)",
           "baseline_off_cmd": "cd /repo && go test -vet=off -count=1 -timeout 25m ./...",
           "source_commits": hooks_commits, "add_only": True},
 "engines": [{"name": "lean-proof+correspondence", "path": "check", "serves_properties": sorted(CLAIMS),
   "kind_free_text": "Lean 4 theorems about an executable model (lean/FunProps, lean/FunProofs, lean/FunModel), tied to /repo by a differential run of the compiled model driver (lean/Driver.lean) against the real code (harness/) on generated cases, with an independent property oracle (checks/) used to find the failing input"}],
 "checks": [
  {"property_id": p, "quick_cmd": f"./check {p} --tier quick", "thorough_cmd": f"./check {p} --tier thorough",
   "evidence_file": f"evidence/{p}.json", "replay_cmd_template": f"./check {p} --replay {{path}}",
   "engine": "lean-proof+correspondence",
   "level_claimed": {"category": c.get("category", "proof"), "text": c["text"], "design_ref": c["ref"]},
   "level_note": c["note"], "technique": c.get("technique", "Lean 4 proof over a hand-written executable model + differential correspondence with the implementation")}
  for p, c in sorted(CLAIMS.items())],
 "not_applicable": [{"property_id": p, "reason": PENDING} for p in ALL if p not in CLAIMS],
 "notes": "see DESIGN.md; known-findings.jsonl lists open and fixed findings",
}
json.dump(m, open("/verif/MANIFEST.json", "w"), indent=1)
print("claimed:", sorted(CLAIMS))
