#!/usr/bin/env python3
"""Regenerates MANIFEST.json from the table below (one entry per claimed property)."""
import json, subprocess

CLAIMS = json.load(open('/verif/claims.json'))
ALL = [f"C{i:02d}" for i in range(1, 21)]
PENDING = "not yet built in this revision (work in progress; see DESIGN.md §10 build order)"

hooks_commits = []
try:
    out = subprocess.run(["git", "-C", "/repo", "log", "--format=%h %s"], capture_output=True, text=True).stdout
    hooks_commits = [l.split()[0] for l in out.splitlines() if l.split(" ", 1)[1].startswith("verif:")]
except Exception:
    pass

m = {
 "version": 1,
 "setup_cmd": "./setup.sh",
 "hooks": {"guard": "verif", "enable": "go build -tags verif (the harness module replaces github.com/tychoish/fun with /repo)",
           "baseline_off_cmd": "cd /repo && go test -vet=off -count=1 -timeout 25m ./...",
           "source_commits": hooks_commits, "add_only": True},
 "engines": [{"name": "lean-proof+correspondence", "path": "check", "serves_properties": sorted(CLAIMS),
   "kind_free_text": "Lean 4 theorems (lean/FunProps, helper lemmas lean/FunProofs) about executable models (lean/FunModel), tied to /repo on every run in two ways: translators (tools/go2lean, tools/lockfacts) regenerate code-level definitions (lean/FunGen) from the current source and tie theorems prove the hand-written models equal to / refined by them; and a differential run of the compiled model driver (lean/Driver.lean) against the real code (harness/, build tag verif) on generated cases, with an independent property oracle (checks/) that also searches for the failing input when a proof or a tie breaks"}],
 "checks": [
  {"property_id": p, "quick_cmd": f"./check {p} --tier quick", "thorough_cmd": f"./check {p} --tier thorough",
   "evidence_file": f"evidence/{p}.json", "replay_cmd_template": f"./check {p} --replay {{path}}",
   "engine": "lean-proof+correspondence",
   "level_claimed": {"category": c.get("category", "proof"), "text": c["text"], "design_ref": c["ref"]},
   "level_note": c["note"], "technique": c.get("technique", "Lean 4 proof over a hand-written executable model + differential correspondence with the implementation")}
  for p, c in sorted(CLAIMS.items())],
 "not_applicable": [{"property_id": p, "reason": PENDING} for p in ALL if p not in CLAIMS],
 "notes": "see DESIGN.md; known-findings.jsonl lists open and fixed findings",
}
json.dump(m, open("/verif/MANIFEST.json", "w"), indent=1)
print("claimed:", sorted(CLAIMS))
