#!/usr/bin/env python3
"""Regenerates MANIFEST.json from the table below (one entry per claimed property)."""
import json, subprocess

CLAIMS = {
 "C02": dict(
   text="Lean theorems over a call-stream model of sequential pipelines (each Go closure = a function on the list of results of successive calls): for every operator tree without a failing non-last Join/Chain operand the values equal the functional specification (filter/map/concat/identity/dedupe-first/enumerate/flatten, truncated at the first non-skip user error), the specification is always a prefix of what the code yields, a skip removes exactly one element, an error truncates, iterators are sticky after their first error, Count/JSON/Reduce agree with the specification; the full statement is refuted by kernel-checked witnesses for Join and Chain (open finding). Tied by a differential run over random operator trees with injected skip/error/EOF/abort positions, plus the specification itself as independent oracle",
   note="trusted: Lean kernel; hand-written FunModel/Stream.lean; goroutine-backed identity stages modelled by their sequential value semantics (C01/C04 cover their concurrency); context never cancelled; open finding: Join/Chain continue after operand failure",
   ref="DESIGN.md §5 C02"),
 "C12": dict(
   text="Lean theorems (structural induction over unbounded error trees) that Stack.Push/Join/Resolve/Unwind/ParsePanic/Wrap/Collector keep exactly the supplied constituents, each once, most recent first, and that errors.Is/As on the result agree with the constituents; the hand-written model is tied to ers/erc by a differential run on random error trees built from real Go error values, with an independent property oracle on every implementation observation",
   note="trusted: Lean kernel; hand-written model FunModel/Err.lean (validated against ers/erc every run, not generated); errors.Is/As of the Go stdlib modelled; Collector atomicity assumed from its mutex (C13)",
   ref="DESIGN.md §5 C12"),
 "C19": dict(
   text="Lean theorems for every (min,max,sigfigs) shape with max<2^62 and every multiset of in-range values: recording succeeds, counts conserved, equivalence ranges exact and within the promised precision, index monotone, ValueAtQuantile = highestEquivalent(order statistic), Min/Max bracket, Export/Import and Merge-into-empty are identities, iterator invariant holds, bitLen loop = floor(log2)+1; model tied to dt/hdrhist by a differential run over boundary-biased shapes and value multisets plus an independent oracle",
   note="trusted: Lean kernel; hand-written model FunModel/Hdr.lean (Nat arithmetic, overflow excluded by max<2^62); New's two float log2 computations modelled (5-row table, Nat.log2 for min<2^48); the float quantile->rank expression is evaluated by the generator in IEEE doubles",
   ref="DESIGN.md §5 C19"),
 "C16": dict(
   text="Lean theorems over pointer-level heap models of dt.List (58 theorems) and dt.Stack: an invariant WF (circular doubly linked chain with sentinel / singly linked chain with bottom sentinel, ownership, Len) is preserved by every public operation for any number of containers and unbounded sizes, each operation equals the same operation on a plain sequence (ghost list), rejected operations leave the heap unchanged, forward walk = reversed backward walk = ghost sequence, In(l) iff member; reachability lift; kernel-checked witnesses that Swap and head-Item.Remove break the invariant (open findings). Tied to the code by a differential run of operation sequences (handles drawn from everything ever returned) printing both walks, Len and every handle after every step, plus an independent sequence-level oracle",
   note="trusted: Lean kernel; hand-written pointer models FunModel/Dll.lean, FunModel/Sll.lean (mirrors of dt/list.go, dt/stack.go, validated every run); JSON text of ints modelled; Extend(l,l) and methods on nil receivers excluded; open findings: Element.Swap, Item.Remove on the head item",
   ref="DESIGN.md §5 C16"),
 "C17": dict(
   text="Lean theorems for every list and every strict weak ordering: SortMerge and SortQuick return a sorted permutation, both are stable and hence equal, IsSorted is true exactly when no adjacent pair is out of order, Heap pops every pushed value once in non-decreasing order (FIFO among equals); the three comparators used by the check are proved strict weak orderings. Sequence-level algorithms (split/merge/mergeSort as the code recurses) are cross-checked against the pointer-level model on every sort the driver runs, and the pointer-level model against the implementation by the differential run (sorted lists keep being used afterwards)",
   note="trusted: Lean kernel; FunModel/SortSeq.lean hand-written (tie to the pointer model is tested, not proved); sort.SliceStable trusted to be a stable sort; comparators strict weak",
   ref="DESIGN.md §5 C17"),
 "C18": dict(
   text="Lean theorems over a model of dt.Set (map + optional order list): invariant preserved by Add/Delete/Populate/Sort*, Check/Len/AddCheck/DeleteCheck agree with a duplicate-free reference list, re-adding keeps the position, iteration order = insertion order (sorted after Sort, independent of map order and of the sorter), sort-then-delete removes exactly that value, Equal iff same members (same order when ordered), JSON round trip; reachability lift. Tied by a differential run over the value domain {0..5}, ordered/unordered x synchronized, with an independent reference-set oracle",
   note="trusted: Lean kernel; hand-written FunModel/SetModel.lean; Go map order unspecified (parameter of the model, observations of unordered sets compared sorted); the order list is modelled at sequence level (C16); concurrent use of a synchronized set is covered only through its lock (C13)",
   ref="DESIGN.md §5 C18"),
}
ALL = [f"C{i:02d}" for i in range(1, 21)]
PENDING = "not yet built in this revision (work in progress; see DESIGN.md §10 build order)"

hooks_commits = []
try:
    out = subprocess.run(["git", "-C", "/repo", "log", "--format=%h %s"], capture_output=True, text=True).stdout
    hooks_commits = [l.split()[0] for l in out.splitlines() if l.split(" ", 1)[1].startswith("verif:")]
except Exception:
    pass

m = {
 "version": 1,
 "setup_cmd": "./setup.sh",
 "hooks": {"guard": "verif", "enable": "go build -tags verif (the harness module replaces github.com/tychoish/fun with /repo)",
           "baseline_off_cmd": "cd /repo && go test -vet=off -count=1 -timeout 25m ./...",
           "source_commits": hooks_commits, "add_only": True},
 "engines": [{"name": "lean-proof+correspondence", "path": "check", "serves_properties": sorted(CLAIMS),
   "kind_free_text": "Lean 4 theorems about an executable model (lean/FunProps, lean/FunProofs, lean/FunModel), tied to /repo by a differential run of the compiled model driver (lean/Driver.lean) against the real code (harness/) on generated cases, with an independent property oracle (checks/) used to find the failing input"}],
 "checks": [
  {"property_id": p, "quick_cmd": f"./check {p} --tier quick", "thorough_cmd": f"./check {p} --tier thorough",
   "evidence_file": f"evidence/{p}.json", "replay_cmd_template": f"./check {p} --replay {{path}}",
   "engine": "lean-proof+correspondence",
   "level_claimed": {"category": c.get("category", "proof"), "text": c["text"], "design_ref": c["ref"]},
   "level_note": c["note"], "technique": c.get("technique", "Lean 4 proof over a hand-written executable model + differential correspondence with the implementation")}
  for p, c in sorted(CLAIMS.items())],
 "not_applicable": [{"property_id": p, "reason": PENDING} for p in ALL if p not in CLAIMS],
 "notes": "see DESIGN.md; known-findings.jsonl lists open and fixed findings",
}
json.dump(m, open("/verif/MANIFEST.json", "w"), indent=1)
print("claimed:", sorted(CLAIMS))
