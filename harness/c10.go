package main

// C10 - srv.Service lifecycle.
//
//   (svc (cfg R S C H blocks) [(variant ...)] (thread op...)... (choices n...))
//       T-sched: every caller thread and every service goroutine is parked at the yield points of
//       srv/service.go (and inside the phase functions); one action releases one actor for one
//       atomic step. Whether an actor that is about to block can proceed is read off the real
//       synchronisation object the yield point hands to the hook (channel closed? context done?
//       wait-group at zero?). The Lean model replays the same choices; observation lines and
//       enabled sets must agree step by step.
//   (svcmatrix (cfg R S C H 0) ending when)
//       the exhaustive outcome matrix: ending in {returns close parent}, when in {before after
//       prestart}; free-running but sequenced by the harness through channels fed by the hooks
//       (no sleeps). Prints the call log with a logical clock.
//   (svcfree (cfg R S C H blocks) (thread op...)...)
//       1-16 goroutines call Start/Close/Wait/Running concurrently (really concurrently); prints
//       the call log (clock = one atomic counter, calls stamped before, returns after).
// Logs of the last two forms are judged by the model's `allowedLog` (driver `svclog`) and by the
// Python predicate.

import (
	"context"
	"errors"
	"fmt"
	"sort"
	"strconv"
	"strings"
	"sync"
	"sync/atomic"
	"time"

	"github.com/tychoish/fun"
	"github.com/tychoish/fun/ers"
	"github.com/tychoish/fun/srv"
)

var (
	c10errRun = errors.New("c10 run error")
	c10errSd  = errors.New("c10 shutdown error")
	c10errCu  = errors.New("c10 cleanup error")
)

func c10ids(err error) string {
	if err == nil {
		return ""
	}
	out := ""
	for _, p := range []struct {
		id  int
		err error
	}{{11, c10errRun}, {12, c10errSd}, {13, c10errCu}, {1000, ers.ErrRecoveredPanic}} {
		if errors.Is(err, p.err) {
			out += fmt.Sprintf(".%d", p.id)
		}
	}
	return out
}

const (
	c10Idle = iota
	c10Running
	c10Gated
	c10Gone
)

type c10actor struct {
	name  string
	state int
	gate  string
	probe func() bool
	grant chan struct{}
	ops   []*Sexp
	pc    int
}

const (
	c10evGate = iota
	c10evOpDone
	c10evGone
)

type c10event struct {
	actor *c10actor
	kind  int
	gate  string
	probe func() bool
	res   string
}

type c10run struct {
	mode   string // sched | matrix | free
	out    [4]string
	blocks bool
	svc    *srv.Service

	parents []context.Context
	cancels []context.CancelFunc
	pdone   []bool

	// logical clock and call log
	step  atomic.Int64
	logMu sync.Mutex
	log   []string

	free     atomic.Bool
	freeCh   chan struct{}
	observer atomic.Bool

	// sched mode
	events     chan c10event
	threads    []*c10actor
	rg, sd, eh *c10actor
	current    atomic.Pointer[c10actor]
	lines      []string
	failed     string
	timeout    time.Duration

	// matrix mode
	ending     string
	holdLaunch bool
	arrived    chan struct{}
	release    chan struct{}
	releaseRun chan struct{}
	done       map[string]chan struct{}
	doneOnce   map[string]*sync.Once
}

var activeC10 atomic.Pointer[c10run]

func c10Hook(ctx context.Context, point string, args ...any) {
	r := activeC10.Load()
	if r == nil || len(args) == 0 {
		return
	}
	if svc, ok := args[0].(*srv.Service); !ok || svc != r.svc {
		return // a goroutine of an earlier case
	}
	r.at(strings.TrimPrefix(point, "srv.Service."), args[1:])
}

func c10probe(args []any) func() bool {
	for _, a := range args {
		switch v := a.(type) {
		case chan struct{}:
			return func() bool {
				select {
				case <-v:
					return true
				default:
					return false
				}
			}
		case context.Context:
			return func() bool { return v.Err() != nil }
		case *fun.WaitGroup:
			return func() bool { return v.IsDone() }
		}
	}
	return nil
}

func (r *c10run) at(short string, args []any) {
	if r.free.Load() || r.observer.Load() {
		return
	}
	switch r.mode {
	case "sched":
		var a *c10actor
		switch {
		case strings.HasPrefix(short, "run."):
			a = r.rg
		case strings.HasPrefix(short, "shutdown."):
			a = r.sd
		case strings.HasPrefix(short, "handler."):
			a = r.eh
		default:
			a = r.current.Load()
		}
		if a == nil {
			return
		}
		if strings.HasSuffix(short, ".done") {
			r.events <- c10event{actor: a, kind: c10evGone}
			return
		}
		r.gateAt(a, short, c10probe(args))
	case "matrix", "free":
		if strings.HasSuffix(short, ".done") {
			r.doneOnce[short].Do(func() { close(r.done[short]) })
			return
		}
		if short == "Start.launched" && r.holdLaunch {
			r.holdLaunch = false
			close(r.arrived)
			select {
			case <-r.release:
			case <-r.freeCh:
			}
		}
	}
}

func (r *c10run) gateAt(a *c10actor, gate string, probe func() bool) {
	r.events <- c10event{actor: a, kind: c10evGate, gate: gate, probe: probe}
	select {
	case <-a.grant:
	case <-r.freeCh:
	}
}

func (r *c10run) stamp() int64 {
	if r.mode == "sched" {
		return r.step.Load()
	}
	return r.step.Add(1)
}

func (r *c10run) logEv(ev string) {
	k := r.stamp()
	r.logMu.Lock()
	r.log = append(r.log, fmt.Sprintf("%d:%s", k, ev))
	r.logMu.Unlock()
}

// phase is the body of Run/Shutdown/Cleanup/ErrorHandler
func (r *c10run) phase(idx int, name string, actor *c10actor, ctx context.Context, agg string) error {
	r.logEv("beg." + name + agg)
	switch r.mode {
	case "sched":
		if !r.free.Load() {
			var probe func() bool
			if idx == 0 && r.blocks {
				probe = func() bool { return ctx.Err() != nil }
			}
			r.gateAt(actor, "phase."+name, probe)
		}
		if idx == 0 && r.blocks {
			select {
			case <-ctx.Done():
			case <-r.freeCh:
			}
		}
	case "matrix":
		if idx == 0 {
			if r.ending == "returns" {
				select {
				case <-r.releaseRun:
				case <-r.freeCh:
				}
			} else {
				select {
				case <-ctx.Done():
				case <-r.freeCh:
				}
			}
		}
	case "free":
		if idx == 0 && r.blocks {
			select {
			case <-ctx.Done():
			case <-r.freeCh:
			}
		}
	}
	r.logEv("end." + name)
	switch r.out[idx] {
	case "err":
		return []error{c10errRun, c10errSd, c10errCu, nil}[idx]
	case "panic":
		panic("c10 " + name + " panic")
	}
	return nil
}

func newC10(mode string, cfg *Sexp, nparents int) *c10run {
	r := &c10run{mode: mode, freeCh: make(chan struct{}), timeout: 5 * time.Second}
	a := cfg.Args()
	for i := 0; i < 4; i++ {
		r.out[i] = a[i].Atom
	}
	r.blocks = len(a) > 4 && a[4].Int() != 0
	for i := 0; i < nparents; i++ {
		ctx, cancel := context.WithCancel(context.Background())
		r.parents = append(r.parents, ctx)
		r.cancels = append(r.cancels, cancel)
		r.pdone = append(r.pdone, false)
	}
	r.rg = &c10actor{name: "rg", grant: make(chan struct{}, 1)}
	r.sd = &c10actor{name: "sd", grant: make(chan struct{}, 1)}
	r.eh = &c10actor{name: "eh", grant: make(chan struct{}, 1)}
	s := &srv.Service{Name: "c10"}
	if r.out[0] != "absent" {
		s.Run = func(ctx context.Context) error { return r.phase(0, "run", r.rg, ctx, "") }
	}
	if r.out[1] != "absent" {
		s.Shutdown = func() error { return r.phase(1, "shutdown", r.sd, nil, "") }
	}
	if r.out[2] != "absent" {
		s.Cleanup = func() error { return r.phase(2, "cleanup", r.rg, nil, "") }
	}
	if r.out[3] != "absent" {
		s.ErrorHandler.Set(func(err error) {
			agg := c10ids(err)
			if err == nil {
				agg = ".nilaggregate"
			}
			_ = r.phase(3, "handler", r.eh, nil, agg)
		})
	}
	r.svc = s
	r.done = map[string]chan struct{}{}
	r.doneOnce = map[string]*sync.Once{}
	for _, k := range []string{"run.done", "shutdown.done", "handler.done"} {
		r.done[k] = make(chan struct{})
		r.doneOnce[k] = &sync.Once{}
	}
	activeC10.Store(r)
	return r
}

func (r *c10run) close() {
	r.free.Store(true)
	close(r.freeCh)
	for _, c := range r.cancels {
		c()
	}
	r.svc.Close()
	activeC10.CompareAndSwap(r, nil)
}

// exec runs one public method and renders its result
func (r *c10run) exec(op *Sexp) string {
	switch op.Head() {
	case "start":
		err := r.svc.Start(r.parents[op.List[1].Int()])
		switch {
		case err == nil:
			return "nil"
		case errors.Is(err, srv.ErrServiceAlreadyStarted):
			return "already"
		case errors.Is(err, srv.ErrServiceReturned):
			return "returned"
		}
		return "start-other-error"
	case "close":
		r.svc.Close()
		return "closed"
	case "wait":
		err := r.svc.Wait()
		if _, live := err.(*ers.Stack); live && r.mode != "sched" && r.out[3] == "panic" {
			// Resolve hands out the collector's live stack (D26, a C13 matter): do not inspect it while the
			// handler goroutine may still be pushing its recovered panic
			r.waitCh(r.done["handler.done"], "handler.done")
		}
		if errors.Is(err, srv.ErrServiceNotStarted) {
			return "notstarted"
		}
		return "res" + c10ids(err)
	case "running":
		return "running" + bit(r.svc.Running())
	}
	return "bad-op"
}

func opName(op *Sexp) string {
	if op.Head() == "start" {
		return "start." + op.List[1].Atom
	}
	return op.Head()
}

// ---------------------------------------------------------------------------------------------
// T-sched
// ---------------------------------------------------------------------------------------------

func (r *c10run) actors() []*c10actor { return append(append([]*c10actor{}, r.threads...), r.rg, r.sd, r.eh) }

func (r *c10run) insideOnce() bool {
	for _, t := range r.threads {
		if t.state == c10Gated && (t.gate == "Start.launched" || t.gate == "Start.started") {
			return true
		}
	}
	return false
}

func (r *c10run) enabled(allowCancel bool) []string {
	var out []string
	for _, a := range r.actors() {
		switch a.state {
		case c10Idle:
			if a.ops != nil && a.pc < len(a.ops) {
				out = append(out, a.name)
			}
		case c10Gated:
			ok := a.probe == nil || a.probe()
			if a.gate == "Start.claimed" && r.insideOnce() {
				ok = false // sync.Once: the first caller is still inside the closure
			}
			if ok {
				out = append(out, a.name)
			}
		}
	}
	if allowCancel {
		for i, d := range r.pdone {
			if !d {
				out = append(out, fmt.Sprintf("p%d", i))
			}
		}
	}
	return out
}

func (r *c10run) find(label string) *c10actor {
	for _, a := range r.actors() {
		if a.name == label {
			return a
		}
	}
	return nil
}

// await consumes events until actor a has reported and everything it started has reached a gate
func (r *c10run) await(a *c10actor) string {
	timer := time.NewTimer(r.timeout)
	defer timer.Stop()
	where := ""
	for {
		if where != "" {
			if !(a.state == c10Gated && a.gate == "Start.launched") ||
				(r.rg.state == c10Gated && r.sd.state == c10Gated && r.eh.state == c10Gated) {
				return where
			}
		}
		select {
		case ev := <-r.events:
			b := ev.actor
			switch ev.kind {
			case c10evGate:
				b.state, b.gate, b.probe = c10Gated, ev.gate, ev.probe
				if b == a {
					where = "at:" + ev.gate
				}
			case c10evOpDone:
				b.state, b.gate, b.probe = c10Idle, "", nil
				b.pc++
				if b == a {
					where = "ret:" + ev.res
				}
			case c10evGone:
				b.state, b.gate, b.probe = c10Gone, "", nil
				if b == a {
					where = "gone"
				}
			}
			if b != a && !(ev.kind == c10evGate && (b == r.rg || b == r.sd || b == r.eh)) {
				r.lines = append(r.lines, "note=unexpected-event:"+b.name)
			}
		case <-timer.C:
			r.failed = "TIMEOUT(" + a.name + ")"
			return "timeout"
		}
	}
}

func (r *c10run) do(label string) string {
	if label[0] == 'p' {
		var k int
		fmt.Sscanf(label[1:], "%d", &k)
		r.logEv(fmt.Sprintf("cancel.%d", k))
		r.pdone[k] = true
		r.cancels[k]()
		return "ok"
	}
	a := r.find(label)
	if a == nil {
		return "bad-action"
	}
	switch a.state {
	case c10Idle:
		op := a.ops[a.pc]
		a.state = c10Running
		r.current.Store(a)
		tid, idx := a.name[1:], a.pc
		r.logEv(fmt.Sprintf("call.%s.%d.%s", tid, idx, opName(op)))
		go func() {
			res := func() (out string) {
				defer func() {
					if p := recover(); p != nil {
						out = fmt.Sprintf("PANIC(%v)", p)
					}
				}()
				return r.exec(op)
			}()
			if !r.free.Load() {
				r.logEv(fmt.Sprintf("ret.%s.%d.%s", tid, idx, res))
			}
			r.events <- c10event{actor: a, kind: c10evOpDone, res: res}
		}()
	case c10Gated:
		a.state = c10Running
		if a.ops != nil {
			r.current.Store(a)
		}
		a.grant <- struct{}{}
	default:
		return "bad-action"
	}
	w := r.await(a)
	r.current.Store(nil)
	return w
}

func (r *c10run) observeRunning() string {
	r.observer.Store(true)
	defer r.observer.Store(false)
	return bit(r.svc.Running())
}

func (r *c10run) runSched(choices []string, drainBound int) string {
	stepf := func(label string, en []string) bool {
		w := r.do(label)
		if r.failed != "" {
			return false
		}
		r.lines = append(r.lines, fmt.Sprintf("{%s}%s=%s R%s", strings.Join(en, ","), label, w, r.observeRunning()))
		r.step.Add(1)
		return true
	}
	for _, c := range choices {
		en := r.enabled(true)
		if len(en) == 0 {
			break
		}
		// a choice is an index into the enabled list, or the name of an actor (skipped when not enabled)
		label := ""
		if n, err := strconv.Atoi(c); err == nil {
			label = en[n%len(en)]
		} else {
			for _, e := range en {
				if e == c {
					label = c
				}
			}
			if label == "" {
				continue
			}
		}
		if !stepf(label, en) {
			return strings.Join(r.lines, " ; ") + " ; " + r.failed
		}
	}
	for i := 0; i < drainBound; i++ {
		en := r.enabled(false)
		if len(en) == 0 {
			break
		}
		if !stepf(en[0], en) {
			return strings.Join(r.lines, " ; ") + " ; " + r.failed
		}
	}
	var blocked []string
	for _, a := range r.actors() {
		switch {
		case a.ops != nil && a.pc < len(a.ops):
			g := a.gate
			if a.state == c10Idle {
				g = "idle"
			}
			blocked = append(blocked, a.name+"@"+g)
		case a.ops == nil && a.state == c10Gated:
			blocked = append(blocked, a.name+"@"+a.gate)
		}
	}
	r.logMu.Lock()
	lg := strings.Join(r.log, " ")
	r.logMu.Unlock()
	r.lines = append(r.lines, fmt.Sprintf("final blocked=[%s] log=[%s]", strings.Join(blocked, ","), lg))
	return strings.Join(r.lines, " ; ")
}

func c10sched(s *Sexp) string {
	var programs [][]*Sexp
	var choices []string
	var cfg *Sexp
	np := 0
	for _, x := range s.Args() {
		switch x.Head() {
		case "cfg":
			cfg = x
		case "thread":
			programs = append(programs, x.Args())
		case "choices":
			for _, c := range x.Args() {
				choices = append(choices, c.Atom)
			}
		}
	}
	for _, p := range programs {
		for _, op := range p {
			if op.Head() == "start" && op.List[1].Int()+1 > np {
				np = op.List[1].Int() + 1
			}
		}
	}
	if cfg == nil {
		return "bad-op"
	}
	r := newC10("sched", cfg, np)
	defer r.close()
	r.events = make(chan c10event, 256)
	used := map[int]bool{}
	for i, p := range programs {
		ops := p
		if ops == nil {
			ops = []*Sexp{}
		}
		r.threads = append(r.threads, &c10actor{name: fmt.Sprintf("t%d", i), grant: make(chan struct{}, 1), ops: ops})
		for _, op := range p {
			if op.Head() == "start" {
				used[op.List[1].Int()] = true
			}
		}
	}
	for i := range r.pdone {
		if !used[i] {
			r.pdone[i] = true // not a parent of any Start: never offered as an action
		}
	}
	return r.runSched(choices, 600)
}

// ---------------------------------------------------------------------------------------------
// outcome matrix
// ---------------------------------------------------------------------------------------------

func (r *c10run) call(tid, idx int, op *Sexp) string {
	r.logEv(fmt.Sprintf("call.%d.%d.%s", tid, idx, opName(op)))
	res := r.exec(op)
	r.logEv(fmt.Sprintf("ret.%d.%d.%s", tid, idx, res))
	return res
}

func (r *c10run) waitCh(ch chan struct{}, what string) bool {
	select {
	case <-ch:
		return true
	case <-time.After(r.timeout):
		r.failed = "TIMEOUT(" + what + ")"
		return false
	}
}

func sx(format string, a ...any) *Sexp {
	s, err := parseSexp(fmt.Sprintf(format, a...))
	if err != nil {
		panic(err)
	}
	return s
}

func c10matrix(s *Sexp) string {
	args := s.Args()
	cfg, ending, when := args[0], args[1].Atom, args[2].Atom
	r := newC10("matrix", cfg, 1)
	defer r.close()
	r.ending = ending
	r.arrived, r.release, r.releaseRun = make(chan struct{}), make(chan struct{}), make(chan struct{})
	end := func(tid, idx int) {
		switch ending {
		case "returns":
			close(r.releaseRun)
		case "close":
			r.call(tid, idx, sx("(close)"))
		case "parent":
			r.logEv("cancel.0")
			r.cancels[0]()
		}
	}
	finish := func() string {
		r.logMu.Lock()
		defer r.logMu.Unlock()
		out := "log=[" + strings.Join(r.log, " ") + "]"
		if r.failed != "" {
			out += " ; " + r.failed
		}
		return out
	}
	n := 0
	next := func() int { n++; return n - 1 }
	switch when {
	case "after":
		r.call(0, next(), sx("(start 0)"))
		r.call(0, next(), sx("(running)"))
		end(0, next())
	case "prestart":
		end(0, next())
		r.call(0, next(), sx("(start 0)"))
	case "before":
		r.holdLaunch = true
		started := make(chan struct{})
		r.logEv(fmt.Sprintf("call.1.%d.start.0", 0))
		go func() {
			res := r.exec(sx("(start 0)"))
			r.logEv(fmt.Sprintf("ret.1.%d.%s", 0, res))
			close(started)
		}()
		if !r.waitCh(r.arrived, "Start.launched") {
			return finish()
		}
		r.call(0, next(), sx("(wait)")) // not started yet
		end(0, next())
		// the whole deferred chain of the Run goroutine finishes while Start is still inside doStart.Do
		if !r.waitCh(r.done["run.done"], "run.done") {
			return finish()
		}
		r.call(0, next(), sx("(wait)"))
		close(r.release)
		if !r.waitCh(started, "Start return") {
			return finish()
		}
	}
	r.call(0, next(), sx("(wait)"))
	r.call(0, next(), sx("(running)"))
	r.call(0, next(), sx("(start 0)"))
	r.call(0, next(), sx("(close)"))
	for _, k := range []string{"run.done", "shutdown.done", "handler.done"} {
		if !r.waitCh(r.done[k], k) {
			return finish()
		}
	}
	r.call(0, next(), sx("(wait)"))
	r.call(0, next(), sx("(running)"))
	return finish()
}

// ---------------------------------------------------------------------------------------------
// free-running concurrent callers
// ---------------------------------------------------------------------------------------------

func c10free(s *Sexp) string {
	var programs [][]*Sexp
	for _, x := range s.Args() {
		if x.Head() == "thread" {
			programs = append(programs, x.Args())
		}
	}
	var cfg *Sexp
	np := 1
	for _, x := range s.Args() {
		if x.Head() == "cfg" {
			cfg = x
		}
	}
	for _, p := range programs {
		for _, op := range p {
			if op.Head() == "start" && op.List[1].Int()+1 > np {
				np = op.List[1].Int() + 1
			}
		}
	}
	r := newC10("free", cfg, np)
	defer r.close()
	barrier := make(chan struct{})
	var all, nowait sync.WaitGroup
	for i, p := range programs {
		hasWait := false
		for _, op := range p {
			if op.Head() == "wait" {
				hasWait = true
			}
		}
		all.Add(1)
		if !hasWait {
			nowait.Add(1)
		}
		go func(tid int, ops []*Sexp, hasWait bool) {
			defer all.Done()
			if !hasWait {
				defer nowait.Done()
			}
			<-barrier
			for idx, op := range ops {
				r.call(tid, idx, op)
			}
		}(i, p, hasWait)
	}
	close(barrier)
	// janitor: once the threads that cannot block have finished, end every parent context so that
	// a service that is (or will be) started ends and every Wait returns
	nowait.Wait()
	for k, c := range r.cancels {
		r.logEv(fmt.Sprintf("cancel.%d", k))
		c()
	}
	doneCh := make(chan struct{})
	go func() { all.Wait(); close(doneCh) }()
	if !r.waitCh(doneCh, "callers") {
		return "log=[" + strings.Join(r.log, " ") + "] ; " + r.failed
	}
	// final observation by one more caller
	tid := len(programs)
	w := r.call(tid, 0, sx("(wait)"))
	if w != "notstarted" {
		r.call(tid, 1, sx("(running)"))
		r.call(tid, 2, sx("(start 0)"))
	}
	r.logMu.Lock()
	defer r.logMu.Unlock()
	sort.SliceStable(r.log, func(i, j int) bool {
		var a, b int
		fmt.Sscanf(r.log[i], "%d:", &a)
		fmt.Sscanf(r.log[j], "%d:", &b)
		return a < b
	})
	return "log=[" + strings.Join(r.log, " ") + "]"
}

func c10case(s *Sexp) string {
	switch s.Head() {
	case "svc":
		return c10sched(s)
	case "svcmatrix":
		return c10matrix(s)
	case "svcfree":
		return c10free(s)
	}
	return "bad-op"
}

func init() {
	handlers["C10"] = c10case
	srv.VerifSetHook(c10Hook)
}
