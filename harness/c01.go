package main

// C01 / C04 — T-out harness for the goroutine pipelines of tychoish/fun.
//
// One case per line:
//
//	(pipe (construct NAME) (workers n) (buf k) (input x1 x2 ...) (consumer BEHAVIOUR [k]) (seed s) (procs p))
//
// runs the REAL construct once under seeded schedule perturbation (the verif yield point
// fun.chan.before-select in ChanSend.Write / ChanReceive.Read, GOMAXPROCS=p) and prints
//
//	(obs (seen (..) (..)) (calls ..) (end e..) (after a) (idem b) (ret r) (released b) (leak name..))
//
// seen   : per consumer / worker, the items it received, in the order it received them
// calls  : arguments the user function (Map transform / generator) was called with, sorted
// end    : per consumer, why it stopped reading: eof | ctx | stop (asked to stop after k) | hang | other
// after  : result of one more ReadOne after the stop action (eof | ctx | val | none)
// idem   : 1 when a second Close returned (it is called from the consumer, a block shows as hang)
// ret    : return of the ProcessParallel-style worker (nil | ctx | err | none)
// released: for the blocked-consumer behaviours, 1 when the parked ReadOne returned after Close/cancel
// leak   : top-most frames inside github.com/tychoish/fun of goroutines that are still alive after
//          the consumer is done (polled with a generous deadline: the deadline only detects a leak,
//          it never makes a case pass)

import (
	"context"
	"errors"
	"fmt"
	"io"
	"os"
	"regexp"
	"runtime"
	"sort"
	"strconv"
	"strings"
	"sync"
	"sync/atomic"
	"time"

	"github.com/tychoish/fun"
	"github.com/tychoish/fun/adt"
	"github.com/tychoish/fun/dt"
	"github.com/tychoish/fun/ers"
	"github.com/tychoish/fun/itertool"
)

// ---------------------------------------------------------------------------------------------
// schedule perturbation
// ---------------------------------------------------------------------------------------------

var (
	c01seed    atomic.Uint64
	c01counter atomic.Uint64
	c01perturb atomic.Bool
	c01sink    atomic.Uint64
)

func splitmix(x uint64) uint64 {
	x += 0x9e3779b97f4a7c15
	x = (x ^ (x >> 30)) * 0xbf58476d1ce4e5b9
	x = (x ^ (x >> 27)) * 0x94d049bb133111eb
	return x ^ (x >> 31)
}

func c01hook(_ context.Context, point string, _ ...any) {
	if point != "fun.chan.before-select" || !c01perturb.Load() {
		return
	}
	h := splitmix(c01seed.Load() + c01counter.Add(1))
	switch h % 8 {
	case 0, 1, 2:
	case 3, 4:
		runtime.Gosched()
	case 5:
		runtime.Gosched()
		runtime.Gosched()
		runtime.Gosched()
	case 6:
		n := (h >> 8) % 400
		var acc uint64
		for i := uint64(0); i < n; i++ {
			acc += splitmix(i)
		}
		c01sink.Store(acc)
	case 7:
		if (h>>8)%16 == 0 {
			time.Sleep(time.Duration((h>>16)%20) * time.Microsecond)
		} else {
			runtime.Gosched()
		}
	}
}

// ---------------------------------------------------------------------------------------------
// goroutine inspection
// ---------------------------------------------------------------------------------------------

var goroutineHeader = regexp.MustCompile(`^goroutine (\d+) \[([^\]]*)\]:`)
var genericArgs = regexp.MustCompile(`\[[^\]]*\]`)

type ginfo struct {
	id    int
	state string
	text  string
}

func allGoroutines() []ginfo {
	buf := make([]byte, 1<<18)
	for {
		n := runtime.Stack(buf, true)
		if n < len(buf) {
			buf = buf[:n]
			break
		}
		buf = make([]byte, 2*len(buf))
	}
	var out []ginfo
	for _, blk := range strings.Split(string(buf), "\n\n") {
		m := goroutineHeader.FindStringSubmatch(blk)
		if m == nil {
			continue
		}
		id, _ := strconv.Atoi(m[1])
		out = append(out, ginfo{id: id, state: m[2], text: blk})
	}
	return out
}

const funPath = "github.com/tychoish/fun"

// funFrames returns the function names (generic instantiations stripped) of frames inside the
// library, top-most first, plus the creator when the goroutine was created by the library.
func funFrames(g ginfo) []string {
	var out []string
	for _, ln := range strings.Split(g.text, "\n") {
		if strings.HasPrefix(ln, funPath) {
			name := ln
			if i := strings.LastIndex(name, "("); i > 0 {
				name = name[:i]
			}
			name = genericArgs.ReplaceAllString(strings.TrimPrefix(name, "github.com/tychoish/"), "")
			name = strings.NewReplacer("(*", "", "(", "", ")", "").Replace(name) // atoms of the S-expression protocol
			out = append(out, name)
		} else if strings.HasPrefix(ln, "created by "+funPath) {
			name := strings.TrimPrefix(ln, "created by github.com/tychoish/")
			if i := strings.Index(name, " in goroutine"); i > 0 {
				name = name[:i]
			}
			out = append(out, "created-by:"+strings.NewReplacer("(*", "", "(", "", ")", "").Replace(genericArgs.ReplaceAllString(name, "")))
		}
	}
	return out
}

func goroutineIDs() map[int]bool {
	out := map[int]bool{}
	for _, g := range allGoroutines() {
		out[g.id] = true
	}
	return out
}

// leaksSeen / hangsSeen count the cases of this process that already reported a leak / a hang. The
// generous deadlines exist to tell a slow exit from a leak; once several cases have established
// that the tree under test leaks or hangs, later cases use a short deadline so that a run over a
// badly broken tree still ends (the first failures, and every re-run made while shrinking, which
// uses a fresh process, are judged with the full deadline).
var leaksSeen, hangsSeen atomic.Int64

func c01deadline(env string, def time.Duration) time.Duration {
	d := def
	if v, err := strconv.Atoi(os.Getenv(env)); err == nil && v > 0 {
		d = time.Duration(v) * time.Millisecond
	}
	if env == "VERIF_LEAK_DEADLINE_MS" && leaksSeen.Load() >= 8 {
		d = d / 50
		if d < 50*time.Millisecond {
			d = 50 * time.Millisecond
		}
	}
	if env == "VERIF_HANG_DEADLINE_MS" && hangsSeen.Load() >= 3 {
		d = d / 10
		if d < time.Second {
			d = time.Second
		}
	}
	return d
}

// leakedAfterQuiescence polls until no goroutine created since `baseline` has a frame inside the
// library, or the (generous) deadline passes; it returns what is left.
func leakedAfterQuiescence(baseline map[int]bool) []string {
	deadline := time.Now().Add(c01deadline("VERIF_LEAK_DEADLINE_MS", 10*time.Second))
	pause := 20 * time.Microsecond
	for {
		runtime.Gosched()
		var left []string
		var dump []string
		for _, g := range allGoroutines() {
			if baseline[g.id] {
				continue
			}
			if fr := funFrames(g); len(fr) > 0 {
				left = append(left, fr[0])
				dump = append(dump, g.text)
			}
		}
		if len(left) == 0 {
			return nil
		}
		if time.Now().After(deadline) {
			if p := os.Getenv("VERIF_LEAK_DUMP"); p != "" {
				if f, err := os.OpenFile(p, os.O_APPEND|os.O_CREATE|os.O_WRONLY, 0o644); err == nil {
					fmt.Fprintf(f, "---- leaked goroutines ----\n%s\n", strings.Join(dump, "\n\n"))
					f.Close()
				}
			}
			sort.Strings(left)
			leaksSeen.Add(1)
			return left
		}
		time.Sleep(pause)
		if pause < 5*time.Millisecond {
			pause *= 2
		}
	}
}

// waitParked polls until a goroutine whose stack contains `marker` is parked in a select or a
// channel receive inside ChanReceive.Read (or the deadline passes: then false).
func waitParked(marker string) bool {
	deadline := time.Now().Add(c01deadline("VERIF_HANG_DEADLINE_MS", 30*time.Second))
	for {
		for _, g := range allGoroutines() {
			if strings.Contains(g.text, marker) && strings.Contains(g.text, "ChanReceive") &&
				(strings.HasPrefix(g.state, "select") || strings.HasPrefix(g.state, "chan receive")) {
				return true
			}
		}
		if time.Now().After(deadline) {
			return false
		}
		time.Sleep(50 * time.Microsecond)
	}
}

// ---------------------------------------------------------------------------------------------
// the case
// ---------------------------------------------------------------------------------------------

type c01cfg struct {
	construct string
	workers   int
	buf       int
	input     []int
	behaviour string
	k         int
	seed      uint64
	procs     int
	raw       int
	hasRaw    bool
	badopts   bool
}

type c01obs struct {
	mu       sync.Mutex
	seen     [][]int
	calls    []int
	end      []string
	after    string
	closeerr string
	idem     string
	ret      string
	released string
	leak     []string
}

func (o *c01obs) String() string {
	var b strings.Builder
	b.WriteString("(obs (seen")
	for _, s := range o.seen {
		b.WriteString(" (")
		b.WriteString(strings.ReplaceAll(ints(s), ",", " "))
		b.WriteString(")")
	}
	b.WriteString(") (calls")
	cs := append([]int{}, o.calls...)
	sort.Ints(cs)
	for _, c := range cs {
		fmt.Fprintf(&b, " %d", c)
	}
	b.WriteString(") (end")
	for _, e := range o.end {
		b.WriteString(" " + e)
	}
	fmt.Fprintf(&b, ") (after %s) (idem %s) (ret %s) (released %s) (closeerr %s) (leak", o.after, o.idem, o.ret, o.released, o.closeerr)
	for _, l := range o.leak {
		b.WriteString(" " + l)
	}
	b.WriteString("))")
	return b.String()
}

func errKind(err error) string {
	switch {
	case err == nil:
		return "nil"
	case errors.Is(err, io.EOF):
		return "eof"
	case errors.Is(err, context.Canceled):
		return "ctx"
	case errors.Is(err, ers.ErrInvalidInput):
		return "invalid"
	}
	return "other"
}

// source builds the input iterator: a slice iterator or (odd seeds, and always for the blocked
// behaviours) a generator; with block=true the source never reports EOF: after the last item it
// blocks until its context is cancelled.
func c01source(cfg *c01cfg, items []int, block bool) *fun.Iterator[int] {
	if !block && cfg.seed%2 == 0 {
		return fun.SliceIterator(items)
	}
	var mu sync.Mutex
	idx := 0
	return fun.Generator(func(ctx context.Context) (int, error) {
		mu.Lock()
		if idx < len(items) {
			v := items[idx]
			idx++
			mu.Unlock()
			return v, nil
		}
		mu.Unlock()
		if block {
			<-ctx.Done()
			return 0, ctx.Err()
		}
		return 0, io.EOF
	})
}

func withinHang(f func()) bool {
	done := make(chan struct{})
	go func() { defer close(done); f() }()
	select {
	case <-done:
		return true
	case <-time.After(c01deadline("VERIF_HANG_DEADLINE_MS", 30*time.Second)):
		return false
	}
}

// c01BlockedConsumerRead is a distinctive frame: waitParked looks for it.
//
//go:noinline
func c01BlockedConsumerRead(ctx context.Context, it *fun.Iterator[int]) (int, error) {
	return it.ReadOne(ctx)
}

// consume runs one consumer over one output iterator according to the behaviour and records what
// it saw in slot idx. `stopAll` is the shared cancel function of the context every consumer reads
// with; `total` counts deliveries over all consumers (the cancel behaviours cut at a total).
func consume(cfg *c01cfg, o *c01obs, idx int, it *fun.Iterator[int], ctx context.Context, stopAll context.CancelFunc, total *atomic.Int64) {
	var seen []int
	end := "stop"
	record := func() {
		o.mu.Lock()
		o.seen[idx] = seen
		o.end[idx] = end
		o.mu.Unlock()
	}
	limit := -1
	switch cfg.behaviour {
	case "close", "closecancel":
		limit = cfg.k
	}
	for limit < 0 || len(seen) < limit {
		if cfg.behaviour == "cancel" && int(total.Load()) >= cfg.k {
			stopAll()
		}
		var v int
		var err error
		if cfg.behaviour == "blockedclose" || cfg.behaviour == "blockedcancel" {
			v, err = c01BlockedConsumerRead(ctx, it)
		} else {
			v, err = it.ReadOne(ctx)
		}
		if err != nil {
			end = errKind(err)
			break
		}
		seen = append(seen, v)
		total.Add(1)
	}
	record()
	switch cfg.behaviour {
	case "exhaust":
		cerr := it.Close()
		o.mu.Lock()
		o.closeerr = errKind(cerr)
		o.mu.Unlock()
	case "close":
		_ = it.Close()
		_ = it.Close()
		o.mu.Lock()
		o.idem = "1"
		o.mu.Unlock()
		_, err := it.ReadOne(ctx)
		o.mu.Lock()
		o.after = errKind(err)
		o.mu.Unlock()
	case "cancel":
		stopAll()
		_, err := it.ReadOne(ctx)
		o.mu.Lock()
		o.after = errKind(err)
		o.mu.Unlock()
	case "closecancel":
		_ = it.Close()
		stopAll()
		_ = it.Close()
		o.mu.Lock()
		o.idem = "1"
		o.mu.Unlock()
		_, err := it.ReadOne(ctx)
		o.mu.Lock()
		o.after = errKind(err)
		o.mu.Unlock()
	}
}

func c01case(s *Sexp) string {
	if s.Head() != "pipe" {
		return "bad-op"
	}
	cfg := &c01cfg{workers: 1, procs: 4, behaviour: "exhaust"}
	for _, a := range s.Args() {
		switch a.Head() {
		case "construct":
			cfg.construct = a.List[1].Atom
		case "workers":
			cfg.workers = a.List[1].Int()
		case "rawworkers":
			// the worker count is installed through WorkerGroupConfSet as written (possibly < 1: the
			// configuration's Validate turns every value below 1 into 1, so the run is a 1-worker run)
			cfg.raw, cfg.hasRaw = a.List[1].Int(), true
		case "buf":
			cfg.buf = a.List[1].Int()
		case "input":
			cfg.input = intsOf(a.Args())
		case "consumer":
			cfg.behaviour = a.List[1].Atom
			if len(a.List) > 2 {
				cfg.k = a.List[2].Int()
			}
		case "seed":
			cfg.seed = uint64(a.List[1].Int64())
		case "badopts":
			cfg.badopts = a.List[1].Int() != 0
		case "procs":
			cfg.procs = a.List[1].Int()
		}
	}
	if cfg.procs > 0 && runtime.GOMAXPROCS(0) != cfg.procs {
		runtime.GOMAXPROCS(cfg.procs)
	}
	c01seed.Store(splitmix(cfg.seed))
	c01counter.Store(0)
	c01perturb.Store(cfg.seed != 0)
	fun.VerifSetHook(c01hook)
	defer fun.VerifSetHook(nil)

	o := &c01obs{after: "none", idem: "none", ret: "none", released: "none", closeerr: "none"}
	baseline := goroutineIDs()
	// the root context is cancelled only after the leak check: cancelling it earlier would release
	// every goroutine and hide a leak
	ctx, cancel := context.WithCancel(context.Background())
	defer cancel()
	ok := withinHang(func() { c01run(cfg, o, ctx, cancel) })
	if !ok {
		hangsSeen.Add(1)
		o.mu.Lock()
		for i := range o.end {
			if o.end[i] == "" {
				o.end[i] = "hang"
			}
		}
		if len(o.end) == 0 {
			o.end = []string{"hang"}
		}
		o.mu.Unlock()
	}
	o.leak = leakedAfterQuiescence(baseline)
	o.mu.Lock()
	defer o.mu.Unlock()
	for i := range o.end {
		if o.end[i] == "" {
			o.end[i] = "hang"
		}
	}
	return o.String()
}

func (o *c01obs) slots(n int) {
	o.seen = make([][]int, n)
	o.end = make([]string, n)
}

func (o *c01obs) call(x int) {
	o.mu.Lock()
	o.calls = append(o.calls, x)
	o.mu.Unlock()
}

// single runs the common single-output shape: one consumer on `it`.
func single(cfg *c01cfg, o *c01obs, it *fun.Iterator[int], ctx context.Context, cancel context.CancelFunc) {
	o.slots(1)
	var total atomic.Int64
	if cfg.behaviour == "blockedclose" || cfg.behaviour == "blockedcancel" {
		blocked(cfg, o, it, ctx, cancel, &total)
		return
	}
	if cfg.behaviour == "closeduringfirst" {
		closeDuringFirst(o, 0, it, ctx)
		return
	}
	consume(cfg, o, 0, it, ctx, cancel, &total)
}

// stallCtx is a context whose Done method - which context.WithCancel calls while the iterator derives
// its own cancellable context inside the very first advance (Producer.WithCancel) - runs a hook once.
type stallCtx struct {
	context.Context
	once sync.Once
	hook func()
}

func (c *stallCtx) Done() <-chan struct{} {
	c.once.Do(c.hook)
	return c.Context.Done()
}

// closeDuringFirst: Close is called from another goroutine exactly while the first ReadOne is inside
// context.WithCancel. Whatever the first advance returns, afterwards Close must have returned, the
// advance must have returned, a further ReadOne must report the end and no goroutine may be left.
func closeDuringFirst(o *c01obs, idx int, it *fun.Iterator[int], ctx context.Context) {
	closed := make(chan struct{})
	sctx := &stallCtx{Context: ctx}
	sctx.hook = func() {
		go func() { defer close(closed); _ = it.Close() }()
		select {
		case <-closed:
		case <-time.After(20 * time.Millisecond):
		}
	}
	advanced := make(chan struct{})
	var first []int
	end := "stop"
	go func() {
		defer close(advanced)
		v, err := it.ReadOne(sctx)
		if err == nil {
			first = append(first, v)
		} else {
			end = errKind(err)
		}
	}()
	hang := c01deadline("VERIF_HANG_DEADLINE_MS", 30*time.Second)
	select {
	case <-advanced:
		o.released = "1"
		o.seen[idx] = first
		o.end[idx] = end
	case <-time.After(hang):
		o.released = "0"
		o.end[idx] = "hang"
	}
	select {
	case <-closed:
		_ = it.Close()
		o.idem = "1"
	case <-time.After(hang):
		o.idem = "0"
	}
	if o.released == "1" && o.idem == "1" {
		_, err := it.ReadOne(ctx)
		o.after = errKind(err)
	}
}

// blocked: the source never ends, so after the input the consumer parks in ReadOne; another
// goroutine then calls Close / cancels, and the parked call must return.
func blocked(cfg *c01cfg, o *c01obs, it *fun.Iterator[int], ctx context.Context, cancel context.CancelFunc, total *atomic.Int64) {
	done := make(chan struct{})
	go func() {
		defer close(done)
		consume(cfg, o, 0, it, ctx, cancel, total)
	}()
	// the source never ends: once every input item has been delivered the next ReadOne parks
	hangBy := time.Now().Add(c01deadline("VERIF_HANG_DEADLINE_MS", 30*time.Second))
	for int(total.Load()) < len(cfg.input) && time.Now().Before(hangBy) {
		select {
		case <-done:
			hangBy = time.Now()
		default:
			time.Sleep(20 * time.Microsecond)
		}
	}
	parked := int(total.Load()) == len(cfg.input) && waitParked("c01BlockedConsumerRead")
	if cfg.behaviour == "blockedclose" {
		closed := make(chan struct{})
		go func() { defer close(closed); _ = it.Close(); _ = it.Close() }()
		select {
		case <-closed:
			o.mu.Lock()
			o.idem = "1"
			o.mu.Unlock()
		case <-time.After(c01deadline("VERIF_HANG_DEADLINE_MS", 30*time.Second)):
			o.mu.Lock()
			o.idem = "0"
			o.mu.Unlock()
		}
	} else {
		cancel()
	}
	select {
	case <-done:
		o.mu.Lock()
		o.released = bit(parked)
		if !parked {
			o.released = "unparked"
		}
		o.mu.Unlock()
	case <-time.After(c01deadline("VERIF_HANG_DEADLINE_MS", 30*time.Second)):
		o.mu.Lock()
		o.released = "0"
		o.mu.Unlock()
		cancel()
		_ = it.Close()
		<-done
	}
}

func c01workersOpt(cfg *c01cfg) fun.OptionProvider[*fun.WorkerGroupConf] {
	opt := fun.WorkerGroupConfNumWorkers(cfg.workers)
	if cfg.hasRaw {
		opt = fun.WorkerGroupConfSet(&fun.WorkerGroupConf{NumWorkers: cfg.raw})
	}
	if cfg.badopts {
		// a configuration the library rejects (recovered panics cannot be excluded): every option is
		// still applied and validated, Apply reports ers.ErrInvalidInput
		opt = fun.JoinOptionProviders(opt, fun.WorkerGroupConfAddExcludeErrors(fun.ErrRecoveredPanic))
	}
	return opt
}

func c01run(cfg *c01cfg, o *c01obs, ctx context.Context, cancel context.CancelFunc) {
	block := cfg.behaviour == "blockedclose" || cfg.behaviour == "blockedcancel"
	n := cfg.workers
	if n < 1 {
		n = 1
	}
	nw := c01workersOpt(cfg)

	if block {
		switch cfg.construct {
		case "mslices", "dtmap", "adtmap", "bchan", "pp", "pfe", "worker", "chanread":
			o.slots(1)
			o.end[0] = "unsupported"
			return
		}
	}

	switch cfg.construct {
	// ---------------- Feeder -------------------------------------------------------------
	case "buffer":
		single(cfg, o, c01source(cfg, cfg.input, block).Buffer(cfg.buf), ctx, cancel)
	case "chain":
		// the input is cut into `workers` consecutive operands
		parts := cutConsecutive(cfg.input, n)
		its := make([]*fun.Iterator[int], len(parts))
		for i := range parts {
			its[i] = c01source(cfg, parts[i], block && i == len(parts)-1)
		}
		single(cfg, o, itertool.Chain(its...), ctx, cancel)
	case "mslices":
		single(cfg, o, itertool.MergeSlices(cutConsecutive(cfg.input, n)...), ctx, cancel)
	case "msi":
		parts := cutConsecutive(cfg.input, n)
		var src *fun.Iterator[[]int]
		if block {
			var mu sync.Mutex
			idx := 0
			src = fun.Generator(func(ctx context.Context) ([]int, error) {
				mu.Lock()
				if idx < len(parts) {
					v := parts[idx]
					idx++
					mu.Unlock()
					return v, nil
				}
				mu.Unlock()
				<-ctx.Done()
				return nil, ctx.Err()
			})
		} else {
			src = fun.SliceIterator(parts)
		}
		single(cfg, o, itertool.MergeSliceIterators(src), ctx, cancel)
	case "bchan":
		bchan(cfg, o, ctx, cancel)
	case "dtmap":
		m := dt.Map[int, int]{}
		for i, v := range cfg.input {
			m[i*100000+v] = v
		}
		var it *fun.Iterator[int]
		switch cfg.seed % 3 {
		case 0:
			it = m.Values()
		case 1:
			it = fun.ConvertIterator(m.Keys(), fun.Converter(func(k int) int { return k % 100000 }))
		default:
			it = fun.ConvertIterator(m.Iterator(), fun.Converter(func(p dt.Pair[int, int]) int { return p.Value }))
		}
		single(cfg, o, it, ctx, cancel)
	case "adtmap":
		m := &adt.Map[int, int]{}
		for i, v := range cfg.input {
			m.Store(i*100000+v, v)
		}
		var it *fun.Iterator[int]
		switch cfg.seed % 3 {
		case 0:
			it = m.Values()
		case 1:
			it = fun.ConvertIterator(m.Keys(), fun.Converter(func(k int) int { return k % 100000 }))
		default:
			it = fun.ConvertIterator(m.Iterator(), fun.Converter(func(p dt.Pair[int, int]) int { return p.Value }))
		}
		single(cfg, o, it, ctx, cancel)

	// ---------------- FanOut -------------------------------------------------------------
	case "split":
		split(cfg, o, c01source(cfg, cfg.input, block), ctx, cancel)
	case "pp", "pfe", "worker":
		processParallel(cfg, o, ctx, cancel)
	case "map", "itmap":
		src := c01source(cfg, cfg.input, block)
		tf := func(_ context.Context, x int) (int, error) { o.call(x); return x, nil }
		var it *fun.Iterator[int]
		if cfg.construct == "map" {
			it = fun.Map(src, tf, nw)
		} else {
			it = itertool.Map(src, tf, nw)
		}
		single(cfg, o, it, ctx, cancel)
	case "pbuf":
		single(cfg, o, c01source(cfg, cfg.input, block).ParallelBuffer(cfg.workers), ctx, cancel)

	// ---------------- FanIn --------------------------------------------------------------
	case "merge":
		parts := cutRoundRobin(cfg.input, n)
		its := make([]*fun.Iterator[int], len(parts))
		for i := range parts {
			its[i] = c01source(cfg, parts[i], block)
		}
		single(cfg, o, fun.MergeIterators(its...), ctx, cancel)
	case "merge0":
		// the boundary number of inputs: a merge of no iterators at all (a variadic call with an empty slice)
		single(cfg, o, fun.MergeIterators[int](), ctx, cancel)
	case "genpar", "itgen":
		var mu sync.Mutex
		idx := 0
		gen := fun.Producer[int](func(ctx context.Context) (int, error) {
			mu.Lock()
			if idx < len(cfg.input) {
				v := cfg.input[idx]
				idx++
				mu.Unlock()
				o.call(v)
				return v, nil
			}
			mu.Unlock()
			if block {
				<-ctx.Done()
				return 0, ctx.Err()
			}
			return 0, io.EOF
		})
		var it *fun.Iterator[int]
		if cfg.construct == "genpar" {
			it = gen.GenerateParallel(nw)
		} else {
			it = itertool.Generate(gen, nw)
		}
		single(cfg, o, it, ctx, cancel)
	case "chanread":
		chanread(cfg, o, ctx, cancel)
	default:
		o.slots(1)
		o.end[0] = "bad-construct"
	}
}

func cutConsecutive(xs []int, n int) [][]int {
	out := make([][]int, n)
	for i := 0; i < n; i++ {
		lo, hi := i*len(xs)/n, (i+1)*len(xs)/n
		out[i] = append([]int{}, xs[lo:hi]...)
	}
	return out
}

func cutRoundRobin(xs []int, n int) [][]int {
	out := make([][]int, n)
	for i, x := range xs {
		out[i%n] = append(out[i%n], x)
	}
	return out
}

// split: every output has its own consumer goroutine. Behaviours:
// exhaust / close k / cancel k / closecancel k as for single outputs (each consumer stops after k
// of its own items; cancel cuts at k deliveries in total);
// abandonfirst / abandonother: output 0 is advanced first (one ReadOne), then every other output
// reads one item, then one output is abandoned (never touched again, not closed) and all others
// are closed: abandonfirst abandons output 0 (the one whose context the reader goroutine got),
// abandonother abandons output 1.
func split(cfg *c01cfg, o *c01obs, src *fun.Iterator[int], ctx context.Context, cancel context.CancelFunc) {
	n := cfg.workers
	if n < 1 {
		n = 1
	}
	outs := src.Split(n)
	o.slots(n)
	var total atomic.Int64
	if cfg.behaviour == "abandonfirst" || cfg.behaviour == "abandonother" {
		for i := 0; i < n; i++ {
			v, err := outs[i].ReadOne(ctx)
			if err == nil {
				o.seen[i] = append(o.seen[i], v)
				o.end[i] = "stop"
			} else {
				o.end[i] = errKind(err)
			}
		}
		abandon := 0
		if cfg.behaviour == "abandonother" {
			abandon = 1
		}
		for i := 0; i < n; i++ {
			if i != abandon {
				_ = outs[i].Close()
			}
		}
		return
	}
	if cfg.behaviour == "blockedclose" || cfg.behaviour == "blockedcancel" {
		// one parked consumer on output 0; the other outputs are not advanced
		for i := 1; i < n; i++ {
			o.end[i] = "stop"
		}
		blocked(cfg, o, outs[0], ctx, cancel, &total)
		return
	}
	if cfg.behaviour == "closeduringfirst" {
		for i := 1; i < n; i++ {
			o.end[i] = "stop"
		}
		closeDuringFirst(o, 0, outs[0], ctx)
		return
	}
	wg := &sync.WaitGroup{}
	for i := 0; i < n; i++ {
		wg.Add(1)
		go func(i int) {
			defer wg.Done()
			consume(cfg, o, i, outs[i], ctx, cancel, &total)
		}(i)
	}
	wg.Wait()
}

// processParallel: ProcessParallel / itertool.ParallelForEach / itertool.Worker. There is no output
// iterator: behaviours are exhaust and cancel k (the context given to the worker is cancelled
// once k items have been processed).
func processParallel(cfg *c01cfg, o *c01obs, ctx context.Context, cancel context.CancelFunc) {
	n := cfg.workers
	if n < 1 {
		n = 1
	}
	o.slots(1)
	nw := c01workersOpt(cfg)
	var mu sync.Mutex
	var seen []int
	proc := func(_ context.Context, x int) error {
		mu.Lock()
		seen = append(seen, x)
		cnt := len(seen)
		mu.Unlock()
		if cfg.behaviour == "cancel" && cnt >= cfg.k {
			cancel()
		}
		return nil
	}
	if cfg.behaviour == "cancel" && cfg.k == 0 {
		cancel()
	}
	var err error
	switch cfg.construct {
	case "pp":
		err = c01source(cfg, cfg.input, false).ProcessParallel(proc, nw).Run(ctx)
	case "pfe":
		err = itertool.ParallelForEach(ctx, c01source(cfg, cfg.input, false), proc, nw)
	case "worker":
		ops := make([]fun.Worker, len(cfg.input))
		for i := range cfg.input {
			x := cfg.input[i]
			ops[i] = func(ctx context.Context) error { return proc(ctx, x) }
		}
		err = itertool.Worker(ctx, fun.SliceIterator(ops), nw)
	}
	mu.Lock()
	o.seen[0] = append([]int{}, seen...)
	mu.Unlock()
	o.end[0] = "eof"
	if cfg.behaviour == "cancel" {
		o.end[0] = "stop"
	}
	o.ret = errKind(err)
}

// bchan: Iterator.BufferedChannel hands out a raw channel; the documented ways to stop are
// exhausting it and cancelling the context it was created with.
func bchan(cfg *c01cfg, o *c01obs, ctx context.Context, cancel context.CancelFunc) {
	o.slots(1)
	ch := c01source(cfg, cfg.input, false).BufferedChannel(ctx, cfg.buf)
	var seen []int
	end := "stop"
	for cfg.behaviour == "exhaust" || len(seen) < cfg.k {
		v, ok := <-ch
		if !ok {
			end = "eof"
			break
		}
		seen = append(seen, v)
	}
	if cfg.behaviour == "cancel" {
		cancel()
	}
	o.seen[0] = seen
	o.end[0] = end
}

// chanread: `workers` goroutines call ReadOne concurrently on one channel-backed iterator that the
// harness feeds (C01 only: no library goroutine is involved).
func chanread(cfg *c01cfg, o *c01obs, ctx context.Context, cancel context.CancelFunc) {
	n := cfg.workers
	if n < 1 {
		n = 1
	}
	o.slots(n)
	ch := make(chan int, cfg.buf)
	it := fun.ChannelIterator(ch)
	go func() {
		defer close(ch)
		for _, x := range cfg.input {
			ch <- x
		}
	}()
	wg := &sync.WaitGroup{}
	for i := 0; i < n; i++ {
		wg.Add(1)
		go func(i int) {
			defer wg.Done()
			var seen []int
			end := "stop"
			for {
				v, err := it.ReadOne(ctx)
				if err != nil {
					end = errKind(err)
					break
				}
				seen = append(seen, v)
			}
			o.mu.Lock()
			o.seen[i] = seen
			o.end[i] = end
			o.mu.Unlock()
		}(i)
	}
	wg.Wait()
	_ = it.Close()
}

func init() {
	handlers["C01"] = c01case
	handlers["C04"] = c01case
}
