package main

// C11 — Orchestrator, Group, WorkerPool, HandlerWorkerPool, Cleanup (T-out, behavioural at the boundary).
//
//	(c11 (k orch|group|wp|hp|cleanup) (n N) (flags cp ce) (q 0 | hard soft) (units (outcome gated)...) (script step...))
//
// runs the real construct on a deterministically sequenced scenario. `units` are the services
// (orch, group) or jobs (pools, cleanup); unit i has an outcome
//
//	ok     returns nil                      err    returns its injected error e_i
//	panic  panics with e_i                  block  waits for its context to end, then returns nil
//	berr   waits for its context to end, then returns e_i
//
// and, when gated=1, does not return before the script says (rel i) — whatever its context does
// (a service that takes its time to shut down). The script is executed by one goroutine:
//
//	(start) (startc)      Start the construct's service / with an already cancelled context
//	(add i)               hand unit i to the construct (Orchestrator.Add, Queue.Add of the pool / cleanup pipe)
//	(rel i)               open unit i's gate
//	(settle)              wait until every other goroutine of the process is blocked (quiescence; no sleeps:
//	                      the goroutine states of runtime.Stack are polled), then log (Q)
//	(cancel) (close)      cancel the context the construct was started with / call Service.Close
//	(xstart i o|s)        orch: start service i from outside, on the orchestrator's context or on its own one
//	(xslow i o|s) (xgo i) orch: the same, but the Start call is held inside Service.Start (after it claimed the
//	                      service, before it finished launching it) until (xgo i) — the parent context's Done()
//	                      method is the gate, no hook needed
//	(xcancel i) (xwait i) orch: cancel service i's own context / call its Wait
//	(cancelat i)          group: the members' iterator cancels the group's context while it yields member i
//	(par (step...) (step...))  run two sub-scripts concurrently and wait for both
//	(join)                wait for the construct's Wait to return
//
// Everything observable is logged on one logical clock (a mutex-protected event list, no wall
// clock): (T r) Start returned, (A i r) the add of unit i returned (r=0 accepted), (X i r),
// (Y i) / (I) the group's iterator yielded member i / ended, (S i) unit i's function was entered,
// (D i) unit i saw its context ended, (R i) unit i is about to return, (C) the harness is about to
// end the construct's context (logged *before* cancel()/Close()), (W) the construct's Wait
// returned, (H i) the pool's handler was given an error that Is e_i, (Q) a settle point.
//
// Observation: (obs (ev …) (w nil|err|none) (is b…) (rp b) (ns b) (as b) (inv b) (hang 0|label))

import (
	"bytes"
	"context"
	"errors"
	"fmt"
	"io"
	"os"
	"runtime"
	"strconv"
	"strings"
	"sync"
	"time"

	"github.com/tychoish/fun"
	"github.com/tychoish/fun/pubsub"
	"github.com/tychoish/fun/srv"
)

func init() { handlers["C11"] = c11case }

type c11Err struct{ id int }

func (e *c11Err) Error() string { return fmt.Sprintf("c11-injected-%d", e.id) }

type c11log struct {
	mu sync.Mutex
	ev []string
}

func (l *c11log) add(format string, a ...any) {
	l.mu.Lock()
	l.ev = append(l.ev, fmt.Sprintf(format, a...))
	l.mu.Unlock()
}

type c11unit struct {
	id      int
	outcome string
	gated   bool
	gate    chan struct{}
	relOnce sync.Once
	err     *c11Err
	svc     *srv.Service       // orch / group
	own     context.Context    // orch: the context of an external start
	ownStop context.CancelFunc // orch
	slow    chan struct{}      // orch: gate inside Service.Start (xslow)
	slowRet chan struct{}
}

func (u *c11unit) release() { u.relOnce.Do(func() { close(u.gate) }) }

// body is the Run function of a service / the job
func (u *c11unit) body(ctx context.Context, l *c11log) error {
	l.add("(S %d)", u.id)
	blocks := u.outcome == "block" || u.outcome == "berr"
	if blocks {
		<-ctx.Done()
		l.add("(D %d)", u.id)
	}
	if u.gated {
		<-u.gate
	}
	if !blocks && ctx.Err() != nil {
		l.add("(D %d)", u.id)
	}
	l.add("(R %d)", u.id)
	switch u.outcome {
	case "err", "berr":
		return u.err
	case "panic":
		panic(u.err)
	}
	return nil
}

// a context whose Done() blocks until the gate is open: context.WithCancel(parent) calls
// parent.Done() inside Service.Start, after the service was claimed (isRunning set) and before
// Start has finished launching it (isStarted not yet set)
type c11slowCtx struct {
	context.Context
	gate chan struct{}
}

func (c *c11slowCtx) Done() <-chan struct{} { <-c.gate; return c.Context.Done() }

func c11hang() time.Duration {
	if v, err := strconv.Atoi(os.Getenv("VERIF_C11_HANG_MS")); err == nil && v > 0 {
		return time.Duration(v) * time.Millisecond
	}
	return 10 * time.Second
}

// ---- quiescence -----------------------------------------------------------------------------

var c11blocked = map[string]bool{
	"chan receive": true, "chan send": true, "select": true, "sync.Cond.Wait": true, "semacquire": true,
	"sync.WaitGroup.Wait": true, "IO wait": true, "syscall": true, "chan receive (nil chan)": true,
	"chan send (nil chan)": true, "select (no cases)": true,
}

func c11quiescent(dump []byte, self uint64) bool {
	for len(dump) > 0 {
		i := bytes.Index(dump, []byte("goroutine "))
		if i < 0 {
			return true
		}
		if i > 0 && dump[i-1] != '\n' {
			dump = dump[i+10:]
			continue
		}
		dump = dump[i+10:]
		sp := bytes.IndexByte(dump, ' ')
		nl := bytes.IndexByte(dump, '\n')
		if sp < 0 || nl < 0 || sp > nl {
			continue
		}
		id, err := strconv.ParseUint(string(dump[:sp]), 10, 64)
		if err != nil {
			continue
		}
		hdr := dump[sp+1 : nl]
		if len(hdr) < 3 || hdr[0] != '[' {
			continue
		}
		end := bytes.IndexByte(hdr, ']')
		if end < 0 {
			continue
		}
		state := string(hdr[1:end])
		if c := strings.IndexByte(state, ','); c >= 0 {
			state = state[:c]
		}
		if id == self {
			continue
		}
		if !c11blocked[state] {
			return false
		}
	}
	return true
}

var c11buf = make([]byte, 1<<20)

// settle returns once every other goroutine is blocked (twice in a row), false on the hang deadline
func c11settle() bool {
	self := curGID()
	t0 := time.Now()
	okInRow := 0
	for {
		n := runtime.Stack(c11buf, true)
		if n == len(c11buf) {
			c11buf = make([]byte, 2*len(c11buf))
			continue
		}
		if c11quiescent(c11buf[:n], self) {
			okInRow++
			if okInRow >= 2 {
				return true
			}
		} else {
			okInRow = 0
		}
		if time.Since(t0) > c11hang() {
			return false
		}
		runtime.Gosched()
	}
}

// ---- scenario -------------------------------------------------------------------------------

type c11run struct {
	kind   string
	l      *c11log
	units  []*c11unit
	ctx    context.Context
	cancel context.CancelFunc

	orca  *srv.Orchestrator
	svc   *srv.Service
	queue *pubsub.Queue[fun.Worker]

	cancelAt int // group: member index at which the iterator cancels, -1 none

	waitErr  error
	waitDone chan struct{}
	hmu      sync.Mutex
	hang     string
}

func (r *c11run) setHang(what string) {
	r.hmu.Lock()
	if r.hang == "" {
		r.hang = what
	}
	r.hmu.Unlock()
}

func (r *c11run) await(ch <-chan struct{}, what string) bool {
	t := time.NewTimer(c11hang())
	defer t.Stop()
	select {
	case <-ch:
		return true
	case <-t.C:
		r.setHang(what)
		return false
	}
}

func (r *c11run) worker(u *c11unit) fun.Worker {
	return func(ctx context.Context) error { return u.body(ctx, r.l) }
}

func (r *c11run) spawnWait() {
	r.waitDone = make(chan struct{})
	go func() {
		defer close(r.waitDone)
		var err error
		if r.kind == "orch" {
			err = r.orca.Wait()
		} else {
			err = r.svc.Wait()
		}
		r.l.add("(W)")
		r.waitErr = err
	}()
}

func (r *c11run) doStart() {
	var err error
	if r.kind == "orch" {
		err = r.orca.Start(r.ctx)
	} else {
		err = r.svc.Start(r.ctx)
	}
	r.l.add("(T %s)", bit(err != nil))
	r.spawnWait()
}

func (r *c11run) exec(steps []*Sexp) {
	for _, st := range steps {
		a := st.Args()
		switch st.Head() {
		case "start":
			r.doStart()
		case "startc":
			r.l.add("(C)")
			r.cancel()
			r.doStart()
		case "add":
			u := r.units[a[0].Int()]
			var err error
			switch r.kind {
			case "orch":
				err = r.orca.Add(u.svc)
			case "wp", "hp", "cleanup":
				err = r.queue.Add(r.worker(u))
			}
			r.l.add("(A %d %s)", u.id, bit(err != nil))
		case "rel":
			r.units[a[0].Int()].release()
		case "settle":
			if !c11settle() {
				r.setHang("settle")
			}
			r.l.add("(Q)")
		case "cancel":
			r.l.add("(C)")
			r.cancel()
		case "close":
			r.l.add("(C)")
			if r.kind == "orch" {
				r.orca.Service().Close()
			} else {
				r.svc.Close()
			}
		case "xstart", "xslow":
			u := r.units[a[0].Int()]
			base := r.ctx
			if a[1].Atom == "s" {
				base = u.own
			}
			if st.Head() == "xstart" {
				err := u.svc.Start(base)
				r.l.add("(X %d %s)", u.id, bit(err != nil))
			} else {
				u.slow = make(chan struct{})
				u.slowRet = make(chan struct{})
				sctx := &c11slowCtx{Context: base, gate: u.slow}
				go func() {
					defer close(u.slowRet)
					err := u.svc.Start(sctx)
					r.l.add("(X %d %s)", u.id, bit(err != nil))
				}()
			}
		case "xgo":
			u := r.units[a[0].Int()]
			close(u.slow)
			r.await(u.slowRet, "xgo")
		case "xcancel":
			r.units[a[0].Int()].ownStop()
		case "xwait":
			u := r.units[a[0].Int()]
			done := make(chan struct{})
			go func() { defer close(done); _ = u.svc.Wait() }()
			r.await(done, "xwait")
		case "cancelat":
			r.cancelAt = a[0].Int()
		case "par":
			var wg sync.WaitGroup
			done := make(chan struct{})
			for _, br := range st.List[1:] {
				wg.Add(1)
				go func(b *Sexp) { defer wg.Done(); r.exec(b.List) }(br)
			}
			go func() { wg.Wait(); close(done) }()
			r.await(done, "par")
		case "join":
			if r.waitDone != nil {
				r.await(r.waitDone, "join")
			}
		default:
			panic("bad-step " + st.String())
		}
	}
}

func c11case(s *Sexp) string {
	if s.Head() != "c11" {
		return "bad-op"
	}
	r := &c11run{kind: c03arg(s, "k").List[1].Atom, l: &c11log{}, cancelAt: -1}
	r.ctx, r.cancel = context.WithCancel(context.Background())
	n := c03arg(s, "n").List[1].Int()
	fl := c03arg(s, "flags").Args()
	cp, ce := fl[0].Int() == 1, fl[1].Int() == 1
	for i, us := range c03arg(s, "units").Args() {
		u := &c11unit{id: i, outcome: us.List[0].Atom, gated: us.List[1].Int() == 1, gate: make(chan struct{}), err: &c11Err{i}}
		u.own, u.ownStop = context.WithCancel(context.Background())
		r.units = append(r.units, u)
	}
	defer func() {
		// leave nothing behind: open every gate, end every context
		for _, u := range r.units {
			u.release()
			u.ownStop()
			if u.slow != nil {
				select {
				case <-u.slow:
				default:
					close(u.slow)
				}
			}
		}
		r.cancel()
		if r.waitDone != nil {
			select {
			case <-r.waitDone:
			case <-time.After(2 * time.Second):
			}
		}
	}()

	var optp []fun.OptionProvider[*fun.WorkerGroupConf]
	optp = append(optp, fun.WorkerGroupConfNumWorkers(n))
	if cp {
		optp = append(optp, fun.WorkerGroupConfContinueOnPanic())
	}
	if ce {
		optp = append(optp, fun.WorkerGroupConfContinueOnError())
	}
	mkQueue := func() *pubsub.Queue[fun.Worker] {
		q := c03arg(s, "q").Args()
		if len(q) == 1 {
			return pubsub.NewUnlimitedQueue[fun.Worker]()
		}
		out, err := pubsub.NewQueue[fun.Worker](pubsub.QueueOptions{HardLimit: q[0].Int(), SoftQuota: q[1].Int()})
		if err != nil {
			panic(err)
		}
		return out
	}

	switch r.kind {
	case "orch":
		r.orca = &srv.Orchestrator{}
		for _, u := range r.units {
			u := u
			u.svc = &srv.Service{Name: fmt.Sprintf("u%d", u.id), Run: func(ctx context.Context) error { return u.body(ctx, r.l) }}
		}
	case "group":
		for _, u := range r.units {
			u := u
			u.svc = &srv.Service{Name: fmt.Sprintf("u%d", u.id), Run: func(ctx context.Context) error { return u.body(ctx, r.l) }}
		}
		next := 0
		var mu sync.Mutex
		iter := fun.Producer[*srv.Service](func(context.Context) (*srv.Service, error) {
			mu.Lock()
			defer mu.Unlock()
			if next >= len(r.units) {
				r.l.add("(I)")
				return nil, io.EOF
			}
			u := r.units[next]
			next++
			r.l.add("(Y %d)", u.id)
			if r.cancelAt == u.id {
				r.l.add("(C)")
				r.cancel()
			}
			return u.svc, nil
		}).Iterator()
		r.svc = srv.Group(iter)
	case "wp":
		r.queue = mkQueue()
		r.svc = srv.WorkerPool(r.queue, optp...)
	case "hp":
		r.queue = mkQueue()
		r.svc = srv.HandlerWorkerPool(r.queue, func(err error) {
			if err == nil {
				return
			}
			for _, u := range r.units {
				if errors.Is(err, u.err) {
					r.l.add("(H %d)", u.id)
				}
			}
		}, optp...)
	case "cleanup":
		r.queue = pubsub.NewUnlimitedQueue[fun.Worker]()
		r.svc = srv.Cleanup(r.queue, 0)
	default:
		return "bad-op kind"
	}

	r.exec(c03arg(s, "script").Args())

	// ---- observation ----
	var sb strings.Builder
	sb.WriteString("(obs (ev")
	r.l.mu.Lock()
	for _, e := range r.l.ev {
		sb.WriteString(" " + e)
	}
	r.l.mu.Unlock()
	sb.WriteString(") (w ")
	waited := false
	if r.waitDone != nil {
		select {
		case <-r.waitDone:
			waited = true
		default:
		}
	}
	var we error
	if waited {
		we = r.waitErr
	}
	switch {
	case !waited:
		sb.WriteString("none")
	case we == nil:
		sb.WriteString("nil")
	default:
		sb.WriteString("err")
	}
	sb.WriteString(") (is")
	for _, u := range r.units {
		sb.WriteString(" " + bit(we != nil && errors.Is(we, u.err)))
	}
	is := func(t error) string { return bit(we != nil && errors.Is(we, t)) }
	fmt.Fprintf(&sb, ") (rp %s) (ns %s) (as %s) (inv %s)", is(fun.ErrRecoveredPanic), is(srv.ErrServiceNotStarted),
		is(srv.ErrServiceAlreadyStarted), is(fun.ErrInvariantViolation))
	r.hmu.Lock()
	h := r.hang
	r.hmu.Unlock()
	if h == "" {
		h = "0"
	}
	fmt.Fprintf(&sb, " (hang %s))", h)
	return sb.String()
}
