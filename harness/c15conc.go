package main

// C15 under contention (T-out). The wrapped function contains a gate: it blocks until the
// harness hands out a token, and the harness hands out one token at a time, only when every
// goroutine that runs library or harness code is blocked (read from runtime.Stack). At each such
// quiescent point it notes how many callers have returned and how many executions are inside
// the function. "A caller returned before the execution finished" is therefore observed as a
// count at a quiescent point, never inferred from elapsed time.

import (
	"bytes"
	"context"
	"fmt"
	"runtime"
	"sort"
	"strings"
	"sync"
	"sync/atomic"
	"time"

	"github.com/tychoish/fun"
	"github.com/tychoish/fun/adt"
	"github.com/tychoish/fun/ft"
)

// wait reasons that only user-level synchronisation produces. Plain "semacquire" is deliberately
// absent: a goroutine that is about to start a GC cycle waits on the runtime's world semaphore
// with that reason while runtime.Stack has the world stopped, and continues by itself.
var c15blockedStates = []string{"chan receive", "chan send", "select", "sync.Mutex.Lock", "sync.RWMutex.Lock",
	"sync.RWMutex.RLock", "sync.Cond.Wait", "sync.WaitGroup.Wait"}

var c15stackBuf = make([]byte, 4<<20)

// c15quiescent: no goroutine (other than the caller) that has library or C15 harness frames is
// running or runnable.
func c15quiescent(buf []byte) bool {
	n := runtime.Stack(buf, true)
	blocks := bytes.Split(buf[:n], []byte("\n\n"))
	for i, b := range blocks {
		if i == 0 {
			continue // the goroutine asking
		}
		if !bytes.Contains(b, []byte("tychoish/fun")) && !bytes.Contains(b, []byte("main.c15")) &&
			!bytes.Contains(b, []byte("main.(*c15")) {
			continue
		}
		nl := bytes.IndexByte(b, '\n')
		if nl < 0 {
			nl = len(b)
		}
		hdr := string(b[:nl])
		lb, rb := strings.IndexByte(hdr, '['), strings.IndexByte(hdr, ']')
		if lb < 0 || rb < lb {
			return false
		}
		state := hdr[lb+1 : rb]
		if c := strings.IndexByte(state, ','); c >= 0 {
			state = state[:c]
		}
		ok := false
		for _, s := range c15blockedStates {
			if state == s {
				ok = true
				break
			}
		}
		if !ok {
			return false
		}
	}
	return true
}

// c15settle waits until two consecutive looks (with a yield in between) both find every relevant
// goroutine blocked; the time limit only detects a hang of the harness itself.
func c15settle() bool {
	buf := c15stackBuf
	deadline := time.Now().Add(20 * time.Second)
	for spins := 0; ; spins++ {
		if c15quiescent(buf) {
			runtime.Gosched()
			if c15quiescent(buf) {
				return true
			}
		}
		if spins < 50 {
			runtime.Gosched()
		} else {
			time.Sleep(50 * time.Microsecond)
		}
		if time.Now().After(deadline) {
			return false
		}
	}
}

type c15gate struct {
	w      *c15world
	tokens chan struct{}
	inside atomic.Int64
	maxc   atomic.Int64
	inv    atomic.Int64
}

func (g *c15gate) fn(kind string) ufn {
	return func(ctx context.Context, arg int) (int, error) {
		g.inv.Add(1)
		cur := g.inside.Add(1)
		for {
			m := g.maxc.Load()
			if cur <= m || g.maxc.CompareAndSwap(m, cur) {
				break
			}
		}
		<-g.tokens
		st := g.w.pop()
		g.inside.Add(-1)
		if st.panics {
			panic(c15errOf(st.atoms))
		}
		return c15proj(kind, st)
	}
}

// c15hold parks goroutines at a hook point until the harness releases the whole group.
type c15hold struct {
	mu     sync.Mutex
	ch     chan struct{}
	parked atomic.Int64
}

func (h *c15hold) hook(_ context.Context, point string, _ ...any) {
	if point != "oplimit.loaded" {
		return
	}
	h.mu.Lock()
	ch := h.ch
	h.parked.Add(1)
	h.mu.Unlock()
	<-ch
}

func (h *c15hold) release() {
	h.mu.Lock()
	old := h.ch
	h.ch = make(chan struct{})
	h.parked.Store(0)
	h.mu.Unlock()
	close(old)
}

type c15callers struct {
	mu       sync.Mutex
	results  []string
	returned atomic.Int64
}

func (c *c15callers) record(r string) {
	c.mu.Lock()
	c.results = append(c.results, r)
	c.mu.Unlock()
	c.returned.Add(1)
}

// c15caller runs one caller's calls in its own goroutine; all callers are released together.
func c15caller(c *c15callers, start <-chan struct{}, calls int, call func() string) {
	<-start
	for i := 0; i < calls; i++ {
		c.record(c15guard(call))
	}
}

func c15nat(s *Sexp, name string, def int) int {
	if a := c15section(s, name); len(a) == 1 {
		return a[0].Int()
	}
	return def
}

func c15conc(s *Sexp) string {
	subject, kind := s.List[1].Atom, s.List[2].Atom
	n := c15nat(s, "n", 1)
	G := c15nat(s, "callers", 1)
	w := newC15World(c15script(s))
	defer w.gcancel()
	g := &c15gate{w: w, tokens: make(chan struct{}, 1024)}
	cs := &c15callers{}
	ctx := w.gctx
	u := g.fn(kind)
	goroutines, callsEach := G, 1 // how the G calls are issued
	var call func() string
	var hold *c15hold

	fromU := func(f ufn) func() string {
		return func() string { return c15resStr(f(ctx, 0)) }
	}
	switch subject {
	case "once":
		switch kind {
		case "W":
			call = fromU(fromWorker(w.asWorker(u).Once()))
		case "O":
			call = fromU(fromOperation(w.asOperation(u).Once()))
		case "P":
			call = fromU(fromProducer(w.asProducer(u).Once()))
		case "X":
			call = fromU(fromProcessor(w.asProcessor(u).Once()))
		case "H":
			call = fromU(fromHandler(w.asHandler(u).Once()))
		case "F":
			call = fromU(fromFuture(w.asFuture(u).Once()))
		case "M":
			kind = "F"
			u = g.fn(kind)
			f := adt.Mnemonize(func() int { v, _ := u(ctx, 0); return v })
			call = func() string { return c15resStr(f(), nil) }
		case "D":
			kind = "F"
			u = g.fn(kind)
			f := ft.OnceDo(func() int { v, _ := u(ctx, 0); return v })
			call = func() string { return c15resStr(f(), nil) }
		case "T":
			kind = "O"
			u = g.fn(kind)
			f := ft.Once(func() { _, _ = u(ctx, 0) })
			call = func() string { f(); return c15resStr(0, nil) }
		case "B":
			// adt.Once driven through Do: every caller passes the function and returns right after Do
			kind = "O"
			u = g.fn(kind)
			ob := &adt.Once[int]{}
			call = func() string {
				ob.Do(func() int { _, _ = u(ctx, 0); return 0 })
				return c15resStr(0, nil)
			}
		case "A":
			kind = "F"
			u = g.fn(kind)
			o := adt.NewOnce(func() int { v, _ := u(ctx, 0); return v })
			call = func() string { return c15resStr(o.Resolve(), nil) }
		default:
			return "bad-op"
		}
	case "limit":
		switch kind {
		case "W":
			call = fromU(fromWorker(w.asWorker(u).Limit(n)))
		case "P":
			call = fromU(fromProducer(w.asProducer(u).Limit(n)))
		case "X":
			call = fromU(fromProcessor(w.asProcessor(u).Limit(n)))
		case "F":
			call = fromU(fromFuture(w.asFuture(u).Limit(n)))
		default:
			return "bad-op"
		}
	case "oplimit":
		call = fromU(fromOperation(w.asOperation(u).Limit(n)))
	case "oplimitf":
		// forced schedule: every caller is held between counter.Load() and the CAS (hook point
		// "oplimit.loaded") and all held callers are released together, so that they race on
		// the same loaded value
		call = fromU(fromOperation(w.asOperation(u).Limit(n)))
		hold = &c15hold{ch: make(chan struct{})}
		fun.VerifSetHook(hold.hook)
		defer fun.VerifSetHook(schedHook)
	case "lock":
		switch kind {
		case "W":
			call = fromU(fromWorker(w.asWorker(u).Lock()))
		case "O":
			call = fromU(fromOperation(w.asOperation(u).Lock()))
		case "P":
			call = fromU(fromProducer(w.asProducer(u).Lock()))
		case "X":
			call = fromU(fromProcessor(w.asProcessor(u).Lock()))
		case "H":
			call = fromU(fromHandler(w.asHandler(u).Lock()))
		case "F":
			call = fromU(fromFuture(w.asFuture(u).Lock()))
		default:
			return "bad-op"
		}
	case "oplaunch":
		waiter := w.asOperation(u).Launch(ctx)
		call = func() string { waiter(ctx); return c15resStr(0, nil) }
	case "opsignal":
		ch := w.asOperation(u).Signal(ctx)
		call = func() string { <-ch; return c15resStr(0, nil) }
	case "opstartgroup", "opadd":
		wg := &fun.WaitGroup{}
		if subject == "opadd" {
			n = 1
			w.asOperation(u).Add(ctx, wg)
		} else {
			w.asOperation(u).StartGroup(ctx, wg, n)
		}
		call = func() string { wg.Wait(ctx); return c15resStr(0, nil) }
	case "wlaunch":
		waiter := w.asWorker(u).Launch(ctx)
		goroutines, callsEach = 1, G
		call = func() string { return c15resStr(0, waiter(ctx)) }
	case "wsignal":
		ch := w.asWorker(u).Signal(ctx)
		goroutines, callsEach = 1, G
		call = func() string { return c15resStr(0, <-ch) }
	case "wbackground":
		var seen error
		op := w.asWorker(u).Background(ctx, func(err error) { seen = err })
		goroutines, callsEach = 1, G
		call = func() string { seen = nil; op(ctx); return c15resStr(0, seen) }
	case "pbackground":
		waiter := w.asProducer(u).Background(ctx, func(int) {})
		goroutines, callsEach = 1, G
		call = func() string { return c15resStr(0, waiter(ctx)) }
	case "xbackground":
		waiter := w.asProcessor(u).Background(ctx, 0)
		goroutines, callsEach = 1, G
		call = func() string { return c15resStr(0, waiter(ctx)) }
	case "plaunch":
		waiter := w.asProducer(u).Launch(ctx)
		call = func() string { return c15resStr(waiter(ctx)) }
	case "wstartgroup", "wstartgroupx":
		sctx := ctx
		if subject == "wstartgroupx" {
			// the group is started under its own context, which ends right after the start; the
			// waiter is then called with a live context and must still wait for the n executions
			var scancel context.CancelFunc
			sctx, scancel = context.WithCancel(ctx)
			defer scancel()
			waiter0 := w.asWorker(u).StartGroup(sctx, n)
			scancel()
			call = func() string {
				err := waiter0(ctx)
				atoms := strings.Split(c15errStr(err), "+")
				sort.Strings(atoms)
				return "0/" + strings.Join(atoms, "+")
			}
			break
		}
		waiter := w.asWorker(u).StartGroup(sctx, n)
		call = func() string {
			err := waiter(ctx)
			atoms := strings.Split(c15errStr(err), "+")
			sort.Strings(atoms)
			return "0/" + strings.Join(atoms, "+")
		}
	default:
		return "bad-op"
	}
	start := make(chan struct{})
	for i := 0; i < goroutines; i++ {
		go c15caller(cs, start, callsEach, call)
	}
	if !c15settle() { // every caller is parked at the start line (and a background execution at the gate)
		return "NOQUIESCE start"
	}
	close(start)
	phases := []string{}
	for round := 0; ; round++ {
		if !c15settle() {
			return "NOQUIESCE " + strings.Join(phases, "")
		}
		in := g.inside.Load()
		if hold != nil {
			parked := hold.parked.Load()
			phases = append(phases, fmt.Sprintf("(%d,%d,%d)", cs.returned.Load(), in, parked))
			if parked > 0 && round <= 4096 {
				hold.release()
				continue
			}
		} else {
			phases = append(phases, fmt.Sprintf("(%d,%d)", cs.returned.Load(), in))
		}
		if in == 0 || round > 4096 {
			break
		}
		g.tokens <- struct{}{}
	}
	cs.mu.Lock()
	res := append([]string{}, cs.results...)
	cs.mu.Unlock()
	sort.Strings(res)
	stuck := G - len(res)
	out := fmt.Sprintf("ph=%s|res=%s|inv=%d|maxc=%d", strings.Join(phases, ""), strings.Join(res, ","), g.inv.Load(), g.maxc.Load())
	if stuck != 0 {
		out += fmt.Sprintf("|stuck=%d", stuck)
	}
	return out
}
