package main

func c15conc(s *Sexp) string { return "bad-op" }
