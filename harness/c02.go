package main

import (
	"context"
	"errors"
	"fmt"
	"io"
	"sort"
	"strings"

	"github.com/tychoish/fun"
	"github.com/tychoish/fun/dt"
	"github.com/tychoish/fun/ers"
	"github.com/tychoish/fun/itertool"
)

type c02env struct {
	ctx  context.Context
	errs map[int]error
}

func (env *c02env) errOf(ev *Sexp) error {
	if ev.IsLst {
		id := ev.List[1].Int()
		if e, ok := env.errs[id]; ok {
			return e
		}
		e := fmt.Errorf("user-error-%d", id)
		env.errs[id] = e
		return e
	}
	switch ev.Atom {
	case "skip":
		return fun.ErrIteratorSkip
	case "eof":
		return io.EOF
	case "abort":
		return ers.ErrCurrentOpAbort
	case "ctx":
		return context.Canceled
	}
	return nil
}

func intsOf(xs []*Sexp) []int {
	out := make([]int, 0, len(xs))
	for _, x := range xs {
		out = append(out, x.Int())
	}
	return out
}

// userFn builds the arithmetic function with injected results at given call indices
func (env *c02env) userFn(mul, add int, inj *Sexp) func(int) (int, error) {
	table := map[int]*Sexp{}
	for _, p := range inj.Args() {
		table[p.List[0].Int()] = p.List[1]
	}
	n := -1
	return func(x int) (int, error) {
		n++
		if ev, ok := table[n]; ok {
			if !ev.IsLst {
				if _, err := fmt.Sscanf(ev.Atom, "%d", new(int)); err == nil {
					return ev.Int(), nil
				}
			}
			return 0, env.errOf(ev)
		}
		return x*mul + add, nil
	}
}

func (env *c02env) build(t *Sexp) *fun.Iterator[int] {
	a := t.Args()
	switch t.Head() {
	case "slice":
		return fun.SliceIterator(intsOf(a))
	case "vari":
		return fun.VariadicIterator(intsOf(a)...)
	case "chan":
		xs := intsOf(a)
		ch := make(chan int, len(xs)+1)
		for _, x := range xs {
			ch <- x
		}
		close(ch)
		return fun.ChannelIterator(ch)
	case "list":
		l := &dt.List[int]{}
		l.Append(intsOf(a)...)
		return l.Iterator()
	case "stack":
		s := &dt.Stack[int]{}
		s.Append(intsOf(a)...)
		return s.Iterator()
	case "gen":
		idx := -1
		return fun.Generator(func(ctx context.Context) (int, error) {
			idx++
			if idx >= len(a) {
				if len(a)%2 == 1 {
					// a generator may report exhaustion with a wrapped io.EOF: normal termination
					return 0, fmt.Errorf("generator exhausted: %w", io.EOF)
				}
				return 0, io.EOF
			}
			if err := env.errOf(a[idx]); err != nil {
				return 0, err
			}
			return a[idx].Int(), nil
		})
	case "filter":
		m, r := a[0].Int(), a[1].Int()
		return env.build(a[2]).Filter(func(x int) bool { return x%m == r })
	case "map":
		fn := env.userFn(a[0].Int(), a[1].Int(), a[2])
		return fun.ConvertIterator(env.build(a[3]), fun.ConverterErr(fn))
	case "join":
		rest := []*fun.Iterator[int]{}
		for _, x := range a[1:] {
			rest = append(rest, env.build(x))
		}
		return env.build(a[0]).Join(rest...)
	case "chain":
		its := []*fun.Iterator[int]{}
		for _, x := range a {
			its = append(its, env.build(x))
		}
		return itertool.Chain(its...)
	case "buffer":
		return env.build(a[1]).Buffer(a[0].Int())
	case "split1":
		return env.build(a[0]).Split(1)[0]
	case "channel":
		return fun.ChannelIterator(env.build(a[1]).BufferedChannel(env.ctx, a[0].Int()))
	case "uniq":
		return itertool.Uniq(env.build(a[0]))
	case "dropzero":
		return itertool.DropZeroValues(env.build(a[0]))
	case "indexed":
		return fun.ConvertIterator(itertool.Indexed(env.build(a[0])),
			fun.Converter(func(p dt.Pair[int, int]) int { return p.Key*1000 + p.Value }))
	case "mergeslices":
		sls := [][]int{}
		for _, x := range a {
			sls = append(sls, intsOf(x.List))
		}
		return itertool.MergeSlices(sls...)
	case "msi":
		sls := [][]int{}
		for _, x := range a {
			sls = append(sls, intsOf(x.List))
		}
		return itertool.MergeSliceIterators(fun.SliceIterator(sls))
	case "jsonlit":
		// an iterator unmarshalled from JSON text; `null` elements decode to the zero value
		parts := []string{}
		for _, x := range a {
			parts = append(parts, x.Atom)
		}
		out := fun.SliceIterator([]int{})
		doc := c02pad([]byte("[" + strings.Join(parts, ",") + "]"))
		if err := out.UnmarshalJSON(doc); err != nil {
			panic(err)
		}
		c02scribble(doc) // the caller's buffer is the caller's again once UnmarshalJSON has returned
		return out
	case "jsonrt":
		data, err := env.build(a[0]).MarshalJSON()
		if err != nil {
			panic(err)
		}
		c02otherMarshal() // the bytes returned belong to the caller: a later MarshalJSON must not touch them
		out := fun.SliceIterator([]int{})
		doc := c02pad(data)
		if err := out.UnmarshalJSON(doc); err != nil {
			panic(err)
		}
		c02scribble(doc)
		return out
	}
	panic("bad-tree " + t.String())
}

// c02pad inserts JSON whitespace after the first comma (or before the closing bracket) so that the
// document is longer than any decoder's first read-ahead chunk; the values are unchanged
func c02pad(doc []byte) []byte {
	pad := strings.Repeat(" ", 1500)
	if i := strings.IndexByte(string(doc), ','); i >= 0 {
		return []byte(string(doc[:i+1]) + pad + string(doc[i+1:]))
	}
	if n := len(doc); n > 0 && doc[n-1] == ']' {
		return []byte(string(doc[:n-1]) + pad + "]")
	}
	return doc
}

func c02scribble(doc []byte) {
	for i := range doc {
		doc[i] = '7'
	}
}

// c02otherMarshal: an unrelated MarshalJSON call between obtaining a result and using it
func c02otherMarshal() {
	_, _ = fun.SliceIterator([]string{"alpha", "beta", "gamma", "delta", "epsilon", "zeta", "eta", "theta"}).MarshalJSON()
	_, _ = fun.SliceIterator([]int{77777, 88888, 99999, 77777, 88888, 99999, 77777, 88888, 99999}).MarshalJSON()
}

func (env *c02env) evStr(v int, err error) string {
	switch {
	case err == nil:
		return fmt.Sprintf("v%d", v)
	case errors.Is(err, fun.ErrIteratorSkip):
		return "skip"
	case errors.Is(err, io.EOF):
		return "eof"
	case errors.Is(err, ers.ErrCurrentOpAbort):
		return "abort"
	case errors.Is(err, context.Canceled):
		return "ctx"
	}
	return "err" + env.errIDs(err)
}

func (env *c02env) errIDs(err error) string {
	ids := []int{}
	for id, e := range env.errs {
		if errors.Is(err, e) {
			ids = append(ids, id)
		}
	}
	sort.Ints(ids)
	return ints(ids)
}

func c02case(s *Sexp) string {
	if s.Head() != "pipe" {
		return "bad-op"
	}
	ctx, cancel := context.WithCancel(context.Background())
	defer cancel()
	env := &c02env{ctx: ctx, errs: map[int]error{}}
	cons, tree := s.List[1], s.List[2]
	it := env.build(tree)
	switch cons.Head() {
	case "read":
		n := cons.List[1].Int()
		outs := make([]string, 0, n)
		for i := 0; i < n; i++ {
			v, err := it.ReadOne(ctx)
			outs = append(outs, env.evStr(v, err))
		}
		return strings.Join(outs, " ") + " close=" + env.errIDs(it.Close())
	case "count":
		return fmt.Sprint(it.Count(ctx))
	case "slicec":
		vals, _ := it.Slice(ctx)
		return ints(vals)
	case "json":
		b, err := it.MarshalJSON()
		if err != nil {
			return "err"
		}
		c02otherMarshal()
		return string(b)
	case "reduce":
		a := cons.Args()
		fn := env.userFn(a[0].Int(), a[1].Int(), a[2])
		v, err := it.Reduce(func(item, acc int) (int, error) {
			x, err := fn(item)
			if err != nil {
				return 0, err
			}
			return acc + x, nil
		})(ctx)
		es := "-"
		if err != nil {
			es = env.errIDs(err)
			if errors.Is(err, context.Canceled) {
				es = "0"
			}
		}
		return fmt.Sprintf("%d err=%s", v, es)
	}
	return "bad-op"
}

func init() { handlers["C02"] = c02case }
