package main

import (
	"context"
	"errors"
	"fmt"
	"io"
	"strings"

	"github.com/tychoish/fun"
	"github.com/tychoish/fun/pubsub"
)

type c05subject struct {
	q     *pubsub.Queue[int]
	dist  pubsub.Distributor[int]
	iters map[int]fun.Producer[int]
}

func qerr(err error) string {
	switch {
	case err == nil:
		return "ok"
	case errors.Is(err, pubsub.ErrQueueFull):
		return "full"
	case errors.Is(err, pubsub.ErrQueueNoCredit):
		return "nocredit"
	case errors.Is(err, pubsub.ErrQueueClosed):
		return "closed"
	case errors.Is(err, context.Canceled), errors.Is(err, context.DeadlineExceeded):
		return "ctx"
	case errors.Is(err, io.EOF):
		return "eof"
	}
	return "err:" + err.Error()
}

func (c *c05subject) exec(ctx context.Context, tid int, op *Sexp) string {
	a := op.Args()
	switch op.Head() {
	case "add":
		return qerr(c.q.Add(a[0].Int()))
	case "badd":
		return qerr(c.q.BlockingAdd(ctx, a[0].Int()))
	case "remove":
		v, ok := c.q.Remove()
		if !ok {
			return "none"
		}
		return fmt.Sprint(v)
	case "wait":
		v, err := c.q.Wait(ctx)
		if err != nil {
			return qerr(err)
		}
		return fmt.Sprint(v)
	case "recv":
		v, err := c.dist.Receive(ctx)
		if err != nil {
			return qerr(err)
		}
		return fmt.Sprint(v)
	case "len":
		return fmt.Sprint(c.q.Len())
	case "close":
		return qerr(c.q.Close())
	case "next":
		k := a[0].Int()
		p, ok := c.iters[k]
		if !ok {
			p = c.q.Producer()
			c.iters[k] = p
		}
		v, err := p(ctx)
		if err != nil {
			if errors.Is(err, io.EOF) {
				return "eof"
			}
			return qerr(err)
		}
		return fmt.Sprint(v)
	}
	return "bad-op"
}

func (c *c05subject) final() string {
	n := c.q.Len()
	closed := c.q.Add(0) != nil && errors.Is(c.q.Add(0), pubsub.ErrQueueClosed)
	if !closed {
		// the probe Add above went in (or was refused for capacity): take out what we put in
		if c.q.Len() > n {
			// remove everything, drop the probe item at the end
		}
	}
	items := []string{}
	for {
		v, ok := c.q.Remove()
		if !ok {
			break
		}
		items = append(items, fmt.Sprint(v))
	}
	if len(items) > n {
		items = items[:n]
	}
	return fmt.Sprintf("len=%d closed=%s items=[%s]", n, bit(closed), strings.Join(items, ","))
}

func newC05subject(cfg *Sexp) *c05subject {
	a := cfg.Args()
	var q *pubsub.Queue[int]
	if a[0].Atom == "unlimited" {
		q = pubsub.NewUnlimitedQueue[int]()
	} else {
		var err error
		q, err = pubsub.NewQueue[int](pubsub.QueueOptions{HardLimit: a[1].Int(), SoftQuota: a[2].Int(),
			BurstCredit: float64(a[3].Int()) / float64(a[4].Int())})
		if err != nil {
			panic(err)
		}
	}
	return &c05subject{q: q, dist: q.Distributor(), iters: map[int]fun.Producer[int]{}}
}

func c05case(s *Sexp) string {
	switch s.Head() {
	case "queue":
		var cfg *Sexp
		for _, x := range s.Args() {
			if x.Head() == "cfg" {
				cfg = x
			}
		}
		programs, choices := parsePrograms(s)
		sub := newC05subject(cfg)
		sc := newSched(sub, programs)
		sc.yields["pubsub.Queue.Producer.unlocked"] = true
		defer sc.close()
		return sc.run(choices, 200)
	case "qstress":
		return qstressCase(s)
	case "qpre":
		// sequential calls, the `…c` operations with a context that is already cancelled when the call is
		// made: a call that can complete without waiting still completes; one that would have to wait
		// returns the context error and has no effect
		var cfg *Sexp
		var ops []*Sexp
		for _, x := range s.Args() {
			switch x.Head() {
			case "cfg":
				cfg = x
			case "ops":
				ops = x.List[1:]
			}
		}
		sub := newC05subject(cfg)
		dead, cancel := context.WithCancel(context.Background())
		cancel()
		outs := []string{}
		for _, op := range ops {
			h := op.Head()
			ctx := context.Background()
			if strings.HasSuffix(h, "c") && h != "recv" {
				ctx = dead
				op = &Sexp{IsLst: true, List: append([]*Sexp{{Atom: strings.TrimSuffix(h, "c")}}, op.List[1:]...)}
			}
			outs = append(outs, sub.exec(ctx, 0, op))
		}
		return strings.Join(outs, ";") + " | " + sub.final()
	case "qprobe":
		switch s.List[1].Atom {
		case "wait":
			q := pubsub.NewUnlimitedQueue[int]()
			return probeLostCancel(func(ctx context.Context) string { _, err := q.Wait(ctx); return qerr(err) })
		case "badd":
			q, _ := pubsub.NewQueue[int](pubsub.QueueOptions{HardLimit: 1, SoftQuota: 1, BurstCredit: 1})
			_ = q.Add(1)
			return probeLostCancel(func(ctx context.Context) string { return qerr(q.BlockingAdd(ctx, 2)) })
		case "iter":
			q := pubsub.NewUnlimitedQueue[int]()
			p := q.Producer()
			return probeLostCancel(func(ctx context.Context) string { _, err := p(ctx); return qerr(err) })
		}
	}
	return "bad-op"
}

func init() {
	handlers["C05"] = c05case
	handlers["C07"] = queueOrDequeCase // c06.go: dispatches on the head symbol
	handlers["C20"] = queueOrDequeCase
	pubsub.VerifSetHook(schedHook)
}
