package main

// Free-running contention cases for pubsub.Queue / pubsub.Deque (C05, C06).
//
// The deterministic scheduler of sched.go runs one critical section at a time, so it can never
// show a defect that needs two goroutines to be inside the API at the same instant (a TryLock
// that gives up, a compound operation that releases the mutex half-way). These cases run real
// goroutines without the scheduler, in shapes whose result is fixed by the sequential
// specification whatever the interleaving (a single remover and no adder: every Remove succeeds
// in order; only Force pushes on a full deque: Len is the capacity at every instant and a plain
// push always fails), so the observation is a deterministic string on correct code.

import (
	"context"
	"fmt"
	"runtime"
	"sync"
	"sync/atomic"
	"time"

	"github.com/tychoish/fun/pubsub"
)

func sxInt(s *Sexp, key string, def int) int {
	for _, x := range s.Args() {
		if x.Head() == key && len(x.List) > 1 {
			return x.List[1].Int()
		}
	}
	return def
}

func sxStr(s *Sexp, key string) string {
	for _, x := range s.Args() {
		if x.Head() == key && len(x.List) > 1 {
			return x.List[1].Atom
		}
	}
	return ""
}

// spinners call probe until stop is closed; they are started before and joined after the body
func withSpinners(n int, probe func(id int), body func()) {
	stop := make(chan struct{})
	var wg sync.WaitGroup
	var started sync.WaitGroup
	for i := 0; i < n; i++ {
		wg.Add(1)
		started.Add(1)
		go func(id int) {
			defer wg.Done()
			started.Done()
			for {
				select {
				case <-stop:
					return
				default:
					probe(id)
				}
			}
		}(i)
	}
	started.Wait()
	body()
	close(stop)
	wg.Wait()
}

// (qstress (kind drain|fill|pc) (n N) (spin S) [(prod P) (cons C)])
func qstressCase(s *Sexp) string {
	kind, n, spin := sxStr(s, "kind"), sxInt(s, "n", 1000), sxInt(s, "spin", 2)
	if p := runtime.GOMAXPROCS(0); p < 4 {
		defer runtime.GOMAXPROCS(runtime.GOMAXPROCS(4))
	}
	q := pubsub.NewUnlimitedQueue[int]()
	var lenBad atomic.Int64
	switch kind {
	case "drain":
		for i := 1; i <= n; i++ {
			if err := q.Add(i); err != nil {
				return "bad-prefill"
			}
		}
		last := make([]int, spin)
		for i := range last {
			last[i] = n
		}
		removed, falseEmpty, outOfOrder := 0, 0, 0
		withSpinners(spin, func(id int) {
			l := q.Len()
			if l < 0 || l > n || l > last[id] {
				lenBad.Add(1)
			}
			last[id] = l
		}, func() {
			for i := 1; i <= n; i++ {
				v, ok := q.Remove()
				if !ok {
					falseEmpty++
					i--
					if falseEmpty > 10*n {
						return
					}
					continue
				}
				removed++
				if v != i {
					outOfOrder++
				}
			}
		})
		return fmt.Sprintf("drain removed=%d falseempty=%d outoforder=%d lenbad=%d final=%d", removed, min1(falseEmpty), min1(outOfOrder), min1(int(lenBad.Load())), q.Len())
	case "fill":
		last := make([]int, spin)
		failed := 0
		withSpinners(spin, func(id int) {
			l := q.Len()
			if l < last[id] || l > n {
				lenBad.Add(1)
			}
			last[id] = l
		}, func() {
			for i := 1; i <= n; i++ {
				if err := q.Add(i); err != nil {
					failed++
				}
			}
		})
		return fmt.Sprintf("fill failed=%d lenbad=%d final=%d", min1(failed), min1(int(lenBad.Load())), q.Len())
	case "badd":
		// P producers call BlockingAdd (live context) on a queue with a small hard limit while C consumers
		// Wait: on an open queue a BlockingAdd with a live context waits for room and then adds, it never
		// fails; nothing is lost, duplicated or reordered per producer
		prod, cons, capa := sxInt(s, "prod", 2), sxInt(s, "cons", 1), sxInt(s, "cap", 1)
		bq, err := pubsub.NewQueue[int](pubsub.QueueOptions{HardLimit: capa, SoftQuota: capa})
		if err != nil {
			return "bad-config"
		}
		ctx, cancel := context.WithTimeout(context.Background(), 10*time.Minute) // only ends a hang; never an oracle
		defer cancel()
		total := prod * n
		var got, failed, over atomic.Int64
		seen := make([][]int, cons)
		var wg sync.WaitGroup
		for c := 0; c < cons; c++ {
			wg.Add(1)
			go func(c int) {
				defer wg.Done()
				for got.Load() < int64(total)-failed.Load() {
					wctx, wcancel := context.WithTimeout(ctx, 5*time.Millisecond)
					v, err := bq.Wait(wctx)
					wcancel()
					if err != nil {
						if ctx.Err() != nil {
							return
						}
						continue
					}
					seen[c] = append(seen[c], v)
					got.Add(1)
				}
			}(c)
		}
		for p := 0; p < prod; p++ {
			wg.Add(1)
			go func(p int) {
				defer wg.Done()
				for i := 1; i <= n; i++ {
					if err := bq.BlockingAdd(ctx, p*1000000+i); err != nil {
						failed.Add(1)
					}
					if bq.Len() > capa {
						over.Add(1)
					}
				}
			}(p)
		}
		wg.Wait()
		counts := map[int]int{}
		orderBad := 0
		for c := range seen {
			lastOf := map[int]int{}
			for _, v := range seen[c] {
				counts[v]++
				p, i := v/1000000, v%1000000
				if i <= lastOf[p] {
					orderBad++
				}
				lastOf[p] = i
			}
		}
		dup, missing := 0, 0
		for p := 0; p < prod; p++ {
			for i := 1; i <= n; i++ {
				switch k := counts[p*1000000+i]; {
				case k == 0:
					missing++
				case k > 1:
					dup++
				}
			}
		}
		return fmt.Sprintf("badd failed=%d overlimit=%d missing=%d dup=%d orderbad=%d final=%d", min1(int(failed.Load())), min1(int(over.Load())), min1(missing), min1(dup), min1(orderBad), bq.Len())
	case "pc":
		prod, cons := sxInt(s, "prod", 2), sxInt(s, "cons", 2)
		ctx, cancel := context.WithTimeout(context.Background(), 30*time.Second)
		defer cancel()
		total := prod * n
		var got atomic.Int64
		seen := make([][]int, cons)
		var wg sync.WaitGroup
		for c := 0; c < cons; c++ {
			wg.Add(1)
			go func(c int) {
				defer wg.Done()
				for got.Load() < int64(total) {
					v, ok := q.Remove()
					if !ok {
						wctx, wcancel := context.WithTimeout(ctx, 5*time.Millisecond)
						var err error
						v, err = q.Wait(wctx)
						wcancel()
						if err != nil {
							if ctx.Err() != nil {
								return
							}
							continue
						}
					}
					seen[c] = append(seen[c], v)
					got.Add(1)
				}
			}(c)
		}
		for p := 0; p < prod; p++ {
			wg.Add(1)
			go func(p int) {
				defer wg.Done()
				for i := 1; i <= n; i++ {
					_ = q.Add(p*1000000 + i)
				}
			}(p)
		}
		wg.Wait()
		counts := map[int]int{}
		orderBad := 0
		for c := range seen {
			lastOf := map[int]int{}
			for _, v := range seen[c] {
				counts[v]++
				p, i := v/1000000, v%1000000
				if i <= lastOf[p] {
					orderBad++
				}
				lastOf[p] = i
			}
		}
		dup, missing := 0, 0
		for p := 0; p < prod; p++ {
			for i := 1; i <= n; i++ {
				switch k := counts[p*1000000+i]; {
				case k == 0:
					missing++
				case k > 1:
					dup++
				}
			}
		}
		return fmt.Sprintf("pc missing=%d dup=%d invented=%d orderbad=%d final=%d", min1(missing), min1(dup), min1(len(counts)-(total-missing)), min1(orderBad), q.Len())
	}
	return "bad-op"
}

func min1(x int) int {
	if x > 0 {
		return 1
	}
	return 0
}

// (dstress (kind force|drain) (cap K) (n N) (spin S) (pushers F))
func dstressCase(s *Sexp) string {
	kind, n, spin, capa, pushers := sxStr(s, "kind"), sxInt(s, "n", 1000), sxInt(s, "spin", 2), sxInt(s, "cap", 4), sxInt(s, "pushers", 2)
	if p := runtime.GOMAXPROCS(0); p < 4 {
		defer runtime.GOMAXPROCS(runtime.GOMAXPROCS(4))
	}
	var lenBad, pushOK atomic.Int64
	switch kind {
	case "force":
		dq, err := pubsub.NewDeque[int](pubsub.DequeOptions{Capacity: capa})
		if err != nil {
			return "malformed"
		}
		for i := 0; i < capa; i++ {
			if err := dq.PushBack(i); err != nil {
				return "bad-prefill"
			}
		}
		forceFailed := atomic.Int64{}
		withSpinners(spin, func(id int) {
			if dq.Len() != capa {
				lenBad.Add(1)
			}
			if id%2 == 0 {
				if err := dq.PushBack(-1); err == nil {
					pushOK.Add(1)
				}
			}
		}, func() {
			var wg sync.WaitGroup
			for f := 0; f < pushers; f++ {
				wg.Add(1)
				go func(f int) {
					defer wg.Done()
					for i := 0; i < n; i++ {
						var err error
						if (f+i)%2 == 0 {
							err = dq.ForcePushBack(f*1000000 + i)
						} else {
							err = dq.ForcePushFront(f*1000000 + i)
						}
						if err != nil {
							forceFailed.Add(1)
						}
					}
				}(f)
			}
			wg.Wait()
		})
		return fmt.Sprintf("force lenbad=%d pushok=%d forcefailed=%d final=%d", min1(int(lenBad.Load())), min1(int(pushOK.Load())), min1(int(forceFailed.Load())), dq.Len())
	case "drain":
		dq, err := pubsub.NewDeque[int](pubsub.DequeOptions{Unlimited: true})
		if err != nil {
			return "malformed"
		}
		for i := 1; i <= n; i++ {
			if err := dq.PushBack(i); err != nil {
				return "bad-prefill"
			}
		}
		last := make([]int, spin)
		for i := range last {
			last[i] = n
		}
		removed, falseEmpty, outOfOrder := 0, 0, 0
		withSpinners(spin, func(id int) {
			l := dq.Len()
			if l < 0 || l > n || l > last[id] {
				lenBad.Add(1)
			}
			last[id] = l
		}, func() {
			lo, hi := 1, n
			for k := 0; k < n; k++ {
				var v int
				var ok bool
				want := 0
				if k%2 == 0 {
					v, ok = dq.PopFront()
					want = lo
				} else {
					v, ok = dq.PopBack()
					want = hi
				}
				if !ok {
					falseEmpty++
					if falseEmpty > 10*n {
						return
					}
					k--
					continue
				}
				if k%2 == 0 {
					lo++
				} else {
					hi--
				}
				removed++
				if v != want {
					outOfOrder++
				}
			}
		})
		return fmt.Sprintf("drain removed=%d falseempty=%d outoforder=%d lenbad=%d final=%d", removed, min1(falseEmpty), min1(outOfOrder), min1(int(lenBad.Load())), dq.Len())
	}
	return "bad-op"
}
