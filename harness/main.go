// Command harness runs the real tychoish/fun code on the verification line protocol:
// one S-expression per input line, one observation line per case on stdout.
package main

import (
	"bufio"
	"fmt"
	"os"
)

type handler func(*Sexp) string

var handlers = map[string]handler{}

func safeHandle(h handler, s *Sexp) (out string) {
	defer func() {
		if r := recover(); r != nil {
			out = fmt.Sprintf("PANIC %v", r)
		}
	}()
	return h(s)
}

func main() {
	if len(os.Args) < 2 {
		fmt.Fprintln(os.Stderr, "usage: harness <property>")
		os.Exit(2)
	}
	h, ok := handlers[os.Args[1]]
	if !ok {
		fmt.Fprintln(os.Stderr, "unknown property", os.Args[1])
		os.Exit(2)
	}
	in := bufio.NewReaderSize(os.Stdin, 1<<20)
	out := bufio.NewWriterSize(os.Stdout, 1<<16)
	defer out.Flush()
	for {
		line, err := in.ReadString('\n')
		if len(line) > 1 {
			s, perr := parseSexp(line)
			if perr != nil {
				fmt.Fprintln(out, "bad-parse")
			} else {
				fmt.Fprintln(out, safeHandle(h, s))
			}
			out.Flush()
		}
		if err != nil {
			return
		}
	}
}
