// Command harness runs the real tychoish/fun code on the verification line protocol:
// one S-expression per input line, one observation line per case on stdout.
package main

import (
	"bufio"
	"fmt"
	"os"
	"strconv"
	"time"
)

type handler func(*Sexp) string

var handlers = map[string]handler{}

func safeHandle(h handler, s *Sexp) (out string) {
	defer func() {
		if r := recover(); r != nil {
			out = fmt.Sprintf("PANIC %v", r)
		}
	}()
	return h(s)
}

func caseTimeout() time.Duration {
	if v, err := strconv.Atoi(os.Getenv("VERIF_CASE_TIMEOUT_MS")); err == nil && v > 0 {
		return time.Duration(v) * time.Millisecond
	}
	return 10 * time.Second
}

func main() {
	if len(os.Args) < 2 {
		fmt.Fprintln(os.Stderr, "usage: harness <property>")
		os.Exit(2)
	}
	h, ok := handlers[os.Args[1]]
	if !ok {
		fmt.Fprintln(os.Stderr, "unknown property", os.Args[1])
		os.Exit(2)
	}
	in := bufio.NewReaderSize(os.Stdin, 1<<20)
	out := bufio.NewWriterSize(os.Stdout, 1<<16)
	defer out.Flush()
	for {
		line, err := in.ReadString('\n')
		if len(line) > 1 {
			s, perr := parseSexp(line)
			if perr != nil {
				fmt.Fprintln(out, "bad-parse")
			} else {
				// watchdog: a case that does not finish (a corrupted structure that is walked
				// forever, a lost wake-up) is reported as HANG and the process ends; the
				// runner restarts it after that case.
				done := make(chan string, 1)
				go func() { done <- safeHandle(h, s) }()
				select {
				case r := <-done:
					fmt.Fprintln(out, r)
				case <-time.After(caseTimeout()):
					fmt.Fprintln(out, "HANG")
					out.Flush()
					os.Exit(3)
				}
			}
			out.Flush()
		}
		if err != nil {
			return
		}
	}
}
