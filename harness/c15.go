package main

// C15 — function wrappers. Sequential call streams (T-diff): the wrapped function is a script of
// outcomes; every layer boundary of the wrapper stack carries a transparent probe that logs
// call/return, so each wrapper's contract can be judged locally from the trace.

import (
	"context"
	"fmt"
	"io"
	"strings"
	"sync"
	"time"

	"github.com/tychoish/fun"
	"github.com/tychoish/fun/adt"
	"github.com/tychoish/fun/ers"
	"github.com/tychoish/fun/ft"
)

var c15users = func() []error {
	out := make([]error, 16)
	for i := range out {
		out[i] = fmt.Errorf("u%d", i)
	}
	return out
}()

func c15atomErr(name string) error {
	switch name {
	case "eof":
		return io.EOF
	case "abort":
		return ers.ErrCurrentOpAbort
	case "skip":
		return fun.ErrIteratorSkip
	case "canceled":
		return context.Canceled
	case "deadline":
		return context.DeadlineExceeded
	case "recovered":
		return ers.ErrRecoveredPanic
	case "invariant":
		return ers.ErrInvariantViolation
	}
	if strings.HasPrefix(name, "u") {
		return c15users[atoiSuffix(name, "u")]
	}
	panic("bad-atom " + name)
}

func c15atomName(e error) string {
	for i, u := range c15users {
		if e == u {
			return fmt.Sprintf("u%d", i)
		}
	}
	switch e {
	case io.EOF:
		return "eof"
	case error(ers.ErrCurrentOpAbort):
		return "abort"
	case error(fun.ErrIteratorSkip):
		return "skip"
	case context.Canceled:
		return "canceled"
	case context.DeadlineExceeded:
		return "deadline"
	case error(ers.ErrRecoveredPanic):
		return "recovered"
	case error(ers.ErrInvariantViolation):
		return "invariant"
	}
	return "other"
}

// c15errOf builds the error whose stack reads (most recent first) as the given atoms.
func c15errOf(atoms []string) error {
	switch len(atoms) {
	case 0:
		return nil
	case 1:
		return c15atomErr(atoms[0])
	}
	errs := make([]error, 0, len(atoms))
	for i := len(atoms) - 1; i >= 0; i-- {
		errs = append(errs, c15atomErr(atoms[i]))
	}
	return ers.Join(errs...)
}

func c15errStr(err error) string {
	if err == nil {
		return ""
	}
	parts := []string{}
	for _, e := range ers.Unwind(err) {
		parts = append(parts, c15atomName(e))
	}
	return strings.Join(parts, "+")
}

func c15panicStr(r any) string {
	if e, ok := r.(error); ok {
		return "!" + c15errStr(e)
	}
	return fmt.Sprintf("!nonerror(%v)", r)
}

type c15step struct {
	v      int
	atoms  []string
	panics bool
	cancel bool
}

func c15parseStep(s *Sexp) c15step {
	st := c15step{}
	args := s.Args()
	switch s.Head() {
	case "ret":
		st.v = args[0].Int()
		args = args[1:]
	case "panic":
		st.panics = true
	default:
		panic("bad-step " + s.String())
	}
	for _, a := range args {
		if a.Atom == "c" {
			st.cancel = true
		} else {
			st.atoms = append(st.atoms, a.Atom)
		}
	}
	return st
}

func c15hasArg(kind string) bool { return kind == "X" || kind == "H" }

type ufn func(ctx context.Context, arg int) (int, error)

type c15world struct {
	mu      sync.Mutex
	script  []c15step
	pos     int
	gctx    context.Context
	gcancel context.CancelFunc
	cur     context.Context // context of the call in progress (for the function types that take none)
	trace   []string
	inv     int
	cancels []context.CancelFunc
}

func newC15World(script []c15step) *c15world {
	w := &c15world{script: script}
	w.gctx, w.gcancel = context.WithCancel(context.Background())
	w.cur = w.gctx
	return w
}

func (w *c15world) log(f string, a ...any) {
	w.mu.Lock()
	defer w.mu.Unlock()
	w.trace = append(w.trace, fmt.Sprintf(f, a...))
}

func (w *c15world) pop() c15step {
	w.mu.Lock()
	defer w.mu.Unlock()
	if w.pos < len(w.script) {
		w.pos++
		return w.script[w.pos-1]
	}
	return c15step{}
}

// what a function of the kind can return (Kind.proj of the model)
func c15proj(kind string, st c15step) (int, error) {
	err := c15errOf(st.atoms)
	switch kind {
	case "W", "X":
		return 0, err
	case "O", "H":
		return 0, nil
	case "F":
		return st.v, nil
	}
	return st.v, err
}

func c15resStr(v int, err error) string { return fmt.Sprintf("%d/%s", v, c15errStr(err)) }

func (w *c15world) scripted(kind string, id int) ufn {
	return func(ctx context.Context, arg int) (int, error) {
		a := 0
		if c15hasArg(kind) {
			a = arg
		}
		w.log("(%d:%d", id, a)
		if id == 0 {
			w.mu.Lock()
			w.inv++
			w.mu.Unlock()
		}
		st := w.pop()
		if st.cancel {
			w.gcancel()
		}
		if st.panics {
			pv := c15errOf(st.atoms)
			w.log("%d)%s", id, c15panicStr(pv))
			panic(pv)
		}
		v, err := c15proj(kind, st)
		w.log("%d)%s", id, c15resStr(v, err))
		return v, err
	}
}

func (w *c15world) probe(layer int, f ufn) ufn {
	return func(ctx context.Context, arg int) (v int, err error) {
		w.log("<%d", layer)
		defer func() {
			if r := recover(); r != nil {
				w.log("%d>%s", layer, c15panicStr(r))
				panic(r)
			}
		}()
		v, err = f(ctx, arg)
		w.log("%d>%s", layer, c15resStr(v, err))
		return v, err
	}
}

// ---- adapters between the uniform function and the six library types ------------------------

func (w *c15world) asWorker(u ufn) fun.Worker {
	return func(ctx context.Context) error { _, err := u(ctx, 0); return err }
}
func (w *c15world) asOperation(u ufn) fun.Operation {
	return func(ctx context.Context) { _, _ = u(ctx, 0) }
}
func (w *c15world) asProducer(u ufn) fun.Producer[int] {
	return func(ctx context.Context) (int, error) { return u(ctx, 0) }
}
func (w *c15world) asProcessor(u ufn) fun.Processor[int] {
	return func(ctx context.Context, in int) error { _, err := u(ctx, in); return err }
}
func (w *c15world) asHandler(u ufn) fun.Handler[int] {
	return func(in int) { _, _ = u(w.cur, in) }
}
func (w *c15world) asFuture(u ufn) fun.Future[int] {
	return func() int { v, _ := u(w.cur, 0); return v }
}
func (w *c15world) asFunc(u ufn) func() { return func() { _, _ = u(w.cur, 0) } }

func fromWorker(f fun.Worker) ufn {
	return func(ctx context.Context, _ int) (int, error) { return 0, f(ctx) }
}
func fromOperation(f fun.Operation) ufn {
	return func(ctx context.Context, _ int) (int, error) { f(ctx); return 0, nil }
}
func fromProducer(f fun.Producer[int]) ufn {
	return func(ctx context.Context, _ int) (int, error) { return f(ctx) }
}
func fromProcessor(f fun.Processor[int]) ufn {
	return func(ctx context.Context, in int) (int, error) { return 0, f(ctx, in) }
}
func fromHandler(f fun.Handler[int]) ufn {
	return func(_ context.Context, in int) (int, error) { f(in); return 0, nil }
}
func fromFuture(f fun.Future[int]) ufn {
	return func(context.Context, int) (int, error) { return f(), nil }
}

const c15forever = time.Hour

func c15bools(xs []*Sexp) func() bool {
	vals := []bool{}
	for _, x := range xs {
		vals = append(vals, x.Atom == "1")
	}
	mu := &sync.Mutex{}
	pos := 0
	return func() bool {
		mu.Lock()
		defer mu.Unlock()
		if pos < len(vals) {
			pos++
			return vals[pos-1]
		}
		return true
	}
}

// apply one wrapper of the library to the uniform function (constructor panics propagate)
func (w *c15world) apply(kind string, layer int, spec *Sexp, inner ufn) ufn {
	name := spec.Head()
	a := spec.Args()
	part := func(j int) ufn { return w.scripted(kind, 10*layer+j) }
	hook := w.scripted("O", 10*layer+1)
	switch kind {
	case "W":
		f := w.asWorker(inner)
		switch name {
		case "once":
			return fromWorker(f.Once())
		case "limit":
			return fromWorker(f.Limit(a[0].Int()))
		case "ttl0":
			return fromWorker(f.TTL(0))
		case "ttlinf":
			return fromWorker(f.TTL(c15forever))
		case "lock":
			return fromWorker(f.Lock())
		case "retry":
			return fromWorker(f.Retry(a[0].Int()))
		case "join":
			parts := []fun.Worker{}
			for j := 1; j <= a[0].Int(); j++ {
				parts = append(parts, w.asWorker(part(j)))
			}
			return fromWorker(f.Join(parts...))
		case "prehook":
			return fromWorker(f.PreHook(w.asOperation(hook)))
		case "posthook":
			return fromWorker(f.PostHook(w.asFunc(hook)))
		case "withcancel":
			g, cancel := f.WithCancel()
			w.cancels = append(w.cancels, cancel)
			return fromWorker(g)
		case "if":
			return fromWorker(f.If(a[0].Atom == "1"))
		case "when":
			return fromWorker(f.When(c15bools(a)))
		case "recover":
			return fromWorker(f.WithRecover())
		}
	case "O":
		f := w.asOperation(inner)
		switch name {
		case "once":
			return fromOperation(f.Once())
		case "limit":
			return fromOperation(f.Limit(a[0].Int()))
		case "ttl0":
			return fromOperation(f.TTL(0))
		case "ttlinf":
			return fromOperation(f.TTL(c15forever))
		case "lock":
			return fromOperation(f.Lock())
		case "join":
			parts := []fun.Operation{}
			for j := 1; j <= a[0].Int(); j++ {
				parts = append(parts, w.asOperation(part(j)))
			}
			return fromOperation(f.Join(parts...))
		case "prehook":
			return fromOperation(f.PreHook(w.asOperation(hook)))
		case "posthook":
			return fromOperation(f.PostHook(w.asFunc(hook)))
		case "withcancel":
			g, cancel := f.WithCancel()
			w.cancels = append(w.cancels, cancel)
			return fromOperation(g)
		case "if":
			return fromOperation(f.If(a[0].Atom == "1"))
		case "when":
			return fromOperation(f.When(c15bools(a)))
		}
	case "P":
		f := w.asProducer(inner)
		switch name {
		case "once":
			return fromProducer(f.Once())
		case "limit":
			return fromProducer(f.Limit(a[0].Int()))
		case "ttl0":
			return fromProducer(f.TTL(0))
		case "ttlinf":
			return fromProducer(f.TTL(c15forever))
		case "lock":
			return fromProducer(f.Lock())
		case "retry":
			return fromProducer(f.Retry(a[0].Int()))
		case "join":
			g := f
			for j := 1; j <= a[0].Int(); j++ {
				g = g.Join(w.asProducer(part(j)))
			}
			return fromProducer(g)
		case "prehook":
			return fromProducer(f.PreHook(w.asOperation(hook)))
		case "posthook":
			return fromProducer(f.PostHook(w.asFunc(hook)))
		case "withcancel":
			g, cancel := f.WithCancel()
			w.cancels = append(w.cancels, cancel)
			return fromProducer(g)
		case "if":
			return fromProducer(f.If(a[0].Atom == "1"))
		case "when":
			return fromProducer(f.When(c15bools(a)))
		case "recover":
			return fromProducer(f.WithRecover())
		}
	case "X":
		f := w.asProcessor(inner)
		switch name {
		case "once":
			return fromProcessor(f.Once())
		case "limit":
			return fromProcessor(f.Limit(a[0].Int()))
		case "ttl0":
			return fromProcessor(f.TTL(0))
		case "ttlinf":
			return fromProcessor(f.TTL(c15forever))
		case "lock":
			return fromProcessor(f.Lock())
		case "retry":
			n := a[0].Int()
			return func(ctx context.Context, in int) (int, error) { return 0, f.Retry(n, in)(ctx) }
		case "join":
			parts := []fun.Processor[int]{}
			for j := 1; j <= a[0].Int(); j++ {
				parts = append(parts, w.asProcessor(part(j)))
			}
			return fromProcessor(f.Join(parts...))
		case "prehook":
			return fromProcessor(f.PreHook(w.asOperation(hook)))
		case "posthook":
			return fromProcessor(f.PostHook(w.asFunc(hook)))
		case "withcancel":
			g, cancel := f.WithCancel()
			w.cancels = append(w.cancels, cancel)
			return fromProcessor(g)
		case "if":
			return fromProcessor(f.If(a[0].Atom == "1"))
		case "when":
			return fromProcessor(f.When(c15bools(a)))
		case "recover":
			return fromProcessor(f.WithRecover())
		}
	case "H":
		f := w.asHandler(inner)
		switch name {
		case "once":
			return fromHandler(f.Once())
		case "lock":
			return fromHandler(f.Lock())
		case "join":
			g := f
			for j := 1; j <= a[0].Int(); j++ {
				g = g.Join(w.asHandler(part(j)))
			}
			return fromHandler(g)
		case "prehook":
			return fromHandler(f.PreHook(w.asHandler(part(1))))
		case "if":
			return fromHandler(f.If(a[0].Atom == "1"))
		case "when":
			return fromHandler(f.When(c15bools(a)))
		}
	case "F":
		f := w.asFuture(inner)
		switch name {
		case "once":
			return fromFuture(f.Once())
		case "limit":
			return fromFuture(f.Limit(a[0].Int()))
		case "ttl0":
			return fromFuture(f.TTL(0))
		case "ttlinf":
			return fromFuture(f.TTL(c15forever))
		case "lock":
			return fromFuture(f.Lock())
		case "join":
			parts := []fun.Future[int]{}
			for j := 1; j <= a[0].Int(); j++ {
				parts = append(parts, w.asFuture(part(j)))
			}
			return fromFuture(f.Join(func(x, y int) int { return x + y }, parts...))
		case "prehook":
			return fromFuture(f.PreHook(w.asFunc(hook)))
		case "posthook":
			return fromFuture(f.PostHook(w.asFunc(hook)))
		case "if":
			return fromFuture(f.If(a[0].Atom == "1"))
		case "when":
			return fromFuture(f.When(c15bools(a)))
		}
	}
	panic(fmt.Sprintf("bad-wrapper %s for kind %s", name, kind))
}

func c15section(s *Sexp, name string) []*Sexp {
	for _, a := range s.Args() {
		if a.Head() == name {
			return a.Args()
		}
	}
	return nil
}

func c15script(s *Sexp) []c15step {
	out := []c15step{}
	for _, x := range c15section(s, "script") {
		out = append(out, c15parseStep(x))
	}
	return out
}

func (w *c15world) obs(results []string) string {
	return strings.Join(results, ";") + fmt.Sprintf("|inv=%d|tr=", w.inv) + strings.Join(w.trace, " ")
}

// call f, turning a panic into its observation
func c15guard(f func() string) (out string) {
	defer func() {
		if r := recover(); r != nil {
			out = c15panicStr(r)
		}
	}()
	return f()
}

func c15seq(s *Sexp) string {
	kind := s.List[1].Atom
	w := newC15World(c15script(s))
	defer w.gcancel()
	top := w.probe(0, w.scripted(kind, 0))
	ctor := c15guard(func() string {
		for i, spec := range c15section(s, "stack") {
			top = w.probe(i+1, w.apply(kind, i+1, spec, top))
		}
		return ""
	})
	if ctor != "" {
		if strings.HasPrefix(ctor, "!bad") || strings.Contains(ctor, "nonerror") {
			return "bad-op " + ctor
		}
		return "ctor" + ctor
	}
	dead, deadCancel := context.WithCancel(context.Background())
	deadCancel()
	results := []string{}
	for _, op := range c15section(s, "ops") {
		switch op.Head() {
		case "call", "calld":
			ctx := w.gctx
			if op.Head() == "calld" {
				ctx = dead
			}
			w.cur = ctx
			arg := op.List[1].Int()
			results = append(results, c15guard(func() string { return c15resStr(top(ctx, arg)) }))
		case "cancel":
			w.gcancel()
		case "wcancel":
			for _, c := range w.cancels {
				c()
			}
		default:
			return "bad-op"
		}
	}
	return w.obs(results)
}

func c15adt(s *Sexp) string {
	w := newC15World(c15script(s))
	defer w.gcancel()
	ctor := func(id int) func() int {
		f := w.asFuture(w.scripted("F", id))
		return f
	}
	var o *adt.Once[int]
	if nw := c15section(s, "new"); len(nw) == 1 {
		o = adt.NewOnce(ctor(nw[0].Int()))
	} else {
		o = &adt.Once[int]{}
	}
	results := []string{}
	for _, op := range c15section(s, "ops") {
		op := op
		results = append(results, c15guard(func() string {
			switch op.Head() {
			case "do":
				o.Do(ctor(op.List[1].Int()))
				return "0/"
			case "resolve":
				return c15resStr(o.Resolve(), nil)
			case "set":
				o.Set(ctor(op.List[1].Int()))
				return "0/"
			case "called":
				return c15resStr(ft.IfValue(o.Called(), 1, 0), nil)
			case "defined":
				return c15resStr(ft.IfValue(o.Defined(), 1, 0), nil)
			}
			return "bad-op"
		}))
	}
	return w.obs(results)
}

func c15case(s *Sexp) string {
	switch s.Head() {
	case "seq":
		return c15seq(s)
	case "adtonce":
		return c15adt(s)
	case "conc":
		return c15conc(s)
	}
	return "bad-op"
}

func init() { handlers["C15"] = c15case }
