package main

import (
	"time"
	"sync"
	"context"
	"encoding/json"
	"fmt"
	"sort"
	"strings"

	"github.com/tychoish/fun"
	"github.com/tychoish/fun/dt"
)

type c18set struct {
	s       *dt.Set[int]
	ordered bool
}

func c18lt(c string) func(a, b int) bool {
	if c == "gt" {
		return func(a, b int) bool { return a > b }
	}
	return func(a, b int) bool { return a < b }
}

func c18case(s *Sexp) string {
	if s.Head() != "set" {
		return "bad-op"
	}
	ctx := context.Background()
	sets := []*c18set{}
	get := func(x *Sexp) *c18set { return sets[atoiSuffix(x.Atom, "s")] }
	outs := []string{}
	values := func(st *c18set) []int {
		vals := drain(st.s.Iterator())
		if !st.ordered {
			sort.Ints(vals)
		}
		return vals
	}
	for _, op := range s.Args() {
		a := op.Args()
		var o string
		func() {
			defer func() {
				if r := recover(); r != nil {
					o = fmt.Sprintf("PANIC(%v)", r)
				}
			}()
			switch op.Head() {
			case "mk":
				st := &c18set{s: &dt.Set[int]{}}
				if a[0].Atom == "1" {
					st.s.Order()
					st.ordered = true
				}
				if a[1].Atom == "1" {
					st.s.Synchronize()
				}
				sets = append(sets, st)
				o = fmt.Sprintf("s%d", len(sets)-1)
			case "add":
				o = bit(get(a[0]).s.AddCheck(a[1].Int()))
			case "del":
				o = bit(get(a[0]).s.DeleteCheck(a[1].Int()))
			case "check":
				o = bit(get(a[0]).s.Check(a[1].Int()))
			case "len":
				o = fmt.Sprint(get(a[0]).s.Len())
			case "iter":
				o = ints(values(get(a[0])))
			case "json":
				b, err := get(a[0]).s.MarshalJSON()
				if err != nil {
					o = "err"
					return
				}
				xs := []int{}
				if err := json.Unmarshal(b, &xs); err != nil {
					o = "err:" + string(b)
					return
				}
				if !get(a[0]).ordered {
					sort.Ints(xs)
				}
				o = "[" + ints(xs) + "]"
			case "sortq":
				get(a[0]).s.SortQuick(c18lt(a[1].Atom))
				get(a[0]).ordered = true
				o = "ok"
			case "sortm":
				get(a[0]).s.SortMerge(c18lt(a[1].Atom))
				get(a[0]).ordered = true
				o = "ok"
			case "equal":
				o = bit(get(a[0]).s.Equal(get(a[1]).s))
			case "extend":
				get(a[0]).s.Extend(get(a[1]).s)
				o = "ok"
			case "addall":
				xs := []int{}
				for _, v := range a[1].List {
					xs = append(xs, v.Int())
				}
				get(a[0]).s.Populate(fun.SliceIterator(xs))
				o = "ok"
			case "unjson":
				if err := get(a[0]).s.UnmarshalJSON(jsonInts(a[1])); err != nil {
					o = "err"
					return
				}
				o = "ok"
			default:
				o = "bad-op"
			}
		}()
		_ = ctx
		outs = append(outs, o)
	}
	return strings.Join(outs, ";")
}

// (setexcl (variant again|withlock) (n K)): operations on a synchronized set stay mutually exclusive
// when Synchronize is called again, or a second mutex is refused by WithLock, while an operation
// is inside the set. The sorter is parked inside its comparison function (it holds the set's
// lock); a Len issued after the second Synchronize/WithLock must not complete until the sorter is
// released. The wait only bounds how long we look for an overlap: on correct code Len cannot
// complete whatever the timing, so the observation is deterministic there.
func c18exclCase(s *Sexp) string {
	variant, k := sxStr(s, "variant"), sxInt(s, "n", 5)
	if variant == "equal" {
		return c18equalRace(sxInt(s, "ordered", 0) == 1)
	}
	set := &dt.Set[int]{}
	set.Synchronize()
	set.Order()
	for i := k; i > 0; i-- {
		set.Add(i)
	}
	entered, release, sortDone, lenDone := make(chan struct{}), make(chan struct{}), make(chan struct{}), make(chan struct{})
	var once sync.Once
	go func() {
		defer close(sortDone)
		set.SortQuick(func(a, b int) bool {
			once.Do(func() { close(entered) })
			<-release
			return a < b
		})
	}()
	select {
	case <-entered:
	case <-time.After(10 * time.Second):
		close(release)
		return "excl no-comparison"
	}
	switch variant {
	case "again":
		set.Synchronize()
	case "withlock":
		func() {
			defer func() { _ = recover() }()
			set.WithLock(&sync.Mutex{})
		}()
	}
	go func() { _ = set.Len(); close(lenDone) }()
	overlapped := false
	select {
	case <-lenDone:
		overlapped = true
	case <-time.After(300 * time.Millisecond):
	}
	close(release)
	<-sortDone
	<-lenDone
	return "excl overlapped=" + bit(overlapped)
}

// c18equalRace: a = {1,2}, b = {1,3} (caller-owned mutexes through WithLock); Equal(a, b) is made to wait
// at b's mutex while a Delete(2) on a is started. Whatever the order — Equal first (2 is not in b) or the
// Delete first (sizes differ) — the answer is false; an Equal that lets the Delete in between its tests
// answers true. The sleeps only make the interleaving likely; they are not an oracle.
func c18equalRace(ordered bool) string {
	bad := 0
	for round := 0; round < 25; round++ {
		var muA, muB sync.Mutex
		a, b := &dt.Set[int]{}, &dt.Set[int]{}
		if ordered {
			a.Order()
			b.Order()
		}
		a.WithLock(&muA)
		b.WithLock(&muB)
		a.Add(1)
		a.Add(2)
		b.Add(1)
		b.Add(3)
		muB.Lock()
		res, del := make(chan bool, 1), make(chan struct{})
		go func() { res <- a.Equal(b) }()
		time.Sleep(2 * time.Millisecond)
		go func() { a.Delete(2); close(del) }()
		select {
		case <-del:
		case <-time.After(20 * time.Millisecond):
		}
		muB.Unlock()
		if <-res {
			bad++
		}
		<-del
	}
	return "excl equal-true=" + fmt.Sprint(min1(bad))
}

func c18dispatch(s *Sexp) string {
	if s.Head() == "setexcl" {
		return c18exclCase(s)
	}
	return c18case(s)
}

func init() { handlers["C18"] = c18dispatch }
