package main

import (
	"io"
	"errors"
	"time"
	"context"
	"encoding/json"
	"fmt"
	"strings"

	"github.com/tychoish/fun"
	"github.com/tychoish/fun/dt"
)

type c16st struct {
	lists   []*dt.List[int]
	stacks  []*dt.Stack[int]
	elems   []*dt.Element[int]
	items   []*dt.Item[int]
	heap    *dt.Heap[int]
	heapCmp string
}

const c16fuel = 400

func c16lt(c string) func(a, b int) bool {
	switch c {
	case "gt":
		return func(a, b int) bool { return a > b }
	case "key":
		return func(a, b int) bool { return (a+1000)/10 < (b+1000)/10 }
	}
	return func(a, b int) bool { return a < b }
}

func ints(xs []int) string {
	p := make([]string, len(xs))
	for i, x := range xs {
		p[i] = fmt.Sprint(x)
	}
	return strings.Join(p, ",")
}

func drain(it *fun.Iterator[int]) []int {
	ctx := context.Background()
	out := []int{}
	for i := 0; i < c16fuel && it.Next(ctx); i++ {
		out = append(out, it.Value())
	}
	_ = it.Close()
	return out
}

func (st *c16st) list(s *Sexp) *dt.List[int]   { return st.lists[atoiSuffix(s.Atom, "L")] }
func (st *c16st) stack(s *Sexp) *dt.Stack[int] { return st.stacks[atoiSuffix(s.Atom, "S")] }
func (st *c16st) elem(s *Sexp) *dt.Element[int] {
	if s.Atom == "nil" {
		return nil
	}
	return st.elems[atoiSuffix(s.Atom, "e")]
}
func (st *c16st) item(s *Sexp) *dt.Item[int] {
	if s.Atom == "nil" {
		return nil
	}
	return st.items[atoiSuffix(s.Atom, "i")]
}

func atoiSuffix(a, prefix string) int {
	if !strings.HasPrefix(a, prefix) {
		panic("bad-handle " + a)
	}
	n := 0
	if _, err := fmt.Sscanf(a[len(prefix):], "%d", &n); err != nil {
		panic("bad-handle " + a)
	}
	return n
}

func (st *c16st) regE(e *dt.Element[int]) string {
	st.elems = append(st.elems, e)
	return fmt.Sprintf("e%d", len(st.elems)-1)
}
func (st *c16st) regI(e *dt.Item[int]) string {
	st.items = append(st.items, e)
	return fmt.Sprintf("i%d", len(st.items)-1)
}

func walkList(start *dt.Element[int], next func(*dt.Element[int]) *dt.Element[int]) string {
	vals := []int{}
	e := start
	for i := 0; ; i++ {
		if i >= c16fuel {
			return ints(vals) + ":cycle"
		}
		if e == nil {
			return ints(vals) + ":nil"
		}
		if !e.Ok() {
			return ints(vals) + ":end"
		}
		vals = append(vals, e.Value())
		e = next(e)
	}
}

// e.In(l), "P" if the call panics (e may be nil)
func elemIn(e *dt.Element[int], l *dt.List[int]) (out string) {
	defer func() {
		if recover() != nil {
			out = "P"
		}
	}()
	return bit(e.In(l))
}

func (st *c16st) dump() string {
	lp := []string{}
	for _, l := range st.lists {
		lp = append(lp, fmt.Sprintf("%d|%s|%s", l.Len(),
			walkList(l.Front(), func(e *dt.Element[int]) *dt.Element[int] { return e.Next() }),
			walkList(l.Back(), func(e *dt.Element[int]) *dt.Element[int] { return e.Previous() })))
	}
	sp := []string{}
	for _, s := range st.stacks {
		vals := []int{}
		term := ""
		it := s.Head()
		for i := 0; ; i++ {
			if i >= c16fuel {
				term = "cycle"
				break
			}
			if it == nil {
				term = "nil"
				break
			}
			if !it.Ok() {
				term = "end"
				break
			}
			vals = append(vals, it.Value())
			it = it.Next()
		}
		sp = append(sp, fmt.Sprintf("%d|%s:%s", s.Len(), ints(vals), term))
	}
	ep := []string{}
	for _, e := range st.elems {
		ins := ""
		for _, l := range st.lists {
			ins += elemIn(e, l)
		}
		if e == nil {
			// In is documented for a nil element ("Returns false when the element is nil")
			ep = append(ep, "nil/"+ins)
			continue
		}
		ep = append(ep, fmt.Sprintf("%s%d/%s", bit(e.Ok()), e.Value(), ins))
	}
	ip := []string{}
	for _, e := range st.items {
		if e == nil {
			ip = append(ip, "nil")
			continue
		}
		ins := ""
		for _, s := range st.stacks {
			ins += bit(e.In(s))
		}
		ip = append(ip, fmt.Sprintf("%s%d/%s", bit(e.Ok()), e.Value(), ins))
	}
	return fmt.Sprintf("L[%s] S[%s] E[%s] I[%s]", strings.Join(lp, " "), strings.Join(sp, " "),
		strings.Join(ep, " "), strings.Join(ip, " "))
}

// JSON text of the values; the atom `null` stands for a JSON null (decodes to the zero value)
func jsonInts(s *Sexp) []byte {
	xs := []string{}
	for _, v := range s.List {
		if v.Atom == "null" {
			xs = append(xs, "null")
			continue
		}
		b, _ := json.Marshal(v.Int())
		xs = append(xs, string(b))
	}
	return []byte("[" + strings.Join(xs, ",") + "]")
}

func (st *c16st) step(op *Sexp) string {
	a := op.Args()
	switch op.Head() {
	case "newlist":
		st.lists = append(st.lists, &dt.List[int]{})
		return fmt.Sprintf("L%d", len(st.lists)-1)
	case "newstack":
		st.stacks = append(st.stacks, &dt.Stack[int]{})
		return fmt.Sprintf("S%d", len(st.stacks)-1)
	case "nspop":
		s := &dt.Stack[int]{}
		st.stacks = append(st.stacks, s)
		return st.regI(s.Pop())
	case "le":
		return st.regE(dt.NewElement(a[0].Int()))
	case "pf":
		st.list(a[0]).PushFront(a[1].Int())
		return "ok"
	case "pb":
		st.list(a[0]).PushBack(a[1].Int())
		return "ok"
	case "popf":
		return st.regE(st.list(a[0]).PopFront())
	case "popb":
		return st.regE(st.list(a[0]).PopBack())
	case "front":
		return st.regE(st.list(a[0]).Front())
	case "back":
		return st.regE(st.list(a[0]).Back())
	case "next":
		return st.regE(st.elem(a[0]).Next())
	case "prev":
		return st.regE(st.elem(a[0]).Previous())
	case "app":
		return st.regE(st.elem(a[0]).Append(st.elem(a[1])))
	case "rm":
		return bit(st.elem(a[0]).Remove())
	case "drop":
		st.elem(a[0]).Drop()
		return "ok"
	case "swap":
		return bit(st.elem(a[0]).Swap(st.elem(a[1])))
	case "set":
		return bit(st.elem(a[0]).Set(a[1].Int()))
	case "ext":
		if st.list(a[0]) == st.list(a[1]) {
			// a list extended with itself (open finding dt.List.Extend:self: the loop never ends): run it
			// on the side so that the answer is "hang" rather than a stuck harness; the case ends here
			done := make(chan struct{})
			l := st.list(a[0])
			go func() { defer close(done); defer func() { _ = recover() }(); l.Extend(l) }()
			select {
			case <-done:
				return "ok"
			case <-time.After(5 * time.Second):
				return "HANG"
			}
		}
		st.list(a[0]).Extend(st.list(a[1]))
		return "ok"
	case "copy":
		st.lists = append(st.lists, st.list(a[0]).Copy())
		return fmt.Sprintf("L%d", len(st.lists)-1)
	case "sortm":
		st.list(a[0]).SortMerge(c16lt(a[1].Atom))
		return "ok"
	case "sortq":
		st.list(a[0]).SortQuick(c16lt(a[1].Atom))
		return "ok"
	case "sorted":
		return bit(st.list(a[0]).IsSorted(c16lt(a[1].Atom)))
	case "iter":
		return ints(drain(st.list(a[0]).Iterator()))
	case "riter":
		return ints(drain(st.list(a[0]).Reverse()))
	case "piter":
		return ints(drain(st.list(a[0]).PopIterator()))
	case "rpiter":
		return ints(drain(st.list(a[0]).PopReverse()))
	case "json":
		b, err := st.list(a[0]).MarshalJSON()
		if err != nil {
			return "err"
		}
		if why := c16byteInstance(b, false); why != "" {
			return "INSTANCE-MISMATCH " + why
		}
		return string(b)
	case "unjson":
		if err := st.list(a[0]).UnmarshalJSON(jsonInts(a[1])); err != nil {
			return "err"
		}
		return "ok"
	case "heap":
		st.heapCmp = a[0].Atom
		st.heap = &dt.Heap[int]{LT: c16lt(a[0].Atom)}
		return "ok"
	case "heapfrom":
		st.heapCmp = a[0].Atom
		vals, k := intsOfList(a[1]), a[2].Int()
		idx := -1
		injected := errors.New("source failed")
		it := fun.Generator(func(ctx context.Context) (int, error) {
			idx++
			if idx >= k && k < len(vals) {
				return 0, injected
			}
			if idx >= len(vals) {
				return 0, io.EOF
			}
			return vals[idx], nil
		})
		h, err := dt.NewHeapFromIterator(context.Background(), c16lt(a[0].Atom), it)
		st.heap = h
		if err != nil {
			return "err"
		}
		return "ok"
	case "hpush":
		st.heap.Push(a[0].Int())
		return "ok"
	case "hpop":
		v, ok := st.heap.Pop()
		return fmt.Sprintf("%d,%s", v, bit(ok))
	case "hiter":
		return fmt.Sprintf("%d|%s", st.heap.Len(), ints(drain(st.heap.Iterator())))
	case "si":
		return st.regI(dt.NewItem(a[0].Int()))
	case "push":
		st.stack(a[0]).Push(a[1].Int())
		return "ok"
	case "spop":
		return st.regI(st.stack(a[0]).Pop())
	case "head":
		return st.regI(st.stack(a[0]).Head())
	case "snext":
		return st.regI(st.item(a[0]).Next())
	case "sapp":
		return st.regI(st.item(a[0]).Append(st.item(a[1])))
	case "srm":
		return bit(st.item(a[0]).Remove())
	case "sset":
		return bit(st.item(a[0]).Set(a[1].Int()))
	case "siter":
		return ints(drain(st.stack(a[0]).Iterator()))
	case "spiter":
		return ints(drain(st.stack(a[0]).PopIterator()))
	case "sjson":
		b, err := st.stack(a[0]).MarshalJSON()
		if err != nil {
			return "err"
		}
		if why := c16byteInstance(b, true); why != "" {
			return "INSTANCE-MISMATCH " + why
		}
		return string(b)
	case "sunjson":
		if err := st.stack(a[0]).UnmarshalJSON(jsonInts(a[1])); err != nil {
			return "err"
		}
		return "ok"
	}
	return "bad-op"
}

func (st *c16st) safeStep(op *Sexp) (out string, panicked bool) {
	defer func() {
		if r := recover(); r != nil {
			out, panicked = "PANIC", true
		}
	}()
	r := st.step(op)
	return r + " " + st.dump(), false
}

func c16case(s *Sexp) string {
	if s.Head() != "seq" {
		return "bad-op"
	}
	st := &c16st{}
	outs := []string{}
	for _, op := range s.Args() {
		o, p := st.safeStep(op)
		outs = append(outs, o)
		if p {
			break
		}
	}
	return strings.Join(outs, " ; ")
}

func init() { handlers["C16"] = c16case; handlers["C17"] = c16case }

// c16byteInstance: the containers are generic; the same sequence held in a List[uint8] / Stack[uint8]
// (an element type encoding/json treats specially when it sits in a slice) must marshal to the same
// JSON array of numbers and read its own output back.
func c16byteInstance(doc []byte, stack bool) string {
	var vals []int
	if err := json.Unmarshal(doc, &vals); err != nil {
		return ""
	}
	want := "["
	for i, v := range vals {
		if i > 0 {
			want += ","
		}
		want += fmt.Sprint(uint8(v))
	}
	want += "]"
	var got []byte
	var err error
	var back []byte
	if stack {
		s8 := &dt.Stack[uint8]{}
		for i := len(vals) - 1; i >= 0; i-- {
			s8.Push(uint8(vals[i]))
		}
		if got, err = s8.MarshalJSON(); err != nil {
			return "Stack[uint8].MarshalJSON: " + err.Error()
		}
		r8 := &dt.Stack[uint8]{}
		if err = r8.UnmarshalJSON(got); err != nil {
			return "Stack[uint8] cannot read its own JSON " + string(got) + ": " + err.Error()
		}
		back, _ = r8.MarshalJSON()
	} else {
		l8 := &dt.List[uint8]{}
		for _, v := range vals {
			l8.PushBack(uint8(v))
		}
		if got, err = l8.MarshalJSON(); err != nil {
			return "List[uint8].MarshalJSON: " + err.Error()
		}
		r8 := &dt.List[uint8]{}
		if err = r8.UnmarshalJSON(got); err != nil {
			return "List[uint8] cannot read its own JSON " + string(got) + ": " + err.Error()
		}
		back, _ = r8.MarshalJSON()
	}
	if string(got) != want {
		return "the uint8 instance marshals to " + string(got) + " but the sequence is " + want
	}
	if string(back) != want {
		return "the uint8 instance round-trips to " + string(back) + " but the sequence is " + want
	}
	return ""
}

func intsOfList(x *Sexp) []int {
	out := []int{}
	for _, e := range x.List {
		out = append(out, e.Int())
	}
	return out
}
