package main

import (
	"fmt"
	"strconv"
	"strings"

	"github.com/tychoish/fun/dt/hdrhist"
)

func c19op(h *hdrhist.Histogram, op *Sexp) (out string) {
	defer func() {
		if r := recover(); r != nil {
			out = fmt.Sprintf("PANIC(%v)", r)
		}
	}()
	args := op.Args()
	switch op.Head() {
	case "rec":
		if err := h.RecordValues(args[0].Int64(), args[1].Int64()); err != nil {
			return "err"
		}
		return "ok"
	case "total":
		return fmt.Sprint(h.TotalCount())
	case "q":
		q, err := strconv.ParseFloat(args[0].Atom, 64)
		if err != nil {
			return "bad-op"
		}
		return fmt.Sprint(h.ValueAtQuantile(q))
	case "min":
		return fmt.Sprint(h.Min())
	case "max":
		return fmt.Sprint(h.Max())
	case "reimport":
		return bit(hdrhist.Import(h.Export()).Equals(h))
	case "snaprec":
		// a snapshot taken by Export/Import is independent of the original: recording into the
		// original afterwards must not change it, and it answers Max like the original did
		imp := hdrhist.Import(h.Export())
		t0, maxEq := imp.TotalCount(), imp.Max() == h.Max()
		d0 := fmt.Sprint(imp.Distribution(), imp.Max(), imp.Min())
		res := "ok"
		if err := h.RecordValues(args[0].Int64(), args[1].Int64()); err != nil {
			res = "err"
		}
		same := fmt.Sprint(imp.Distribution(), imp.Max(), imp.Min()) == d0
		return fmt.Sprintf("%d,%d,%s,%s/%s", t0, imp.TotalCount(), bit(maxEq), bit(same), res)
	case "merge":
		m := hdrhist.New(h.LowestTrackableValue(), h.HighestTrackableValue(), int(h.SignificantFigures()))
		dropped := m.Merge(h)
		return fmt.Sprintf("%d,%s", dropped, bit(m.Equals(h)))
	case "dist":
		parts := []string{}
		for _, b := range h.Distribution() {
			if b.Count != 0 {
				parts = append(parts, fmt.Sprintf("%d-%d:%d", b.From, b.To, b.Count))
			}
		}
		return strings.Join(parts, ",")
	case "reset":
		h.Reset()
		return "ok"
	}
	return "bad-op"
}

func c19case(s *Sexp) string {
	switch s.Head() {
	case "hist":
		nw := s.List[1].Args()
		h := hdrhist.New(nw[0].Int64(), nw[1].Int64(), nw[2].Int())
		outs := []string{fmt.Sprintf("len=%d", (h.ByteSize()-6*8-5*4)/8)}
		for _, op := range s.List[2:] {
			outs = append(outs, c19op(h, op))
		}
		return strings.Join(outs, ";")
	}
	return "bad-op"
}

func init() { handlers["C19"] = c19case }
