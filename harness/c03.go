package main

// C03 — worker-group error contract.
//
//	(cce (flags cp ce ic) (excl id…) term)
//	    one cell of the decision table: the real WorkerGroupConf.CanContinueOnError on a real
//	    error value built from `term` (C12's term language; ids 1002…1006 are the sentinels the
//	    method tests for). Observation: the returned bool and how often / with which value the
//	    ErrorHandler was called.

// C03, constructs (T-out):
//
//	(run (c pp|pfe|wrk|map|gen|seq) (n W) (flags cp ce ic) (excl 0|1) (custom 0|1) (items K) (gate 0|1)
//	     (faults (pos kind gating)…))
//
// runs the real construct over the items 0…K-1 (for `gen`: the generator's calls 0…K-1, then
// io.EOF for every later call) with a user function that fails at the given items. The user
// function logs, with a logical clock (no wall clock), every start (item, tick, goroutine) and
// the moment a failing call is about to return. With (gate 1) a start that would be logged after
// a `gating` failure has returned first waits until the context handed to the user function is
// cancelled — so "started after the first failure returned" is measured against a group whose
// abort has become visible, not against a race; if the context is still live after
// VERIF_C03_GATE_MS (a hang detector, default 3000) the run records nocancel=1 and goes on.
//
// Observation (one S-expression):
//
//	(obs (res nil|err) (is (pos bit)…) (txt (pos bit)…) (sent panic skip eof canceled deadline abort excl)
//	     (starts (item tick gid)…) (rets (item tick)…) (nocancel 0|1) (out K'))

import (
	"bytes"
	"context"
	"errors"
	"fmt"
	"io"
	"os"
	"runtime"
	"sort"
	"strconv"
	"strings"
	"sync"
	"sync/atomic"
	"time"

	"github.com/tychoish/fun"
	"github.com/tychoish/fun/erc"
	"github.com/tychoish/fun/ers"
	"github.com/tychoish/fun/itertool"
)

func newC03env() *c12env {
	env := newC12env()
	env.byID[1002] = fun.ErrIteratorSkip
	env.byID[1003] = io.EOF
	env.byID[1004] = context.Canceled
	env.byID[1005] = context.DeadlineExceeded
	env.byID[1006] = ers.ErrCurrentOpAbort
	return env
}

func c03flags(s *Sexp) (cp, ce, ic bool) {
	a := s.Args()
	return a[0].Int() == 1, a[1].Int() == 1, a[2].Int() == 1
}

func sameErr(a, b error) (same bool) {
	if ua, ok := a.(tyErr2); ok { // the uncomparable leaf kind: `==` would panic, compare what identifies it
		ub, ok := b.(tyErr2)
		return ok && ua.id == ub.id
	}
	defer func() {
		if recover() != nil {
			same = false
		}
	}()
	return a == b
}

func c03cce(s *Sexp) string {
	env := newC03env()
	cp, ce, ic := c03flags(s.List[1])
	err := env.eval(s.List[3]) // build the error first: it registers the ids named by `excl`
	var excl []error
	for _, x := range s.List[2].Args() {
		t, ok := env.byID[x.Int()]
		if !ok {
			t = fmt.Errorf("never-built-%d", x.Int())
		}
		excl = append(excl, t)
	}
	var handed []error
	conf := fun.WorkerGroupConf{
		ContinueOnPanic: cp, ContinueOnError: ce, IncludeContextExpirationErrors: ic,
		ExcludedErrors: excl,
		ErrorHandler:   func(e error) { handed = append(handed, e) },
	}
	cont := conf.CanContinueOnError(err)
	out := fmt.Sprintf("cont=%s reports=%d", bit(cont), len(handed))
	for _, h := range handed {
		if !sameErr(h, err) {
			out += " handed-other-value"
		}
	}
	return out
}

func c03case(s *Sexp) string {
	switch s.Head() {
	case "cce":
		return c03cce(s)
	case "run":
		return c03run(s)
	}
	return "bad-op"
}

func init() { handlers["C03"] = c03case }

type c03InjErr struct{ pos int }

func (e *c03InjErr) Error() string { return fmt.Sprintf("injected-%d", e.pos) }

type c03PanicVal struct{ N int }

var errC03Excluded = errors.New("c03-excluded-sentinel")

type c03fault struct {
	kind   string
	gating bool
	target error  // the identity errors.Is must find when the failure is reported (nil: none)
	marker string // text that must occur in the report for payloads without identity
}

type c03start struct{ item, tick, gid int }
type c03ret struct{ item, tick int }

type c03state struct {
	faults map[int]*c03fault
	gate   bool

	mu         sync.Mutex
	clk        int
	starts     []c03start
	rets       []c03ret
	gateClosed bool
	gids       map[uint64]int
	nocancel   atomic.Bool
}

// gates that have already timed out in this process: after a few, later cases run ungated
// (nocancel=2 "not measured") so that a tree without the abort signal does not cost seconds per case
var c03GateTimeouts atomic.Int64

func c03gateWait() time.Duration {
	if v, err := strconv.Atoi(os.Getenv("VERIF_C03_GATE_MS")); err == nil && v > 0 {
		return time.Duration(v) * time.Millisecond
	}
	return 3 * time.Second
}

func curGID() uint64 {
	var buf [64]byte
	b := buf[:runtime.Stack(buf[:], false)]
	b = bytes.TrimPrefix(b, []byte("goroutine "))
	if i := bytes.IndexByte(b, ' '); i > 0 {
		b = b[:i]
	}
	n, _ := strconv.ParseUint(string(b), 10, 64)
	return n
}

// call is the body of the user function (Processor, Transform, Producer, Worker)
func (st *c03state) call(ctx context.Context, item int) error {
	g := curGID()
	for {
		st.mu.Lock()
		if !(st.gate && st.gateClosed) {
			break
		}
		st.mu.Unlock()
		// a gating failure has returned: wait until the abort is visible in our context
		t := time.NewTimer(c03gateWait())
		select {
		case <-ctx.Done():
			t.Stop()
			st.mu.Lock()
			st.gateClosed = false
			st.mu.Unlock()
		case <-t.C:
			st.nocancel.Store(true)
			c03GateTimeouts.Add(1)
			st.mu.Lock()
			st.gateClosed = false
			st.gate = false
			st.mu.Unlock()
		}
	}
	// (holding st.mu) log the start
	gid, ok := st.gids[g]
	if !ok {
		gid = len(st.gids)
		st.gids[g] = gid
	}
	st.clk++
	st.starts = append(st.starts, c03start{item, st.clk, gid})
	st.mu.Unlock()

	f := st.faults[item]
	st.mu.Lock()
	st.clk++
	st.rets = append(st.rets, c03ret{item, st.clk})
	if f != nil && f.gating {
		st.gateClosed = true
	}
	st.mu.Unlock()
	if f == nil {
		return nil
	}
	inj := &c03InjErr{item}
	switch f.kind {
	case "err":
		f.target = inj
		return inj
	case "werr":
		f.target = inj
		return fmt.Errorf("wrapped: %w", inj)
	case "xerr":
		f.target = inj
		return errors.Join(inj, errC03Excluded)
	case "perr":
		f.target = inj
		panic(inj)
	case "pstr":
		f.marker = fmt.Sprintf("panic-string-%d", item)
		panic(f.marker)
	case "pval":
		f.marker = fmt.Sprintf("[main.c03PanicVal]: {%d}", item)
		panic(c03PanicVal{item})
	case "pslice":
		f.target = inj
		panic([]error{inj})
	case "pempty":
		panic([]error{})
	case "peof":
		panic(io.EOF)
	case "skip":
		return fun.ErrIteratorSkip
	case "eof":
		return io.EOF
	case "abort":
		return ers.ErrCurrentOpAbort
	case "ctx":
		return context.Canceled
	case "dl":
		return fmt.Errorf("deadline: %w", context.DeadlineExceeded)
	}
	panic("bad-fault-kind " + f.kind)
}

func c03arg(s *Sexp, name string) *Sexp {
	for _, x := range s.List[1:] {
		if x.Head() == name {
			return x
		}
	}
	panic("missing " + name)
}

func c03run(s *Sexp) string {
	construct := c03arg(s, "c").List[1].Atom
	n := c03arg(s, "n").List[1].Int()
	cp, ce, ic := c03flags(c03arg(s, "flags"))
	excl := c03arg(s, "excl").List[1].Int() == 1
	custom := c03arg(s, "custom").List[1].Int() == 1
	k := c03arg(s, "items").List[1].Int()
	st := &c03state{faults: map[int]*c03fault{}, gids: map[uint64]int{}}
	st.gate = c03arg(s, "gate").List[1].Int() == 1
	ungated := false
	if st.gate && c03GateTimeouts.Load() >= 3 {
		st.gate, ungated = false, true
	}
	for _, f := range c03arg(s, "faults").Args() {
		st.faults[f.List[0].Int()] = &c03fault{kind: f.List[1].Atom, gating: f.List[2].Int() == 1}
	}

	var optp []fun.OptionProvider[*fun.WorkerGroupConf]
	optp = append(optp, fun.WorkerGroupConfNumWorkers(n))
	if cp {
		optp = append(optp, fun.WorkerGroupConfContinueOnPanic())
	}
	if ce {
		optp = append(optp, fun.WorkerGroupConfContinueOnError())
	}
	if ic {
		optp = append(optp, fun.WorkerGroupConfIncludeContextErrors())
	}
	if excl {
		// the exclusion list is built in two steps (two providers), in either order: every entry
		// added by an earlier step must still be excluded afterwards
		other := errors.New("c03-other-excluded")
		if len(optp)%2 == 0 {
			optp = append(optp, fun.WorkerGroupConfAddExcludeErrors(errC03Excluded), fun.WorkerGroupConfAddExcludeErrors(other))
		} else {
			optp = append(optp, fun.WorkerGroupConfAddExcludeErrors(other), fun.WorkerGroupConfAddExcludeErrors(errC03Excluded))
		}
	}
	var coll *erc.Collector
	if custom {
		coll = &erc.Collector{}
		optp = append(optp, fun.WorkerGroupConfWithErrorCollector(coll))
	}

	ctx, cancel := context.WithCancel(context.Background())
	defer cancel()

	next := 0
	var srcmu sync.Mutex
	source := func() *fun.Iterator[int] {
		return fun.Producer[int](func(context.Context) (int, error) {
			srcmu.Lock()
			defer srcmu.Unlock()
			if next >= k {
				return 0, io.EOF
			}
			next++
			return next - 1, nil
		}).Iterator()
	}

	var res error
	outCount := 0
	switch construct {
	case "pp":
		res = source().ProcessParallel(st.call, optp...).Run(ctx)
	case "pfe":
		res = itertool.ParallelForEach(ctx, source(), st.call, optp...)
	case "wrk":
		ops := fun.Transform[int, fun.Worker](func(_ context.Context, item int) (fun.Worker, error) {
			return func(ctx context.Context) error { return st.call(ctx, item) }, nil
		}).Process(source())
		res = itertool.Worker(ctx, ops, optp...)
	case "map":
		out := fun.Map(source(), func(ctx context.Context, item int) (int, error) {
			return item, st.call(ctx, item)
		}, optp...)
		for {
			_, err := out.ReadOne(ctx)
			if err != nil {
				break
			}
			outCount++
		}
		res = out.Close()
	case "gen":
		out := fun.Producer[int](func(ctx context.Context) (int, error) {
			srcmu.Lock()
			if next >= k {
				srcmu.Unlock()
				return 0, io.EOF
			}
			next++
			item := next - 1
			srcmu.Unlock()
			return item, st.call(ctx, item)
		}).GenerateParallel(optp...)
		for {
			_, err := out.ReadOne(ctx)
			if err != nil {
				break
			}
			outCount++
		}
		res = out.Close()
	case "seq":
		res = source().Process(st.call).Run(ctx)
	default:
		return "bad-op construct"
	}
	if coll != nil {
		res = ers.Join(res, coll.Resolve())
	}

	// ---- observation ----
	var sb strings.Builder
	sb.WriteString("(obs (res ")
	if res == nil {
		sb.WriteString("nil)")
	} else {
		sb.WriteString("err)")
	}
	pos := make([]int, 0, len(st.faults))
	for p := range st.faults {
		pos = append(pos, p)
	}
	sort.Ints(pos)
	sb.WriteString(" (is")
	for _, p := range pos {
		f := st.faults[p]
		fmt.Fprintf(&sb, " (%d %s)", p, bit(f.target != nil && errors.Is(res, f.target)))
	}
	sb.WriteString(") (txt")
	for _, p := range pos {
		f := st.faults[p]
		fmt.Fprintf(&sb, " (%d %s)", p, bit(f.marker != "" && res != nil && strings.Contains(res.Error(), f.marker)))
	}
	sb.WriteString(") (sent")
	for _, t := range []error{fun.ErrRecoveredPanic, fun.ErrIteratorSkip, io.EOF, context.Canceled,
		context.DeadlineExceeded, ers.ErrCurrentOpAbort, errC03Excluded} {
		sb.WriteString(" " + bit(res != nil && errors.Is(res, t)))
	}
	st.mu.Lock()
	sb.WriteString(") (starts")
	for _, x := range st.starts {
		fmt.Fprintf(&sb, " (%d %d %d)", x.item, x.tick, x.gid)
	}
	sb.WriteString(") (rets")
	for _, x := range st.rets {
		fmt.Fprintf(&sb, " (%d %d)", x.item, x.tick)
	}
	st.mu.Unlock()
	nc := "0"
	if st.nocancel.Load() {
		nc = "1"
	} else if ungated {
		nc = "2"
	}
	fmt.Fprintf(&sb, ") (nocancel %s) (out %d))", nc, outCount)
	return sb.String()
}
