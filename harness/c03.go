package main

// C03 — worker-group error contract.
//
//	(cce (flags cp ce ic) (excl id…) term)
//	    one cell of the decision table: the real WorkerGroupConf.CanContinueOnError on a real
//	    error value built from `term` (C12's term language; ids 1002…1006 are the sentinels the
//	    method tests for). Observation: the returned bool and how often / with which value the
//	    ErrorHandler was called.

import (
	"context"
	"fmt"
	"io"

	"github.com/tychoish/fun"
	"github.com/tychoish/fun/ers"
)

func newC03env() *c12env {
	env := newC12env()
	env.byID[1002] = fun.ErrIteratorSkip
	env.byID[1003] = io.EOF
	env.byID[1004] = context.Canceled
	env.byID[1005] = context.DeadlineExceeded
	env.byID[1006] = ers.ErrCurrentOpAbort
	return env
}

func c03flags(s *Sexp) (cp, ce, ic bool) {
	a := s.Args()
	return a[0].Int() == 1, a[1].Int() == 1, a[2].Int() == 1
}

func sameErr(a, b error) (same bool) {
	defer func() {
		if recover() != nil {
			same = false
		}
	}()
	return a == b
}

func c03cce(s *Sexp) string {
	env := newC03env()
	cp, ce, ic := c03flags(s.List[1])
	err := env.eval(s.List[3]) // build the error first: it registers the ids named by `excl`
	var excl []error
	for _, x := range s.List[2].Args() {
		t, ok := env.byID[x.Int()]
		if !ok {
			t = fmt.Errorf("never-built-%d", x.Int())
		}
		excl = append(excl, t)
	}
	var handed []error
	conf := fun.WorkerGroupConf{
		ContinueOnPanic: cp, ContinueOnError: ce, IncludeContextExpirationErrors: ic,
		ExcludedErrors: excl,
		ErrorHandler:   func(e error) { handed = append(handed, e) },
	}
	cont := conf.CanContinueOnError(err)
	out := fmt.Sprintf("cont=%s reports=%d", bit(cont), len(handed))
	for _, h := range handed {
		if !sameErr(h, err) {
			out += " handed-other-value"
		}
	}
	return out
}

func c03case(s *Sexp) string {
	switch s.Head() {
	case "cce":
		return c03cce(s)
	}
	return "bad-op"
}

func init() { handlers["C03"] = c03case }
