// Command c13drv: concurrent API drivers for property C13, to be built with -race.
//
// For one subject (a concurrency-safe type in one configuration) it runs every unordered pair
// {A, B} of its public methods: two goroutines call A in a loop, two call B, on one shared fresh
// instance; whatever the calls hand out (iterators, producers, distributors, error values,
// wrapped functions) is used on the spot, so it runs while the container is being mutated. The
// method closures live in gen_subjects.go, which checks/c13.py generates from the extractor's
// method list (a new public method is driven automatically; a parameter type without a recipe
// makes the generation fail loudly). The race detector's reports on stderr are the output; a
// "PAIR <subject> <A> <B>" marker precedes each pair so that a report can be attributed.
package main

import (
	"context"
	"errors"
	"flag"
	"fmt"
	"io"
	"os"
	"sort"
	"strings"
	"sync"
	"time"

	"github.com/tychoish/fun"
	"github.com/tychoish/fun/dt"
	"github.com/tychoish/fun/pubsub"
)

type callCtx struct {
	subj  any
	other any // a second instance (argument of Equal/Extend), itself mutated by a mirror goroutine
	third any
	mu    *sync.Mutex
	sub   chan int
	ctx   context.Context
	i     int
	subs  *sync.Map // subscriptions handed out during the pair (unsubscribed at the end)
	extra map[string]any
}

type method func(c *callCtx)

type subject struct {
	name    string
	domain  string
	make    func(ctx context.Context) *callCtx
	methods map[string]method
	// mirror: also run B on the `other` instance (types whose methods take a second instance)
	mirror bool
}

var subjects = map[string]*subject{}

func register(s *subject) { subjects[s.name] = s }

type noFollowUp struct{ what string }

func (c *callCtx) err() error { return fmt.Errorf("e%d: %w", c.i%3, io.ErrUnexpectedEOF) }
func (c *callCtx) op() fun.Operation {
	return func(context.Context) {}
}
func (c *callCtx) ip() *int { v := c.i; return &v }

// use: exercise whatever a call handed out
func (c *callCtx) use(vs ...any) {
	for _, v := range vs {
		switch x := v.(type) {
		case nil, int, bool, string, []byte, pubsub.BrokerStats, *int:
		case error:
			_ = x.Error()
			_ = errors.Is(x, io.EOF)
			_ = errors.Unwrap(x)
			var target *os.PathError
			_ = errors.As(x, &target)
		case fun.Producer[int]:
			for k := 0; k < 3; k++ {
				if _, err := x(c.ctx); err != nil {
					break
				}
			}
		case *fun.Iterator[int]:
			useIter(c, x)
		case *fun.Iterator[error]:
			useIter(c, x)
		case *fun.Iterator[dt.Pair[int, int]]:
			useIter(c, x)
		case pubsub.Distributor[int]:
			_ = x.Len()
			_ = x.Send(c.ctx, c.i)
			_ = x.Len()
			_, _ = x.Receive(c.ctx)
			_ = x.Len()
		case fun.Worker:
			_ = x(c.ctx)
		case fun.Operation:
			x(c.ctx)
		case fun.Processor[int]:
			_ = x(c.ctx, c.i)
		case fun.Future[error]:
			c.use(x())
		case fun.Future[int]:
			_ = x()
		case fun.Handler[error]:
			x(c.err())
		case func() int:
			_ = x()
		case func():
			x()
		case chan int:
			if x != nil {
				c.subs.Store(x, true)
			}
		default:
			panic(noFollowUp{fmt.Sprintf("%T", v)})
		}
	}
}

func useIter[T any](c *callCtx, it *fun.Iterator[T]) {
	if c.i%2 == 1 {
		// the consumer-in-one-goroutine, shutdown-in-another shape: Close overlaps the iterator's
		// first read (the deadline only ends a read that blocks for want of items)
		done := make(chan struct{})
		rctx, cancel := context.WithTimeout(c.ctx, 5*time.Millisecond)
		go func() { defer close(done); _, _ = it.ReadOne(rctx) }()
		_ = it.Close()
		<-done
		cancel()
		return
	}
	for k := 0; k < 3; k++ {
		if _, err := it.ReadOne(c.ctx); err != nil {
			break
		}
	}
	_ = it.Close()
}

func safely(m method, c *callCtx) {
	defer func() {
		if r := recover(); r != nil {
			if nf, ok := r.(noFollowUp); ok {
				fmt.Fprintln(os.Stderr, "DRIVER-ERROR no follow-up for a value of type", nf.what)
				os.Exit(3)
			}
			// invariant violations (negative WaitGroup counter, configuration after
			// FinalizeSetup, Order on a populated set, ...) are part of the API's behaviour
		}
	}()
	m(c)
}

func runPair(s *subject, a, b string, iters int, callTimeout, pairTimeout time.Duration) {
	fmt.Fprintf(os.Stderr, "PAIR %s %s %s\n", s.name, a, b)
	os.Stderr.Sync()
	pctx, pcancel := context.WithTimeout(context.Background(), pairTimeout)
	defer pcancel()
	base := s.make(pctx)
	base.subs = &sync.Map{}
	var wg sync.WaitGroup
	start := make(chan struct{})
	spawn := func(name string, id int, onOther bool) {
		m := s.methods[name]
		wg.Add(1)
		go func() {
			defer wg.Done()
			<-start
			for k := 0; k < iters && pctx.Err() == nil; k++ {
				cc := *base
				if onOther {
					cc.subj, cc.other = base.other, base.third
				}
				cc.i = id*1000 + k
				ctx, cancel := context.WithTimeout(pctx, callTimeout)
				cc.ctx = ctx
				safely(m, &cc)
				cancel()
			}
		}()
	}
	spawn(a, 1, false)
	spawn(a, 2, false)
	spawn(b, 3, false)
	spawn(b, 4, false)
	if s.mirror && base.other != nil {
		spawn(b, 5, true)
	}
	close(start)
	done := make(chan struct{})
	go func() { wg.Wait(); close(done) }()
	select {
	case <-done:
	case <-time.After(pairTimeout + 120*time.Second): // only to detect a hang; generous because the box may be heavily loaded
		fmt.Fprintf(os.Stderr, "DRIVER-HANG %s %s %s\n", s.name, a, b)
		os.Exit(4)
	}
	if f, ok := base.extra["cleanup"].(func()); ok {
		f()
	}
}

func main() {
	subj := flag.String("subject", "", "subject to drive (see -list)")
	pair := flag.String("pair", "", "only this pair: A,B")
	iters := flag.Int("iters", 30, "calls per goroutine and pair")
	rounds := flag.Int("rounds", 1, "repeat every pair this many times")
	list := flag.Bool("list", false, "list subjects and their methods")
	callMs := flag.Int("call-ms", 2, "context timeout of one call (blocking operations)")
	pairMs := flag.Int("pair-ms", 400, "deadline of one pair")
	from := flag.Int("from", 0, "skip the first N pairs (resume after a pair that killed the process)")
	flag.Parse()
	if *list {
		var names []string
		for n := range subjects {
			names = append(names, n)
		}
		sort.Strings(names)
		for _, n := range names {
			var ms []string
			for m := range subjects[n].methods {
				ms = append(ms, m)
			}
			sort.Strings(ms)
			fmt.Printf("%s\t%s\t%s\n", n, subjects[n].domain, strings.Join(ms, ","))
		}
		return
	}
	s := subjects[*subj]
	if s == nil {
		fmt.Fprintln(os.Stderr, "unknown subject", *subj)
		os.Exit(2)
	}
	var ms []string
	for m := range s.methods {
		ms = append(ms, m)
	}
	sort.Strings(ms)
	npairs := 0
	for r := 0; r < *rounds; r++ {
		for i, a := range ms {
			for _, b := range ms[i:] {
				if *pair != "" && *pair != a+","+b && *pair != b+","+a {
					continue
				}
				npairs++
				if npairs <= *from {
					continue
				}
				runPair(s, a, b, *iters, time.Duration(*callMs)*time.Millisecond, time.Duration(*pairMs)*time.Millisecond)
			}
		}
	}
	fmt.Fprintf(os.Stderr, "DONE %s pairs=%d methods=%d\n", s.name, npairs, len(ms))
}
